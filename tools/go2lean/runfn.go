package main

// Dedicated translation of CPU.Run: the goroutine/context prologue is matched STRUCTURALLY and emitted as a
// protocol description (ordered shared-memory actions of the watcher goroutine and of the loop's cancel check);
// the statements before the loop and the loop body are translated like any other code, the body into
// `Run_body (canceled : Bool) : M LoopCtl` where `canceled` is the value the atomic load observed.

import (
	"fmt"
	"go/ast"
	"go/token"
	"strings"
)

func isCall(e ast.Expr, pkg, name string) (*ast.CallExpr, bool) {
	ce, ok := e.(*ast.CallExpr)
	if !ok {
		return nil, false
	}
	se, ok := ce.Fun.(*ast.SelectorExpr)
	if !ok || se.Sel.Name != name {
		return nil, false
	}
	if id, ok := se.X.(*ast.Ident); ok && id.Name == pkg {
		return ce, true
	}
	return nil, false
}

func (t *tr) translateRun(fd *ast.FuncDecl) string {
	fail := func(n ast.Node, msg string) { t.failf(n.Pos(), "Run: unexpected shape: %s", msg) }
	body := fd.Body.List
	var loop *ast.ForStmt
	var pre, post []ast.Stmt
	for i, s := range body {
		if f, ok := s.(*ast.ForStmt); ok {
			loop = f
			pre, post = body[:i], body[i+1:]
			break
		}
	}
	if loop == nil || loop.Init != nil || loop.Cond != nil || loop.Post != nil {
		fail(fd, "expected one bare `for { }` loop")
	}
	// --- prologue ---------------------------------------------------------------
	var watcher []string
	deferCancel := false
	var initStmts []ast.Stmt
	flagVar, errVar, ctx2Var, cancelVar := "", "", "", ""
	for _, s := range pre {
		switch x := s.(type) {
		case *ast.DeclStmt:
			gd := x.Decl.(*ast.GenDecl)
			for _, sp := range gd.Specs {
				vs := sp.(*ast.ValueSpec)
				if len(vs.Names) != 1 || len(vs.Values) != 0 {
					fail(x, "var declaration")
				}
				switch t.nodeText(vs.Type) {
				case "error":
					errVar = vs.Names[0].Name
				case "int32":
					flagVar = vs.Names[0].Name
				default:
					fail(x, "unexpected local variable type "+t.nodeText(vs.Type))
				}
			}
		case *ast.AssignStmt:
			if len(x.Rhs) == 1 {
				if ce, ok := isCall(x.Rhs[0], "context", "WithCancel"); ok && len(x.Lhs) == 2 && x.Tok == token.DEFINE {
					_ = ce
					ctx2Var, cancelVar = x.Lhs[0].(*ast.Ident).Name, x.Lhs[1].(*ast.Ident).Name
					continue
				}
			}
			initStmts = append(initStmts, s)
		case *ast.DeferStmt:
			if id, ok := x.Call.Fun.(*ast.Ident); ok && id.Name == cancelVar && len(x.Call.Args) == 0 {
				deferCancel = true
				continue
			}
			fail(x, "defer")
		case *ast.GoStmt:
			fl, ok := x.Call.Fun.(*ast.FuncLit)
			if !ok || len(x.Call.Args) != 0 {
				fail(x, "go statement")
			}
			for _, ws := range fl.Body.List {
				switch w := ws.(type) {
				case *ast.ExprStmt:
					if ue, ok := w.X.(*ast.UnaryExpr); ok && ue.Op == token.ARROW {
						if ce, ok := ue.X.(*ast.CallExpr); ok {
							if se, ok := ce.Fun.(*ast.SelectorExpr); ok && se.Sel.Name == "Done" {
								if id, ok := se.X.(*ast.Ident); ok && id.Name == ctx2Var {
									watcher = append(watcher, ".waitDone")
									continue
								}
							}
						}
						fail(w, "watcher receive")
					}
					if ce, ok := isCall(w.X, "atomic", "StoreInt32"); ok {
						if ue, ok := ce.Args[0].(*ast.UnaryExpr); ok && ue.Op == token.AND {
							if id, ok := ue.X.(*ast.Ident); ok && id.Name == flagVar && t.nodeText(ce.Args[1]) == "1" {
								watcher = append(watcher, ".storeFlag")
								continue
							}
						}
					}
					fail(w, "watcher statement")
				case *ast.AssignStmt:
					if len(w.Lhs) == 1 && len(w.Rhs) == 1 {
						if id, ok := w.Lhs[0].(*ast.Ident); ok && id.Name == errVar && strings.HasSuffix(t.nodeText(w.Rhs[0]), ".Err()") {
							watcher = append(watcher, ".writeErr")
							continue
						}
					}
					fail(w, "watcher assignment")
				default:
					fail(ws, "watcher statement kind")
				}
			}
		default:
			initStmts = append(initStmts, s)
		}
	}
	// --- loop body ---------------------------------------------------------------
	fi := &funcInfo{name: "Run_body", goName: "Run", decl: fd, file: "cpu", kind: kMon, calls: map[string]bool{}, writes: map[string]bool{}, lensPar: map[string]bool{}}
	t.runInfo = fi
	return t.emitRun(fd, fi, initStmts, loop, post, watcher, deferCancel, flagVar, errVar)
}

func (t *tr) emitRun(fd *ast.FuncDecl, fi *funcInfo, initStmts []ast.Stmt, loop *ast.ForStmt, post []ast.Stmt,
	watcher []string, deferCancel bool, flagVar, errVar string) string {
	var b strings.Builder
	fmt.Fprintf(&b, "-- cpu.go:%d Run (dedicated translation, see tools/go2lean/runfn.go)\n", t.fset.Position(fd.Pos()).Line)
	fmt.Fprintf(&b, "/-- shared-memory actions of the watcher goroutine, in program order -/\ndef Run_watcher : List Act := [%s]\n", strings.Join(watcher, ", "))
	fmt.Fprintf(&b, "/-- is the derived context cancelled by a `defer` on every return path? -/\ndef Run_deferCancel : Bool := %v\n", deferCancel)
	// init
	ci := newRunCtx(t, fi, flagVar, errVar)
	ci.block(initStmts)
	fmt.Fprintf(&b, "/-- the statements of Run before the loop (other than the cancellation prologue) -/\n@[z80gen] def Run_init : M Unit := do\n%s\n", strings.Join(ci.lines, "\n"))
	// body
	cb := newRunCtx(t, fi, flagVar, errVar)
	cb.loopMode = true
	cb.loopBlock(loop.Body.List, func() { cb.emit("pure .cont") })
	fmt.Fprintf(&b, "/-- one pass through the loop body; `canceled` is what the atomic load of the flag observed -/\n@[z80gen] def Run_body (canceled : Bool) : M LoopCtl := do\n%s\n", strings.Join(cb.lines, "\n"))
	fmt.Fprintf(&b, "/-- actions of the loop's cancellation check, in program order -/\ndef Run_check : List Act := [%s]\n", strings.Join(cb.checkActs, ", "))
	// after the loop
	if len(post) != 1 {
		t.failf(fd.Pos(), "Run: expected a single return after the loop")
	}
	rs, ok := post[0].(*ast.ReturnStmt)
	if !ok || len(rs.Results) != 1 {
		t.failf(fd.Pos(), "Run: expected `return <err>` after the loop")
	}
	fmt.Fprintf(&b, "/-- the value returned when the loop is left by `break` -/\ndef Run_after : RunErr := %s\n", cb.runErr(rs.Results[0]))
	for cal := range fi.calls {
		_ = cal
	}
	return b.String()
}

func newRunCtx(t *tr, fi *funcInfo, flagVar, errVar string) *fctx {
	c := &fctx{t: t, fi: fi, indent: 1}
	c.muts = nil
	c.runFlag, c.runErrVar = flagVar, errVar
	return c
}

// runErr translates the error expressions Run may return
func (c *fctx) runErr(e ast.Expr) string {
	switch x := e.(type) {
	case *ast.Ident:
		switch x.Name {
		case "nil":
			return ".nil"
		case c.runErrVar:
			return ".ctxErr"
		case "ErrBreakPoint":
			return ".errBreakPoint"
		}
	}
	c.t.failf(e.Pos(), "Run: unsupported return value")
	return ""
}
