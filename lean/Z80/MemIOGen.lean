/-
  Z80.MemIOGen — the heap-and-handles model of Z80.Spec.MemIO with every store operation delegated to the method
  TRANSLATED from memio.go (Z80/Gen/MemIO.lean, regenerated on every run).  Only the bookkeeping of which variable
  holds which object is taken from the hand-written model; what Get/Set/Put/In/Out/Clone/Clear/Equal do to an object,
  and whether they panic, is computed by the translated code.  Run by DriverMemIOGen against the real types
  (correspondence stream `memiogen`): this validates the translator and the prelude Z80/GoStore.lean.
-/
import Z80.Spec.MemIO
import Z80.Gen.MemIO

namespace Z80.MemIOGen
open Z80 Z80.Spec.MemIO Z80.GoStore

/-- the Go value a map handle denotes -/
def mapVal (w : World) : Option Nat → Option GoMap
  | none => some none                                   -- nil MapMemory
  | some i => (w.map? i).map some
/-- write a map object back through its handle (methods have value receivers: a nil receiver stays nil for the caller) -/
def mapStore (w : World) (h : Option Nat) (m : GoMap) : World :=
  match h, m with
  | some i, some l => w.store i (.map l)
  | _, _ => w

def stepGen (w : World) : Op → World × Out
  | .get r a =>
    match w.var r with
    | some (.dm i) =>
      (match w.slice? i with
       | some l => (match Gen.MemIO.DumbMemory_Get l a with | some (l', v) => (w.store i (.slice l'), .byte v) | none => (w, .panic))
       | none => (w, .bad))
    | some (.mm h) =>
      (match mapVal w h with
       | some m => (match Gen.MemIO.MapMemory_Get m a with | some (m', v) => (mapStore w h m', .byte v) | none => (w, .panic))
       | none => (w, .bad))
    | _ => (w, .bad)
  | .set r a v =>
    match w.var r with
    | some (.dm i) =>
      (match w.slice? i with
       | some l => (match Gen.MemIO.DumbMemory_Set l a v with | some l' => (w.store i (.slice l'), .ok) | none => (w, .panic))
       | none => (w, .bad))
    | some (.mm h) =>
      (match mapVal w h with
       | some m => (match Gen.MemIO.MapMemory_Set m a v with | some m' => (mapStore w h m', .ok) | none => (w, .panic))
       | none => (w, .bad))
    | _ => (w, .bad)
  | .put r a data =>
    match w.var r with
    | some (.dm i) =>
      (match w.slice? i with
       | some l => (match Gen.MemIO.DumbMemory_Put l a data with | some l' => (w.store i (.slice l'), .ok) | none => (w, .panic))
       | none => (w, .bad))
    | some (.mm h) =>
      (match mapVal w h with
       | some m => (match Gen.MemIO.MapMemory_Put m a data with | some m' => (mapStore w h m', .ok) | none => (w, .panic))
       | none => (w, .bad))
    | _ => (w, .bad)
  | .putself r dst src n =>
    match w.var r with
    | some (.dm i) =>
      (match w.slice? i with
       | some l =>
         if src + n ≤ l.length then
           (match Gen.MemIO.DumbMemory_Put l dst ((l.drop src).take n) with | some l' => (w.store i (.slice l'), .ok) | none => (w, .panic))
         else (w, .bad)
       | none => (w, .bad))
    | _ => (w, .bad)
  | .inp r p =>
    match w.var r with
    | some (.dio i) =>
      (match w.slice? i with
       | some l => (match Gen.MemIO.DumbIO_In l p with | some (l', v) => (w.store i (.slice l'), .byte v) | none => (w, .panic))
       | none => (w, .bad))
    | _ => (w, .bad)
  | .out r p v =>
    match w.var r with
    | some (.dio i) =>
      (match w.slice? i with
       | some l => (match Gen.MemIO.DumbIO_Out l p v with | some l' => (w.store i (.slice l'), .ok) | none => (w, .panic))
       | none => (w, .bad))
    | _ => (w, .bad)
  | .clone r src =>
    match w.var src with
    | some (.mm h) =>
      (match mapVal w h with
       | some m =>
         (match Gen.MemIO.MapMemory_Clone m with
          | some (m', some cl) => let (w, j) := (mapStore w h m').alloc (.map cl); (w.bind r (.mm (some j)), .ok)
          | some (m', none) => ((mapStore w h m').bind r (.mm none), .ok)
          | none => (w, .panic))
       | none => (w, .bad))
    | _ => (w, .bad)
  | .clear r =>
    match w.var r with
    | some (.mm h) =>
      (match mapVal w h with
       | some m => (match Gen.MemIO.MapMemory_Clear m with | some m' => (mapStore w h m', .ok) | none => (w, .panic))
       | none => (w, .bad))
    | _ => (w, .bad)
  | .equal r a =>
    match w.var r, w.var a with
    | some (.mm h), some ha =>
      let arg : Option Dyn := match ha with
        | .mm h' => (mapVal w h').map some               -- the argument holds a MapMemory
        | _ => some none                                  -- it holds something else
      (match mapVal w h, arg with
       | some m, some d => (match Gen.MemIO.MapMemory_Equal m d with | some (m', b) => (mapStore w h m', .bool b) | none => (w, .panic))
       | _, _ => (w, .bad))
    | _, _ => (w, .bad)
  | op => step w op                                      -- allocation, aliasing and dump are bookkeeping only

end Z80.MemIOGen
