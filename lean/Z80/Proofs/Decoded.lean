/-
  Z80.Proofs.Decoded — one reference step, spelled out: the instruction found at PC (`decodedAt`), the state after
  its opcode / prefix / displacement fetches (`afterFetches`), and
      Spec.executeOne s = execOpt bytes (decodedAt s) (afterFetches s).
-/
import Z80.Proofs.StepOf
import Z80.Proofs.TablesBase

namespace Z80
open Z80.Gen Z80.Spec
set_option maxRecDepth 8192

/-- the four bytes at PC -/
def b0 (s : St) : U8 := s.mem s.PC
def b1 (s : St) : U8 := s.mem (s.PC + 1#16)
def b2 (s : St) : U8 := s.mem (s.PC + 2#16)
def b3 (s : St) : U8 := s.mem (s.PC + 3#16)

/-- the instruction encoded at PC (none = an encoding outside the implemented set: consumed with a warning) -/
def decodedAt (s : St) : Option Instr :=
  if b0 s = 0xcb#8 then some (decodeCB (b1 s).toNat)
  else if b0 s = 0xed#8 then decodeED (b1 s).toNat
  else if b0 s = 0xdd#8 then (if b1 s = 0xcb#8 then decodeXYCB .IX (b2 s) (b3 s).toNat else decodeXY .IX (b1 s).toNat)
  else if b0 s = 0xfd#8 then (if b1 s = 0xcb#8 then decodeXYCB .IY (b2 s) (b3 s).toNat else decodeXY .IY (b1 s).toNat)
  else decodeBase none (b0 s).toNat

/-- the bytes quoted in the warning of an unimplemented encoding -/
def encodingBytes (s : St) : List U8 :=
  if b0 s = 0xcb#8 ∨ b0 s = 0xed#8 then [b0 s, b1 s]
  else if b0 s = 0xdd#8 ∨ b0 s = 0xfd#8 then (if b1 s = 0xcb#8 then [b0 s, b1 s, b2 s, b3 s] else [b0 s, b1 s])
  else [b0 s]

/-- the state after the opcode / prefix / displacement fetches of the instruction at PC -/
def afterFetches (s : St) : St :=
  if b0 s = 0xcb#8 ∨ b0 s = 0xed#8 then afterM1 (afterM1 s)
  else if b0 s = 0xdd#8 ∨ b0 s = 0xfd#8 then
    (if b1 s = 0xcb#8 then afterM1 (afterFetch (afterM1 (afterM1 s))) else afterM1 (afterM1 s))
  else afterM1 s

private theorem fM1 (s : St) : Spec.fetchM1 s = .ok (s.mem s.PC) (afterM1 s) := by
  simp [Spec.fetchM1, Spec.fetch, rd8, afterM1]
private theorem fOp (s : St) : Spec.fetch s = .ok (s.mem s.PC) (afterFetch s) := by
  simp [Spec.fetch, rd8, afterFetch]

/-- THE decoded form of one reference step -/
theorem executeOne_decoded (s : St) :
    Spec.executeOne Impl.koron s = execOpt Impl.koron (encodingBytes s) (decodedAt s) (afterFetches s) := by
  have e1 : (afterM1 s).mem (afterM1 s).PC = b1 s := by simp [afterM1, b1]
  have e2 : (afterM1 (afterM1 s)).mem (afterM1 (afterM1 s)).PC = b2 s := by simp [afterM1, b2, z80helper]
  have e3 : (afterFetch (afterM1 (afterM1 s))).mem (afterFetch (afterM1 (afterM1 s))).PC = b3 s := by
    simp [afterM1, afterFetch, b3, z80helper]
  unfold Spec.executeOne execMain
  simp only [bind_run, fM1, Res.bind_ok]
  have hb0 : s.mem s.PC = b0 s := rfl
  rw [hb0]
  simp only [ite_run]
  by_cases hcb : b0 s = 0xcb#8
  · simp only [hcb, if_true, bind_run, fM1, Res.bind_ok, e1, decodedAt, encodingBytes, afterFetches, true_or, execOpt]
  by_cases hed : b0 s = 0xed#8
  · simp only [hcb, hed, if_false, if_true, bind_run, fM1, Res.bind_ok, e1, decodedAt, encodingBytes, afterFetches, or_true,
      show (0xed#8 : U8) = 0xcb#8 ↔ False by decide]
  by_cases hdd : b0 s = 0xdd#8
  · simp only [hcb, hed, hdd, if_false, if_true, execXY, execXYtail, bind_run, fM1, Res.bind_ok, e1, decodedAt, encodingBytes, afterFetches,
      show (0xdd#8 : U8) = 0xcb#8 ↔ False by decide, show (0xdd#8 : U8) = 0xed#8 ↔ False by decide, false_or, true_or]
    by_cases h1 : b1 s = 0xcb#8
    · simp only [h1, if_true, execXYCB, bind_run, fOp, fM1, Res.bind_ok, show Impl.koron.ddcbM1 = 3 from rfl, if_true, e2, e3]
    · simp only [h1, if_false]
  by_cases hfd : b0 s = 0xfd#8
  · simp only [hcb, hed, hdd, hfd, if_false, if_true, execXY, execXYtail, bind_run, fM1, Res.bind_ok, e1, decodedAt, encodingBytes, afterFetches,
      show (0xfd#8 : U8) = 0xcb#8 ↔ False by decide, show (0xfd#8 : U8) = 0xed#8 ↔ False by decide,
      show (0xfd#8 : U8) = 0xdd#8 ↔ False by decide, false_or, or_true]
    by_cases h1 : b1 s = 0xcb#8
    · simp only [h1, if_true, execXYCB, bind_run, fOp, fM1, Res.bind_ok, show Impl.koron.ddcbM1 = 3 from rfl, if_true, e2, e3]
    · simp only [h1, if_false]
  · simp only [hcb, hed, hdd, hfd, if_false, decodedAt, encodingBytes, afterFetches, or_self]

end Z80
