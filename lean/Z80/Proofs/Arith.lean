/-
  Z80.Proofs.Arith — the symbolic (no enumeration) part of Layer 0: the carry-vector trick used by
  the Go code (`c := r ^ a ^ b`; H, V, C read off `c` and `r`) computes exactly the arithmetic
  flag definitions of Z80.Spec.Alu, for ALL operand values.  Core Lean only: ripple-carry
  characterisation of addition (`BitVec.getLsbD_add_add_bool`, `BitVec.carry`) plus `omega`.
-/
import Z80.Proofs.Bits

namespace Z80
open Z80.Spec
set_option maxRecDepth 8192

/-- the Go flag computation of `updateFlagArith8`, transcribed (proved equal to the generated
    function in Helpers) -/
def arithOr (r a b : U16) (sub : Bool) : U8 :=
  ((r.setWidth 8) &&& 0xa8#8) ||| (if (r.setWidth 8 : U8) = 0#8 then 0x40#8 else 0#8) |||
  (((r ^^^ a ^^^ b).setWidth 8) &&& 0x10#8) |||
  (((((r ^^^ a ^^^ b) >>> 6) ^^^ ((r ^^^ a ^^^ b) >>> 5)).setWidth 8) &&& 0x04#8) |||
  (if sub then 0x02#8 else 0#8) ||| (((r >>> 8).setWidth 8) &&& 0x01#8)

theorem flags_bit7 (s z b5 h b3 pv n c : Bool) : (flags s z b5 h b3 pv n c).getLsbD 7 = s := by
  cases s <;> cases z <;> cases b5 <;> cases h <;> cases b3 <;> cases pv <;> cases n <;> cases c <;> rfl
theorem flags_bit6 (s z b5 h b3 pv n c : Bool) : (flags s z b5 h b3 pv n c).getLsbD 6 = z := by
  cases s <;> cases z <;> cases b5 <;> cases h <;> cases b3 <;> cases pv <;> cases n <;> cases c <;> rfl
theorem flags_bit5 (s z b5 h b3 pv n c : Bool) : (flags s z b5 h b3 pv n c).getLsbD 5 = b5 := by
  cases s <;> cases z <;> cases b5 <;> cases h <;> cases b3 <;> cases pv <;> cases n <;> cases c <;> rfl
theorem flags_bit4 (s z b5 h b3 pv n c : Bool) : (flags s z b5 h b3 pv n c).getLsbD 4 = h := by
  cases s <;> cases z <;> cases b5 <;> cases h <;> cases b3 <;> cases pv <;> cases n <;> cases c <;> rfl
theorem flags_bit3 (s z b5 h b3 pv n c : Bool) : (flags s z b5 h b3 pv n c).getLsbD 3 = b3 := by
  cases s <;> cases z <;> cases b5 <;> cases h <;> cases b3 <;> cases pv <;> cases n <;> cases c <;> rfl
theorem flags_bit2 (s z b5 h b3 pv n c : Bool) : (flags s z b5 h b3 pv n c).getLsbD 2 = pv := by
  cases s <;> cases z <;> cases b5 <;> cases h <;> cases b3 <;> cases pv <;> cases n <;> cases c <;> rfl
theorem flags_bit1 (s z b5 h b3 pv n c : Bool) : (flags s z b5 h b3 pv n c).getLsbD 1 = n := by
  cases s <;> cases z <;> cases b5 <;> cases h <;> cases b3 <;> cases pv <;> cases n <;> cases c <;> rfl
theorem flags_bit0 (s z b5 h b3 pv n c : Bool) : (flags s z b5 h b3 pv n c).getLsbD 0 = c := by
  cases s <;> cases z <;> cases b5 <;> cases h <;> cases b3 <;> cases pv <;> cases n <;> cases c <;> rfl


-- the same facts for the `v[i]` spelling that `simp` prefers
@[simp] theorem flags_get7 (s z b5 h b3 pv n c : Bool) : (flags s z b5 h b3 pv n c)[7] = s := by
  rw [← BitVec.getLsbD_eq_getElem]; exact flags_bit7 ..
@[simp] theorem flags_get6 (s z b5 h b3 pv n c : Bool) : (flags s z b5 h b3 pv n c)[6] = z := by
  rw [← BitVec.getLsbD_eq_getElem]; exact flags_bit6 ..
@[simp] theorem flags_get5 (s z b5 h b3 pv n c : Bool) : (flags s z b5 h b3 pv n c)[5] = b5 := by
  rw [← BitVec.getLsbD_eq_getElem]; exact flags_bit5 ..
@[simp] theorem flags_get4 (s z b5 h b3 pv n c : Bool) : (flags s z b5 h b3 pv n c)[4] = h := by
  rw [← BitVec.getLsbD_eq_getElem]; exact flags_bit4 ..
@[simp] theorem flags_get3 (s z b5 h b3 pv n c : Bool) : (flags s z b5 h b3 pv n c)[3] = b3 := by
  rw [← BitVec.getLsbD_eq_getElem]; exact flags_bit3 ..
@[simp] theorem flags_get2 (s z b5 h b3 pv n c : Bool) : (flags s z b5 h b3 pv n c)[2] = pv := by
  rw [← BitVec.getLsbD_eq_getElem]; exact flags_bit2 ..
@[simp] theorem flags_get1 (s z b5 h b3 pv n c : Bool) : (flags s z b5 h b3 pv n c)[1] = n := by
  rw [← BitVec.getLsbD_eq_getElem]; exact flags_bit1 ..
@[simp] theorem flags_get0 (s z b5 h b3 pv n c : Bool) : (flags s z b5 h b3 pv n c)[0] = c := by
  rw [← BitVec.getLsbD_eq_getElem]; exact flags_bit0 ..

theorem xor_carry {w : Nat} (x y : BitVec w) (c : Bool) (i : Nat) (hi : i < w) :
    ((x + y + (BitVec.ofBool c).setWidth w) ^^^ x ^^^ y).getLsbD i = BitVec.carry i x y c := by
  rw [BitVec.getLsbD_xor, BitVec.getLsbD_xor, BitVec.getLsbD_add_add_bool hi]
  cases x.getLsbD i <;> cases y.getLsbD i <;> cases BitVec.carry i x y c <;> rfl

theorem carry_zext8 (a b : U8) (cin : Bool) (i : Nat) :
    BitVec.carry i (a.setWidth 16 : U16) (b.setWidth 16) cin
      = decide (a.toNat % 2^i + b.toNat % 2^i + cin.toNat ≥ 2^i) := by
  simp only [BitVec.carry, BitVec.toNat_setWidth]
  have h1 : a.toNat % 2^16 = a.toNat := Nat.mod_eq_of_lt (by have := a.isLt; omega)
  have h2 : b.toNat % 2^16 = b.toNat := Nat.mod_eq_of_lt (by have := b.isLt; omega)
  rw [h1, h2]

theorem z_bit (r : U8) : (if r = 0#8 then 0x40#8 else 0#8 : U8).getLsbD 6 = (r == 0#8) := by
  by_cases h : r = 0#8 <;> simp [h]
theorem z_bit_other (r : U8) (i : Nat) (hi : i ≠ 6) : (if r = 0#8 then 0x40#8 else 0#8 : U8).getLsbD i = false := by
  by_cases h : r = 0#8
  · simp only [h, if_true]
    have : i = 0 ∨ i = 1 ∨ i = 2 ∨ i = 3 ∨ i = 4 ∨ i = 5 ∨ i = 7 ∨ i ≥ 8 := by omega
    rcases this with h|h|h|h|h|h|h|h <;> try (subst h; rfl)
    exact BitVec.getLsbD_of_ge _ _ h
  · simp [h]


theorem arithOr_bits (r a b : U16) (sub : Bool) :
    arithOr r a b sub = flags (r.getLsbD 7) (r.setWidth 8 == 0#8) (r.getLsbD 5) ((r ^^^ a ^^^ b).getLsbD 4) (r.getLsbD 3)
      ((r ^^^ a ^^^ b).getLsbD 8 ^^ (r ^^^ a ^^^ b).getLsbD 7) sub (r.getLsbD 8) := by
  unfold arithOr
  apply u8_ext
  all_goals simp only [flags_bit0, flags_bit1, flags_bit2, flags_bit3, flags_bit4, flags_bit5, flags_bit6, flags_bit7]
  all_goals simp only [BitVec.getLsbD_or, BitVec.getLsbD_and, z_bit, z_bit_other _ _ (by decide : (0:Nat) ≠ 6),
    z_bit_other _ _ (by decide : (1:Nat) ≠ 6), z_bit_other _ _ (by decide : (2:Nat) ≠ 6), z_bit_other _ _ (by decide : (3:Nat) ≠ 6),
    z_bit_other _ _ (by decide : (4:Nat) ≠ 6), z_bit_other _ _ (by decide : (5:Nat) ≠ 6), z_bit_other _ _ (by decide : (7:Nat) ≠ 6),
    BitVec.getLsbD_setWidth, BitVec.getLsbD_ushiftRight, BitVec.getLsbD_xor]
  all_goals cases sub <;> simp

theorem add8_res (a b : U8) (cin : Bool) :
    (((a.setWidth 16 : U16) + b.setWidth 16 + (BitVec.ofBool cin).setWidth 16).setWidth 8 : U8)
      = (add8 a b cin).1 := by
  unfold add8
  apply BitVec.eq_of_toNat_eq
  simp [BitVec.toNat_add, BitVec.toNat_setWidth]

theorem ovf_add8 (A B c : Nat) (ai bi : Int) (hA : A < 256) (hB : B < 256) (hc : c ≤ 1)
    (hai : ai = if 2 * A < 256 then (A : Int) else (A : Int) - 256)
    (hbi : bi = if 2 * B < 256 then (B : Int) else (B : Int) - 256) :
    (decide (A % 256 + B % 256 + c ≥ 256) ^^ decide (A % 128 + B % 128 + c ≥ 128))
      = decide (ai + bi + (c : Int) < -128 ∨ ai + bi + (c : Int) > 127) := by
  subst hai hbi
  by_cases h1 : A % 256 + B % 256 + c ≥ 256 <;> by_cases h2 : A % 128 + B % 128 + c ≥ 128 <;>
    simp only [h1, h2, decide_true, decide_false, Bool.xor_false, Bool.xor_true, Bool.not_true, Bool.not_false,
      Bool.true_xor, Bool.false_xor] <;>
    (symm; simp only [decide_eq_true_eq, decide_eq_false_iff_not]; split <;> split <;> omega)

theorem add8_flags (a b : U8) (cin : Bool) :
    arithOr ((a.setWidth 16 : U16) + b.setWidth 16 + (BitVec.ofBool cin).setWidth 16) (a.setWidth 16) (b.setWidth 16) false
      = (add8 a b cin).2 := by
  have ha := a.isLt; have hb := b.isLt
  have hcn : cin.toNat ≤ 1 := by cases cin <;> simp
  have hres := add8_res a b cin
  have hc (i : Nat) (hi : i < 16) := by
    have := xor_carry (a.setWidth 16 : U16) (b.setWidth 16) cin i hi
    rw [carry_zext8 a b cin i] at this
    exact this
  have hr_8 : ((a.setWidth 16 : U16) + b.setWidth 16 + (BitVec.ofBool cin).setWidth 16).getLsbD 8
      = decide (a.toNat + b.toNat + cin.toNat ≥ 256) := by
    rw [BitVec.getLsbD_add_add_bool (by omega), carry_zext8 a b cin 8]
    simp [BitVec.getLsbD_setWidth]
    have h1 : a.toNat % 256 = a.toNat := Nat.mod_eq_of_lt ha
    have h2 : b.toNat % 256 = b.toNat := Nat.mod_eq_of_lt hb
    rw [h1, h2]
  have hbit (i : Nat) (hi : i < 8) : ((a.setWidth 16 : U16) + b.setWidth 16 + (BitVec.ofBool cin).setWidth 16).getLsbD i
      = (add8 a b cin).1.getLsbD i := by
    rw [← hres, BitVec.getLsbD_setWidth]; simp [hi]
  rw [arithOr_bits, hc 4 (by omega), hc 7 (by omega), hc 8 (by omega), hr_8, hres,
    hbit 7 (by omega), hbit 5 (by omega), hbit 3 (by omega)]
  unfold add8
  simp only [bitOf]
  rw [ovf_add8 a.toNat b.toNat cin.toNat a.toInt b.toInt ha hb hcn (BitVec.toInt_eq_toNat_cond a) (BitVec.toInt_eq_toNat_cond b)]

-- ---------------------------------------------------------------------------
-- subtraction: the borrow vector of a - b - c is the carry vector of r + b + c (r the difference)

theorem xor_borrow {w : Nat} (x y : BitVec w) (c : Bool) (i : Nat) (hi : i < w) :
    ((x - y - (BitVec.ofBool c).setWidth w) ^^^ x ^^^ y).getLsbD i
      = BitVec.carry i (x - y - (BitVec.ofBool c).setWidth w) y c := by
  have hx : x = (x - y - (BitVec.ofBool c).setWidth w) + y + (BitVec.ofBool c).setWidth w := by
    generalize (BitVec.ofBool c).setWidth w = z
    rw [BitVec.add_assoc, BitVec.add_comm y z, ← BitVec.add_assoc, BitVec.sub_add_cancel, BitVec.sub_add_cancel]
  have := xor_carry (x - y - (BitVec.ofBool c).setWidth w) y c i hi
  rw [← hx] at this
  rw [← this]
  simp only [BitVec.getLsbD_xor]
  cases x.getLsbD i <;> cases y.getLsbD i <;> cases (x - y - (BitVec.ofBool c).setWidth w).getLsbD i <;> rfl

theorem sub16_toNat (a b : U8) (cin : Bool) :
    ((a.setWidth 16 : U16) - b.setWidth 16 - (BitVec.ofBool cin).setWidth 16).toNat
      = (a.toNat + 65536 - b.toNat - cin.toNat) % 65536 := by
  have ha := a.isLt; have hb := b.isLt
  have hcn : cin.toNat ≤ 1 := by cases cin <;> simp
  rw [BitVec.toNat_sub, BitVec.toNat_sub]
  simp only [BitVec.toNat_setWidth, BitVec.toNat_ofBool]
  have h1 : a.toNat % 2^16 = a.toNat := Nat.mod_eq_of_lt (by omega)
  have h2 : b.toNat % 2^16 = b.toNat := Nat.mod_eq_of_lt (by omega)
  have h3 : cin.toNat % 2^16 = cin.toNat := Nat.mod_eq_of_lt (by omega)
  rw [h1, h2, h3]
  omega

theorem sub8_res (a b : U8) (cin : Bool) :
    (((a.setWidth 16 : U16) - b.setWidth 16 - (BitVec.ofBool cin).setWidth 16).setWidth 8 : U8)
      = (sub8 a b cin).1 := by
  have ha := a.isLt; have hb := b.isLt
  have hcn : cin.toNat ≤ 1 := by cases cin <;> simp
  unfold sub8
  apply BitVec.eq_of_toNat_eq
  rw [BitVec.toNat_setWidth, sub16_toNat, BitVec.toNat_ofInt]
  omega

theorem ovf_sub8 (A B c R : Nat) (ai bi : Int) (hA : A < 256) (hB : B < 256) (hc : c ≤ 1)
    (hR : R = (A + 65536 - B - c) % 65536)
    (hai : ai = if 2 * A < 256 then (A : Int) else (A : Int) - 256)
    (hbi : bi = if 2 * B < 256 then (B : Int) else (B : Int) - 256) :
    (decide (R % 256 + B % 256 + c ≥ 256) ^^ decide (R % 128 + B % 128 + c ≥ 128))
      = decide (ai - bi - (c : Int) < -128 ∨ ai - bi - (c : Int) > 127) := by
  subst hai hbi hR
  by_cases h1 : (A + 65536 - B - c) % 65536 % 256 + B % 256 + c ≥ 256 <;>
  by_cases h2 : (A + 65536 - B - c) % 65536 % 128 + B % 128 + c ≥ 128 <;>
    simp only [h1, h2, decide_true, decide_false, Bool.xor_false, Bool.xor_true, Bool.not_true, Bool.not_false,
      Bool.true_xor, Bool.false_xor] <;>
    (symm; simp only [decide_eq_true_eq, decide_eq_false_iff_not]; split <;> split <;> omega)

theorem sub8_flags (a b : U8) (cin : Bool) :
    arithOr ((a.setWidth 16 : U16) - b.setWidth 16 - (BitVec.ofBool cin).setWidth 16) (a.setWidth 16) (b.setWidth 16) true
      = (sub8 a b cin).2 := by
  have ha := a.isLt; have hb := b.isLt
  have hcn : cin.toNat ≤ 1 := by cases cin <;> simp
  have hres := sub8_res a b cin
  have hN := sub16_toNat a b cin
  have hc (i : Nat) (hi : i < 16) :
      (((a.setWidth 16 : U16) - b.setWidth 16 - (BitVec.ofBool cin).setWidth 16) ^^^ a.setWidth 16 ^^^ b.setWidth 16).getLsbD i
        = decide (((a.toNat + 65536 - b.toNat - cin.toNat) % 65536) % 2^i + b.toNat % 2^i + cin.toNat ≥ 2^i) := by
    rw [xor_borrow _ _ _ _ hi]
    simp only [BitVec.carry, hN, BitVec.toNat_setWidth]
    have h2 : b.toNat % 2^16 = b.toNat := Nat.mod_eq_of_lt (by omega)
    rw [h2]
  have hr_8 : ((a.setWidth 16 : U16) - b.setWidth 16 - (BitVec.ofBool cin).setWidth 16).getLsbD 8
      = decide (a.toNat < b.toNat + cin.toNat) := by
    rw [BitVec.getLsbD, hN, Nat.testBit_eq_decide_div_mod_eq, decide_eq_decide]
    constructor <;> intro h <;> omega
  have hbit (i : Nat) (hi : i < 8) : ((a.setWidth 16 : U16) - b.setWidth 16 - (BitVec.ofBool cin).setWidth 16).getLsbD i
      = (sub8 a b cin).1.getLsbD i := by
    rw [← hres, BitVec.getLsbD_setWidth]; simp [hi]
  rw [arithOr_bits, hc 4 (by omega), hc 7 (by omega), hc 8 (by omega), hr_8, hres,
    hbit 7 (by omega), hbit 5 (by omega), hbit 3 (by omega)]
  unfold sub8
  simp only [bitOf]
  rw [ovf_sub8 a.toNat b.toNat cin.toNat _ a.toInt b.toInt ha hb hcn rfl (BitVec.toInt_eq_toNat_cond a) (BitVec.toInt_eq_toNat_cond b)]
  congr 1
  rw [decide_eq_decide]
  constructor <;> intro h <;> omega

theorem add8_flags0 (a b : U8) :
    arithOr ((a.setWidth 16 : U16) + b.setWidth 16) (a.setWidth 16) (b.setWidth 16) false = (add8 a b false).2 := by
  simpa using add8_flags a b false
theorem add8_res0 (a b : U8) :
    (((a.setWidth 16 : U16) + b.setWidth 16).setWidth 8 : U8) = (add8 a b false).1 := by
  simpa using add8_res a b false
theorem sub8_flags0 (a b : U8) :
    arithOr ((a.setWidth 16 : U16) - b.setWidth 16) (a.setWidth 16) (b.setWidth 16) true = (sub8 a b false).2 := by
  simpa using sub8_flags a b false
theorem sub8_res0 (a b : U8) :
    (((a.setWidth 16 : U16) - b.setWidth 16).setWidth 8 : U8) = (sub8 a b false).1 := by
  simpa using sub8_res a b false

/-- the Go flag computation of `cpU8`, transcribed: like SUB but bits 3/5 from the operand -/
def cpOr (r a b : U16) (bb : U8) : U8 :=
  ((r.setWidth 8) &&& 0x80#8) ||| (bb &&& 0x28#8) ||| (if (r.setWidth 8 : U8) = 0#8 then 0x40#8 else 0#8) |||
  (((r ^^^ a ^^^ b).setWidth 8) &&& 0x10#8) |||
  (((((r ^^^ a ^^^ b) >>> 6) ^^^ ((r ^^^ a ^^^ b) >>> 5)).setWidth 8) &&& 0x04#8) |||
  0x02#8 ||| (((r >>> 8).setWidth 8) &&& 0x01#8)

theorem cpOr_eq (r a b : U16) (bb : U8) :
    cpOr r a b bb = keepBits 0x28#8 bb (arithOr r a b true) := by
  unfold cpOr arithOr keepBits
  apply u8_ext
  all_goals simp only [BitVec.getLsbD_or, BitVec.getLsbD_and, BitVec.getLsbD_not, z_bit, z_bit_other _ _ (by decide : (0:Nat) ≠ 6),
    z_bit_other _ _ (by decide : (1:Nat) ≠ 6), z_bit_other _ _ (by decide : (2:Nat) ≠ 6), z_bit_other _ _ (by decide : (3:Nat) ≠ 6),
    z_bit_other _ _ (by decide : (4:Nat) ≠ 6), z_bit_other _ _ (by decide : (5:Nat) ≠ 6), z_bit_other _ _ (by decide : (7:Nat) ≠ 6),
    BitVec.getLsbD_setWidth, BitVec.getLsbD_ushiftRight, BitVec.getLsbD_xor]
  all_goals simp

theorem cp8_flags (a b : U8) :
    cpOr ((a.setWidth 16 : U16) - b.setWidth 16) (a.setWidth 16) (b.setWidth 16) b = cp8 a b := by
  rw [cpOr_eq, sub8_flags0]; rfl

-- ---------------------------------------------------------------------------
-- 16-bit: operands zero-extended to 32 bits

/-- ADC/SBC HL: the Go flag computation, transcribed -/
def arith16Or (r a b : U32) (sub : Bool) : U8 :=
  (((r >>> 8).setWidth 8) &&& 0xa8#8) ||| (if (r.setWidth 16 : U16) = 0#16 then 0x40#8 else 0#8) |||
  ((((r ^^^ a ^^^ b) >>> 8).setWidth 8) &&& 0x10#8) |||
  (((((r ^^^ a ^^^ b) >>> 14) ^^^ ((r ^^^ a ^^^ b) >>> 13)).setWidth 8) &&& 0x04#8) |||
  (if sub then 0x02#8 else 0#8) ||| (((r >>> 16).setWidth 8) &&& 0x01#8)

/-- ADD HL/IX/IY: only 5, H, 3, N, C are produced -/
def add16Or (r a b : U32) : U8 :=
  (((r >>> 8).setWidth 8) &&& 0x28#8) ||| ((((r ^^^ a ^^^ b) >>> 8).setWidth 8) &&& 0x10#8) |||
  (((r >>> 16).setWidth 8) &&& 0x01#8)

theorem z16_bit (r : U16) : (if r = 0#16 then 0x40#8 else 0#8 : U8).getLsbD 6 = (r == 0#16) := by
  by_cases h : r = 0#16 <;> simp [h]
theorem z16_bit_other (r : U16) (i : Nat) (hi : i ≠ 6) : (if r = 0#16 then 0x40#8 else 0#8 : U8).getLsbD i = false := by
  by_cases h : r = 0#16
  · simp only [h, if_true]
    have : i = 0 ∨ i = 1 ∨ i = 2 ∨ i = 3 ∨ i = 4 ∨ i = 5 ∨ i = 7 ∨ i ≥ 8 := by omega
    rcases this with h|h|h|h|h|h|h|h <;> try (subst h; rfl)
    exact BitVec.getLsbD_of_ge _ _ h
  · simp [h]

theorem arith16Or_bits (r a b : U32) (sub : Bool) :
    arith16Or r a b sub = flags (r.getLsbD 15) (r.setWidth 16 == 0#16) (r.getLsbD 13) ((r ^^^ a ^^^ b).getLsbD 12) (r.getLsbD 11)
      ((r ^^^ a ^^^ b).getLsbD 16 ^^ (r ^^^ a ^^^ b).getLsbD 15) sub (r.getLsbD 16) := by
  unfold arith16Or
  apply u8_ext
  all_goals simp only [flags_bit0, flags_bit1, flags_bit2, flags_bit3, flags_bit4, flags_bit5, flags_bit6, flags_bit7]
  all_goals simp only [BitVec.getLsbD_or, BitVec.getLsbD_and, z16_bit, z16_bit_other _ _ (by decide : (0:Nat) ≠ 6),
    z16_bit_other _ _ (by decide : (1:Nat) ≠ 6), z16_bit_other _ _ (by decide : (2:Nat) ≠ 6), z16_bit_other _ _ (by decide : (3:Nat) ≠ 6),
    z16_bit_other _ _ (by decide : (4:Nat) ≠ 6), z16_bit_other _ _ (by decide : (5:Nat) ≠ 6), z16_bit_other _ _ (by decide : (7:Nat) ≠ 6),
    BitVec.getLsbD_setWidth, BitVec.getLsbD_ushiftRight, BitVec.getLsbD_xor]
  all_goals cases sub <;> simp

theorem add16Or_bits (r a b : U32) :
    add16Or r a b = flags false false (r.getLsbD 13) ((r ^^^ a ^^^ b).getLsbD 12) (r.getLsbD 11) false false (r.getLsbD 16) := by
  unfold add16Or
  apply u8_ext
  all_goals simp only [flags_bit0, flags_bit1, flags_bit2, flags_bit3, flags_bit4, flags_bit5, flags_bit6, flags_bit7]
  all_goals simp only [BitVec.getLsbD_or, BitVec.getLsbD_and, BitVec.getLsbD_setWidth, BitVec.getLsbD_ushiftRight, BitVec.getLsbD_xor]
  all_goals simp

theorem carry_zext16 (a b : U16) (cin : Bool) (i : Nat) :
    BitVec.carry i (a.setWidth 32 : U32) (b.setWidth 32) cin
      = decide (a.toNat % 2^i + b.toNat % 2^i + cin.toNat ≥ 2^i) := by
  simp only [BitVec.carry, BitVec.toNat_setWidth]
  have h1 : a.toNat % 2^32 = a.toNat := Nat.mod_eq_of_lt (by have := a.isLt; omega)
  have h2 : b.toNat % 2^32 = b.toNat := Nat.mod_eq_of_lt (by have := b.isLt; omega)
  rw [h1, h2]

theorem hi8_bit (v : U16) (i : Nat) (hi : i < 8) : (hi8 v).getLsbD i = v.getLsbD (8 + i) := by
  unfold hi8
  simp [BitVec.getLsbD_setWidth, BitVec.getLsbD_ushiftRight, hi]

theorem hi8_get (v : U16) (i : Nat) (hi : i < 8) : (hi8 v)[i] = v[8 + i] := by
  rw [← BitVec.getLsbD_eq_getElem, ← BitVec.getLsbD_eq_getElem, hi8_bit v i hi]

theorem adc16_res (a b : U16) (cin : Bool) :
    (((a.setWidth 32 : U32) + b.setWidth 32 + (BitVec.ofBool cin).setWidth 32).setWidth 16 : U16)
      = (adc16 a b cin).1 := by
  unfold adc16
  apply BitVec.eq_of_toNat_eq
  simp [BitVec.toNat_add, BitVec.toNat_setWidth]

theorem ovf_add16 (A B c : Nat) (ai bi : Int) (hA : A < 65536) (hB : B < 65536) (hc : c ≤ 1)
    (hai : ai = if 2 * A < 65536 then (A : Int) else (A : Int) - 65536)
    (hbi : bi = if 2 * B < 65536 then (B : Int) else (B : Int) - 65536) :
    (decide (A % 65536 + B % 65536 + c ≥ 65536) ^^ decide (A % 32768 + B % 32768 + c ≥ 32768))
      = decide (ai + bi + (c : Int) < -32768 ∨ ai + bi + (c : Int) > 32767) := by
  subst hai hbi
  by_cases h1 : A % 65536 + B % 65536 + c ≥ 65536 <;> by_cases h2 : A % 32768 + B % 32768 + c ≥ 32768 <;>
    simp only [h1, h2, decide_true, decide_false, Bool.xor_false, Bool.xor_true, Bool.not_true, Bool.not_false,
      Bool.true_xor, Bool.false_xor] <;>
    (symm; simp only [decide_eq_true_eq, decide_eq_false_iff_not]; split <;> split <;> omega)

theorem adc16_flags (a b : U16) (cin : Bool) :
    arith16Or ((a.setWidth 32 : U32) + b.setWidth 32 + (BitVec.ofBool cin).setWidth 32) (a.setWidth 32) (b.setWidth 32) false
      = (adc16 a b cin).2 := by
  have ha := a.isLt; have hb := b.isLt
  have hcn : cin.toNat ≤ 1 := by cases cin <;> simp
  have hres := adc16_res a b cin
  have hc (i : Nat) (hi : i < 32) := by
    have := xor_carry (a.setWidth 32 : U32) (b.setWidth 32) cin i hi
    rw [carry_zext16 a b cin i] at this
    exact this
  have hr_16 : ((a.setWidth 32 : U32) + b.setWidth 32 + (BitVec.ofBool cin).setWidth 32).getLsbD 16
      = decide (a.toNat + b.toNat + cin.toNat ≥ 65536) := by
    rw [BitVec.getLsbD_add_add_bool (by omega), carry_zext16 a b cin 16]
    simp [BitVec.getLsbD_setWidth]
    have h1 : a.toNat % 65536 = a.toNat := Nat.mod_eq_of_lt ha
    have h2 : b.toNat % 65536 = b.toNat := Nat.mod_eq_of_lt hb
    rw [h1, h2]
  have hbit (i : Nat) (hi : i < 16) : ((a.setWidth 32 : U32) + b.setWidth 32 + (BitVec.ofBool cin).setWidth 32).getLsbD i
      = (adc16 a b cin).1.getLsbD i := by
    rw [← hres, BitVec.getLsbD_setWidth]; simp [hi]
  rw [arith16Or_bits, hc 12 (by omega), hc 15 (by omega), hc 16 (by omega), hr_16, hres,
    hbit 15 (by omega), hbit 13 (by omega), hbit 11 (by omega)]
  unfold adc16
  simp only [bitOf, hi8_bit _ 5 (by omega), hi8_bit _ 3 (by omega)]
  rw [ovf_add16 a.toNat b.toNat cin.toNat a.toInt b.toInt ha hb hcn (BitVec.toInt_eq_toNat_cond a) (BitVec.toInt_eq_toNat_cond b)]

theorem add16Or_eq (r a b : U32) : add16Or r a b = arith16Or r a b false &&& 0x39#8 := by
  unfold add16Or arith16Or
  apply u8_ext
  all_goals simp only [BitVec.getLsbD_or, BitVec.getLsbD_and, z16_bit, z16_bit_other _ _ (by decide : (0:Nat) ≠ 6),
    z16_bit_other _ _ (by decide : (1:Nat) ≠ 6), z16_bit_other _ _ (by decide : (2:Nat) ≠ 6), z16_bit_other _ _ (by decide : (3:Nat) ≠ 6),
    z16_bit_other _ _ (by decide : (4:Nat) ≠ 6), z16_bit_other _ _ (by decide : (5:Nat) ≠ 6), z16_bit_other _ _ (by decide : (7:Nat) ≠ 6),
    BitVec.getLsbD_setWidth, BitVec.getLsbD_ushiftRight, BitVec.getLsbD_xor]
  all_goals simp

theorem add16_res (a b : U16) (f : U8) :
    (((a.setWidth 32 : U32) + b.setWidth 32).setWidth 16 : U16) = (add16 a b f).1 := by
  unfold add16
  apply BitVec.eq_of_toNat_eq
  simp [BitVec.toNat_add, BitVec.toNat_setWidth]

theorem add16_flags (a b : U16) (f : U8) :
    (f &&& ~~~0x3b#8) ||| add16Or ((a.setWidth 32 : U32) + b.setWidth 32) (a.setWidth 32) (b.setWidth 32)
      = (add16 a b f).2 := by
  have e : (a.setWidth 32 : U32) + b.setWidth 32
      = a.setWidth 32 + b.setWidth 32 + (BitVec.ofBool false).setWidth 32 := by simp
  rw [add16Or_eq, e, adc16_flags]
  unfold adc16 add16 keepBits
  simp only [bitOf, Bool.toNat_false, Nat.add_zero]
  apply u8_ext
  all_goals simp only [BitVec.getLsbD_or, BitVec.getLsbD_and, BitVec.getLsbD_not, flags_bit0, flags_bit1, flags_bit2, flags_bit3,
    flags_bit4, flags_bit5, flags_bit6, flags_bit7]
  all_goals simp [fS, fZ, fPV]

-- subtraction, 16 bit
theorem sub32_toNat (a b : U16) (cin : Bool) :
    ((a.setWidth 32 : U32) - b.setWidth 32 - (BitVec.ofBool cin).setWidth 32).toNat
      = (a.toNat + 4294967296 - b.toNat - cin.toNat) % 4294967296 := by
  have ha := a.isLt; have hb := b.isLt
  have hcn : cin.toNat ≤ 1 := by cases cin <;> simp
  rw [BitVec.toNat_sub, BitVec.toNat_sub]
  simp only [BitVec.toNat_setWidth, BitVec.toNat_ofBool]
  have h1 : a.toNat % 2^32 = a.toNat := Nat.mod_eq_of_lt (by omega)
  have h2 : b.toNat % 2^32 = b.toNat := Nat.mod_eq_of_lt (by omega)
  have h3 : cin.toNat % 2^32 = cin.toNat := Nat.mod_eq_of_lt (by omega)
  rw [h1, h2, h3]
  omega

theorem sbc16_res (a b : U16) (cin : Bool) :
    (((a.setWidth 32 : U32) - b.setWidth 32 - (BitVec.ofBool cin).setWidth 32).setWidth 16 : U16)
      = (sbc16 a b cin).1 := by
  have ha := a.isLt; have hb := b.isLt
  have hcn : cin.toNat ≤ 1 := by cases cin <;> simp
  unfold sbc16
  apply BitVec.eq_of_toNat_eq
  rw [BitVec.toNat_setWidth, sub32_toNat, BitVec.toNat_ofInt]
  omega

theorem ovf_sub16 (A B c R : Nat) (ai bi : Int) (hA : A < 65536) (hB : B < 65536) (hc : c ≤ 1)
    (hR : R = (A + 4294967296 - B - c) % 4294967296)
    (hai : ai = if 2 * A < 65536 then (A : Int) else (A : Int) - 65536)
    (hbi : bi = if 2 * B < 65536 then (B : Int) else (B : Int) - 65536) :
    (decide (R % 65536 + B % 65536 + c ≥ 65536) ^^ decide (R % 32768 + B % 32768 + c ≥ 32768))
      = decide (ai - bi - (c : Int) < -32768 ∨ ai - bi - (c : Int) > 32767) := by
  subst hai hbi hR
  by_cases h1 : (A + 4294967296 - B - c) % 4294967296 % 65536 + B % 65536 + c ≥ 65536 <;>
  by_cases h2 : (A + 4294967296 - B - c) % 4294967296 % 32768 + B % 32768 + c ≥ 32768 <;>
    simp only [h1, h2, decide_true, decide_false, Bool.xor_false, Bool.xor_true, Bool.not_true, Bool.not_false,
      Bool.true_xor, Bool.false_xor] <;>
    (symm; simp only [decide_eq_true_eq, decide_eq_false_iff_not]; split <;> split <;> omega)

theorem sbc16_flags (a b : U16) (cin : Bool) :
    arith16Or ((a.setWidth 32 : U32) - b.setWidth 32 - (BitVec.ofBool cin).setWidth 32) (a.setWidth 32) (b.setWidth 32) true
      = (sbc16 a b cin).2 := by
  have ha := a.isLt; have hb := b.isLt
  have hcn : cin.toNat ≤ 1 := by cases cin <;> simp
  have hres := sbc16_res a b cin
  have hN := sub32_toNat a b cin
  have hc (i : Nat) (hi : i < 32) :
      (((a.setWidth 32 : U32) - b.setWidth 32 - (BitVec.ofBool cin).setWidth 32) ^^^ a.setWidth 32 ^^^ b.setWidth 32).getLsbD i
        = decide (((a.toNat + 4294967296 - b.toNat - cin.toNat) % 4294967296) % 2^i + b.toNat % 2^i + cin.toNat ≥ 2^i) := by
    rw [xor_borrow _ _ _ _ hi]
    simp only [BitVec.carry, hN, BitVec.toNat_setWidth]
    have h2 : b.toNat % 2^32 = b.toNat := Nat.mod_eq_of_lt (by omega)
    rw [h2]
  have hr_16 : ((a.setWidth 32 : U32) - b.setWidth 32 - (BitVec.ofBool cin).setWidth 32).getLsbD 16
      = decide (a.toNat < b.toNat + cin.toNat) := by
    rw [BitVec.getLsbD, hN, Nat.testBit_eq_decide_div_mod_eq, decide_eq_decide]
    constructor <;> intro h <;> omega
  have hbit (i : Nat) (hi : i < 16) : ((a.setWidth 32 : U32) - b.setWidth 32 - (BitVec.ofBool cin).setWidth 32).getLsbD i
      = (sbc16 a b cin).1.getLsbD i := by
    rw [← hres, BitVec.getLsbD_setWidth]; simp [hi]
  rw [arith16Or_bits, hc 12 (by omega), hc 15 (by omega), hc 16 (by omega), hr_16, hres,
    hbit 15 (by omega), hbit 13 (by omega), hbit 11 (by omega)]
  unfold sbc16
  simp only [bitOf, hi8_bit _ 5 (by omega), hi8_bit _ 3 (by omega)]
  rw [ovf_sub16 a.toNat b.toNat cin.toNat _ a.toInt b.toInt ha hb hcn rfl (BitVec.toInt_eq_toNat_cond a) (BitVec.toInt_eq_toNat_cond b)]
  congr 1
  rw [decide_eq_decide]
  constructor <;> intro h <;> omega

end Z80
