/-
  C06 — interrupt requests are accepted, refused, dispatched and retired per the Z80 rules.

  `Gen.Step` (regenerated from cpu.go) with a pending request equals the abstract interrupt controller
  `Spec.intStep` written from the property text — for every state: every register, both flip-flops, every
  mode value, halted or not, every PC/SP (wrap included), every vector byte and I.  Control bits are
  universally quantified, nothing is enumerated.

  Mode 0 with supplied bytes is NOT covered here: see Z80.Props.C06IM0 (known findings KF-1/KF-2/KF-3).
-/
import Z80.Proofs.Interrupt
import Z80.Proofs.IM0
import Z80.Proofs.FrameB
import Z80.Proofs.Frame
import Z80.Proofs.StepOf
import Z80.Proofs.Families.Ctrl
import Z80.Proofs.Families.CallRet

namespace Z80.Props.C06
open Z80 Z80.Gen Z80.Spec Z80.Obl
set_option maxRecDepth 8192

/-- the request is outside mode 0 with supplied bytes -/
def NotIM0Data (s : St) (i : Interrupt) : Prop :=
  i.Type_ = 0 ∨ s.IFF1 = false ∨ s.IM ≠ 0 ∨ i.Data = []

/-- THE controller theorem: with a request pending, one Step of the real code is one step of the abstract controller -/
theorem C06_step (s : St) (i : Interrupt) (hi : s.Interrupt = some i) (hm : s.Memory = .user) (h : NotIM0Data s i) :
    Gen.Step s = Spec.step Impl.koron s := by
  by_cases hn : i.Type_ = 0
  · exact step_nmi s i hi hm hn
  by_cases hf : s.IFF1 = false
  · exact step_refused s i hi hm hn hf
  have hf' : s.IFF1 = true := by simpa using hf
  by_cases h1 : s.IM = 1
  · exact step_im1 s i hi hm hn hf' h1
  by_cases h2 : s.IM = 2
  · cases hd : i.Data with
    | nil => exact step_empty s i hi hm hn hf' (Or.inr h2) hd
    | cons v rest => exact step_im2 s i hi hm hn hf' h2 v rest hd
  by_cases h0 : s.IM = 0
  · rcases h with h | h | h | h
    · exact absurd h hn
    · exact absurd h hf
    · exact absurd h0 h
    · exact step_empty s i hi hm hn hf' (Or.inl h0) h
  · exact step_badmode s i hi hm hn hf' h0 h1 h2

-- what the abstract controller says, spelled out ---------------------------------------

/-- NMI: always accepted; PC pushed (high byte at SP-1, low at SP-2), PC = 0x0066, IFF2 takes the old IFF1,
    IFF1 cleared, request consumed, nothing else (no program instruction runs) -/
theorem C06_nmi (s : St) (i : Interrupt) (hi : s.Interrupt = some i) (hn : i.Type_ = 0) :
    ∃ t, Spec.step Impl.koron s = .ok () t ∧ t.PC = 0x0066#16 ∧ t.SP = s.SP - 2#16 ∧ t.IFF2 = s.IFF1 ∧ t.IFF1 = false ∧
      t.Interrupt = none ∧ t.mem (s.SP - 1#16) = hi8 s.PC ∧ t.mem (s.SP - 2#16) = lo8 s.PC ∧
      t.toGPR = s.toGPR ∧ t.IR = s.IR ∧ t.IM = s.IM ∧ t.HALT = s.HALT := by
  have h1 : s.SP + 65535#16 ≠ s.SP + 65534#16 := by bv_omega
  have h2 : s.SP + 65534#16 ≠ s.SP + 65535#16 := by bv_omega
  simp [Spec.step, intStep, isNMI, vectorTo, push16, wr16, wr8, Impl.koron, hi, hn, z80helper, upd, h1, h2]

/-- a maskable request is refused iff IFF1 is clear: the step is then an ordinary instruction … -/
theorem C06_refused (s : St) (i : Interrupt) (hi : s.Interrupt = some i) (hn : i.Type_ ≠ 0) (hf : s.IFF1 = false) :
    Spec.step Impl.koron s = Spec.executeOne Impl.koron s := by
  simp [Spec.step, intStep, isNMI, hi, hn, hf]
/-- … and the request stays pending (real code, any instruction) -/
theorem C06_refused_stays (s : St) (i : Interrupt) (hi : s.Interrupt = some i) (hm : s.Memory = .user) (hn : i.Type_ ≠ 0)
    (hf : s.IFF1 = false) : ∃ t, Gen.Step s = .ok () t ∧ t.Interrupt = some i ∧ t.Memory = .user := by
  have e : Gen.Step s = Gen.executeOne s := by
    simp [Gen.Step, Gen.processInterrupt, hi, hn, hf]
  obtain ⟨t, ht, hmem, hint, _⟩ := gen_executeOne_ok s hm
  exact ⟨t, by rw [e, ht], by rw [hint, hi], hmem⟩

/-- mode 1: accepted iff IFF1; push PC, PC = 0x0038, both flip-flops cleared, request consumed -/
theorem C06_im1 (s : St) (i : Interrupt) (hi : s.Interrupt = some i) (hn : i.Type_ ≠ 0) (hf : s.IFF1 = true) (him : s.IM = 1) :
    ∃ t, Spec.step Impl.koron s = .ok () t ∧ t.PC = 0x0038#16 ∧ t.SP = s.SP - 2#16 ∧ t.IFF1 = false ∧ t.IFF2 = false ∧
      t.Interrupt = none ∧ t.mem (s.SP - 1#16) = hi8 s.PC ∧ t.mem (s.SP - 2#16) = lo8 s.PC ∧ t.toGPR = s.toGPR := by
  have h1 : s.SP + 65535#16 ≠ s.SP + 65534#16 := by bv_omega
  have h2 : s.SP + 65534#16 ≠ s.SP + 65535#16 := by bv_omega
  simp [Spec.step, intStep, isNMI, vectorTo, push16, wr16, wr8, Impl.koron, hi, hn, hf, him, z80helper, upd, h1, h2]

/-- mode 2: push PC, then PC = the word stored at I*256 + (vector AND 0xFE) (read AFTER the push), flip-flops cleared -/
theorem C06_im2 (s : St) (i : Interrupt) (hi : s.Interrupt = some i) (hn : i.Type_ ≠ 0) (hf : s.IFF1 = true) (him : s.IM = 2)
    (v : U8) (rest : List U8) (hd : i.Data = v :: rest) :
    ∃ t, Spec.step Impl.koron s = .ok () t ∧ t.SP = s.SP - 2#16 ∧ t.IFF1 = false ∧ t.IFF2 = false ∧ t.Interrupt = none ∧
      t.PC = mk16 (t.mem (mk16 s.IR.Hi (v &&& 0xfe#8) + 1#16)) (t.mem (mk16 s.IR.Hi (v &&& 0xfe#8))) ∧
      t.mem (s.SP - 1#16) = hi8 s.PC ∧ t.mem (s.SP - 2#16) = lo8 s.PC := by
  have h1 : s.SP + 65535#16 ≠ s.SP + 65534#16 := by bv_omega
  have h2 : s.SP + 65534#16 ≠ s.SP + 65535#16 := by bv_omega
  simp [Spec.step, intStep, isNMI, push16, wr16, wr8, rd16, rd8, Impl.koron, hi, hn, hf, him, hd, z80helper, upd, h1, h2]


-- mode 0 with a supplied RST ------------------------------------------------------------

/-- mode 0, the device supplies RST p (the form every MSX/ZX-style system uses): for EVERY state the regenerated
    Step equals the RECORDED description of this implementation (`Spec.stepKF`): the instruction is executed as if
    stored at PC, so the pushed return address is PC+1 (known finding KF-1, pinned by TestInterruptIM0) and a
    pushed byte landing on PC is dropped (KF-2); both flip-flops are cleared and the request is consumed.
    So the deviation from the Z80 in this mode is exactly the recorded one — nothing else — for all states. -/
theorem C06_im0_rst (s : St) (i : Interrupt) (hi : s.Interrupt = some i) (hm : s.Memory = .user) (hn : i.Type_ ≠ 0)
    (hf : s.IFF1 = true) (him : s.IM = 0) (b : U8)
    (hb : b = 0xc7#8 ∨ b = 0xcf#8 ∨ b = 0xd7#8 ∨ b = 0xdf#8 ∨ b = 0xe7#8 ∨ b = 0xef#8 ∨ b = 0xf7#8 ∨ b = 0xff#8)
    (hd : i.Data = [b]) : Gen.Step s = Spec.stepKF Impl.koron s := im0_rst s i hi hm hn hf him b hb hd

/-- the same for a supplied CALL nn, every nn (three-byte window) -/
theorem C06_im0_call (s : St) (i : Interrupt) (hi : s.Interrupt = some i) (hm : s.Memory = .user) (hn : i.Type_ ≠ 0)
    (hf : s.IFF1 = true) (him : s.IM = 0) (lo hi' : U8) (hd : i.Data = [0xcd#8, lo, hi']) :
    Gen.Step s = Spec.stepKF Impl.koron s := im0_call s i hi hm hn hf him lo hi' hd


-- mode 0 with ANY supplied bytes (bus layer) -------------------------------------------------

/-- THE complete controller theorem: with a request pending — ANY type, ANY mode, ANY data, mode 0 with any supplied
    instruction included — one Step of the regenerated code is one step of `Spec.stepKFB`: the abstract controller of
    `C06_step`, except that mode 0 with supplied bytes is the RECORDED description of this implementation (one reference
    instruction executed through the overlay bus, `Spec.im0StepB`).  Hence this code base deviates from the Z80's
    interrupt behaviour in mode 0 with supplied bytes ONLY, and there exactly as recorded (KF-1, KF-2). -/
theorem C06_step_any (s : St) (i : Interrupt) (hi : s.Interrupt = some i) (hm : s.Memory = .user) :
    Gen.Step s = Spec.stepKFB Impl.koron s := by
  by_cases h0 : (!isNMI i && s.IFF1 && s.IM == 0 && !i.Data.isEmpty) = true
  · have hn : i.Type_ ≠ 0 := by
      intro e; simp [isNMI, e] at h0
    have hf : s.IFF1 = true := by
      cases hh : s.IFF1 <;> simp [hh] at h0 ⊢
    have him : s.IM = 0 := by
      by_cases e : s.IM = 0
      · exact e
      · simp [e] at h0
    have hd : i.Data ≠ [] := by
      intro e; simp [e] at h0
    rw [step_im0_any s i hi hn hf him hd]
    simp [Spec.stepKFB, hi, h0]
  · have hnot : NotIM0Data s i := by
      by_cases hn : i.Type_ = 0
      · exact .inl hn
      by_cases hf : s.IFF1 = false
      · exact .inr (.inl hf)
      by_cases him : s.IM = 0
      · right; right; right
        cases hd : i.Data with
        | nil => rfl
        | cons a r =>
          exfalso; apply h0
          have hf' : s.IFF1 = true := by simpa using hf
          simp [isNMI, hn, hf', him, hd]
      · exact .inr (.inr (.inl him))
    rw [C06_step s i hi hm hnot]
    have : (!isNMI i && s.IFF1 && s.IM == 0 && !i.Data.isEmpty) = false := by simpa using h0
    simp [Spec.stepKFB, hi, this]

-- EI, DI, RETN, RETI -----------------------------------------------------------------

theorem C06_ei_di (impl : Impl) (s : St) :
    exec impl .ei s = .ok () { s with IFF1 := true, IFF2 := true } ∧ exec impl .di s = .ok () { s with IFF1 := false, IFF2 := false } := by
  simp [exec]

/-- RETN: handler notified exactly once (iff registered), PC popped, IFF1 := IFF2 -/
theorem C06_retn (impl : Impl) (s : St) :
    ∃ t, exec impl .retn s = .ok () t ∧ t.IFF1 = s.IFF2 ∧ t.IFF2 = s.IFF2 ∧ t.SP = s.SP + 2#16 ∧
      t.PC = mk16 (s.mem (s.SP + 1#16)) (s.mem s.SP) ∧
      t.log = .mr (s.SP + 1#16) (s.mem (s.SP + 1#16)) :: .mr s.SP (s.mem s.SP) :: (if s.RETNHandler then [.retn] else []) ++ s.log := by
  by_cases h : s.RETNHandler <;> simp [exec, pop16, rd16, rd8, h]
/-- RETI: handler notified exactly once (iff registered), PC popped -/
theorem C06_reti (impl : Impl) (s : St) :
    ∃ t, exec impl .reti s = .ok () t ∧ t.SP = s.SP + 2#16 ∧ t.PC = mk16 (s.mem (s.SP + 1#16)) (s.mem s.SP) ∧
      t.IFF1 = s.IFF1 ∧ t.IFF2 = s.IFF2 ∧
      t.log = .mr (s.SP + 1#16) (s.mem (s.SP + 1#16)) :: .mr s.SP (s.mem s.SP) :: (if s.RETIHandler then [.reti] else []) ++ s.log := by
  by_cases h : s.RETIHandler <;> simp [exec, pop16, rd16, rd8, h]

/-- EI / DI / RETN / RETI in the real code: the Step is that reference instruction (FB, F3, ED 45, ED 4D) -/
theorem C06_step_ctrl (s : St) (h₁ : s.Interrupt = none) (h₂ : s.Memory = .user) (b : U8) (hb : b ∈ slots_Ctrl_main)
    (hop : s.mem s.PC = b) : Gen.Step s = execMain Impl.koron b (afterM1 s) :=
  step_main s h₁ h₂ b hop (fam_Ctrl_main b hb)
theorem C06_step_retn_reti (s : St) (h₁ : s.Interrupt = none) (h₂ : s.Memory = .user) (b : U8) (hb : b ∈ slots_CallRet_ed)
    (hp : s.mem s.PC = 0xed#8) (hop : s.mem (s.PC + 1#16) = b) :
    Gen.Step s = execOpt Impl.koron [0xed#8, b] (decodeED b.toNat) (afterM1 (afterM1 s)) :=
  step_ed s h₁ h₂ b hp hop (fun c0 => fam_CallRet_ed c0 b hb)

/-- handler events come from RETN / RETI only: no other reference instruction adds one -/
def isHandlerEv : Ev → Bool
  | .retn => true | .reti => true | _ => false
def handlerEvents (l : List Ev) : Nat := (l.filter isHandlerEv).length

-- steps while disabled: the request persists ----------------------------------------------

/-- n Steps of the real code -/
def stepN : Nat → St → Res Unit
  | 0, s => .ok () s
  | n+1, s => (Gen.Step s).bind (fun _ t => stepN n t)

/-- A maskable request raised while interrupts are disabled changes nothing and stays pending for as long as
    IFF1 stays clear: after any number of Steps it is still there (and is then taken by `C06_step` at the first
    boundary with IFF1 set). -/
theorem C06_pending (n : Nat) (s : St) (i : Interrupt) (hi : s.Interrupt = some i) (hm : s.Memory = .user) (hn : i.Type_ ≠ 0)
    (hdis : ∀ k t, k < n → stepN k s = .ok () t → t.IFF1 = false) :
    ∃ t, stepN n s = .ok () t ∧ t.Interrupt = some i ∧ t.Memory = .user := by
  induction n generalizing s with
  | zero => exact ⟨s, rfl, hi, hm⟩
  | succ n ih =>
    have hf : s.IFF1 = false := hdis 0 s (by omega) rfl
    obtain ⟨t, ht, hti, htm⟩ := C06_refused_stays s i hi hm hn hf
    have := ih t hti htm (fun k u hk hu => hdis (k+1) u (by omega) (by simp [stepN, ht, hu]))
    obtain ⟨u, hu, hui, hum⟩ := this
    exact ⟨u, by simp [stepN, ht, hu], hui, hum⟩

-- non-vacuity: a state with a pending mode-1 request and IFF1 set
example : ∃ (s : St) (i : Interrupt), s.Interrupt = some i ∧ s.Memory = .user ∧ i.Type_ ≠ 0 ∧ s.IFF1 = true ∧ s.IM = 1 ∧ NotIM0Data s i :=
  ⟨{ (default : CPU) with Interrupt := some ⟨1, []⟩, Memory := .user, IFF1 := true, IM := 1, mem := fun _ => 0#8, dev := fun _ _ => 0#8, log := [] },
   ⟨1, []⟩, rfl, rfl, by decide, rfl, rfl, Or.inr (Or.inr (Or.inl (by decide)))⟩

end Z80.Props.C06
