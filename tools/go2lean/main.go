// go2lean translates the (small, closed) Go subset used by package z80 of
// koron-go/z80 into Lean 4 definitions over the monad Z80.M (see /verif/lean/Z80/Monad.lean).
//
// It is deliberately syntax directed and refuses, loudly, everything it does not know.
// Standard library only (go/parser, go/types with the "source" importer).
package main

import (
	"flag"
	"fmt"
	"go/ast"
	"go/constant"
	"go/token"
	"go/types"
	"os"
	"strings"
)

var (
	repo   = flag.String("repo", "/repo", "repository root")
	outDir = flag.String("out", "", "output directory for Z80/Gen/*.lean")
	noUnf  = flag.String("characterised", "", "file listing functions that have a proved characterisation (not tagged for unfolding)")
)

// ---------------------------------------------------------------------------

type funcInfo struct {
	name     string // lean name
	goName   string
	decl     *ast.FuncDecl
	file     string // source file base name without .go
	kind     int    // kPure, kCPU (monadic)
	cpuVar   string // name of the *CPU variable (receiver or first param)
	lensPar  map[string]bool
	calls    map[string]bool // lean names of called translated functions
	text     string          // generated text
	writes   map[string]bool // cpu field paths written (directly)
	allWr    map[string]bool // transitive
	hash     string
	im0Recv  string // receiver name when method of *im0data
	swMods   []string // switch modules used by this function
}

const (
	kPure = iota
	kMon
)

type tr struct {
	fset   *token.FileSet
	info   *types.Info
	pkg    *types.Package
	files  map[string]*ast.File
	funcs  map[string]*funcInfo // by lean name
	byObj  map[types.Object]*funcInfo
	order  []string
	skip   map[string]string // go func name -> reason
	consts []string
	errors []string

	arms      []armRec
	switches  []swRec
	swModules []*swModule
	pkgVars   []string
	cpuFields []string
	constRecs []map[string]string
	im0Fields []string
	charact   map[string]bool
	runInfo   *funcInfo
}

type swModule struct {
	name  string
	text  string
	calls map[string]bool
	subSw []string
}

func (t *tr) failf(pos token.Pos, format string, args ...interface{}) {
	msg := fmt.Sprintf("%s: %s", t.fset.Position(pos), fmt.Sprintf(format, args...))
	panic(refusal(msg))
}

type refusal string

var leanKeywords = map[string]bool{
	"end": true, "at": true, "from": true, "have": true, "show": true, "fun": true, "do": true,
	"then": true, "else": true, "if": true, "let": true, "in": true, "open": true, "mut": true,
	"Type": true, "Prop": true, "Sort": true, "instance": true, "structure": true, "class": true,
	"where": true, "with": true, "match": true, "return": true, "for": true, "break": true,
	"continue": true, "by": true, "theorem": true, "def": true, "namespace": true, "section": true,
	"variable": true, "universe": true, "import": true, "export": true, "private": true,
	"protected": true, "panic": true, "unless": true, "try": true, "catch": true, "finally": true,
	"deriving": true, "extends": true, "inductive": true, "example": true, "axiom": true, "macro": true,
	"syntax": true, "notation": true, "infix": true, "prefix": true, "postfix": true, "set_option": true,
	"attribute": true, "local": true, "scoped": true, "nomatch": true, "nofun": true, "using": true,
	"calc": true, "suffices": true, "obtain": true, "exact": true, "abbrev": true, "opaque": true,
	"mutual": true, "partial": true, "unsafe": true, "noncomputable": true, "this": true,
	"s": true, // reserved for the lambda-bound state in writes
	"getSt": true, "modifySt": true, "pure": true, "bind": true, "idx": true, "deref": true, "warn": true,
	"upd": true, "popcount": true, "goLen": true, "iter": true,
}

func mangle(n string) string {
	if leanKeywords[n] {
		return n + "_"
	}
	return n
}

// ---------------------------------------------------------------------------
// types

func (t *tr) leanType(ty types.Type, pos token.Pos) string {
	switch u := ty.(type) {
	case *types.Basic:
		switch u.Kind() {
		case types.Uint8, types.Int8:
			return "U8"
		case types.Uint16, types.Int16:
			return "U16"
		case types.Uint32, types.Int32:
			return "U32"
		case types.Int, types.UntypedInt:
			return "Int"
		case types.Bool, types.UntypedBool:
			return "Bool"
		case types.String:
			return "String"
		}
	case *types.Named:
		name := u.Obj().Name()
		switch under := u.Underlying().(type) {
		case *types.Struct:
			_ = under
			return mangle(name)
		case *types.Basic:
			return t.leanType(under, pos)
		case *types.Interface:
			if name == "Memory" {
				return "MemVal"
			}
			return "Bool" // non-nil flag
		case *types.Slice:
			return t.leanType(under, pos)
		case *types.Map:
			return t.leanType(under, pos)
		}
	case *types.Slice:
		if b, ok := u.Elem().(*types.Basic); ok && b.Kind() == types.Uint8 {
			return "(List U8)"
		}
	case *types.Pointer:
		if n, ok := u.Elem().(*types.Named); ok && n.Obj().Name() == "Interrupt" {
			return "(Option Interrupt)"
		}
		if n, ok := u.Elem().(*types.Named); ok && n.Obj().Name() == "im0data" {
			return "MemVal"
		}
		return "(Lens " + t.leanType(u.Elem(), pos) + ")"
	case *types.Map:
		// map[uint16]struct{} : set of addresses; nil map = none
		if k, ok := u.Key().(*types.Basic); ok && k.Kind() == types.Uint16 {
			if st, ok := u.Elem().(*types.Struct); ok && st.NumFields() == 0 {
				return "(Option (U16 → Bool))"
			}
		}
	case *types.Tuple:
		parts := []string{}
		for i := 0; i < u.Len(); i++ {
			parts = append(parts, t.leanType(u.At(i).Type(), pos))
		}
		if len(parts) == 0 {
			return "Unit"
		}
		if len(parts) == 1 {
			return parts[0]
		}
		return "(" + strings.Join(parts, " × ") + ")"
	}
	t.failf(pos, "unsupported type %s", ty)
	return ""
}

// width and signedness of a fixed-width integer type; ok=false for int/other
func intWidth(ty types.Type) (w int, signed bool, ok bool) {
	b, isB := ty.Underlying().(*types.Basic)
	if !isB {
		return 0, false, false
	}
	switch b.Kind() {
	case types.Uint8:
		return 8, false, true
	case types.Int8:
		return 8, true, true
	case types.Uint16:
		return 16, false, true
	case types.Int16:
		return 16, true, true
	case types.Uint32:
		return 32, false, true
	case types.Int32:
		return 32, true, true
	}
	return 0, false, false
}

func isGoInt(ty types.Type) bool {
	b, ok := ty.Underlying().(*types.Basic)
	return ok && (b.Kind() == types.Int || b.Kind() == types.UntypedInt)
}

func isBool(ty types.Type) bool {
	b, ok := ty.Underlying().(*types.Basic)
	return ok && (b.Kind() == types.Bool || b.Kind() == types.UntypedBool)
}

func (t *tr) constLit(tv types.TypeAndValue, pos token.Pos) string {
	ty := tv.Type
	if isBool(ty) {
		if constant.BoolVal(tv.Value) {
			return "true"
		}
		return "false"
	}
	if w, _, ok := intWidth(ty); ok {
		v, exact := constant.Int64Val(constant.ToInt(tv.Value))
		if !exact {
			t.failf(pos, "constant too large")
		}
		if v < 0 {
			v += int64(1) << uint(w)
		}
		return fmt.Sprintf("0x%0*x#%d", w/4, v, w)
	}
	if isGoInt(ty) {
		v, exact := constant.Int64Val(constant.ToInt(tv.Value))
		if !exact {
			t.failf(pos, "constant too large")
		}
		if v < 0 {
			return fmt.Sprintf("(%d : Int)", v)
		}
		return fmt.Sprintf("(%d : Int)", v)
	}
	if b, ok := ty.Underlying().(*types.Basic); ok && (b.Kind() == types.String || b.Kind() == types.UntypedString) {
		return fmt.Sprintf("%q", constant.StringVal(tv.Value))
	}
	t.failf(pos, "unsupported constant type %s", ty)
	return ""
}

// ---------------------------------------------------------------------------
// function context

type fctx struct {
	t      *tr
	fi     *funcInfo
	lines  []string
	indent int
	snap   string // current valid state snapshot variable, "" if none
	nsnap  int
	ntmp   int
	muts   map[types.Object]bool // locals that are reassigned
	named  []*types.Var          // named results
	im0    map[string]bool       // names of fields of im0data receiver bound as pattern vars
	swPath string
	swVars []string // "(c0 : U8)" style params for switch arms
	swArgs []string
	sink   *swModule // when translating a switch arm: where calls / nested switches are recorded

	// Run translation
	loopMode  bool
	runFlag   string
	runErrVar string
	checkActs []string
}

func (c *fctx) emit(format string, args ...interface{}) {
	c.lines = append(c.lines, strings.Repeat("  ", c.indent)+fmt.Sprintf(format, args...))
}

func (c *fctx) newTmp() string {
	c.ntmp++
	return fmt.Sprintf("τ%d", c.ntmp)
}

func (c *fctx) getSnap() string {
	if c.fi.kind == kPure {
		panic("snapshot in pure function")
	}
	if c.snap == "" {
		c.nsnap++
		c.snap = fmt.Sprintf("σ%d", c.nsnap)
		c.emit("let %s ← getSt", c.snap)
	}
	return c.snap
}

func (c *fctx) invalidate() { c.snap = "" }

// path of a selector chain rooted at an identifier: cpu.BC.Hi -> root ident, ["BC","Hi"]
func selPath(e ast.Expr) (*ast.Ident, []string, bool) {
	var path []string
	for {
		switch x := e.(type) {
		case *ast.Ident:
			// reverse
			for i, j := 0, len(path)-1; i < j; i, j = i+1, j-1 {
				path[i], path[j] = path[j], path[i]
			}
			return x, path, true
		case *ast.SelectorExpr:
			path = append(path, x.Sel.Name)
			e = x.X
		case *ast.ParenExpr:
			e = x.X
		case *ast.StarExpr:
			// *p : deref of pointer param
			e = x.X
		default:
			return nil, nil, false
		}
	}
}

func (c *fctx) isCPUIdent(id *ast.Ident) bool {
	obj := c.t.info.Uses[id]
	if obj == nil {
		obj = c.t.info.Defs[id]
	}
	if obj == nil {
		return false
	}
	p, ok := obj.Type().(*types.Pointer)
	if !ok {
		return false
	}
	n, ok := p.Elem().(*types.Named)
	return ok && n.Obj().Name() == "CPU"
}

func (c *fctx) isLensIdent(id *ast.Ident) bool {
	obj := c.t.info.Uses[id]
	if obj == nil {
		return false
	}
	if c.isCPUIdent(id) {
		return false
	}
	p, ok := obj.Type().(*types.Pointer)
	if !ok {
		return false
	}
	if n, ok := p.Elem().(*types.Named); ok && (n.Obj().Name() == "im0data" || n.Obj().Name() == "Interrupt") {
		return false
	}
	return true
}

func manglePath(path []string) string {
	out := make([]string, len(path))
	for i, p := range path {
		out[i] = mangle(p)
	}
	return strings.Join(out, ".")
}

// embedded (promoted) field names are dropped: Lean `extends` promotes too, but explicit
// mention of an embedded struct (cpu.States, cpu.GPR) maps to toStates / toGPR.
func (c *fctx) leanPath(root types.Type, path []string, pos token.Pos) string {
	cur := root
	var out []string
	for _, p := range path {
		if ptr, ok := cur.(*types.Pointer); ok {
			cur = ptr.Elem()
		}
		st, ok := cur.Underlying().(*types.Struct)
		if !ok {
			c.t.failf(pos, "selector %s on non-struct %s", p, cur)
		}
		obj, index, _ := types.LookupFieldOrMethod(cur, true, c.t.pkg, p)
		fld, ok := obj.(*types.Var)
		if !ok || fld == nil {
			c.t.failf(pos, "unknown field %s in %s", p, cur)
		}
		_ = index
		_ = st
		if fld.Embedded() {
			out = append(out, "to"+p)
		} else {
			out = append(out, mangle(p))
		}
		cur = fld.Type()
	}
	return strings.Join(out, ".")
}

// ---------------------------------------------------------------------------
// expressions

func (c *fctx) typeOf(e ast.Expr) types.Type {
	tv, ok := c.t.info.Types[e]
	if !ok {
		c.t.failf(e.Pos(), "no type info")
	}
	return tv.Type
}

// expr translates e into a pure Lean term; impure sub-computations are emitted as
// preceding `let τ ← …` lines in Go's lexical left-to-right call order.
func (c *fctx) expr(e ast.Expr) string {
	tv, ok := c.t.info.Types[e]
	if ok && tv.Value != nil {
		return c.t.constLit(tv, e.Pos())
	}
	switch x := e.(type) {
	case *ast.ParenExpr:
		return c.expr(x.X)
	case *ast.Ident:
		if x.Name == "nil" {
			switch c.typeOf(x).Underlying().(type) {
			case *types.Pointer, *types.Map:
				return "none"
			}
			c.t.failf(x.Pos(), "bare nil of type %s", c.typeOf(x))
		}
		if x.Name == "true" || x.Name == "false" {
			return x.Name
		}
		obj := c.t.info.Uses[x]
		if v, ok := obj.(*types.Var); ok {
			if v.Parent() == c.t.pkg.Scope() {
				c.t.failf(x.Pos(), "read of package-level variable %s", x.Name)
			}
			if c.im0 != nil && c.im0[x.Name] {
				return mangle(x.Name)
			}
			return mangle(x.Name)
		}
		c.t.failf(x.Pos(), "unsupported identifier %s", x.Name)
	case *ast.SelectorExpr:
		return c.selector(x)
	case *ast.StarExpr:
		// *p where p is a lens parameter
		if id, ok := x.X.(*ast.Ident); ok && c.isLensIdent(id) {
			return fmt.Sprintf("(%s.get %s)", mangle(id.Name), c.getSnap())
		}
		c.t.failf(x.Pos(), "unsupported dereference")
	case *ast.UnaryExpr:
		switch x.Op {
		case token.NOT:
			return "(!" + c.expr(x.X) + ")"
		case token.XOR:
			return "(~~~" + c.expr(x.X) + ")"
		case token.SUB:
			if isGoInt(c.typeOf(x.X)) {
				return "(-" + c.expr(x.X) + ")"
			}
			return "(-" + c.expr(x.X) + ")"
		case token.AND:
			if cl, ok := x.X.(*ast.CompositeLit); ok {
				return c.composite(cl)
			}
			return c.lensOf(x.X)
		}
		c.t.failf(x.Pos(), "unsupported unary %s", x.Op)
	case *ast.BinaryExpr:
		return c.binary(x)
	case *ast.CallExpr:
		return c.call(x, false)
	case *ast.IndexExpr:
		xt := c.typeOf(x.X)
		if _, ok := xt.Underlying().(*types.Slice); ok {
			xs := c.expr(x.X)
			i := c.expr(x.Index)
			it := c.typeOf(x.Index)
			var in string
			if _, _, ok := intWidth(it); ok {
				in = i + ".toNat"
			} else if isGoInt(it) {
				in = "(" + i + ").toNat"
			} else {
				c.t.failf(x.Pos(), "index type %s", it)
			}
			if c.fi.kind == kPure {
				c.t.failf(x.Pos(), "slice index in pure function")
			}
			tmp := c.newTmp()
			c.emit("let %s ← idx %s (%s)", tmp, xs, in)
			return tmp
		}
		c.t.failf(x.Pos(), "unsupported index expression on %s", xt)
	case *ast.CompositeLit:
		return c.composite(x)
	}
	c.t.failf(e.Pos(), "unsupported expression %T", e)
	return ""
}

func (c *fctx) composite(x *ast.CompositeLit) string {
	ty := c.typeOf(x)
	n, ok := ty.(*types.Named)
	if !ok {
		c.t.failf(x.Pos(), "composite literal of %s", ty)
	}
	st, ok := n.Underlying().(*types.Struct)
	if !ok {
		c.t.failf(x.Pos(), "composite literal of %s", ty)
	}
	vals := map[string]string{}
	for _, el := range x.Elts {
		kv, ok := el.(*ast.KeyValueExpr)
		if !ok {
			c.t.failf(el.Pos(), "positional composite literal")
		}
		vals[kv.Key.(*ast.Ident).Name] = c.expr(kv.Value)
	}
	if n.Obj().Name() == "im0data" {
		args := []string{}
		for i := 0; i < st.NumFields(); i++ {
			v, ok := vals[st.Field(i).Name()]
			if !ok {
				c.t.failf(x.Pos(), "im0data literal must set every field")
			}
			args = append(args, v)
		}
		return "(MemVal.im0data " + strings.Join(args, " ") + ")"
	}
	c.t.failf(x.Pos(), "composite literal of %s", ty)
	return ""
}

func (c *fctx) selector(x *ast.SelectorExpr) string {
	// method value / package selector are handled in call
	root, path, ok := selPath(x)
	if !ok {
		// e.g. f().X
		c.t.failf(x.Pos(), "unsupported selector base")
	}
	if c.isCPUIdent(root) {
		// nil-able pointer field deref: cpu.Interrupt.Type
		if len(path) >= 2 && path[0] == "Interrupt" {
			snap := c.getSnap()
			tmp := c.newTmp()
			c.emit("let %s ← deref %s.Interrupt", tmp, snap)
			return fmt.Sprintf("%s.%s", tmp, manglePath(path[1:]))
		}
		obj := c.t.info.Uses[root]
		lp := c.leanPath(obj.Type(), path, x.Pos())
		return fmt.Sprintf("%s.%s", c.getSnap(), lp)
	}
	obj := c.t.info.Uses[root]
	if obj == nil {
		c.t.failf(x.Pos(), "unknown selector root %s", root.Name)
	}
	if _, isPkg := obj.(*types.PkgName); isPkg {
		c.t.failf(x.Pos(), "unsupported package selector %s.%s", root.Name, x.Sel.Name)
	}
	if c.im0 != nil && root.Name == c.fi.im0Recv {
		if len(path) != 1 {
			c.t.failf(x.Pos(), "im0data path")
		}
		return mangle(path[0])
	}
	if c.isLensIdent(root) {
		p := obj.Type().(*types.Pointer)
		lp := c.leanPath(p.Elem(), path, x.Pos())
		return fmt.Sprintf("(%s.get %s).%s", mangle(root.Name), c.getSnap(), lp)
	}
	// by-value struct local/param
	lp := c.leanPath(obj.Type(), path, x.Pos())
	return fmt.Sprintf("%s.%s", mangle(root.Name), lp)
}

// lensOf builds a Lens for &lvalue
func (c *fctx) lensOf(e ast.Expr) string {
	root, path, ok := selPath(e)
	if !ok || !c.isCPUIdent(root) {
		c.t.failf(e.Pos(), "address-of unsupported lvalue")
	}
	obj := c.t.info.Uses[root]
	lp := c.leanPath(obj.Type(), path, e.Pos())
	return fmt.Sprintf("(⟨fun s => s.%s, fun v s => { s with %s := v }⟩ : Lens _)", lp, lp)
}

func (c *fctx) hasImpureCall(e ast.Expr) bool {
	found := false
	ast.Inspect(e, func(n ast.Node) bool {
		if ce, ok := n.(*ast.CallExpr); ok {
			if tv, ok := c.t.info.Types[ce.Fun]; ok && tv.IsType() {
				return true
			}
			if fi := c.t.calleeInfo(ce); fi != nil {
				if fi.kind == kMon {
					found = true
				}
				return true
			}
			if c.builtinPure(ce) {
				return true
			}
			found = true
		}
		if _, ok := n.(*ast.IndexExpr); ok {
			found = true
		}
		if se, ok := n.(*ast.SelectorExpr); ok {
			// deref of cpu.Interrupt is a checked (possibly panicking) operation
			if r, p, ok := selPath(se); ok && c.isCPUIdent(r) && len(p) >= 2 && p[0] == "Interrupt" {
				found = true
			}
		}
		return true
	})
	return found
}

func (c *fctx) builtinPure(ce *ast.CallExpr) bool {
	if id, ok := ce.Fun.(*ast.Ident); ok && id.Name == "len" {
		return true
	}
	if se, ok := ce.Fun.(*ast.SelectorExpr); ok {
		if id, ok := se.X.(*ast.Ident); ok && id.Name == "bits" && se.Sel.Name == "OnesCount8" {
			return true
		}
	}
	return false
}

func (c *fctx) binary(x *ast.BinaryExpr) string {
	if c.loopMode && x.Op == token.NEQ {
		if ce, ok := isCall(x.X, "atomic", "LoadInt32"); ok && len(ce.Args) == 1 {
			if ue, ok := ce.Args[0].(*ast.UnaryExpr); ok && ue.Op == token.AND {
				if id, ok := ue.X.(*ast.Ident); ok && id.Name == c.runFlag {
					if tv := c.t.info.Types[x.Y]; tv.Value != nil && tv.Value.ExactString() == "0" {
						c.checkActs = append(c.checkActs, ".loadFlag")
						return "canceled"
					}
				}
			}
		}
	}
	lt := c.typeOf(x.X)
	switch x.Op {
	case token.LAND, token.LOR:
		if c.hasImpureCall(x.Y) {
			// short circuit with an impure right operand: nested monadic if
			l := c.expr(x.X)
			tmp := c.newTmp()
			sub := &fctx{t: c.t, fi: c.fi, indent: c.indent + 2, nsnap: c.nsnap, ntmp: c.ntmp, muts: c.muts, im0: c.im0, sink: c.sink}
			r := sub.expr(x.Y)
			c.nsnap, c.ntmp = sub.nsnap, sub.ntmp
			if x.Op == token.LAND {
				c.emit("let %s ← (if %s then (do", tmp, l)
			} else {
				c.emit("let %s ← (if !(%s) then (do", tmp, l)
			}
			c.lines = append(c.lines, sub.lines...)
			c.emit("    pure %s)", r)
			if x.Op == token.LAND {
				c.emit("  else pure false)")
			} else {
				c.emit("  else pure true)")
			}
			c.invalidate()
			return tmp
		}
		l, r := c.expr(x.X), c.expr(x.Y)
		if x.Op == token.LAND {
			return "(" + l + " && " + r + ")"
		}
		return "(" + l + " || " + r + ")"
	}
	// nil comparisons
	if id, ok := x.Y.(*ast.Ident); ok && id.Name == "nil" {
		l := c.nilTest(x.X)
		if x.Op == token.EQL {
			return "(!" + l + ")"
		} else if x.Op == token.NEQ {
			return l
		}
		c.t.failf(x.Pos(), "nil comparison")
	}
	l := c.expr(x.X)
	r := c.expr(x.Y)
	_, _, fixed := intWidth(lt)
	switch x.Op {
	case token.EQL:
		return "(" + l + " == " + r + ")"
	case token.NEQ:
		return "(" + l + " != " + r + ")"
	case token.LSS, token.LEQ, token.GTR, token.GEQ:
		op := map[token.Token]string{token.LSS: "<", token.LEQ: "≤", token.GTR: ">", token.GEQ: "≥"}[x.Op]
		if fixed {
			if _, signed, _ := intWidth(lt); signed {
				c.t.failf(x.Pos(), "signed comparison")
			}
		}
		return "(decide (" + l + " " + op + " " + r + "))"
	case token.ADD:
		return "(" + l + " + " + r + ")"
	case token.SUB:
		return "(" + l + " - " + r + ")"
	case token.MUL:
		return "(" + l + " * " + r + ")"
	case token.REM:
		if isGoInt(lt) {
			return "(Int.tmod " + l + " " + r + ")"
		}
		c.t.failf(x.Pos(), "%% on %s", lt)
	case token.AND:
		return "(" + l + " &&& " + r + ")"
	case token.OR:
		return "(" + l + " ||| " + r + ")"
	case token.XOR:
		return "(" + l + " ^^^ " + r + ")"
	case token.AND_NOT:
		return "(" + l + " &&& ~~~" + r + ")"
	case token.SHL, token.SHR:
		if !fixed {
			c.t.failf(x.Pos(), "shift of %s", lt)
		}
		if _, signed, _ := intWidth(lt); signed && x.Op == token.SHR {
			c.t.failf(x.Pos(), "arithmetic shift")
		}
		op := "<<<"
		if x.Op == token.SHR {
			op = ">>>"
		}
		// shift count
		if tv := c.t.info.Types[x.Y]; tv.Value != nil {
			v, _ := constant.Int64Val(constant.ToInt(tv.Value))
			return fmt.Sprintf("(%s %s %d)", l, op, v)
		}
		rt := c.typeOf(x.Y)
		if _, signed, ok := intWidth(rt); ok && !signed {
			return fmt.Sprintf("(%s %s %s.toNat)", l, op, r)
		}
		c.t.failf(x.Pos(), "shift count type %s", rt)
	}
	c.t.failf(x.Pos(), "unsupported binary operator %s", x.Op)
	return ""
}

// nilTest returns a Bool term "e != nil"
func (c *fctx) nilTest(e ast.Expr) string {
	root, path, ok := selPath(e)
	if ok && c.isCPUIdent(root) && len(path) == 1 {
		ty := c.typeOf(e)
		snap := c.getSnap()
		switch u := ty.Underlying().(type) {
		case *types.Interface:
			if path[0] == "Memory" {
				c.t.failf(e.Pos(), "nil test of Memory")
			}
			return fmt.Sprintf("%s.%s", snap, path[0])
		case *types.Pointer:
			_ = u
			return fmt.Sprintf("%s.%s.isSome", snap, path[0])
		case *types.Map:
			return fmt.Sprintf("%s.%s.isSome", snap, path[0])
		}
	}
	c.t.failf(e.Pos(), "unsupported nil comparison")
	return ""
}

func (t *tr) calleeInfo(ce *ast.CallExpr) *funcInfo {
	var id *ast.Ident
	switch f := ce.Fun.(type) {
	case *ast.Ident:
		id = f
	case *ast.SelectorExpr:
		id = f.Sel
	default:
		return nil
	}
	obj := t.info.Uses[id]
	if obj == nil {
		return nil
	}
	return t.byObj[obj]
}

func (c *fctx) conv(ce *ast.CallExpr) string {
	to := c.typeOf(ce)
	from := c.typeOf(ce.Args[0])
	a := c.expr(ce.Args[0])
	tw, _, tfix := intWidth(to)
	fw, fsigned, ffix := intWidth(from)
	switch {
	case tfix && ffix:
		if tw == fw {
			return a
		}
		if tw < fw || !fsigned {
			return fmt.Sprintf("(%s.setWidth %d)", a, tw)
		}
		return fmt.Sprintf("(%s.signExtend %d)", a, tw)
	case tfix && isGoInt(from):
		return fmt.Sprintf("(BitVec.ofInt %d %s)", tw, a)
	case isGoInt(to) && ffix:
		if fsigned {
			return fmt.Sprintf("(%s.toInt)", a)
		}
		return fmt.Sprintf("(Int.ofNat %s.toNat)", a)
	case isGoInt(to) && isGoInt(from):
		return a
	}
	c.t.failf(ce.Pos(), "unsupported conversion %s -> %s", from, to)
	return ""
}

// call translates a call; if stmt is true the result is unused and a statement line is
// emitted (returns ""), otherwise the call's value is returned as a term.
func (c *fctx) call(ce *ast.CallExpr, stmt bool) string {
	t := c.t
	if tv, ok := t.info.Types[ce.Fun]; ok && tv.IsType() {
		return c.conv(ce)
	}
	// builtins
	if id, ok := ce.Fun.(*ast.Ident); ok {
		if id.Name == "len" {
			return "(goLen " + c.expr(ce.Args[0]) + ")"
		}
	}
	if se, ok := ce.Fun.(*ast.SelectorExpr); ok {
		if id, ok := se.X.(*ast.Ident); ok && id.Name == "bits" && se.Sel.Name == "OnesCount8" {
			return "(popcount " + c.expr(ce.Args[0]) + ")"
		}
		// interface method calls on cpu fields
		if root, path, ok := selPath(se.X); ok && c.isCPUIdent(root) && len(path) == 1 {
			key := path[0] + "." + se.Sel.Name
			prim := map[string]string{
				"IO.In": "ioInUser", "IO.Out": "ioOutUser",
				"RETNHandler.RETNHandle": "callRETN", "RETIHandler.RETIHandle": "callRETI",
			}
			if p, ok := prim[key]; ok {
				args := c.args(ce)
				return c.bindCall(p+args, ce, stmt)
			}
			if path[0] == "Memory" && (se.Sel.Name == "Get" || se.Sel.Name == "Set") {
				args := c.args(ce)
				snap := c.getSnap()
				c.recordCall("Memory_" + se.Sel.Name)
				return c.bindCall(fmt.Sprintf("Memory_%s %s.Memory%s", se.Sel.Name, snap, args), ce, stmt)
			}
		}
		// im0.base.Get(addr)
		if root, path, ok := selPath(se.X); ok && c.im0 != nil && root.Name == c.fi.im0Recv && len(path) == 1 && path[0] == "base" {
			args := c.args(ce)
			c.recordCall("Memory_" + se.Sel.Name)
			return c.bindCall(fmt.Sprintf("Memory_%s base%s", se.Sel.Name, args), ce, stmt)
		}
		// cpu.warnf(msg, code)
		if se.Sel.Name == "warnf" {
			if len(ce.Args) != 2 {
				t.failf(ce.Pos(), "warnf shape")
			}
			return c.bindCall("warn "+c.expr(ce.Args[1]), ce, stmt)
		}
	}
	fi := t.calleeInfo(ce)
	if fi == nil {
		t.failf(ce.Pos(), "call of unknown/unsupported function")
	}
	c.recordCall(fi.name)
	// receiver handling
	var args []string
	if se, ok := ce.Fun.(*ast.SelectorExpr); ok {
		// method call x.m(...)
		recvT := t.info.Selections[se]
		if recvT == nil {
			t.failf(ce.Pos(), "selection")
		}
		if root, _, ok := selPath(se.X); ok && c.isCPUIdent(root) && len(mustPath(se.X)) == 0 {
			// cpu.method(): receiver dropped
		} else {
			sig := fi.decl.Recv.List[0].Type
			if _, isPtr := sig.(*ast.StarExpr); isPtr {
				args = append(args, c.lensOf(se.X))
			} else {
				args = append(args, c.expr(se.X))
			}
		}
	}
	sig := t.info.Defs[fi.decl.Name].Type().(*types.Signature)
	np := sig.Params().Len()
	for i, a := range ce.Args {
		if id, ok := a.(*ast.Ident); ok && c.isCPUIdent(id) {
			continue // the cpu argument is implicit
		}
		if sig.Variadic() && i >= np-1 {
			// pack the rest
			var rest []string
			for _, b := range ce.Args[i:] {
				rest = append(rest, c.expr(b))
			}
			args = append(args, "["+strings.Join(rest, ", ")+"]")
			break
		}
		args = append(args, c.expr(a))
	}
	callTxt := fi.name
	for _, a := range args {
		callTxt += " " + a
	}
	if fi.kind == kPure {
		return "(" + callTxt + ")"
	}
	if c.fi.kind == kPure {
		t.failf(ce.Pos(), "monadic call in pure function")
	}
	return c.bindCall(callTxt, ce, stmt)
}

func mustPath(e ast.Expr) []string {
	_, p, _ := selPath(e)
	return p
}

func (c *fctx) args(ce *ast.CallExpr) string {
	s := ""
	for _, a := range ce.Args {
		s += " " + c.expr(a)
	}
	return s
}

func (c *fctx) recordCall(name string) {
	if _, ok := c.t.funcs[name]; !ok {
		panic(refusal("call of untranslated function " + name))
	}
	c.fi.calls[name] = true
	if c.sink != nil {
		c.sink.calls[name] = true
	}
}

func (c *fctx) bindCall(txt string, ce *ast.CallExpr, stmt bool) string {
	c.invalidate()
	if stmt {
		unit := true
		if tv, ok := c.t.info.Types[ce]; ok {
			if tup, ok := tv.Type.(*types.Tuple); ok {
				unit = tup.Len() == 0
			} else if tv.Type != nil {
				unit = false
			}
		}
		if unit {
			c.emit("%s", txt)
		} else {
			c.emit("let _ ← %s", txt)
		}
		return ""
	}
	// tuple result?
	tmp := c.newTmp()
	c.emit("let %s ← %s", tmp, txt)
	return tmp
}

// ---------------------------------------------------------------------------
// statements

func terminates(stmts []ast.Stmt) bool {
	if len(stmts) == 0 {
		return false
	}
	switch s := stmts[len(stmts)-1].(type) {
	case *ast.ReturnStmt:
		return true
	case *ast.BranchStmt:
		return s.Tok == token.BREAK
	case *ast.BlockStmt:
		return terminates(s.List)
	case *ast.IfStmt:
		if s.Else == nil {
			return false
		}
		var el []ast.Stmt
		switch e := s.Else.(type) {
		case *ast.BlockStmt:
			el = e.List
		case *ast.IfStmt:
			el = []ast.Stmt{e}
		}
		return terminates(s.Body.List) && terminates(el)
	case *ast.SwitchStmt:
		hasDefault := false
		for _, cc := range s.Body.List {
			cl := cc.(*ast.CaseClause)
			if cl.List == nil {
				hasDefault = true
			}
			if !terminates(cl.Body) {
				return false
			}
		}
		return hasDefault
	}
	return false
}

func (c *fctx) block(stmts []ast.Stmt) {
	for i, s := range stmts {
		if is, ok := s.(*ast.IfStmt); ok && is.Else == nil && terminates(is.Body.List) && i < len(stmts)-1 {
			// if c { ...; return }  rest   ==>   if c then ... else rest
			if is.Init != nil {
				c.t.failf(is.Pos(), "if with init")
			}
			cond := c.expr(is.Cond)
			c.emit("if %s then", cond)
			c.sub(func() { c.block(is.Body.List) })
			c.emit("else")
			c.sub(func() { c.block(stmts[i+1:]) })
			return
		}
		c.stmt(s)
	}
	if !terminates(stmts) {
		if c.loopMode {
			if c.indent == 1 {
				c.emit("pure .cont")
			} else {
				c.t.failf(c.fi.decl.Pos(), "Run: nested block that neither returns nor breaks must be followed by the rest of the body")
			}
			return
		}
		if c.fi.decl.Type.Results != nil && len(c.fi.decl.Type.Results.List) > 0 && c.indent == 1 && c.runFlag == "" {
			c.t.failf(c.fi.decl.Pos(), "missing return")
		}
		c.emit("pure ()")
	}
}

// loopBlock translates the body of Run's loop in continuation-passing style: `cont` emits what happens when
// control falls off the end of `stmts` (the rest of the enclosing block, finally `pure .cont`).
func (c *fctx) loopBlock(stmts []ast.Stmt, cont func()) {
	if len(stmts) == 0 {
		cont()
		return
	}
	s, rest := stmts[0], stmts[1:]
	switch x := s.(type) {
	case *ast.IfStmt:
		if x.Else != nil {
			c.t.failf(x.Pos(), "Run: if/else in the loop body")
		}
		if x.Init != nil {
			// `_, ok := cpu.BreakPoints[cpu.PC]`
			as, ok := x.Init.(*ast.AssignStmt)
			if !ok || len(as.Lhs) != 2 || len(as.Rhs) != 1 || as.Tok != token.DEFINE {
				c.t.failf(x.Pos(), "Run: unsupported if-init")
			}
			ie, ok := as.Rhs[0].(*ast.IndexExpr)
			if !ok {
				c.t.failf(x.Pos(), "Run: unsupported if-init expression")
			}
			if _, isMap := c.typeOf(ie.X).Underlying().(*types.Map); !isMap {
				c.t.failf(x.Pos(), "Run: if-init index on non-map")
			}
			root, path, ok2 := selPath(ie.X)
			if !ok2 || !c.isCPUIdent(root) || len(path) != 1 {
				c.t.failf(x.Pos(), "Run: map lookup on something other than a cpu field")
			}
			if id, ok := as.Lhs[0].(*ast.Ident); !ok || id.Name != "_" {
				c.t.failf(x.Pos(), "Run: map lookup value must be discarded")
			}
			key := c.expr(ie.Index)
			c.emit("let %s : Bool := bpHas %s.%s %s", mangle(as.Lhs[1].(*ast.Ident).Name), c.getSnap(), path[0], key)
		}
		cond := c.expr(x.Cond)
		c.emit("if %s then", cond)
		c.sub(func() { c.loopBlock(x.Body.List, func() { c.loopBlock(rest, cont) }) })
		c.emit("else")
		c.sub(func() { c.loopBlock(rest, cont) })
	case *ast.ReturnStmt, *ast.BranchStmt:
		c.stmt(s)
	default:
		c.stmt(s)
		c.loopBlock(rest, cont)
	}
}

// sub runs f one indentation level deeper with a fresh snapshot scope
func (c *fctx) sub(f func()) {
	saved := c.snap
	c.snap = ""
	c.indent++
	f()
	c.indent--
	_ = saved
	c.snap = "" // state may have changed in the branch
}

func (c *fctx) isMut(obj types.Object) bool { return c.muts[obj] }

type lval struct {
	kind int // 0 local, 1 cpu path, 2 lens path, 3 blank
	name string
	path string // lean path for cpu / lens subpath
}

func (c *fctx) lvalue(e ast.Expr) lval {
	if id, ok := e.(*ast.Ident); ok {
		if id.Name == "_" {
			return lval{kind: 3}
		}
		return lval{kind: 0, name: mangle(id.Name)}
	}
	root, path, ok := selPath(e)
	if !ok {
		c.t.failf(e.Pos(), "unsupported assignment target")
	}
	obj := c.t.info.Uses[root]
	if obj == nil {
		c.t.failf(e.Pos(), "assignment root")
	}
	if v, ok := obj.(*types.Var); ok && v.Parent() == c.t.pkg.Scope() {
		c.t.failf(e.Pos(), "write to package-level variable %s", root.Name)
	}
	if c.isCPUIdent(root) {
		lp := c.leanPath(obj.Type(), path, e.Pos())
		c.fi.writes[lp] = true
		return lval{kind: 1, path: lp}
	}
	if c.isLensIdent(root) {
		p := obj.Type().(*types.Pointer)
		lp := ""
		if len(path) > 0 {
			lp = c.leanPath(p.Elem(), path, e.Pos())
		}
		c.fi.writes["*"+root.Name] = true
		return lval{kind: 2, name: mangle(root.Name), path: lp}
	}
	c.t.failf(e.Pos(), "unsupported assignment target root %s", root.Name)
	return lval{}
}

func (c *fctx) assignTo(lv lval, val string) {
	switch lv.kind {
	case 3:
		// blank
	case 0:
		c.emit("%s := %s", lv.name, val)
	case 1:
		c.emit("modifySt fun s => { s with %s := %s }", lv.path, val)
		c.invalidate()
	case 2:
		if lv.path == "" {
			c.emit("modifySt fun s => %s.set %s s", lv.name, val)
		} else {
			c.emit("modifySt fun s => %s.set { %s.get s with %s := %s } s", lv.name, lv.name, lv.path, val)
		}
		c.invalidate()
	}
}

var opAssign = map[token.Token]token.Token{
	token.ADD_ASSIGN: token.ADD, token.SUB_ASSIGN: token.SUB, token.OR_ASSIGN: token.OR,
	token.AND_ASSIGN: token.AND, token.XOR_ASSIGN: token.XOR, token.AND_NOT_ASSIGN: token.AND_NOT,
	token.SHL_ASSIGN: token.SHL, token.SHR_ASSIGN: token.SHR,
}

func (c *fctx) stmt(s ast.Stmt) {
	t := c.t
	switch x := s.(type) {
	case *ast.EmptyStmt:
	case *ast.BlockStmt:
		for _, y := range x.List {
			c.stmt(y)
		}
	case *ast.ExprStmt:
		ce, ok := x.X.(*ast.CallExpr)
		if !ok {
			t.failf(x.Pos(), "expression statement")
		}
		r := c.call(ce, true)
		if r != "" {
			// pure call with unused result: nothing to do
			c.emit("let _ := %s", r)
		}
	case *ast.DeclStmt:
		gd := x.Decl.(*ast.GenDecl)
		if gd.Tok != token.VAR {
			t.failf(x.Pos(), "local declaration %s", gd.Tok)
		}
		for _, sp := range gd.Specs {
			vs := sp.(*ast.ValueSpec)
			for i, n := range vs.Names {
				obj := t.info.Defs[n]
				ty := t.leanType(obj.Type(), n.Pos())
				var val string
				if len(vs.Values) > i {
					val = c.expr(vs.Values[i])
				} else {
					val = zeroOf(obj.Type())
				}
				mut := ""
				if c.isMut(obj) {
					mut = "mut "
				}
				c.emit("let %s%s : %s := %s", mut, mangle(n.Name), ty, val)
			}
		}
	case *ast.IncDecStmt:
		op := token.ADD
		if x.Tok == token.DEC {
			op = token.SUB
		}
		one := &ast.BasicLit{Kind: token.INT, Value: "1"}
		_ = one
		cur := c.expr(x.X)
		w, _, ok := intWidth(c.typeOf(x.X))
		if !ok {
			t.failf(x.Pos(), "++/-- on %s", c.typeOf(x.X))
		}
		sym := "+"
		if op == token.SUB {
			sym = "-"
		}
		lv := c.lvalue(x.X)
		c.assignTo(lv, fmt.Sprintf("(%s %s 0x%0*x#%d)", cur, sym, w/4, 1, w))
	case *ast.AssignStmt:
		c.assign(x)
	case *ast.IfStmt:
		c.ifStmt(x)
	case *ast.ReturnStmt:
		c.ret(x)
	case *ast.SwitchStmt:
		c.switchStmt(x)
	case *ast.BranchStmt:
		if c.loopMode && x.Tok == token.BREAK && x.Label == nil {
			c.emit("pure .brk")
			return
		}
		t.failf(s.Pos(), "unsupported branch statement")
	default:
		t.failf(s.Pos(), "unsupported statement %T", s)
	}
}

func zeroOf(ty types.Type) string {
	if w, _, ok := intWidth(ty); ok {
		return fmt.Sprintf("0x%0*x#%d", w/4, 0, w)
	}
	if isBool(ty) {
		return "false"
	}
	if isGoInt(ty) {
		return "(0 : Int)"
	}
	return "default"
}

func (c *fctx) ret(x *ast.ReturnStmt) {
	if c.loopMode {
		if len(x.Results) != 1 {
			c.t.failf(x.Pos(), "Run: return arity")
		}
		if id, ok := x.Results[0].(*ast.Ident); ok && id.Name == c.runErrVar {
			c.checkActs = append(c.checkActs, ".readErr")
		}
		c.emit("pure (.ret %s)", c.runErr(x.Results[0]))
		return
	}
	if len(x.Results) == 0 {
		if len(c.named) > 0 {
			var ns []string
			for _, v := range c.named {
				ns = append(ns, mangle(v.Name()))
			}
			c.emit("pure (%s)", strings.Join(ns, ", "))
			return
		}
		c.emit("pure ()")
		return
	}
	var vals []string
	for _, r := range x.Results {
		vals = append(vals, c.expr(r))
	}
	if len(vals) == 1 {
		c.emit("pure %s", vals[0])
	} else {
		c.emit("pure (%s)", strings.Join(vals, ", "))
	}
}

// pureIf recognises `if c { v op= e } [else if ... | else { v op= e' }]` where every condition and
// right-hand side is pure and every branch assigns the same local variable exactly once; such a
// statement is the conditional expression `v := if c then … else …` (no control flow).
func (c *fctx) pureIf(x *ast.IfStmt) (lhs *ast.Ident, build func() string, ok bool) {
	if x.Init != nil || c.hasImpureCall(x.Cond) {
		return nil, nil, false
	}
	one := func(stmts []ast.Stmt) (*ast.Ident, *ast.AssignStmt, bool) {
		if len(stmts) != 1 {
			return nil, nil, false
		}
		as, ok := stmts[0].(*ast.AssignStmt)
		if !ok || len(as.Lhs) != 1 || len(as.Rhs) != 1 || as.Tok == token.DEFINE {
			return nil, nil, false
		}
		id, ok := as.Lhs[0].(*ast.Ident)
		if !ok || id.Name == "_" || c.hasImpureCall(as.Rhs[0]) {
			return nil, nil, false
		}
		if _, isVar := c.t.info.Uses[id].(*types.Var); !isVar {
			return nil, nil, false
		}
		return id, as, true
	}
	id, as, ok1 := one(x.Body.List)
	if !ok1 {
		return nil, nil, false
	}
	valOf := func(as *ast.AssignStmt) string {
		if op, isOp := opAssign[as.Tok]; isOp {
			be := &ast.BinaryExpr{X: as.Lhs[0], Op: op, Y: as.Rhs[0], OpPos: as.TokPos}
			c.t.info.Types[be] = types.TypeAndValue{Type: c.typeOf(as.Lhs[0])}
			return c.binary(be)
		}
		return c.expr(as.Rhs[0])
	}
	var elseBuild func() string
	switch e := x.Else.(type) {
	case nil:
		elseBuild = func() string { return mangle(id.Name) }
	case *ast.BlockStmt:
		id2, as2, ok2 := one(e.List)
		if !ok2 || c.t.info.Uses[id2] != c.t.info.Uses[id] {
			return nil, nil, false
		}
		elseBuild = func() string { return valOf(as2) }
	case *ast.IfStmt:
		id2, b2, ok2 := c.pureIf(e)
		if !ok2 || c.t.info.Uses[id2] != c.t.info.Uses[id] {
			return nil, nil, false
		}
		elseBuild = b2
	default:
		return nil, nil, false
	}
	return id, func() string {
		cond := c.expr(x.Cond)
		th := valOf(as)
		el := elseBuild()
		return fmt.Sprintf("(if %s then %s else %s)", cond, th, el)
	}, true
}

func (c *fctx) ifStmt(x *ast.IfStmt) {
	if x.Init != nil {
		c.t.failf(x.Pos(), "if with init statement")
	}
	if id, build, ok := c.pureIf(x); ok && c.fi.kind == kMon {
		val := build()
		c.emit("%s := %s", mangle(id.Name), val)
		return
	}
	cond := c.expr(x.Cond)
	c.emit("if %s then", cond)
	c.sub(func() { c.block(x.Body.List) })
	if x.Else != nil {
		switch e := x.Else.(type) {
		case *ast.BlockStmt:
			c.emit("else")
			c.sub(func() { c.block(e.List) })
		case *ast.IfStmt:
			c.emit("else")
			c.sub(func() { c.ifStmt(e); })
		}
	}
	c.invalidate()
}

func (c *fctx) assign(x *ast.AssignStmt) {
	t := c.t
	if op, ok := opAssign[x.Tok]; ok {
		if len(x.Lhs) != 1 {
			t.failf(x.Pos(), "op-assign arity")
		}
		be := &ast.BinaryExpr{X: x.Lhs[0], Op: op, Y: x.Rhs[0], OpPos: x.TokPos}
		// type info for synthetic node: same as LHS
		t.info.Types[be] = types.TypeAndValue{Type: c.typeOf(x.Lhs[0])}
		val := c.binary(be)
		lv := c.lvalue(x.Lhs[0])
		c.assignTo(lv, val)
		return
	}
	if x.Tok != token.ASSIGN && x.Tok != token.DEFINE {
		t.failf(x.Pos(), "assignment operator %s", x.Tok)
	}
	define := x.Tok == token.DEFINE
	// tuple from a single call
	if len(x.Lhs) > 1 && len(x.Rhs) == 1 {
		ce, ok := x.Rhs[0].(*ast.CallExpr)
		if !ok {
			t.failf(x.Pos(), "tuple assignment from non-call")
		}
		val := c.call(ce, false)
		var tmps []string
		for range x.Lhs {
			tmps = append(tmps, c.newTmp())
		}
		c.emit("let (%s) := %s", strings.Join(tmps, ", "), val)
		for i, l := range x.Lhs {
			c.bindOrAssign(l, tmps[i], define)
		}
		return
	}
	if len(x.Lhs) != len(x.Rhs) {
		t.failf(x.Pos(), "assignment arity")
	}
	// evaluate all right-hand sides first (parallel assignment)
	var vals []string
	for i, r := range x.Rhs {
		if id, ok := r.(*ast.Ident); ok && id.Name == "nil" {
			switch c.typeOf(x.Lhs[i]).Underlying().(type) {
			case *types.Pointer, *types.Map:
				vals = append(vals, "none")
				continue
			}
			t.failf(r.Pos(), "nil assigned to %s", c.typeOf(x.Lhs[i]))
		}
		vals = append(vals, c.expr(r))
	}
	if len(x.Lhs) > 1 {
		// parallel assignment: the right-hand sides must not depend on the writes; bind to temporaries
		for i := range vals {
			tmp := c.newTmp()
			c.emit("let %s := %s", tmp, vals[i])
			vals[i] = tmp
		}
	}
	for i, l := range x.Lhs {
		c.bindOrAssign(l, vals[i], define)
	}
}

func (c *fctx) bindOrAssign(l ast.Expr, val string, define bool) {
	if id, ok := l.(*ast.Ident); ok {
		if id.Name == "_" {
			return
		}
		if define {
			if obj := c.t.info.Defs[id]; obj != nil {
				mut := ""
				if c.isMut(obj) {
					mut = "mut "
				}
				c.emit("let %s%s : %s := %s", mut, mangle(id.Name), c.t.leanType(obj.Type(), id.Pos()), val)
				return
			}
		}
		c.emit("%s := %s", mangle(id.Name), val)
		return
	}
	c.assignTo(c.lvalue(l), val)
}

// ---------------------------------------------------------------------------
// switch

func caseValue(t *tr, e ast.Expr) int64 {
	tv := t.info.Types[e]
	if tv.Value == nil {
		t.failf(e.Pos(), "non-constant case")
	}
	v, _ := constant.Int64Val(constant.ToInt(tv.Value))
	return v
}

func (c *fctx) switchStmt(x *ast.SwitchStmt) {
	t := c.t
	ncases := 0
	for _, cc := range x.Body.List {
		ncases += len(cc.(*ast.CaseClause).List)
	}
	if ncases <= 8 {
		c.smallSwitch(x)
		return
	}
	// big switch: must be in tail position of a Unit function body / arm; arms become defs
	if x.Init != nil {
		c.stmt(x.Init)
		// collect newly defined variables as arm parameters
		as := x.Init.(*ast.AssignStmt)
		for _, l := range as.Lhs {
			id := l.(*ast.Ident)
			obj := t.info.Defs[id]
			c.swVars = append(c.swVars, fmt.Sprintf("(%s : %s)", mangle(id.Name), t.leanType(obj.Type(), id.Pos())))
			c.swArgs = append(c.swArgs, mangle(id.Name))
		}
	}
	tagT := c.typeOf(x.Tag)
	if w, _, ok := intWidth(tagT); !ok || w != 8 {
		t.failf(x.Pos(), "big switch on non-byte tag")
	}
	tag := c.expr(x.Tag)
	swName := c.fi.name + "_sw" + c.swPath
	params := strings.Join(c.swVars, " ")
	argl := strings.Join(c.swArgs, " ")
	used := map[int64]string{}
	defName := ""
	mod := &swModule{name: "Sw_" + swName, calls: map[string]bool{}}
	var armDefs []string
	for _, cc := range x.Body.List {
		cl := cc.(*ast.CaseClause)
		var armName string
		if cl.List == nil {
			armName = c.fi.name + "_arm" + c.swPath + "_default"
			defName = armName
		} else {
			armName = fmt.Sprintf("%s_arm%s_%02x", c.fi.name, c.swPath, caseValue(t, cl.List[0]))
			for _, e := range cl.List {
				v := caseValue(t, e)
				if _, dup := used[v]; dup {
					t.failf(e.Pos(), "duplicate case")
				}
				used[v] = armName
			}
		}
		sub := &fctx{t: t, fi: c.fi, indent: 1, muts: c.muts, im0: c.im0, sink: mod,
			swVars: append([]string{}, c.swVars...), swArgs: append([]string{}, c.swArgs...)}
		if cl.List != nil {
			sub.swPath = fmt.Sprintf("%s_%02x", c.swPath, caseValue(t, cl.List[0]))
		} else {
			sub.swPath = c.swPath + "_default"
		}
		sub.block(cl.Body)
		armDefs = append(armDefs, fmt.Sprintf("@[z80gen] def %s %s : M Unit := do\n%s\n", armName, params, strings.Join(sub.lines, "\n")))
		t.arms = append(t.arms, armRec{Switch: swName, Arm: armName, Values: valuesOf(t, cl), Line: t.fset.Position(cl.Pos()).Line, Calls: directCalls(t, cl)})
	}
	if defName == "" {
		t.failf(x.Pos(), "big switch without default")
	}
	var b strings.Builder
	for _, a := range armDefs {
		b.WriteString(a)
		b.WriteString("\n")
	}
	// dispatch
	fmt.Fprintf(&b, "def %s %s : M Unit :=\n  match (%s).toNat with\n", swName, params, tag)
	for v := int64(0); v < 256; v++ {
		if a, ok := used[v]; ok {
			fmt.Fprintf(&b, "  | 0x%02x => %s %s\n", v, a, argl)
		}
	}
	fmt.Fprintf(&b, "  | _ => %s %s\n\n", defName, argl)
	// per-value rfl lemmas
	if len(c.swArgs) == 0 {
		t.failf(x.Pos(), "big switch without init variable")
	}
	lastArg := c.swArgs[len(c.swArgs)-1]
	if tag != lastArg {
		t.failf(x.Pos(), "big switch tag must be the last init variable")
	}
	pre := strings.Join(c.swVars[:len(c.swVars)-1], " ")
	preArgs := strings.Join(c.swArgs[:len(c.swArgs)-1], " ")
	if preArgs != "" {
		preArgs += " "
	}
	for v := int64(0); v < 256; v++ {
		a, ok := used[v]
		if !ok {
			a = defName
		}
		fmt.Fprintf(&b, "theorem %s_at_%02x %s : %s %s0x%02x#8 = %s %s0x%02x#8 := rfl\n", swName, v, pre, swName, preArgs, v, a, preArgs, v)
	}
	mod.text = b.String()
	t.swModules = append(t.swModules, mod)
	if c.sink != nil {
		c.sink.subSw = append(c.sink.subSw, mod.name)
	} else {
		c.fi.swMods = append(c.fi.swMods, mod.name)
	}
	t.switches = append(t.switches, swRec{Name: swName, Params: c.swArgs, Default: defName})
	c.emit("%s %s", swName, argl)
	c.invalidate()
}

func (c *fctx) extra() []string {
	return nil
}

func valuesOf(t *tr, cl *ast.CaseClause) []int {
	var out []int
	for _, e := range cl.List {
		out = append(out, int(caseValue(t, e)))
	}
	return out
}

func directCalls(t *tr, cl *ast.CaseClause) []string {
	var out []string
	for _, s := range cl.Body {
		ast.Inspect(s, func(n ast.Node) bool {
			if _, ok := n.(*ast.SwitchStmt); ok {
				return false
			}
			if ce, ok := n.(*ast.CallExpr); ok {
				if fi := t.calleeInfo(ce); fi != nil {
					out = append(out, fi.name)
				}
			}
			return true
		})
	}
	return out
}

func (c *fctx) smallSwitch(x *ast.SwitchStmt) {
	t := c.t
	if x.Init != nil {
		c.stmt(x.Init)
	}
	tag := c.expr(x.Tag)
	tmp := c.newTmp()
	c.emit("let %s := %s", tmp, tag)
	var def *ast.CaseClause
	first := true
	depth := 0
	for _, cc := range x.Body.List {
		cl := cc.(*ast.CaseClause)
		if cl.List == nil {
			def = cl
			continue
		}
		var conds []string
		for _, e := range cl.List {
			conds = append(conds, fmt.Sprintf("%s == %s", tmp, c.expr(e)))
		}
		if !first {
			c.emit("else")
			c.indent++
			depth++
		}
		first = false
		c.emit("if %s then", strings.Join(conds, " || "))
		c.sub(func() { c.block(cl.Body) })
	}
	if def != nil {
		c.emit("else")
		c.sub(func() { c.block(def.Body) })
	} else {
		t.failf(x.Pos(), "small switch without default")
	}
	c.indent -= depth
	c.invalidate()
}

// ---------------------------------------------------------------------------

type armRec struct {
	Switch string   `json:"switch"`
	Arm    string   `json:"arm"`
	Values []int    `json:"values"`
	Line   int      `json:"line"`
	Calls  []string `json:"calls"`
}
type swRec struct {
	Name    string   `json:"name"`
	Params  []string `json:"params"`
	Default string   `json:"default"`
}

func main() {
	flag.Parse()
	if *outDir == "" {
		fmt.Fprintln(os.Stderr, "usage: go2lean -repo /repo -out DIR")
		os.Exit(2)
	}
	defer func() {
		if r := recover(); r != nil {
			if msg, ok := r.(refusal); ok {
				fmt.Fprintf(os.Stderr, "go2lean: REFUSED: %s\n", string(msg))
				os.Exit(3)
			}
			panic(r)
		}
	}()
	run()
}
