/-
  DriverCPMGlueSpec — (fallback oracle, hand-written glue) operation sequences on the mini CP/M machine's Go glue (tinycpm.Memory / tinycpm.IO), executed by the methods
  go2lean TRANSLATED from internal/tinycpm (Z80/Gen/CPMGlue.lean) on a memory built as NewMemory builds it (the regenerated pages
  Gen.cpmBios installed by the translated `put`).  One canonical answer per line; compared with the real package by the
  `cpmglue` correspondence stream.  Usage: lake env lean --run DriverCPMGlue.lean
-/
import Z80.Proto
import Z80.Gen.TinyCPM

open Z80 Z80.Proto

/-! hand-written reading of the glue (what the translation is proved equal to in Props/C18Glue.lean); used as the oracle of the `cpmglue`
    stream when the CURRENT source cannot be translated, so that the search still has something to compare the real code with -/
namespace GlueSpec
inductive Effect | write (writer : Nat) (bytes : List U8) | warn (logger : Nat)
structure Memory where
  buf : List U8
structure IO where
  stdout : Nat
  warnl : Nat
def Memory_Get (m : Memory) (a : U16) : Option (Memory × List Effect × U8) := (m.buf[a.toNat]?).map fun v => (m, [], v)
def Memory_Set (m : Memory) (a : U16) (v : U8) : Option (Memory × List Effect) :=
  if a.toNat < m.buf.length then some ({ buf := m.buf.set a.toNat v }, []) else none
def Memory_put (m : Memory) (a : U16) (data : List U8) : Option (Memory × List Effect) :=
  if a.toNat + data.length ≤ m.buf.length then some ({ buf := m.buf.take a.toNat ++ data ++ m.buf.drop (a.toNat + data.length) }, []) else none
def IO_In (io : IO) (_p : U8) : Option (IO × List Effect × U8) := some (io, [.warn io.warnl], 0#8)
def IO_Out (io : IO) (p v : U8) : Option (IO × List Effect) := some (io, if p = 0#8 then [.write io.stdout [v]] else [.warn io.warnl])
def IO_SetStdout (io : IO) (w : Nat) : Option (IO × List Effect) := some ({ io with stdout := w }, [])
def IO_SetWarnLogger (io : IO) (l : Nat) : Option (IO × List Effect) := some ({ io with warnl := l }, [])
end GlueSpec
open GlueSpec

structure World where
  mem : Memory
  io : GlueSpec.IO
  fx : List Effect          -- oldest first

/-- NewMemory: a zeroed 64 KiB array with the pages installed, in order, by the translated `put` -/
def newMemory : Option Memory :=
  Z80.Gen.cpmBios.foldlM (init := ({ buf := List.replicate 65536 0#8 } : Memory)) fun m p =>
    (Memory_put m (BitVec.ofNat 16 p.1) (p.2.map (BitVec.ofNat 8))).map (·.1)

def written (w : Nat) (fx : List Effect) : List U8 :=
  fx.flatMap fun e => match e with | .write w' b => if w' = w then b else [] | .warn _ => []
def warned (l : Nat) (fx : List Effect) : Nat :=
  (fx.filter fun e => match e with | .warn l' => l' = l | _ => false).length

def stepGlue (w : Option World) (t : List String) : Option World × String :=
  let a16 (s : String) : Option U16 := (parseHex s).map (BitVec.ofNat 16)
  let a8 (s : String) : Option U8 := (parseHex s).map (BitVec.ofNat 8)
  match t, w with
  | ["new"], _ =>
    (match newMemory with
     | some m => (some { mem := m, io := { stdout := 0, warnl := 0 }, fx := [] }, "ok")
     | none => (none, "panic"))
  | _, none => (none, "bad")
  | ["mget", a], some w =>
    (match a16 a with
     | some a => (match Memory_Get w.mem a with
       | some (m, fx, v) => (some { w with mem := m, fx := w.fx ++ fx }, hex8 v)
       | none => (some w, "panic"))
     | none => (some w, "bad"))
  | ["mset", a, v], some w =>
    (match a16 a, a8 v with
     | some a, some v => (match Memory_Set w.mem a v with
       | some (m, fx) => (some { w with mem := m, fx := w.fx ++ fx }, "ok")
       | none => (some w, "panic"))
     | _, _ => (some w, "bad"))
  | ["in", p], some w =>
    (match a8 p with
     | some p => (match IO_In w.io p with
       | some (io, fx, v) => (some { w with io := io, fx := w.fx ++ fx }, hex8 v)
       | none => (some w, "panic"))
     | none => (some w, "bad"))
  | ["out", p, v], some w =>
    (match a8 p, a8 v with
     | some p, some v => (match IO_Out w.io p v with
       | some (io, fx) => (some { w with io := io, fx := w.fx ++ fx }, "ok")
       | none => (some w, "panic"))
     | _, _ => (some w, "bad"))
  | ["stdout", k], some w =>
    (match k.toNat? with
     | some k => (match IO_SetStdout w.io (k % 3) with
       | some (io, fx) => (some { w with io := io, fx := w.fx ++ fx }, "ok")
       | none => (some w, "panic"))
     | none => (some w, "bad"))
  | ["warnl", k], some w =>
    (match k.toNat? with
     | some k => (match IO_SetWarnLogger w.io (k % 3) with
       | some (io, fx) => (some { w with io := io, fx := w.fx ++ fx }, "ok")
       | none => (some w, "panic"))
     | none => (some w, "bad"))
  | ["dump"], some w =>
    let ws := [0, 1, 2].map fun k => "w" ++ toString k ++ "=" ++ (let b := written k w.fx; if b.isEmpty then "-" else hexBytes b)
    let ls := [0, 1, 2].map fun k => "l" ++ toString k ++ "=" ++ toString (warned k w.fx)
    (some w, "dump " ++ String.intercalate " " (ws ++ ls))
  | _, some w => (some w, "bad")

partial def loop (h : IO.FS.Stream) (out : IO.FS.Stream) (w : Option World) : IO Unit := do
  let line ← h.getLine
  if line.isEmpty then return ()
  let line := line.trimAsciiEnd.toString
  if line.isEmpty then loop h out w
  else
    let (w', o) := stepGlue w ((line.splitOn " ").filter (· ≠ ""))
    out.putStrLn o
    loop h out w'

def main : IO Unit := do
  loop (← IO.getStdin) (← IO.getStdout) none
