package main

// Vector generators.  Every random choice comes from one splitmix64 state seeded by -seed.

import (
	"bufio"
	"flag"
	"fmt"
	"os"
	"strconv"
	"strings"
)

type rng struct{ s uint64 }

func (r *rng) next() uint64 {
	r.s += 0x9E3779B97F4A7C15
	z := r.s
	z = (z ^ (z >> 30)) * 0xBF58476D1CE4E5B9
	z = (z ^ (z >> 27)) * 0x94D049BB133111EB
	return z ^ (z >> 31)
}
func (r *rng) n(k int) int       { return int(r.next() % uint64(k)) }
func (r *rng) u8() uint8         { return uint8(r.next()) }
func (r *rng) u16() uint16       { return uint16(r.next()) }
func (r *rng) chance(p int) bool { return r.n(100) < p }

var edge16 = []uint16{0x0000, 0x0001, 0x00ff, 0x0100, 0x7fff, 0x8000, 0xfffe, 0xffff, 0x0fff, 0x1000, 0x7f00, 0x80ff}
var edge8 = []uint8{0x00, 0x01, 0x0f, 0x10, 0x7f, 0x80, 0xff, 0xfe, 0x99, 0x9a, 0x09, 0x0a}
var edgeF = []uint8{0x00, 0xff, 0x01, 0x02, 0x04, 0x08, 0x10, 0x20, 0x40, 0x80, 0xd7, 0x28}

func (r *rng) w16() uint16 {
	if r.chance(35) {
		return edge16[r.n(len(edge16))]
	}
	return r.u16()
}
func (r *rng) b8() uint8 {
	if r.chance(35) {
		return edge8[r.n(len(edge8))]
	}
	return r.u8()
}
func (r *rng) reg() uint16 {
	switch r.n(4) {
	case 0:
		return r.w16()
	case 1:
		return uint16(r.b8())<<8 | uint16(r.b8())
	default:
		return r.u16()
	}
}

// randomState fills everything but the program bytes
func (r *rng) randomState(id string) *Vec {
	v := &Vec{ID: id, Kind: "step", N: 1, BP: "nil"}
	for i := range v.W {
		v.W[i] = r.reg()
	}
	// F from the flag classes
	f := r.u8()
	if r.chance(40) {
		f = edgeF[r.n(len(edgeF))]
	}
	v.W[0] = v.W[0]&0xff00 | uint16(f)
	// PC: mostly anywhere, sometimes at the wrap
	if r.chance(20) {
		v.W[12] = []uint16{0xffff, 0xfffe, 0xfffd, 0xfffc, 0x0000, 0x0001}[r.n(6)]
	}
	// SP at wrap sometimes
	if r.chance(15) {
		v.W[11] = []uint16{0x0000, 0x0001, 0x0002, 0xffff, 0xfffe}[r.n(5)]
	}
	// pointers overlapping the instruction / the stack
	if r.chance(10) {
		i := []int{1, 2, 3, 9, 10, 11}[r.n(6)]
		v.W[i] = v.W[12] + uint16(r.n(7)) - 3
	}
	if r.chance(5) {
		v.W[11] = v.W[12] + uint16(r.n(6))
	}
	// aliased pointers: two of BC DE HL IX IY SP equal, or one apart
	if r.chance(12) {
		ptr := []int{1, 2, 3, 9, 10, 11}
		i, j := ptr[r.n(6)], ptr[r.n(6)]
		if i != j {
			v.W[j] = v.W[i] + uint16(r.n(3)) - 1
		}
	}
	// byte-boundary counters: BC = xx00 / 0001 / 0100, B = 0 / 1
	if r.chance(10) {
		v.W[1] = []uint16{0x0000, 0x0001, 0x0002, 0x0100, 0x0101, 0x0200, 0xff00, 0x00ff, 0x0201}[r.n(9)]
	}
	v.IFF1, v.IFF2 = r.chance(50), r.chance(50)
	v.HALT = r.chance(10)
	v.IM = r.n(3)
	if r.chance(5) {
		v.IM = []int{3, -1, 7, 255}[r.n(4)]
	}
	v.HasIO = !r.chance(8)
	v.HasRN = r.chance(70)
	v.HasRI = r.chance(70)
	v.MemSeed = uint(r.n(1 << 20))
	v.DevSeed = uint(r.n(1 << 20))
	// breakpoints are none of Step's business: an empty (non-nil) set, the current PC, the next address and a random one must change nothing
	if r.chance(12) {
		v.BP = []string{"-", fmt.Sprintf("%04x", v.W[12]), fmt.Sprintf("%04x,%04x", v.W[12]+1, r.w16())}[r.n(3)]
	}
	return v
}

var tablePrefix = map[string][]uint8{
	"main": {}, "cb": {0xcb}, "ed": {0xed}, "dd": {0xdd}, "fd": {0xfd}, "ddcb": {0xdd, 0xcb}, "fdcb": {0xfd, 0xcb},
}
var tableOrder = []string{"main", "cb", "ed", "dd", "fd", "ddcb", "fdcb"}

func (r *rng) slotVec(id, table string, op uint8) *Vec {
	v := r.randomState(id)
	var bytes []uint8
	switch table {
	case "ddcb", "fdcb":
		bytes = append(bytes, tablePrefix[table]...)
		bytes = append(bytes, r.b8(), op) // displacement then opcode
	default:
		bytes = append(bytes, tablePrefix[table]...)
		bytes = append(bytes, op, r.b8(), r.b8(), r.b8())
	}
	v.Over = []Override{{v.W[12], bytes}}
	return v
}

func cmdGen(args []string) {
	if len(args) < 1 {
		fmt.Fprintln(os.Stderr, "gen <slots|intr|malformed|prog> ...")
		os.Exit(2)
	}
	kind := args[0]
	fs := flag.NewFlagSet("gen", flag.ExitOnError)
	seed := fs.Uint64("seed", 1, "seed")
	per := fs.Int("per", 4, "vectors per slot")
	n := fs.Int("n", 1000, "number of vectors")
	tables := fs.String("tables", "", "comma separated tables (default all)")
	ops := fs.String("ops", "", "comma separated hex opcodes (default all)")
	inj1 := fs.Int("inj1", 0, "slots: percentage of vectors that run TWO Steps with a request (NMI / maskable) raised at the boundary between them")
	toppc := fs.Int("toppc", 0, "slots: percentage of vectors whose PC is one of FFFB..FFFF (the instruction straddles or touches the top of the address space)")
	pend := fs.Int("pend", 0, "slots: percentage of vectors that carry a REFUSED maskable request (IFF1 clear, request pending with 0..3 data bytes)")
	fs.Parse(args[1:])
	r := &rng{s: *seed*0x2545F4914F6CDD1D + 0x1234567}
	out := bufio.NewWriterSize(os.Stdout, 1<<20)
	defer out.Flush()
	switch kind {
	case "slots":
		tl := tableOrder
		if *tables != "" {
			tl = strings.Split(*tables, ",")
		}
		var opl []int
		if *ops != "" {
			for _, o := range strings.Split(*ops, ",") {
				x, _ := strconv.ParseUint(o, 16, 8)
				opl = append(opl, int(x))
			}
		} else {
			for i := 0; i < 256; i++ {
				opl = append(opl, i)
			}
		}
		for _, t := range tl {
			for _, op := range opl {
				for k := 0; k < *per; k++ {
					v := r.slotVec(fmt.Sprintf("%s-%02x-%d", t, op, k), t, uint8(op))
					if *toppc > 0 && r.chance(*toppc) {
						old := v.W[12]
						v.W[12] = uint16(0xfffb + r.n(5))
						for i := range v.Over {
							if v.Over[i].Addr == old {
								v.Over[i].Addr = v.W[12]
							}
						}
					}
					if *pend > 0 && r.chance(*pend) {
						// the instruction runs with a request waiting that the CPU must refuse (and keep)
						v.ID = fmt.Sprintf("%s-%02x-p%d", t, op, k)
						v.IFF1 = false
						in := &Intr{Type: 1}
						for j := r.n(4); j > 0; j-- {
							in.Data = append(in.Data, r.u8())
						}
						v.Intr = in
						if r.chance(50) {
							v.W[1] = uint16(2 + r.n(4)) // BC small and >= 2: a block instruction repeats
						}
					}
					if *inj1 > 0 && v.Intr == nil && r.chance(*inj1) {
						// what the first Step leaves behind besides the public state must not matter to the acceptance that follows
						v.ID = fmt.Sprintf("%s-%02x-j%d", t, op, k)
						v.N = 2
						q := Intr{Type: r.n(2)}
						if q.Type == 1 && r.chance(60) {
							q.Data = []uint8{[]uint8{0xff, 0xef, 0x10, 0x13}[r.n(4)]}
						}
						v.Inj = []Inject{{At: 1, Intr: q}}
						if r.chance(70) {
							v.IFF1, v.IFF2 = true, true
						}
					}
					fmt.Fprintln(out, v.String())
				}
			}
		}
	case "im0twice":
		genIM0Twice(r, out, *n)
	case "malformed":
		for i := 0; i < *n; i++ {
			v := r.randomState(fmt.Sprintf("mal-%d", i))
			v.N = 1 + r.n(6)
			if r.chance(50) {
				// random interrupt of any shape
				in := &Intr{Type: []int{0, 1, 1, 1, 2, -1, 99}[r.n(7)]}
				for k := r.n(5); k > 0; k-- {
					in.Data = append(in.Data, r.u8())
				}
				v.Intr = in
			}
			fmt.Fprintln(out, v.String())
		}
	case "intr":
		genIntr(r, out, *n)
	case "run":
		genRun(r, out, *n)
	case "memio":
		genMemio(r, out, *n)
	case "block":
		genBlock(r, out, *n, *per)
	case "inject":
		genInject(r, out, *n, *per)
	case "cpm":
		genCPM(r, out, *n, *per)
	case "cpmglue":
		genCPMGlue(r, out, *n)
	case "runirq":
		genRunIRQ(r, out, *n)
	case "alucube":
		genALUCube(r, out, *per, *n)
	default:
		fmt.Fprintln(os.Stderr, "unknown gen kind", kind)
		os.Exit(2)
	}
}

// genIM0Twice: a mode-0 request is accepted (RST 38h), the handler re-enables interrupts, and a SECOND mode-0 request arrives that pushes /
// takes operands from memory (RST, CALL nn, JP with its operand in memory, PUSH): histories in which something remembered from the first
// acceptance could matter to the second
func genIM0Twice(r *rng, out *bufio.Writer, n int) {
	for i := 0; i < n; i++ {
		v := r.randomState(fmt.Sprintf("im0x2-%d", i))
		v.IM, v.IFF1, v.IFF2, v.HALT = 0, true, true, false
		v.W[12] = uint16(0x0100 + r.n(0xe000))
		v.W[11] = uint16(0xf000 + r.n(0x0f00))
		v.BP = "nil"
		v.Intr = &Intr{Type: 1, Data: []uint8{0xff}} // RST 38h
		second := [][]uint8{{0xef}, {0xcd, 0x34, 0x12}, {0xc3}, {0xcd}, {0xe5}, {0xc5}, {0xd7}}[r.n(7)]
		v.Inj = []Inject{{At: 3, Intr: Intr{Type: 1, Data: second}}}
		v.N = 5
		v.Over = []Override{{0x0038, []uint8{0xfb, 0x00, 0x00, 0x00, 0x00}}, {0x0028, []uint8{0x00, 0x00}}, {0x0010, []uint8{0x00, 0x00}}, {0x1234, []uint8{0x00, 0x00}}}
		fmt.Fprintln(out, v.String())
	}
}

// genIntr: request kind x IM x IFF1 x IFF2 x halted x data shapes, control bits enumerated
func genIntr(r *rng, out *bufio.Writer, n int) {
	i := 0
	for i < n {
		for _, ty := range []int{0, 1} {
			for _, im := range []int{0, 1, 2} {
				for ctl := 0; ctl < 8; ctl++ {
					v := r.randomState(fmt.Sprintf("int-%d", i))
					i++
					v.IM = im
					v.IFF1, v.IFF2, v.HALT = ctl&1 != 0, ctl&2 != 0, ctl&4 != 0
					in := &Intr{Type: ty}
					switch {
					case ty == 0:
						// NMI: data irrelevant
						if r.chance(30) {
							in.Data = []uint8{r.u8()}
						}
					case im == 0:
						// supplied instruction: RST, CALL nn, or anything
						switch r.n(4) {
						case 0:
							in.Data = []uint8{0xc7 | uint8(r.n(8))<<3}
						case 1:
							in.Data = []uint8{0xcd, r.u8(), r.u8()}
						case 2:
							in.Data = []uint8{r.u8()}
						default:
							for k := 1 + r.n(4); k > 0; k-- {
								in.Data = append(in.Data, r.u8())
							}
						}
					case im == 2:
						in.Data = []uint8{r.b8()}
						if r.chance(10) {
							in.Data = append(in.Data, r.u8())
						}
						if r.chance(20) {
							// the stack next to the vector table entry: a pushed byte lands on the word the CPU is about to jump through
							t := v.W[8]&0xff00 | uint16(in.Data[0]&0xfe)
							v.W[11] = t + uint16(r.n(6)) - 1
						}
					default:
						if r.chance(30) {
							in.Data = []uint8{r.u8()}
						}
					}
					if r.chance(4) {
						in.Data = nil
					}
					if (ty == 0 || im == 1) && r.chance(8) {
						// the stack next to the fixed entry address (0066h / 0038h)
						v.W[11] = []uint16{0x0066, 0x0038}[ty] + uint16(r.n(5))
					}
					v.Intr = in
					v.N = 1 + r.n(2)
					fmt.Fprintln(out, v.String())
				}
			}
		}
	}
}

// safeInstr: one instruction that touches registers only (no memory write, no control transfer, no I/O)
func (r *rng) safeInstr() []uint8 {
	regs := []uint8{0, 1, 2, 3, 4, 5, 7} // B C D E H L A
	switch r.n(14) {
	case 0:
		return []uint8{0x00}
	case 1:
		return []uint8{0x40 | regs[r.n(7)]<<3 | regs[r.n(7)]}
	case 2:
		return []uint8{0x80 | uint8(r.n(8))<<3 | regs[r.n(7)]}
	case 3:
		return []uint8{0x04 | regs[r.n(7)]<<3 | uint8(r.n(2))}
	case 4:
		return []uint8{0x03 | uint8(r.n(8))<<3}
	case 5:
		return []uint8{[]uint8{0x07, 0x0f, 0x17, 0x1f, 0x27, 0x2f, 0x37, 0x3f, 0x08, 0xd9, 0xeb}[r.n(11)]}
	case 6:
		return []uint8{0x09 | uint8(r.n(4))<<4}
	case 7:
		return []uint8{0x06 | regs[r.n(7)]<<3, r.b8()}
	case 8:
		return []uint8{0xc6 | uint8(r.n(8))<<3, r.b8()}
	case 9:
		return []uint8{0xcb, uint8(r.n(32))<<3 | regs[r.n(7)]}
	case 10:
		return []uint8{0x01 | uint8(r.n(4))<<4, r.u8(), r.u8()}
	case 11:
		return []uint8{[]uint8{0xdd, 0xfd}[r.n(2)], []uint8{0x24, 0x25, 0x2c, 0x2d, 0x23, 0x2b, 0x09, 0x19, 0x29, 0x39, 0x44, 0x65, 0x7c, 0x84, 0x95}[r.n(15)]}
	case 12:
		return []uint8{0xed, []uint8{0x44, 0x4a, 0x52, 0x5a, 0x62, 0x6a, 0x72, 0x7a, 0x57, 0x5f, 0x47, 0x4f, 0x46, 0x56, 0x5e}[r.n(15)]}
	default:
		return []uint8{[]uint8{0xf3, 0xfb}[r.n(2)]}
	}
}

// genRun: terminating register-only programs ending in HALT x breakpoint sets x repeated Run calls
func genRun(r *rng, out *bufio.Writer, n int) {
	for i := 0; i < n; i++ {
		v := r.randomState(fmt.Sprintf("run-%d", i))
		v.Kind = "run"
		v.N = 1 + r.n(3)
		v.Intr = nil
		var handlers []Override
		if r.chance(30) {
			// a request is already pending when Run is entered (also on a CPU whose halted indication is still set from an earlier Run):
			// NMI, or a maskable one in mode 1 with IFF1 set or clear; returning handlers at 0066h / 0038h, program and stack out of their way
			v.Intr = &Intr{Type: r.n(2)}
			v.IM = 1
			v.HALT = r.chance(50)
			v.W[12] = uint16(0x0100 + r.n(0xe000))
			v.W[11] = uint16(0xf000 + r.n(0x800))
			handlers = []Override{{0x0038, []uint8{0xfb, 0xed, 0x4d}}, {0x0066, []uint8{0xed, 0x45}}}
		}
		var prog []uint8
		var starts []uint16
		k := r.n(13)
		if r.chance(10) {
			k = 0 // HALT is the first instruction
		}
		for j := 0; j < k; j++ {
			starts = append(starts, v.W[12]+uint16(len(prog)))
			prog = append(prog, r.safeInstr()...)
		}
		haltAt := v.W[12] + uint16(len(prog))
		prog = append(prog, 0x76)
		v.Over = append([]Override{{v.W[12], prog}}, handlers...)
		switch r.n(8) {
		case 0:
			v.BP = "nil"
		case 1:
			v.BP = "-"
		case 2:
			v.BP = fmt.Sprintf("%04x", v.W[12]) // the start PC
		case 3:
			v.BP = fmt.Sprintf("%04x", haltAt) // the HALT address
		case 4:
			v.BP = fmt.Sprintf("%04x", haltAt+1)
		case 5:
			// inside a multi-byte instruction (never reached as a PC) and one real boundary
			a := v.W[12] + uint16(r.n(len(prog)))
			v.BP = fmt.Sprintf("%04x", a)
		default:
			var l []string
			for j := r.n(4) + 1; j > 0; j-- {
				if len(starts) > 0 && r.chance(70) {
					l = append(l, fmt.Sprintf("%04x", starts[r.n(len(starts))]))
				} else {
					l = append(l, fmt.Sprintf("%04x", r.w16()))
				}
			}
			v.BP = strings.Join(l, ",")
		}
		fmt.Fprintln(out, v.String())
	}
}

// genBlock: repeating and single block instructions run to completion; -per = number of full-length (BC=0 / 65535) runs
func genBlock(r *rng, out *bufio.Writer, n int, full int) {
	ops := []uint8{0xb0, 0xb8, 0xb1, 0xb9, 0xb2, 0xba, 0xb3, 0xbb, 0xa0, 0xa8, 0xa1, 0xa9, 0xa2, 0xaa, 0xa3, 0xab}
	for i := 0; i < n; i++ {
		op := ops[i%len(ops)]
		if i >= 2*len(ops) {
			op = ops[r.n(8)]
		}
		v := r.randomState(fmt.Sprintf("blk-%02x-%d", op, i))
		v.Intr = nil
		v.HasIO = !r.chance(5)
		pc := v.W[12]
		// counts
		cnt := []uint16{1, 2, 3, 4, 255, 256, 257, 0x0100, 0x0201, 0x0200, 16, 64}[r.n(12)]
		if r.chance(30) {
			cnt = uint16(1 + r.n(600))
		}
		if i < full {
			cnt = []uint16{0, 0xffff, 0x0100, 0x8000}[i%4]
			op = []uint8{0xb0, 0xb1, 0xb8, 0xb9, 0xb3, 0xb2}[i%6]
		}
		v.ID = fmt.Sprintf("blk-%02x-%d", op, i)
		v.W[1] = cnt
		if op&0x02 != 0 { // I/O forms count in B
			v.W[1] = uint16(cnt)<<8 | uint16(r.u8())
			if cnt > 255 {
				v.W[1] = uint16(r.u8()) // B = 0: 256 elements
			}
		}
		// pointers: overlap distances -3..+3, covering the instruction, wrap at 0xFFFF
		hl := r.w16()
		switch r.n(6) {
		case 0:
			hl = pc - uint16(r.n(8)) + 2
		case 1:
			hl = 0xffff - uint16(r.n(4))
		case 2:
			hl = uint16(r.n(4))
		}
		de := r.w16()
		switch r.n(6) {
		case 0, 1:
			de = hl + uint16(r.n(7)) - 3
		case 2:
			de = pc - uint16(r.n(8)) + 3
		case 3:
			de = 0xffff - uint16(r.n(4))
		}
		v.W[3], v.W[2] = hl, de
		// make CPIR find something sometimes: A = a byte the search will meet is left to chance; plant one
		over := []Override{{pc, []uint8{0xed, op}}}
		if op&0x03 == 0x01 && r.chance(60) {
			k := uint16(r.n(int(uint32(cnt-1)%300) + 1))
			a := hl + k
			if op&0x08 != 0 {
				a = hl - k
			}
			over = append(over, Override{a, []uint8{uint8(v.W[0] >> 8)}})
		}
		v.Over = over
		steps := int(cnt)
		if cnt == 0 {
			steps = 65536
		}
		if op&0x02 != 0 {
			steps = int(v.W[1] >> 8)
			if steps == 0 {
				steps = 256
			}
		}
		if op&0x10 == 0 {
			steps = 1
		}
		v.N = steps + r.n(2)
		fmt.Fprintln(out, v.String())
	}
}

// genALUCube: EXHAUSTIVE operand cubes for the 8-bit ALU on the real code (thorough tier of C02):
// every A x every immediate operand x F in {00, FF} for ADD/ADC/SUB/SBC/AND/XOR/OR/CP n, and every A x every F for
// the unary / accumulator instructions (INC A, DEC A, DAA, CPL, NEG, SCF, CCF, RLCA, RRCA, RLA, RRA and the CB
// rotates/shifts on A).  `part`/`parts` split the cube so that it can be produced in slices.
func genALUCube(r *rng, out *bufio.Writer, part, parts int) {
	if parts < 1 {
		parts = 1
	}
	base := r.randomState("cube")
	base.Intr = nil
	base.HALT = false
	base.W[12] = 0x4000
	base.W[11] = 0x8000
	k := 0
	emit := func(id string, a, f uint8, prog []uint8) {
		k++
		if k%parts != part%parts {
			return
		}
		v := *base
		v.ID = id
		v.W[0] = uint16(a)<<8 | uint16(f)
		v.Over = []Override{{0x4000, prog}}
		fmt.Fprintln(out, v.String())
	}
	for y := 0; y < 8; y++ {
		for a := 0; a < 256; a++ {
			for n := 0; n < 256; n++ {
				for _, f := range []uint8{0x00, 0xff} {
					emit(fmt.Sprintf("alu-%d-%02x-%02x-%02x", y, a, n, f), uint8(a), f, []uint8{0xc6 | uint8(y)<<3, uint8(n)})
				}
			}
		}
	}
	unary := [][]uint8{{0x3c}, {0x3d}, {0x27}, {0x2f}, {0xed, 0x44}, {0x37}, {0x3f}, {0x07}, {0x0f}, {0x17}, {0x1f}}
	for y := 0; y < 8; y++ {
		unary = append(unary, []uint8{0xcb, uint8(y)<<3 | 7})
	}
	for ui, u := range unary {
		for a := 0; a < 256; a++ {
			for f := 0; f < 256; f++ {
				emit(fmt.Sprintf("una-%d-%02x-%02x", ui, a, f), uint8(a), uint8(f), u)
			}
		}
	}
}
