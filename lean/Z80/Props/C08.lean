/-
  C08 — Run is exactly repeated Step and stops only at a breakpoint or an executed HALT.

  `run` iterates the loop body that go2lean TRANSLATES from CPU.Run (cancel check, Step, breakpoint lookup on the
  new PC, HALT check — in the order the source has them).  By induction on the number of Steps: Run performs
  the same state transitions as repeated Step and returns after the FIRST Step following which PC is a
  breakpoint (ErrBreakPoint) or HALT is set (nil); the breakpoint wins; never earlier or later; at least one
  Step; a stale halted indication is discarded on entry; Run on a halted CPU halts again at the same address.
  Whatever a Step does — including honouring a request raised by a callback during the previous Step — Run does
  identically, because the theorem is about `Gen.Step` itself.
-/
import Z80.Proofs.RunLoop
import Z80.Proofs.StepOf
import Z80.Proofs.Families.Ctrl

namespace Z80.Props.C08
open Z80 Z80.Gen Z80.Spec
set_option maxRecDepth 8192

/-- the state Run starts stepping from: HALT discarded, everything else as given -/
theorem C08_entry (s : St) : Gen.Run_init s = .ok () { s with HALT := false } := by
  simp [Gen.Run_init]

/-- THE loop theorem (never cancelled): if the n-th Step (n ≥ 1) is the first after which the stop rule holds,
    Run returns right there, with ErrBreakPoint iff PC is then a breakpoint (even if HALT is set too), else nil -/
theorem C08_run (s t : St) (n fuel : Nat) (hn : 1 ≤ n) (hfuel : n ≤ fuel)
    (hsteps : stepN n { s with HALT := false } = .ok () t) (hstop : stopAt t = true)
    (hfirst : ∀ j u, 1 ≤ j → j < n → stepN j { s with HALT := false } = .ok () u → stopAt u = false) :
    run (fun _ => false) fuel s = .done (stopResult t) t := by
  obtain ⟨m, rfl⟩ : ∃ m, n = m + 1 := ⟨n - 1, by omega⟩
  simp only [run, C08_entry]
  exact runLoop_stops _ (fun _ => rfl) m fuel 0 _ t (by omega) hsteps hstop
    (fun j u h1 h2 hu => hfirst j u h1 (by omega) hu)

/-- Run never returns earlier: while no Step has met the stop rule, Run is still running -/
theorem C08_not_earlier (c : Nat → Bool) (hc : ∀ i, c i = false) :
    ∀ (fuel i : Nat) (s : St), (∀ j u, 1 ≤ j → j ≤ fuel → stepN j s = .ok () u → stopAt u = false) →
      (∀ j, j ≤ fuel → ∃ u, stepN j s = .ok () u) → runLoop c fuel i s = .running := by
  intro fuel
  induction fuel with
  | zero => intro i s _ _; rfl
  | succ fuel ih =>
    intro i s hns hok
    obtain ⟨u1, hu1⟩ := hok 1 (by omega)
    have hstep : Gen.Step s = .ok () u1 := by
      cases h : Gen.Step s with
      | ok a u => simp [stepN, h] at hu1; rw [hu1]
      | panic e => simp [stepN, h] at hu1
    have hu : stopAt u1 = false := hns 1 u1 (by omega) (by omega) hu1
    unfold stopAt at hu
    have hb : bpHas u1.BreakPoints u1.PC = false := by
      cases hbb : bpHas u1.BreakPoints u1.PC <;> simp [hbb] at hu ⊢
    have hh : u1.HALT = false := by
      cases hhh : u1.HALT <;> simp [hb, hhh] at hu ⊢
    simp only [runLoop, hc i, body_nocancel s u1 hstep, hb, hh, Bool.false_eq_true, if_false]
    exact ih (i+1) u1
      (fun j w hj1 hj2 hw => hns (j+1) w (by omega) (by omega) (by rw [stepN_succ_ok j s u1 hstep]; exact hw))
      (fun j hj => by obtain ⟨w, hw⟩ := hok (j+1) (by omega); exact ⟨w, by rw [← stepN_succ_ok j s u1 hstep]; exact hw⟩)

/-- at least one Step: even when the start PC is a breakpoint or HALT was set on entry, one Step runs first -/
theorem C08_at_least_one (s t : St) (fuel : Nat) (hfuel : 1 ≤ fuel) (h : Gen.Step { s with HALT := false } = .ok () t)
    (hstop : stopAt t = true) : run (fun _ => false) fuel s = .done (stopResult t) t :=
  C08_run s t 1 fuel (by omega) hfuel (by simp [stepN, h]) hstop (fun j u h1 h2 => by omega)

/-- the breakpoint wins when both hold -/
theorem C08_breakpoint_wins (t : St) (hb : bpHas t.BreakPoints t.PC = true) (hh : t.HALT = true) :
    stopAt t = true ∧ stopResult t = .errBreakPoint := by
  simp [stopAt, stopResult, hb]
/-- a halt without a breakpoint returns nil (the value after the loop) -/
theorem C08_halt_nil (t : St) (hb : bpHas t.BreakPoints t.PC = false) (hh : t.HALT = true) :
    stopAt t = true ∧ stopResult t = .nil := by
  simp [stopAt, stopResult, hb, hh, Gen.Run_after]
/-- a nil breakpoint map and an empty one both have no members -/
theorem C08_no_breakpoints (pc : U16) : bpHas none pc = false ∧ bpHas (some fun _ => false) pc = false := ⟨rfl, rfl⟩

/-- HALT (0x76): sets the halted indication and leaves PC on the HALT opcode; R advances (the opcode was fetched) -/
theorem C08_halt_step (s : St) (h₁ : s.Interrupt = none) (h₂ : s.Memory = .user) (hop : s.mem s.PC = 0x76#8) :
    Gen.Step s = .ok () { s with HALT := true, IR.Lo := incR s.IR.Lo, log := .mr s.PC 0x76#8 :: s.log } := by
  rw [step_main s h₁ h₂ 0x76#8 hop (Obl.fam_Ctrl_main 0x76#8 (by decide))]
  simp [z80spec, afterM1, hop, z80helper]

/-- calling Run again on a halted CPU: exactly one Step (the HALT again), halting at the same address with all
    registers other than R, flags and memory unchanged (R counts the fetch, as C14 requires) -/
theorem C08_rerun_halted (s : St) (fuel : Nat) (hfuel : 1 ≤ fuel) (h₁ : s.Interrupt = none) (h₂ : s.Memory = .user)
    (hop : s.mem s.PC = 0x76#8) (hbp : bpHas s.BreakPoints s.PC = false) :
    run (fun _ => false) fuel s = .done .nil { s with HALT := true, IR.Lo := incR s.IR.Lo, log := .mr s.PC 0x76#8 :: s.log } := by
  have hstep := C08_halt_step { s with HALT := false } h₁ h₂ hop
  have := C08_at_least_one s _ fuel hfuel hstep (by simp [stopAt])
  rw [this]
  simp [stopResult, hbp, Gen.Run_after]

-- non-vacuity: the premises of C08_run are met by a one-instruction program `HALT`
example : ∃ s : St, s.Interrupt = none ∧ s.Memory = .user ∧ s.mem s.PC = 0x76#8 ∧ bpHas s.BreakPoints s.PC = false :=
  ⟨{ (default : CPU) with Interrupt := none, Memory := .user, BreakPoints := none, mem := fun _ => 0x76#8, dev := fun _ _ => 0#8, log := [] },
   rfl, rfl, rfl, rfl⟩

end Z80.Props.C08
