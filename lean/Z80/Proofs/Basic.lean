/-
  Z80.Proofs.Basic — simp infrastructure for the per-slot obligations: the unfolding set of the
  reference specification, normalisation of word arithmetic, and bridging lemmas between
  equivalent bit-vector spellings used by the Go code and by the specification.
-/
import Z80.Gen.All
import Z80.Spec.Koron
import Z80.Proofs.Bits

namespace Z80
open Z80.Gen Z80.Spec

attribute [z80spec] exec execOpt execMain execXY execXYtail execXYCB Spec.executeOne consumed
  Spec.fetch Spec.fetchM1 Spec.fetch16 rd8 wr8 rd16 wr16 push16 pop16 locAddr isMem getLocReg setLocReg
  readLoc writeLoc rmwLoc getR setR getXY setXY regU16 regOf get16 set16 condHolds addDisp
  aluApply doAlu pushSite blkElem portIn portOut setAF ccfSt scfSt add16St adc16St sbc16St exxSt
  decodeBase decodeCB decodeED decodeXY decodeXYCB inXYSet r8 r8plain hlOf rpOf rp2Of condOf aluOf rotOf
  Impl.koron res8 set8 and8 or8 xor8 rld8 rrd8

attribute [z80ctl] exec execOpt execMain execXY execXYtail execXYCB Spec.executeOne consumed
  Spec.fetch Spec.fetchM1 Spec.fetch16 rd8 wr8 rd16 wr16 push16 pop16 locAddr isMem
  readLoc writeLoc rmwLoc addDisp doAlu pushSite blkElem portIn portOut

/-- literal word offsets: `x - k` and `(x + a) + b` are normalised to `x + lit` (specific literals
    only: a generic `BitVec.ofNat 16 k` pattern sends the unifier into structure eta on `BitVec`) -/
@[z80helper] theorem sub1_16 (x : U16) : x - 1#16 = x + 65535#16 := by
  bv_omega
@[z80helper] theorem sub2_16 (x : U16) : x - 2#16 = x + 65534#16 := by
  bv_omega
@[z80helper] theorem add_1_1_16 (x : U16) : x + 1#16 + 1#16 = x + 2#16 := by
  rw [BitVec.add_assoc]; rfl
@[z80helper] theorem add_1_2_16 (x : U16) : x + 1#16 + 2#16 = x + 3#16 := by
  rw [BitVec.add_assoc]; rfl
@[z80helper] theorem add_1_65535_16 (x : U16) : x + 1#16 + 65535#16 = x := by
  rw [BitVec.add_assoc]; exact BitVec.add_zero x
@[z80helper] theorem add_1_65534_16 (x : U16) : x + 1#16 + 65534#16 = x + 65535#16 := by
  rw [BitVec.add_assoc]; rfl
@[z80helper] theorem add_2_1_16 (x : U16) : x + 2#16 + 1#16 = x + 3#16 := by
  rw [BitVec.add_assoc]; rfl
@[z80helper] theorem add_2_2_16 (x : U16) : x + 2#16 + 2#16 = x + 4#16 := by
  rw [BitVec.add_assoc]; rfl
@[z80helper] theorem add_2_65535_16 (x : U16) : x + 2#16 + 65535#16 = x + 1#16 := by
  rw [BitVec.add_assoc]; rfl
@[z80helper] theorem add_2_65534_16 (x : U16) : x + 2#16 + 65534#16 = x := by
  rw [BitVec.add_assoc]; exact BitVec.add_zero x
@[z80helper] theorem add_3_1_16 (x : U16) : x + 3#16 + 1#16 = x + 4#16 := by
  rw [BitVec.add_assoc]; rfl
@[z80helper] theorem add_3_2_16 (x : U16) : x + 3#16 + 2#16 = x + 5#16 := by
  rw [BitVec.add_assoc]; rfl
@[z80helper] theorem add_3_65535_16 (x : U16) : x + 3#16 + 65535#16 = x + 2#16 := by
  rw [BitVec.add_assoc]; rfl
@[z80helper] theorem add_3_65534_16 (x : U16) : x + 3#16 + 65534#16 = x + 1#16 := by
  rw [BitVec.add_assoc]; rfl
@[z80helper] theorem add_4_1_16 (x : U16) : x + 4#16 + 1#16 = x + 5#16 := by
  rw [BitVec.add_assoc]; rfl
@[z80helper] theorem add_4_2_16 (x : U16) : x + 4#16 + 2#16 = x + 6#16 := by
  rw [BitVec.add_assoc]; rfl
@[z80helper] theorem add_4_65535_16 (x : U16) : x + 4#16 + 65535#16 = x + 3#16 := by
  rw [BitVec.add_assoc]; rfl
@[z80helper] theorem add_4_65534_16 (x : U16) : x + 4#16 + 65534#16 = x + 2#16 := by
  rw [BitVec.add_assoc]; rfl
@[z80helper] theorem add_65535_1_16 (x : U16) : x + 65535#16 + 1#16 = x := by
  rw [BitVec.add_assoc]; exact BitVec.add_zero x
@[z80helper] theorem add_65535_2_16 (x : U16) : x + 65535#16 + 2#16 = x + 1#16 := by
  rw [BitVec.add_assoc]; rfl
@[z80helper] theorem add_65535_65535_16 (x : U16) : x + 65535#16 + 65535#16 = x + 65534#16 := by
  rw [BitVec.add_assoc]; rfl
@[z80helper] theorem add_65535_65534_16 (x : U16) : x + 65535#16 + 65534#16 = x + 65533#16 := by
  rw [BitVec.add_assoc]; rfl
@[z80helper] theorem add_65534_1_16 (x : U16) : x + 65534#16 + 1#16 = x + 65535#16 := by
  rw [BitVec.add_assoc]; rfl
@[z80helper] theorem add_65534_2_16 (x : U16) : x + 65534#16 + 2#16 = x := by
  rw [BitVec.add_assoc]; exact BitVec.add_zero x
@[z80helper] theorem add_65534_65535_16 (x : U16) : x + 65534#16 + 65535#16 = x + 65533#16 := by
  rw [BitVec.add_assoc]; rfl
@[z80helper] theorem add_65534_65534_16 (x : U16) : x + 65534#16 + 65534#16 = x + 65532#16 := by
  rw [BitVec.add_assoc]; rfl
@[z80helper] theorem add_65533_1_16 (x : U16) : x + 65533#16 + 1#16 = x + 65534#16 := by
  rw [BitVec.add_assoc]; rfl
@[z80helper] theorem add_65533_2_16 (x : U16) : x + 65533#16 + 2#16 = x + 65535#16 := by
  rw [BitVec.add_assoc]; rfl
@[z80helper] theorem add_65533_65535_16 (x : U16) : x + 65533#16 + 65535#16 = x + 65532#16 := by
  rw [BitVec.add_assoc]; rfl
@[z80helper] theorem add_65533_65534_16 (x : U16) : x + 65533#16 + 65534#16 = x + 65531#16 := by
  rw [BitVec.add_assoc]; rfl

-- folding the Go spellings of byte/word packing into mk16 / hi8 / lo8
@[z80helper] theorem fold_mk16 (h l : U8) : (h.setWidth 16 <<< 8) ||| l.setWidth 16 = mk16 h l := rfl
@[z80helper] theorem fold_hi8 (v : U16) : (v >>> 8).setWidth 8 = hi8 v := rfl
@[z80helper] theorem fold_lo8 (v : U16) : (v.setWidth 8 : U8) = lo8 v := rfl
@[z80helper] theorem fold_lo8_and (v : U16) : ((v &&& 0x00ff#16).setWidth 8 : U8) = lo8 v := by
  unfold lo8; bits8
@[z80helper] theorem fold_ins_hi (n : U8) (v : U16) : (n.setWidth 16 <<< 8) ||| (v &&& 0x00ff#16) = mk16 n (lo8 v) := by
  unfold mk16 lo8; bits16
@[z80helper] theorem fold_ins_lo (n : U8) (v : U16) : n.setWidth 16 ||| (v &&& 0xff00#16) = mk16 (hi8 v) n := by
  unfold mk16 hi8; bits16

-- the same packings with the operands of `|` the other way round (a harmless re-spelling of the Go source must not break an obligation)
@[z80helper] theorem fold_mk16_c (h l : U8) : l.setWidth 16 ||| (h.setWidth 16 <<< 8) = mk16 h l := by
  rw [BitVec.or_comm]; rfl
@[z80helper] theorem fold_ins_hi_c (n : U8) (v : U16) : (v &&& 0x00ff#16) ||| (n.setWidth 16 <<< 8) = mk16 n (lo8 v) := by
  rw [BitVec.or_comm]; exact fold_ins_hi n v
@[z80helper] theorem fold_ins_lo_c (n : U8) (v : U16) : (v &&& 0xff00#16) ||| n.setWidth 16 = mk16 (hi8 v) n := by
  rw [BitVec.or_comm]; exact fold_ins_lo n v

@[z80helper] theorem fold_mk16_and_fe (h v : U8) :
    (h.setWidth 16 <<< 8) ||| (v.setWidth 16 &&& 254#16) = mk16 h (v &&& 254#8) := by
  unfold mk16; bits16

attribute [z80helper] hi8_mk16 lo8_mk16 mk16_hi_lo hi8_inc lo8_inc hi8_dec lo8_dec

@[z80helper] theorem lo8_shr8 (v : U16) : lo8 (v >>> 8) = hi8 v := rfl
@[z80helper] theorem and_ff8 : ∀ x : U8, x &&& 255#8 = x := by decide

-- single-bit tests: the Go spelling `f & mask != 0` against the specification's `bit i of f`
@[z80helper] theorem mask01 : ∀ f : U8, (f &&& 1#8 = 0#8 ↔ f[0] = false) := by decide
@[z80helper] theorem mask02 : ∀ f : U8, (f &&& 2#8 = 0#8 ↔ f[1] = false) := by decide
@[z80helper] theorem mask04 : ∀ f : U8, (f &&& 4#8 = 0#8 ↔ f[2] = false) := by decide
@[z80helper] theorem mask08 : ∀ f : U8, (f &&& 8#8 = 0#8 ↔ f[3] = false) := by decide
@[z80helper] theorem mask10 : ∀ f : U8, (f &&& 16#8 = 0#8 ↔ f[4] = false) := by decide
@[z80helper] theorem mask20 : ∀ f : U8, (f &&& 32#8 = 0#8 ↔ f[5] = false) := by decide
@[z80helper] theorem mask40 : ∀ f : U8, (f &&& 64#8 = 0#8 ↔ f[6] = false) := by decide
@[z80helper] theorem mask80 : ∀ f : U8, (f &&& 128#8 = 0#8 ↔ f[7] = false) := by decide

theorem ne_zero16 (v : U16) : (v != 0#16) = (lo8 v != 0#8 || hi8 v != 0#8) := by
  have h : v = 0#16 ↔ (lo8 v = 0#8 ∧ hi8 v = 0#8) := by
    constructor
    · intro e; subst e; exact ⟨rfl, rfl⟩
    · intro ⟨e1, e2⟩
      rw [← mk16_hi_lo v, e1, e2]; rfl
  by_cases hv : v = 0#16
  · subst hv; rfl
  · have : ¬(lo8 v = 0#8 ∧ hi8 v = 0#8) := fun c => hv (h.2 c)
    have e1 : (v != 0#16) = true := by simp [hv]
    rw [e1]
    by_cases h1 : lo8 v = 0#8 <;> by_cases h2 : hi8 v = 0#8 <;> simp [h1, h2]
    exact this ⟨h1, h2⟩

@[z80helper] theorem dec16_ne_zero (h l : U8) :
    (mk16 h l + 65535#16 != 0#16) = (l - 1#8 != 0#8 || (if l - 1#8 = 255#8 then h - 1#8 else h) != 0#8) := by
  rw [ne_zero16, hi8_dec, lo8_dec]

end Z80
