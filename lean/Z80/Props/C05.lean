/-
  C05 — each Step makes exactly the instruction's memory and port accesses, nothing else.

  The ordered event log (every Memory.Get/Set, IO.In/Out with address/port and value) is part of the state,
  so C01's equality `Gen.Step = Spec.executeOne` already forces the real code's bus traffic to be the
  reference's — for every state, every device.  This file says what the reference's traffic IS:
  instruction bytes are read sequentially from PC, each once; untaken conditional forms touch nothing but
  their own bytes; read-modify-write is one read then one write to the same address; 16-bit accesses touch
  addr and addr+1 modulo 65536; the port of IN r,(C) / OUT (C),r / INI… / OUTI… is C, of IN A,(n) / OUT (n),A
  is n, and the value moved is the device's / the register's; every other instruction makes no port access.
  (The property compares multisets; the theorems give the exact order, which implies it.)
-/
import Z80.Props.C01
import Z80.Props.C04
import Z80.Proofs.Frame

namespace Z80.Props.C05
open Z80 Z80.Gen Z80.Spec
set_option maxRecDepth 8192

/-- tie to the real code: the bus log of a Step is the reference's log -/
theorem C05_log (s t : St) (h₁ : s.Interrupt = none) (h₂ : s.Memory = .user) (h : Gen.Step s = .ok () t) :
    ∃ u, Spec.executeOne Impl.koron s = .ok () u ∧ u.log = t.log ∧ u.mem = t.mem := by
  rw [C01.C01_step s h₁ h₂] at h
  exact ⟨t, h, rfl, rfl⟩

/-- instruction bytes: every reference step starts by reading the byte at PC (once), as an opcode fetch -/
theorem C05_first_fetch (s : St) :
    Spec.executeOne Impl.koron s = execMain Impl.koron (s.mem s.PC)
      { s with PC := s.PC + 1#16, IR.Lo := incR s.IR.Lo, log := .mr s.PC (s.mem s.PC) :: s.log } := by
  simp [Spec.executeOne, Spec.fetchM1, Spec.fetch, rd8]
/-- operand bytes are read from PC, PC+1, … in order, each once (16-bit operand: low byte first) -/
theorem C05_fetch16 (s : St) :
    Spec.fetch16 s = .ok (mk16 (s.mem (s.PC + 1#16)) (s.mem s.PC))
      { s with PC := s.PC + 2#16, log := .mr (s.PC + 1#16) (s.mem (s.PC + 1#16)) :: .mr s.PC (s.mem s.PC) :: s.log } := by
  simp [Spec.fetch16, Spec.fetch, rd8, z80helper]

/-- untaken JP cc / CALL cc: only the two operand bytes are read; untaken JR cc: only the offset byte;
    untaken RET cc: nothing — no stack access, no access to the target -/
theorem C05_untaken (impl : Impl) (c : Cond) (s : St) (h : condHolds c s.AF.Lo = false) :
    (∃ t, exec impl (.jpcc c) s = .ok () t ∧ t.log = .mr (s.PC + 1#16) (s.mem (s.PC + 1#16)) :: .mr s.PC (s.mem s.PC) :: s.log ∧ t.mem = s.mem) ∧
    (∃ t, exec impl (.callcc c) s = .ok () t ∧ t.log = .mr (s.PC + 1#16) (s.mem (s.PC + 1#16)) :: .mr s.PC (s.mem s.PC) :: s.log ∧ t.mem = s.mem ∧ t.SP = s.SP) ∧
    (∃ t, exec impl (.jrcc c) s = .ok () t ∧ t.log = .mr s.PC (s.mem s.PC) :: s.log ∧ t.mem = s.mem) ∧
    (exec impl (.retcc c) s = .ok () s) := by
  refine ⟨?_, ?_, ?_, ?_⟩ <;> simp [exec, Spec.fetch16, Spec.fetch, rd8, h]

/-- read-modify-write on (HL): exactly one read, then one write, same address (INC shown; DEC, rotates, SET, RES
    are the same `rmwLoc`) -/
theorem C05_rmw (g : U8 → U8 → U8 × U8) (s : St) :
    ∃ t, rmwLoc .mHL g s = .ok () t ∧
      t.log = .mw (regU16 s.HL) (g (s.mem (regU16 s.HL)) s.AF.Lo).1 :: .mr (regU16 s.HL) (s.mem (regU16 s.HL)) :: s.log := by
  simp [rmwLoc, isMem, locAddr, rd8, wr8]
/-- … and on (IX+d): the displacement byte is fetched, then one read and one write at IX+d -/
theorem C05_rmw_idx (g : U8 → U8 → U8 × U8) (s : St) :
    ∃ t, rmwLoc (.mXYd .IX) g s = .ok () t ∧
      t.log = .mw (addDisp s.IX (s.mem s.PC)) (g (s.mem (addDisp s.IX (s.mem s.PC))) s.AF.Lo).1 ::
              .mr (addDisp s.IX (s.mem s.PC)) (s.mem (addDisp s.IX (s.mem s.PC))) :: .mr s.PC (s.mem s.PC) :: s.log := by
  simp [rmwLoc, isMem, locAddr, rd8, wr8, Spec.fetch, getXY]

/-- 16-bit accesses touch addr and addr+1 modulo 65536 (a word at 0xFFFF reads 0xFFFF and 0x0000) -/
theorem C05_word (a : U16) (v : U16) (lo : Bool) (s : St) :
    (∃ t, rd16 a s = .ok (mk16 (s.mem (a + 1#16)) (s.mem a)) t ∧ t.log = .mr (a + 1#16) (s.mem (a + 1#16)) :: .mr a (s.mem a) :: s.log) ∧
    (∃ t, wr16 lo a v s = .ok () t ∧ (∀ e, e ∈ t.log ↔ e = .mw a (lo8 v) ∨ e = .mw (a + 1#16) (hi8 v) ∨ e ∈ s.log)) := by
  constructor
  · simp [rd16, rd8]
  · cases lo <;> simp [wr16, wr8] <;> intro e <;> constructor <;> intro h <;> rcases h with h | h | h <;> simp [h]
example : (0xffff#16 : U16) + 1#16 = 0x0000#16 := by decide

-- ports ------------------------------------------------------------------------------------

/-- IN r,(C): one read of port C; the value the device returned is the value loaded -/
theorem C05_in_c (impl : Impl) (r : R8) (s : St) (hio : s.IO = true) :
    ∃ t, exec impl (.inC r) s = .ok () t ∧ t.log = .ior s.BC.Lo (s.dev s.log s.BC.Lo) :: s.log ∧
      getR r t = s.dev s.log s.BC.Lo := by
  cases r <;> simp [exec, portIn, hio, getR, setR]
/-- OUT (C),r: one write of r to port C -/
theorem C05_out_c (impl : Impl) (r : R8) (s : St) (hio : s.IO = true) :
    ∃ t, exec impl (.outC r) s = .ok () t ∧ t.log = .iow s.BC.Lo (getR r s) :: s.log ∧ t.toGPR = s.toGPR := by
  simp [exec, portOut, hio]
/-- IN A,(n) / OUT (n),A: the port is the immediate byte -/
theorem C05_in_out_n (impl : Impl) (s : St) (hio : s.IO = true) :
    (∃ t, exec impl .inAn s = .ok () t ∧
        t.log = .ior (s.mem s.PC) (s.dev (.mr s.PC (s.mem s.PC) :: s.log) (s.mem s.PC)) :: .mr s.PC (s.mem s.PC) :: s.log ∧
        t.AF.Hi = s.dev (.mr s.PC (s.mem s.PC) :: s.log) (s.mem s.PC)) ∧
    (∃ t, exec impl .outnA s = .ok () t ∧ t.log = .iow (s.mem s.PC) s.AF.Hi :: .mr s.PC (s.mem s.PC) :: s.log) := by
  constructor <;> simp [exec, portIn, portOut, Spec.fetch, rd8, hio]
/-- INI/IND/INIR/INDR: one read of port C (not B), the byte is stored at (HL);
    OUTI/OUTD/OTIR/OTDR: one read of (HL), that byte written to port C -/
theorem C05_block_io (dec rep : Bool) (s : St) (hio : s.IO = true) :
    (∃ t, exec Impl.koron (.blk .inp dec rep) s = .ok () t ∧
        t.log = .mw (regU16 s.HL) (s.dev s.log s.BC.Lo) :: .ior s.BC.Lo (s.dev s.log s.BC.Lo) :: s.log) ∧
    (∃ t, exec Impl.koron (.blk .out dec rep) s = .ok () t ∧
        t.log = .iow s.BC.Lo (s.mem (regU16 s.HL)) :: .mr (regU16 s.HL) (s.mem (regU16 s.HL)) :: s.log) := by
  constructor <;> (simp [exec, blkElem, rd8, wr8, hio]; split <;> simp)
/-- with no device attached a port read yields 0 and a port write is dropped — no event, no panic -/
theorem C05_no_device (impl : Impl) (r : R8) (s : St) (hio : s.IO = false) :
    (∃ t, exec impl (.inC r) s = .ok () t ∧ t.log = s.log ∧ getR r t = 0#8) ∧ exec impl (.outC r) s = .ok () s := by
  constructor
  · cases r <;> simp [exec, portIn, hio, getR, setR]
  · simp [exec, portOut, hio]

/-- every instruction that is not an I/O instruction makes NO port access (and never consults the device) -/
theorem C05_no_io (i : Instr) (hio : isIO i = false) (s : St) :
    (exec Impl.koron i s).proj (fun t => portLog t.log) (portLog s.log) = portLog s.log := exec_no_port i hio s
/-- the same for a successful execution, as an implication -/
theorem C05_no_io_ok (i : Instr) (hio : isIO i = false) (s t : St) (h : exec Impl.koron i s = .ok () t) :
    portLog t.log = portLog s.log := by
  have := exec_no_port i hio s
  rw [h] at this; exact this

-- non-vacuity
example : isIO .nop = false ∧ isIO (.alu .add .mHL) = false ∧ isIO (.inC .B) = true := by decide

end Z80.Props.C05
