package main

// cbraise (C08 / C14 / C06, real vs real): a request raised from INSIDE a Memory or IO callback while Step j is executing must have exactly
// the effect of the same request raised at the boundary after Step j — the instruction in progress must not notice it, and it is honoured
// at the next boundary.  Every vector is run twice on the real code: (A) the m-th bus access of the run raises the request from the callback;
// (B) the request is put in place between the Step during which that access happened and the next one.  Whole result lines (state, memory,
// ordered bus log) must be equal.  The Lean model cannot express (A) — its callbacks return bytes — so this is a real-vs-real check.

import (
	"bufio"
	"fmt"
	"log"
	"os"
	"strings"
)

func runCB(v *Vec, m int, req Intr, viaCallback bool, fireAfter int) (line string, fired int) {
	w := newWorld(v)
	curWorld = w
	fired = -1
	defer func() {
		if r := recover(); r != nil {
			line = fmt.Sprintf("%s panic %v", v.ID, r)
		}
		curWorld = nil
	}()
	cpu := buildCPU(v, w)
	n, cur := 0, 0
	if viaCallback {
		w.onAccess = func(w *World, e Ev) {
			if e.K != 'r' && e.K != 'w' && e.K != 'i' && e.K != 'o' {
				return
			}
			n++
			if n == m && fired < 0 {
				fired = cur
				cpu.Interrupt = mkIntr(w, req.Type, req.Data)
			}
		}
	}
	steps := v.N + 2
	for k := 0; k < steps; k++ {
		cur = k
		for _, in := range v.Inj {
			if in.At == k {
				cpu.Interrupt = mkIntr(w, in.Intr.Type, in.Intr.Data)
			}
		}
		cpu.Step()
		if !viaCallback && k == fireAfter {
			cpu.Interrupt = mkIntr(w, req.Type, req.Data)
		}
	}
	return resultStr(v.ID, cpu, w), fired
}

func cmdCBRaise() {
	log.SetFlags(0)
	log.SetOutput(warnWriter{&curWorld})
	in := bufio.NewReaderSize(os.Stdin, 1<<20)
	out := bufio.NewWriterSize(os.Stdout, 1<<20)
	defer out.Flush()
	reqs := []Intr{{Type: 0}, {Type: 1, Data: []uint8{0x28}}}
	for {
		line, err := in.ReadString('\n')
		line = strings.TrimSpace(line)
		if line != "" {
			v, perr := parseVec(line)
			if perr != nil {
				fmt.Fprintf(out, "? bad-vector %v\n", perr)
			} else if v.Intr != nil || len(v.Inj) > 0 {
				fmt.Fprintf(out, "%s skipped\n", v.ID)
			} else {
				res := v.ID + " same"
				pairs := 0
				for m := 1; m <= 4; m++ {
					for _, q := range reqs {
						a, fired := runCB(v, m, q, true, 0)
						if fired < 0 {
							continue
						}
						b, _ := runCB(v, m, q, false, fired)
						pairs++
						if a != b {
							res = fmt.Sprintf("%s DIFF request=%d:%s raised by the callback of bus access %d (during Step %d): [%s] raised at the boundary after that Step: [%s]", v.ID, q.Type, hexBytes(q.Data), m, fired, a, b)
						}
					}
				}
				if pairs == 0 {
					res = v.ID + " skipped"
				}
				fmt.Fprintln(out, res)
			}
		}
		if err != nil {
			break
		}
	}
}
