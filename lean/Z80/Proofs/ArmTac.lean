/-
  Z80.Proofs.ArmTac — the one tactic that discharges a per-slot obligation.
-/
import Z80.Proofs.Basic
import Z80.Proofs.Helpers2

namespace Z80
open Z80.Gen Z80.Spec

/-- unfold the generated arm and the specification at a literal opcode, run both to a final
    state with the `M` run-lemmas, and compare -/
macro "arm_fin" : tactic =>
  `(tactic| (first
      | done
      | (split <;> simp_all <;> done)
      | (apply St.ext <;> simp_all <;> done)
      | (apply CPU.ext <;> simp_all <;> done)
      | (split <;> simp_all <;> apply St.ext <;> simp_all <;> done)))

macro "arm_tac" : tactic =>
  `(tactic| (intro s h; simp (config := {implicitDefEqProofs := false}) [z80gen, z80spec, z80helper, h]; arm_fin))

end Z80
