/-
  Z80.Proofs.Interrupt — the generated `Step` with a pending request IS the abstract interrupt
  controller of Z80.Spec.Interrupt (NMI, refused, mode 1, mode 2, no such mode, empty data).
  Mode 0 with supplied bytes is treated in Z80.Props.C06 / C07 (known findings KF-1, KF-2).
-/
import Z80.Proofs.Step
import Z80.Spec.Interrupt

namespace Z80
open Z80.Gen Z80.Spec

attribute [z80spec] intStep vectorTo isNMI Spec.step

theorem gen_writeU16 (s : St) (h : s.Memory = .user) (a v : U16) :
    Gen.writeU16 a v s = wr16 true a v s := by
  simp [Gen.writeU16, Gen.fromU16, Gen.Memory_Set, wr16, wr8, h, z80helper]

/-- NMI: always accepted -/
theorem step_nmi (s : St) (i : Interrupt) (hi : s.Interrupt = some i) (hm : s.Memory = .user) (hn : i.Type_ = 0) :
    Gen.Step s = Spec.step Impl.koron s := by
  simp (config := {implicitDefEqProofs := false}) [Gen.Step, Gen.processInterrupt, Gen.writeU16, Gen.fromU16, Gen.Memory_Set,
    z80spec, z80helper, hi, hm, hn]

/-- maskable, IFF1 clear: refused — an ordinary instruction runs and the request stays pending -/
theorem step_refused (s : St) (i : Interrupt) (hi : s.Interrupt = some i) (hm : s.Memory = .user) (hn : i.Type_ ≠ 0)
    (hf : s.IFF1 = false) : Gen.Step s = Spec.step Impl.koron s := by
  have e : Gen.Step s = Gen.executeOne s := by
    simp [Gen.Step, Gen.processInterrupt, hi, hn, hf]
  rw [e, executeOne_eq s hm]
  simp [Spec.step, intStep, isNMI, hi, hn, hf]

/-- mode 1 -/
theorem step_im1 (s : St) (i : Interrupt) (hi : s.Interrupt = some i) (hm : s.Memory = .user) (hn : i.Type_ ≠ 0)
    (hf : s.IFF1 = true) (him : s.IM = 1) : Gen.Step s = Spec.step Impl.koron s := by
  simp (config := {implicitDefEqProofs := false}) [Gen.Step, Gen.processInterrupt, Gen.writeU16, Gen.fromU16, Gen.Memory_Set,
    z80spec, z80helper, hi, hm, hn, hf, him]

/-- mode 2 with a vector byte -/
theorem step_im2 (s : St) (i : Interrupt) (hi : s.Interrupt = some i) (hm : s.Memory = .user) (hn : i.Type_ ≠ 0)
    (hf : s.IFF1 = true) (him : s.IM = 2) (v : U8) (rest : List U8) (hd : i.Data = v :: rest) :
    Gen.Step s = Spec.step Impl.koron s := by
  simp (config := {implicitDefEqProofs := false}) [Gen.Step, Gen.processInterrupt, Gen.writeU16, Gen.fromU16, Gen.Memory_Set,
    Gen.readU16, Gen.Memory_Get, Gen.toU16, idx_run,
    z80spec, z80helper, hi, hm, hn, hf, him, hd]

/-- modes 0 and 2 without data: the request is dropped (unspecified by the Z80; recorded) -/
theorem step_empty (s : St) (i : Interrupt) (hi : s.Interrupt = some i) (hm : s.Memory = .user) (hn : i.Type_ ≠ 0)
    (hf : s.IFF1 = true) (him : s.IM = 0 ∨ s.IM = 2) (hd : i.Data = []) :
    Gen.Step s = Spec.step Impl.koron s := by
  rcases him with him | him <;>
  simp (config := {implicitDefEqProofs := false}) [Gen.Step, Gen.processInterrupt, z80spec, hi, hm, hn, hf, him, hd]

/-- no such mode: never accepted -/
theorem step_badmode (s : St) (i : Interrupt) (hi : s.Interrupt = some i) (hm : s.Memory = .user) (hn : i.Type_ ≠ 0)
    (hf : s.IFF1 = true) (h0 : s.IM ≠ 0) (h1 : s.IM ≠ 1) (h2 : s.IM ≠ 2) :
    Gen.Step s = Spec.step Impl.koron s := by
  have e : Gen.Step s = Gen.executeOne s := by
    simp [Gen.Step, Gen.processInterrupt, hi, hn, hf, h0, h1, h2]
  rw [e, executeOne_eq s hm]
  simp [Spec.step, intStep, isNMI, hi, hn, hf, h0, h1, h2]

end Z80
