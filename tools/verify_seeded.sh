#!/bin/bash
# usage: tools/verify_seeded.sh <seeded-id>
# independent confirmation in a scratch worktree of /repo (never /repo itself):
#   1. with the patch the whole existing test suite still passes,
#   2. with the patch the demonstration test FAILS,
#   3. without the patch the demonstration test passes.
id=$1
d=/verif/seeded/$id
wt=/tmp/wt/verify_$$
export GOFLAGS=-mod=mod GOPROXY=off GOSUMDB=off GOTOOLCHAIN=local
git -C /repo worktree add -q --detach $wt HEAD || exit 2
trap "git -C /repo worktree remove --force $wt" EXIT
cd $wt
git apply $d/patch.diff || { echo "patch does not apply" | tee $d/verify.txt; exit 2; }
{
  echo "== suite with patch (go build ./... && go test -vet=off -count=1 ./...)"
  go build ./... && go test -vet=off -count=1 ./... > /tmp/verify_suite_$$.txt 2>&1
  echo "suite_status=$?"
  tail -8 /tmp/verify_suite_$$.txt; rm -f /tmp/verify_suite_$$.txt
  dp=$(cat $d/demo_path.txt 2>/dev/null || echo zz_demo_test.go)
  cp $d/demo_test.go ./$dp
  echo "== demo with patch (must FAIL)"
  go test -vet=off -count=1 -run 'Demo|Mutation|Seeded' ./$(dirname $dp) > /tmp/verify_demo_$$.txt 2>&1
  echo "demo_with_patch_status=$?"
  tail -12 /tmp/verify_demo_$$.txt
  git apply -R $d/patch.diff
  echo "== demo without patch (must pass)"
  go test -vet=off -count=1 -run 'Demo|Mutation|Seeded' ./$(dirname $dp) > /tmp/verify_demo_$$.txt 2>&1
  echo "demo_without_patch_status=$?"
  tail -5 /tmp/verify_demo_$$.txt; rm -f /tmp/verify_demo_$$.txt
} 2>&1 | tee $d/verify.txt
