package main

// cpmglue: operation sequences on the REAL tinycpm.Memory / tinycpm.IO (copy of internal/tinycpm taken at check time) — the Go glue of
// the mini CP/M machine, method by method — compared with the methods translated by go2lean (lean/DriverCPMGlue.lean).
//
//	new                 mem, io := tinycpm.New(); io.SetStdout(writer 0); io.SetWarnLogger(logger 0)
//	mget a / mset a v   Memory.Get / Memory.Set
//	in p / out p v      IO.In / IO.Out
//	stdout k / warnl k  IO.SetStdout(writer k) / IO.SetWarnLogger(logger k),  k in 0..2
//	dump                what each writer has received (hex) and how many lines each logger has received

import (
	"bufio"
	"bytes"
	"encoding/hex"
	"fmt"
	"log"
	"os"
	"strconv"
	"strings"

	"verifharness/cpmcopy/tinycpm"
)

type glueWorld struct {
	mem  *tinycpm.Memory
	io   *tinycpm.IO
	outs [3]bytes.Buffer
	wrns [3]bytes.Buffer
	lgs  [3]*log.Logger
}

// plainWriter: an io.Writer with no other method
type plainWriter struct{ b *bytes.Buffer }

func (p plainWriter) Write(q []byte) (int, error) { return p.b.Write(q) }

func newGlueWorld() *glueWorld {
	w := &glueWorld{}
	w.mem, w.io = tinycpm.New()
	for i := range w.lgs {
		w.lgs[i] = log.New(&w.wrns[i], "", 0)
	}
	w.io.SetStdout(&w.outs[0])
	w.io.SetWarnLogger(w.lgs[0])
	return w
}

func glueOp(w **glueWorld, f []string) (res string) {
	defer func() {
		if r := recover(); r != nil {
			res = "panic"
		}
	}()
	h := func(s string) uint64 { x, _ := strconv.ParseUint(s, 16, 32); return x }
	if f[0] == "new" {
		*w = newGlueWorld()
		return "ok"
	}
	if *w == nil {
		return "bad"
	}
	g := *w
	switch f[0] {
	case "mget":
		return fmt.Sprintf("%02x", g.mem.Get(uint16(h(f[1]))))
	case "mset":
		g.mem.Set(uint16(h(f[1])), uint8(h(f[2])))
		return "ok"
	case "in":
		return fmt.Sprintf("%02x", g.io.In(uint8(h(f[1]))))
	case "out":
		g.io.Out(uint8(h(f[1])), uint8(h(f[2])))
		return "ok"
	case "stdout":
		// writers 0 and 2 are *bytes.Buffer (which also has WriteByte, WriteString, ...); writer 1 offers Write and nothing else
		k := h(f[1]) % 3
		if k == 1 {
			g.io.SetStdout(plainWriter{&g.outs[1]})
		} else {
			g.io.SetStdout(&g.outs[k])
		}
		return "ok"
	case "warnl":
		g.io.SetWarnLogger(g.lgs[h(f[1])%3])
		return "ok"
	case "dump":
		var parts []string
		for i := range g.outs {
			o := hex.EncodeToString(g.outs[i].Bytes())
			if o == "" {
				o = "-"
			}
			parts = append(parts, fmt.Sprintf("w%d=%s", i, o))
		}
		for i := range g.wrns {
			parts = append(parts, fmt.Sprintf("l%d=%d", i, strings.Count(g.wrns[i].String(), "\n")))
		}
		return "dump " + strings.Join(parts, " ")
	}
	return "bad"
}

func cmdCPMGlue() {
	in := bufio.NewReaderSize(os.Stdin, 1<<20)
	out := bufio.NewWriterSize(os.Stdout, 1<<20)
	defer out.Flush()
	var w *glueWorld
	for {
		line, err := in.ReadString('\n')
		line = strings.TrimSpace(line)
		if line != "" {
			fmt.Fprintln(out, glueOp(&w, strings.Fields(line)))
		}
		if err != nil {
			break
		}
	}
}

// genCPMGlue: n sequences; addresses are biased to the BIOS pages, their edges, the stack gap between stub and stop code, and back to
// addresses already written
func genCPMGlue(r *rng, out *bufio.Writer, n int) {
	for s := 0; s < n; s++ {
		fmt.Fprintln(out, "new")
		var written []uint16
		addr := func() uint16 {
			switch r.n(10) {
			case 0:
				return uint16(r.n(9)) // page 0 vectors and just after
			case 1:
				return uint16(0xfe00 + r.n(0x30)) // around the BDOS stub
			case 2:
				return uint16(0xfe1d + r.n(0xe6)) // the gap between stub and stop code
			case 3:
				return uint16(0xff00 + r.n(8)) // around the stop code
			case 4:
				return []uint16{0x0000, 0xffff, 0x0100, 0x00ff, 0xfe05, 0xfe06, 0xfe1c, 0xfe1d, 0xff02, 0xff03, 0xff04}[r.n(11)]
			case 5, 6:
				if len(written) > 0 {
					return written[r.n(len(written))]
				}
			}
			return r.w16()
		}
		nops := 20 + r.n(60)
		for k := 0; k < nops; k++ {
			switch r.n(12) {
			case 0, 1, 2:
				a := addr()
				written = append(written, a)
				fmt.Fprintf(out, "mset %04x %02x\n", a, r.b8())
			case 3, 4, 5:
				fmt.Fprintf(out, "mget %04x\n", addr())
			case 6, 7:
				p := uint8(0)
				if r.chance(35) {
					p = []uint8{1, 2, 0x80, 0xff, r.u8()}[r.n(5)]
				}
				fmt.Fprintf(out, "out %02x %02x\n", p, r.b8())
			case 8:
				fmt.Fprintf(out, "in %02x\n", []uint8{0, 1, 0xff, r.u8()}[r.n(4)])
			case 9:
				fmt.Fprintf(out, "stdout %d\n", r.n(3))
			case 10:
				if r.chance(50) {
					fmt.Fprintf(out, "warnl %d\n", r.n(3))
				}
			default:
				fmt.Fprintln(out, "dump")
			}
		}
		// read the whole BIOS area and page 0 back at the end
		for _, a := range []uint16{0, 1, 2, 5, 6, 7, 0xfe06, 0xfe07, 0xfe13, 0xfe1c, 0xff03} {
			fmt.Fprintf(out, "mget %04x\n", a)
		}
		fmt.Fprintln(out, "dump")
	}
}
