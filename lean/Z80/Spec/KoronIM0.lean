/-
  Z80.Spec.KoronIM0 — a precise description of what koron-go/z80 does for a mode-0 request with supplied
  bytes, INCLUDING its two recorded deviations from the Z80 (known findings):

    KF-1  the supplied instruction is executed as if it were stored at PC, with PC advancing over it
          (so RST/CALL push PC + length instead of PC, and a non-jump instruction skips program bytes);
    KF-2  while it executes, every access that falls into [PC, PC+length) sees the supplied bytes and
          writes there are dropped (not only the instruction fetches).

  It is used (a) to classify disagreements between the real code and the reference in the correspondence
  check — a disagreement explained by this description is a KNOWN finding, anything else a violation — and
  (b) as the statement of what the implementation does.  It is not part of the reference specification.
-/
import Z80.Spec.Interrupt

namespace Z80.Spec
open Z80 Z80.Gen

/-- is `a` inside the window of `n` bytes starting at `start` (wrap-safe)? -/
def inWindow (start : U16) (n : Nat) (a : U16) : Bool := decide ((a - start).toNat < n)

def overlayMem (start : U16) (data : List U8) (m : U16 → U8) : U16 → U8 :=
  fun a => if inWindow start data.length a then data.getD (a - start).toNat 0#8 else m a

def evAddr : Ev → Option U16
  | .mr a _ => some a
  | .mw a _ => some a
  | _ => none

/-- mode 0 as implemented: run one ordinary instruction on the overlaid memory, then hide the window again -/
def koronIM0 (impl : Impl) (data : List U8) : M Unit := fun s =>
  let n := data.length
  let s' : St := { s with mem := overlayMem s.PC data s.mem, log := [] }
  match executeOne impl s' with
  | .panic e => .panic e
  | .ok _ t =>
    let newEvents := t.log.filter (fun e => match evAddr e with | some a => !inWindow s.PC n a | none => true)
    .ok () { t with mem := fun a => if inWindow s.PC n a then s.mem a else t.mem a,
                    log := newEvents ++ s.log, IFF1 := false, IFF2 := false, Interrupt := none }

/-- the reference step with mode 0 replaced by the implementation's behaviour -/
def stepKF (impl : Impl) : M Unit := fun s =>
  match s.Interrupt with
  | some i =>
    if !isNMI i && s.IFF1 && s.IM == 0 && !i.Data.isEmpty then koronIM0 impl i.Data s else step impl s
  | none => step impl s

end Z80.Spec
