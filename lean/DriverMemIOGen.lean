/-
  DriverMemIOGen — as DriverMemIO, but every store operation is computed by the method translated from memio.go
  (Z80.MemIOGen.stepGen).  Usage: lake env lean --run DriverMemIOGen.lean
-/
import Z80.Proto
import Z80.MemIOGen

open Z80 Z80.Proto Z80.Spec.MemIO

def outStr : Out → String
  | .ok => "ok"
  | .byte v => hex8 v
  | .bool b => if b then "true" else "false"
  | .panic => "panic"
  | .bad => "bad"
  | .contents l n => "contents " ++ toString n ++ " " ++
      (if l.isEmpty then "-" else String.intercalate "," (l.map fun (k, v) => hexN k 4 ++ "=" ++ hex8 v))

def parseOp (line : String) : Option Op :=
  let t := (line.splitOn " ").filter (· ≠ "")
  let a16 (s : String) : Option U16 := (parseHex s).map (BitVec.ofNat 16)
  let a8 (s : String) : Option U8 := (parseHex s).map (BitVec.ofNat 8)
  match t with
  | ["dm", r, n] => do pure (.newDM (← r.toNat?) (← n.toNat?))
  | ["dio", r, n] => do pure (.newDIO (← r.toNat?) (← n.toNat?))
  | ["mm", r] => do pure (.newMM (← r.toNat?))
  | ["nilmm", r] => do pure (.nilMM (← r.toNat?))
  | ["other", r] => do pure (.newOther (← r.toNat?))
  | ["alias", r, s] => do pure (.alias_ (← r.toNat?) (← s.toNat?))
  | ["get", r, a] => do pure (.get (← r.toNat?) (← a16 a))
  | ["set", r, a, v] => do pure (.set (← r.toNat?) (← a16 a) (← a8 v))
  | ["put", r, a, d] => do pure (.put (← r.toNat?) (← a16 a) (← (if d == "-" then some [] else parseHexBytes d)))
  | ["putself", r, d, s, n] => do pure (.putself (← r.toNat?) (← a16 d) (← parseHex s) (← n.toNat?))
  | ["in", r, p] => do pure (.inp (← r.toNat?) (← a8 p))
  | ["out", r, p, v] => do pure (.out (← r.toNat?) (← a8 p) (← a8 v))
  | ["clone", r, s] => do pure (.clone (← r.toNat?) (← s.toNat?))
  | ["clear", r] => do pure (.clear (← r.toNat?))
  | ["equal", r, a] => do pure (.equal (← r.toNat?) (← a.toNat?))
  | ["dump", r] => do pure (.dump (← r.toNat?))
  | _ => none

partial def loop (h : IO.FS.Stream) (out : IO.FS.Stream) (w : World) : IO Unit := do
  let line ← h.getLine
  if line.isEmpty then return ()
  let line := line.trimAsciiEnd.toString
  if line.isEmpty then loop h out w
  else if line == "reset" then
    out.putStrLn "reset"
    loop h out {}
  else
    match parseOp line with
    | none => out.putStrLn "bad-op"; loop h out w
    | some op =>
      let (w', o) := Z80.MemIOGen.stepGen w op
      out.putStrLn (outStr o)
      loop h out w'

def main : IO Unit := do
  loop (← IO.getStdin) (← IO.getStdout) {}
