/-
  C14 (interrupt acceptance) — a Step that ACCEPTS a request (NMI, mode 1, mode 2) performs no opcode fetch and is not
  LD R,A / LD I,A: it leaves the whole IR pair — I, the seven counting bits of R and bit 7 of R — exactly as it was,
  for every state.  (A refused request lets the instruction at PC run: Props/C14.lean applies through C06_step.  Mode 0
  executes the supplied instruction and counts its fetches.)
-/
import Z80.Props.C06

namespace Z80.Props.C14Accept
open Z80 Z80.Gen Z80.Spec

theorem C14_accept_nmi (s : St) (i : Interrupt) (hi : s.Interrupt = some i) (hm : s.Memory = .user) (hn : i.Type_ = 0) :
    ∃ t, Gen.Step s = .ok () t ∧ t.IR = s.IR := by
  rw [C06.C06_step s i hi hm (Or.inl hn)]
  exact ⟨_, by simp [Spec.step, intStep, isNMI, vectorTo, push16, wr16, wr8, Impl.koron, hi, hn]; rfl, by simp⟩

theorem C14_accept_im1 (s : St) (i : Interrupt) (hi : s.Interrupt = some i) (hm : s.Memory = .user) (hn : i.Type_ ≠ 0)
    (hf : s.IFF1 = true) (him : s.IM = 1) :
    ∃ t, Gen.Step s = .ok () t ∧ t.IR = s.IR := by
  rw [C06.C06_step s i hi hm (Or.inr (Or.inr (Or.inl (by rw [him]; decide))))]
  exact ⟨_, by simp [Spec.step, intStep, isNMI, vectorTo, push16, wr16, wr8, Impl.koron, hi, hn, hf, him]; rfl, by simp⟩

theorem C14_accept_im2 (s : St) (i : Interrupt) (hi : s.Interrupt = some i) (hm : s.Memory = .user) (hn : i.Type_ ≠ 0)
    (hf : s.IFF1 = true) (him : s.IM = 2) (v : U8) (rest : List U8) (hd : i.Data = v :: rest) :
    ∃ t, Gen.Step s = .ok () t ∧ t.IR = s.IR := by
  rw [C06.C06_step s i hi hm (Or.inr (Or.inr (Or.inl (by rw [him]; decide))))]
  exact ⟨_, by simp [Spec.step, intStep, isNMI, push16, wr16, wr8, rd16, rd8, Impl.koron, hi, hn, hf, him, hd]; rfl, by simp⟩

end Z80.Props.C14Accept
