/-
  DriverCim — reads container requests on stdin, prints the bytes the hand-written model Z80.Spec.Cim produces.
    bin <off-hex> <body-hex|->
    cas <off-hex> <nam-hex|-> <path-hex|-> <body-hex|->
  Usage: lake env lean --run DriverCim.lean
-/
import Z80.Proto
import Z80.Spec.Cim

open Z80 Z80.Proto Z80.Spec.Cim

def bytesOf (s : String) : Option (List U8) := if s == "-" then some [] else parseHexBytes s

def answer (line : String) : String :=
  match (line.splitOn " ").filter (· ≠ "") with
  | ["bin", off, body] =>
    match parseHex off, bytesOf body with
    | some o, some b => hexBytes (cim2bin (BitVec.ofNat 16 o) b)
    | _, _ => "bad"
  | ["cas", off, nam, path, body] =>
    match parseHex off, bytesOf nam, bytesOf path, bytesOf body with
    | some o, some n, some p, some b => hexBytes (cim2cas n p (BitVec.ofNat 16 o) b)
    | _, _, _, _ => "bad"
  | _ => "bad"

partial def loop (h : IO.FS.Stream) (out : IO.FS.Stream) : IO Unit := do
  let line ← h.getLine
  if line.isEmpty then return ()
  let line := line.trimAsciiEnd.toString
  if !line.isEmpty then out.putStrLn (answer line)
  loop h out

def main : IO Unit := do loop (← IO.getStdin) (← IO.getStdout)
