/-
  Z80.Proofs.Mirror — the IX ↔ IY symmetry of the reference instruction semantics:
  executing the mirrored instruction from the state with IX and IY exchanged gives the mirrored result
  (same values, same ordered bus log), for EVERY instruction and EVERY state.
-/
import Z80.Proofs.Frame

namespace Z80
open Z80.Gen Z80.Spec
set_option maxRecDepth 8192

/-- exchange the two index registers -/
def swapXY (s : St) : St := { s with IX := s.IY, IY := s.IX }
@[simp] theorem swapXY_swapXY (s : St) : swapXY (swapXY s) = s := rfl

namespace Spec
def XY.mirror : XY → XY | .IX => .IY | .IY => .IX
def Loc8.mirror : Loc8 → Loc8
  | .xh i => .xh i.mirror | .xl i => .xl i.mirror | .mXYd i => .mXYd i.mirror | .mXY i d => .mXY i.mirror d
  | .r x => .r x | .mHL => .mHL
def Loc16.mirror : Loc16 → Loc16 | .IX => .IY | .IY => .IX | .BC => .BC | .DE => .DE | .HL => .HL | .SP => .SP | .AF => .AF
/-- the same instruction with every mention of IX replaced by IY and vice versa -/
def Instr.mirror : Instr → Instr
  | .ld8 d s => .ld8 d.mirror s.mirror
  | .ld8n d => .ld8n d.mirror
  | .ld16n r => .ld16n r.mirror | .ld16m r => .ld16m r.mirror | .st16m r => .st16m r.mirror | .ldSP r => .ldSP r.mirror
  | .push r => .push r.mirror | .pop r => .pop r.mirror | .exSP r => .exSP r.mirror
  | .alu op l => .alu op l.mirror | .inc8 l => .inc8 l.mirror | .dec8 l => .dec8 l.mirror
  | .add16 d s => .add16 d.mirror s.mirror | .adc16 s => .adc16 s.mirror | .sbc16 s => .sbc16 s.mirror
  | .inc16 r => .inc16 r.mirror | .dec16 r => .dec16 r.mirror
  | .rot k l => .rot k l.mirror | .bit b l => .bit b l.mirror | .set b l => .set b l.mirror | .res b l => .res b l.mirror
  | .jpr r => .jpr r.mirror
  | i => i
end Spec

macro "mirror_fin" : tactic =>
  `(tactic| (simp [z80spec, swapXY, Instr.mirror, Loc8.mirror, Loc16.mirror, XY.mirror] <;>
             (repeat' (split <;> simp_all [swapXY]))))

macro "loc8_cases " l:ident : tactic => `(tactic| (
  cases $l:ident
  case r r => mirror_fin
  case xh i => cases i <;> mirror_fin
  case xl i => cases i <;> mirror_fin
  case mHL => mirror_fin
  case mXYd i => cases i <;> mirror_fin
  case mXY i d => cases i <;> mirror_fin))

macro "loc16_cases " l:ident : tactic => `(tactic| (cases $l:ident <;> mirror_fin))

set_option maxHeartbeats 8000000 in
/-- THE symmetry theorem: every instruction, every state -/
theorem exec_mirror (i : Instr) (s : St) :
    exec Impl.koron i.mirror (swapXY s) = (exec Impl.koron i s).mapSt swapXY := by
  cases i
  case ld8 d s' =>
    cases d with
    | r x => loc8_cases s'
    | xh i => cases i <;> loc8_cases s'
    | xl i => cases i <;> loc8_cases s'
    | mHL => loc8_cases s'
    | mXYd i => cases i <;> loc8_cases s'
    | mXY i d => cases i <;> loc8_cases s'
  case alu op src => loc8_cases src
  case bit b l => loc8_cases l
  case res b l => loc8_cases l
  case set b l => loc8_cases l
  case rot k l => loc8_cases l
  case inc8 l => loc8_cases l
  case dec8 l => loc8_cases l
  case ld8n l => loc8_cases l
  case add16 d s' => cases d <;> cases s' <;> mirror_fin
  case ld16n r => loc16_cases r
  case ld16m r => loc16_cases r
  case st16m r => loc16_cases r
  case ldSP r => loc16_cases r
  case push r => loc16_cases r
  case pop r => loc16_cases r
  case exSP r => loc16_cases r
  case adc16 r => loc16_cases r
  case sbc16 r => loc16_cases r
  case inc16 r => loc16_cases r
  case dec16 r => loc16_cases r
  case jpr r => loc16_cases r
  case blk k d r => cases k <;> mirror_fin
  case jpcc c => cases c <;> mirror_fin
  case jrcc c => cases c <;> mirror_fin
  case callcc c => cases c <;> mirror_fin
  case retcc c => cases c <;> mirror_fin
  all_goals first | (mirror_fin; done) | (rename_i a; cases a <;> mirror_fin)

end Z80

namespace Z80
open Z80.Gen Z80.Spec
set_option maxRecDepth 8192

namespace Spec
def Loc8.mentions (x : XY) : Loc8 → Bool
  | .xh i => i == x | .xl i => i == x | .mXYd i => i == x | .mXY i _ => i == x | _ => false
def Loc16.mentions (x : XY) : Loc16 → Bool
  | .IX => x == .IX | .IY => x == .IY | _ => false
/-- does the instruction name index register x at all? -/
def Instr.mentions (x : XY) : Instr → Bool
  | .ld8 d s => d.mentions x || s.mentions x
  | .ld8n d => d.mentions x
  | .ld16n r => r.mentions x | .ld16m r => r.mentions x | .st16m r => r.mentions x | .ldSP r => r.mentions x
  | .push r => r.mentions x | .pop r => r.mentions x | .exSP r => r.mentions x
  | .alu _ l => l.mentions x | .inc8 l => l.mentions x | .dec8 l => l.mentions x
  | .add16 d s => d.mentions x || s.mentions x | .adc16 s => s.mentions x | .sbc16 s => s.mentions x
  | .inc16 r => r.mentions x | .dec16 r => r.mentions x
  | .rot _ l => l.mentions x | .bit _ l => l.mentions x | .set _ l => l.mentions x | .res _ l => l.mentions x
  | .jpr r => r.mentions x
  | _ => false
end Spec

macro "blind_fin" : tactic =>
  `(tactic| (first
     | (simp_all [Instr.mentions, Loc8.mentions, Loc16.mentions]; done)
     | (simp [z80spec, setXY] <;> (repeat' (split <;> simp_all [setXY])))))

set_option maxHeartbeats 8000000 in
/-- an instruction that does not name index register x neither reads nor writes it -/
theorem exec_xy_blind (x : XY) (i : Instr) (h : i.mentions x = false) (v : U16) (s : St) :
    exec Impl.koron i (setXY x v s) = (exec Impl.koron i s).mapSt (setXY x v) := by
  cases x <;> cases i
  case IX.ld8 d s' | IY.ld8 d s' => cases d <;> (first | (rename_i i d; cases (i : XY)) | (rename_i i; cases (i : XY)) | skip) <;> cases s' <;> (first | (rename_i i d; cases (i : XY)) | (rename_i i; cases (i : XY)) | skip) <;> blind_fin
  case IX.alu op src | IY.alu op src => cases src <;> (first | (rename_i i d; cases (i : XY)) | (rename_i i; cases (i : XY)) | skip) <;> blind_fin
  case IX.bit b l | IY.bit b l => cases l <;> (first | (rename_i i d; cases (i : XY)) | (rename_i i; cases (i : XY)) | skip) <;> blind_fin
  case IX.res b l | IY.res b l => cases l <;> (first | (rename_i i d; cases (i : XY)) | (rename_i i; cases (i : XY)) | skip) <;> blind_fin
  case IX.set b l | IY.set b l => cases l <;> (first | (rename_i i d; cases (i : XY)) | (rename_i i; cases (i : XY)) | skip) <;> blind_fin
  case IX.rot k l | IY.rot k l => cases l <;> (first | (rename_i i d; cases (i : XY)) | (rename_i i; cases (i : XY)) | skip) <;> blind_fin
  case IX.inc8 l | IY.inc8 l => cases l <;> (first | (rename_i i d; cases (i : XY)) | (rename_i i; cases (i : XY)) | skip) <;> blind_fin
  case IX.dec8 l | IY.dec8 l => cases l <;> (first | (rename_i i d; cases (i : XY)) | (rename_i i; cases (i : XY)) | skip) <;> blind_fin
  case IX.ld8n l | IY.ld8n l => cases l <;> (first | (rename_i i d; cases (i : XY)) | (rename_i i; cases (i : XY)) | skip) <;> blind_fin
  case IX.add16 d s' | IY.add16 d s' => cases d <;> cases s' <;> blind_fin
  case IX.ld16n r | IY.ld16n r => cases r <;> blind_fin
  case IX.ld16m r | IY.ld16m r => cases r <;> blind_fin
  case IX.st16m r | IY.st16m r => cases r <;> blind_fin
  case IX.ldSP r | IY.ldSP r => cases r <;> blind_fin
  case IX.push r | IY.push r => cases r <;> blind_fin
  case IX.pop r | IY.pop r => cases r <;> blind_fin
  case IX.exSP r | IY.exSP r => cases r <;> blind_fin
  case IX.adc16 r | IY.adc16 r => cases r <;> blind_fin
  case IX.sbc16 r | IY.sbc16 r => cases r <;> blind_fin
  case IX.inc16 r | IY.inc16 r => cases r <;> blind_fin
  case IX.dec16 r | IY.dec16 r => cases r <;> blind_fin
  case IX.jpr r | IY.jpr r => cases r <;> blind_fin
  case IX.blk k d r | IY.blk k d r => cases k <;> blind_fin
  case IX.jpcc c | IY.jpcc c => cases c <;> blind_fin
  case IX.jrcc c | IY.jrcc c => cases c <;> blind_fin
  case IX.callcc c | IY.callcc c => cases c <;> blind_fin
  case IX.retcc c | IY.retcc c => cases c <;> blind_fin
  all_goals first | (blind_fin; done) | (rename_i a; cases a <;> blind_fin)

end Z80
