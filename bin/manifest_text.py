"""Texts for MANIFEST.json (level claimed / trusted base / technique) per property."""
NOTE_COMMON = ('Trusted: Lean 4.33 kernel; axioms propext/Classical.choice/Quot.sound only (audited per run); the go2lean '
               'translator + prelude reading of Go semantics (validated by the real-vs-model correspondence on every run); '
               'the hand-written reference Z80 (Z80/Spec) as oracle; user Memory modelled as a byte store, IO as a function of the bus history.')
TEXT = {
    'C01': {
        'text': 'Machine-checked theorem C01_step: for EVERY state without a pending request, Gen.Step (the Lean model regenerated '
                'from the Go source on each run) equals the hand-written reference fetch/decode/execute, as an equality of complete '
                'results (all registers, IFF/IM/HALT, whole memory function, ordered bus/port log). Assembled from 1792 kernel-checked '
                'per-slot obligations (7 tables x 256 bytes) and symbolic/finite-table characterisations of every flag helper. '
                'Also: the decoded form of a Step, per-field frame theorems over all instructions (what an instruction does not name is unchanged), and a second hypothesis-free obligation layer over every Memory value (bus layer, C01_bus). A proof settles all states at once, which is the quantifier the tests cannot reach.',
        'note': NOTE_COMMON,
        'technique': 'Lean 4 proof: regenerated model = reference spec (per-slot simp obligations + carry-vector lemmas); differential correspondence as tie and search',
    },
    'C03': {
        'text': 'Machine-checked: the Go helpers addU16/adcU16/sbcU16 (regenerated) equal the arithmetic definitions (carry out of bit 11/15, '
                'signed overflow, Z on 16 bits) for ALL 2^32 operand pairs x carry x F — symbolic proof from the ripple-carry theory of BitVec, '
                'no enumeration; plus kernel-checked Step-level theorems for every ss encoding of ADD HL/IX/IY, ADC/SBC HL, INC/DEC ss incl. doubling forms.',
        'note': NOTE_COMMON,
        'technique': 'Lean 4 proof: symbolic carry-vector lemmas (BitVec.carry + omega) + per-slot simp obligations; differential correspondence as tie',
    },
    'C02': {
        'text': 'Machine-checked: every Go ALU/flag helper (regenerated from accum.go etc.) equals the arithmetic definition for EVERY A, operand and incoming F — '
                'binary 8-bit ops by a symbolic carry-vector proof (no enumeration), unary ops/rotates/BIT/DAA by kernel `decide` over their COMPLETE finite table; '
                '559 per-encoding obligations lift this to Gen.Step for every operand encoding (B..A, (HL), n, IXH/IXL/IYH/IYL, (IX+d), (IY+d)); '
                'the reference ALU step is a function of (op, A, operand, F) only, hence encoding independent.',
        'note': NOTE_COMMON,
        'technique': 'Lean 4 proof: symbolic BitVec carry lemmas + decide over full unary tables + per-slot simp obligations; differential correspondence as tie',
    },
    'C04': {
        'text': 'Machine-checked: every Jump/CallRet/Stack encoding executes the reference instruction (per-slot obligations over the regenerated code); '
                'about the reference: taken iff condition for all 256 F (conditions decoded from opcode bits), untaken forms only skip operand bytes, DJNZ for all B, '
                'CALL/RST push layout, CALL;RET and PUSH;POP round trips for EVERY state including SP wrap, signed relative offsets, no flag change.',
        'note': NOTE_COMMON,
        'technique': 'Lean 4 proof: per-slot simp obligations + spec-level theorems (bv_omega for wrap-around); differential correspondence as tie',
    },
    'C06': {
        'text': 'Machine-checked theorem C06_step: with a request pending, Gen.Step (regenerated from cpu.go) equals the abstract interrupt controller written from '
                'the property text (NMI always; maskable iff IFF1; modes 1/2 push PC and vector, clearing IFF1 and IFF2; consumed; refused = ordinary instruction, '
                'request stays) for EVERY state — all control bits, PC/SP wrap, vector byte and I universally quantified; C06_pending by induction over any number of '
                'Steps; EI/DI/RETN/RETI obligations. Mode 0 with ANY supplied bytes: proved equal to the recorded description of this implementation (C06_step_any: one reference instruction through the overlay bus; every supplied instruction, every state) — so the deviation from the Z80 is exactly the recorded KF-1/KF-2 and nothing else. The four request constructors of z80.go are translated too and proved to build exactly (type, d :: others) etc. for every argument (C06Ctor).',
        'note': NOTE_COMMON + ' Mode 0 deviates from the Z80 as recorded (known findings); that it deviates in no other way is proved.',
        'technique': 'Lean 4 proof: regenerated processInterrupt/Step = abstract controller (simp), induction for pending requests; differential correspondence incl. known-finding classification',
    },
    'C05': {
        'text': 'Machine-checked: the ordered bus log (every Memory.Get/Set and IO.In/Out with address/port and value) is a field of the model state, so the C01 equality '
                'forces the real code\'s traffic to be the reference\'s for EVERY state and device; theorems over the reference fix what that traffic is: instruction bytes read '
                'sequentially from PC once each, untaken JP/CALL/JR/RET touch nothing else, read-modify-write = one read then one write at the same address, 16-bit accesses at '
                'addr and addr+1 mod 65536, port = C (IN r,(C), OUT (C),r, block I/O) or n, device value = loaded value, and NO port access by any other instruction (exec_no_port, all instructions).',
        'note': NOTE_COMMON,
        'technique': 'Lean 4 proof: log is part of the state equality of C01; spec-level trace theorems (simp); frame theorem over all instructions; differential correspondence compares complete ordered logs',
    },
    'C08': {
        'text': 'Machine-checked over the loop body translated from cpu.go Run on every run: one pass = exactly one Step then the stop rule (breakpoint before HALT); by induction over '
                'the number of Steps, Run returns exactly after the FIRST Step whose post-state meets the stop rule, with ErrBreakPoint when PC is a breakpoint (also when HALT holds too) and nil '
                'on HALT; never earlier; at least one Step; HALT cleared on entry; re-Run on a halted CPU re-executes the HALT and changes nothing but R. '
                'Partial: interrupt requests raised from I/O callbacks during Run are outside the model.',
        'note': NOTE_COMMON + ' Run\'s for-loop is modelled as a fuelled recursion over the translated body; the goroutine prologue is covered by C13.',
        'technique': 'Lean 4 proof: induction over Steps on the translated loop body; differential correspondence real CPU.Run vs translated loop vs reference on generated programs/breakpoint sets',
    },
    'C12': {
        'text': 'Machine-checked totality: Gen.Step (regenerated; slice indexing, nil dereference and nil handlers are translated as checked operations that yield panic) returns normally for EVERY state with '
                'user memory and EVERY pending request, mode 0 with any supplied bytes included (C12_step_all; any type, any IM, empty/long data, any PC/SP, no IO device); the instruction interpreter never panics for every state and EVERY Memory value (C12_executeOne_total); the mode-0 overlay accessors never index outside the supplied bytes for every '
                'length/start/address (induction over nested overlays); unsupported opcodes are consumed with one warning. No recursion/loops inside a Step (translator refuses them). '
                'Run returning on halt: C08.',
        'note': NOTE_COMMON,
        'technique': 'Lean 4 proof: totality theorems via commutation/frame lemmas over all instructions; differential correspondence on malformed states with panic detection',
    },
    'C13': {
        'text': 'Machine-checked over the translated Run: the cancellation flag is consulted before every Step and nowhere else, so a cancelled Run returns ctx.Err() with the CPU in the state after a whole number of Steps '
                '(C13_boundary, induction); the watcher/loop hand-off protocol (action lists extracted from the source on every run) is explored exhaustively as a two-thread transition system whose reachable set is closed: '
                'ctxErr is never read without an ordering store/load pair, and the watcher can always terminate after Run returns (deferred cancel). '
                'Partial: bounded delay, goroutine accounting and race-detector facts live in the Go runtime and are not modelled; they are supported by executions (harness ctx: cancellation before / during the run, with a refused request pending, with a slow device, goroutine counts, race detector).',
        'note': NOTE_COMMON + ' Go memory model assumed for atomic store/load ordering.',
        'technique': 'Lean 4 proof: induction on the translated loop + kernel-decided closed-state-set exploration of the extracted cancellation protocol',
    },
    'C14': {
        'text': 'Machine-checked: for EVERY state (all 256 R values, any instruction bytes) a Step without pending request leaves I unchanged and advances the low seven bits of R by exactly the number of opcode fetches '
                '(1 unprefixed incl. every halted Step and every repetition of block instructions, 2 for CB/ED/DD/FD, 3 for DDCB/FDCB — this project\'s count), bit 7 kept, wrap 0x7F→0x00; only LD I,A / LD R,A write I/R (all eight bits); '
                'LD A,I / LD A,R deliver the current value with S/Z/H/N/PV=IFF2/C-preserved flags. A Step that ACCEPTS a request (NMI, mode 1, mode 2) leaves the whole IR pair as it was, for every state (C14Accept).',
        'note': NOTE_COMMON,
        'technique': 'Lean 4 proof: C01 equality + frame theorem (exec leaves IR alone for all instructions except the four LDs) + decide over decode tables; differential correspondence',
    },
    'C17': {
        'text': 'Machine-checked by kernel evaluation over the WHOLE finite data regenerated on every run: following each shipped program image (cmd/zexdoc/zexdoc.cim, zexall.cim) from its entry jump through its own '
                'pointer table yields 67 records that equal the Go tables zex.DocCases / zex.AllCases entry by entry, byte for byte (flag mask, 3x20-byte state vectors, CRC, description modulo padding dots), '
                'no case missing or reordered; both also equal canonical records pinned in /verif, so a consistent edit of image and table is caught too.',
        'note': 'Trusted: Lean kernel (decide +kernel, no native_decide); go2lean\'s data extraction (go/types constant values; raw file bytes); tools/mkzexcanon.py for the pinned canon.',
        'technique': 'Lean 4 proof: decide +kernel over the complete regenerated tables and images (finite quantifier, fully enumerated in the kernel)',
    },
    'C15': {
        'text': 'Machine-checked: every method of memio.go, TRANSLATED from the source on every run (Z80/Gen/MemIO.lean, Option monad, none = panic), equals the store function of the heap model for every receiver and argument, panics included (C15Gen; Clone and Clear for every visiting order of range-over-map); the heap-of-objects machine driven by the translated methods EQUALS the hand-written one on every well-typed world, hence on every operation sequence (C15Bisim.runGen_eq). About that machine: for every slice length 0..65536 and EVERY history of Set/Put (Out) operations, Get (In) returns the value last written to that address or 0, '
                '0 beyond the slice where writes are ignored (induction over histories); MapMemory likewise with default 0xC7, Put wrapping past 0xFFFF for blocks up to 64 KiB, Clear; Clone returns a fresh heap object so writes through either '
                'handle never show through the other; Equal is true exactly for identical contents and false for non-MapMemory arguments. Real types, hand model and translated-method machine are run on the same operation sequences on every run.',
        'note': 'Trusted: Lean kernel; the second translator tools/go2lean/memiotr.go and its prelude Z80/GoStore.lean (reading of Go slice/map primitives; validated on every run by executing the translated methods next to the real ones); the bookkeeping of which variable holds which object (Z80/Spec/MemIO.lean: Go slice/map reference semantics as a heap of objects), validated by the correspondence; Go int modelled unbounded.',
        'technique': 'Lean 4 proof: regenerated methods = model functions (all inputs), bisimulation to the heap model, induction over operation histories; differential operation-sequence correspondence real types vs model vs translated methods',
    },
    'C19': {
        'text': 'Machine-checked layout theorems over a hand-written model of the two commands, for EVERY image, offset and name: cim2bin output is FE, start, end, exec as little-endian words followed by the image unmodified '
                '(drop 7 = image), end = start+length-1 as a number whenever it fits in 16 bits; cim2cas output is the 8-byte sync header, ten D0 bytes, exactly six name bytes (first min(6,len) of the name, then spaces; default = file name), '
                'the sync header, the three words and the unmodified image. The model is tied to the commands twice: go2lean extracts the ordered list of writes in run(), writeU16\'s byte order, writeName\'s width/padding and the default-name rule from the current source and the extracted program is proved to be the model (C19_bin_program, C19_cas_program); and the binaries built from /repo are run on generated files (all edge lengths up to 65536) on every run.',
        'note': 'Trusted: Lean kernel; the hand-written model Z80/Spec/Cim.lean (validated against the built binaries by the correspondence on every run, not derived from the source); OS file I/O, flag parsing.',
        'technique': 'Lean 4 proof: list-layout theorems on a hand-written model; differential correspondence built binaries vs model on generated files',
    },
    'C11': {
        'text': 'Machine-checked about the two regenerated ~450-line switch arms (Gen.executeOne_sw_dd / _sw_fd, DDCB/FDCB sub-switches included): for EVERY second byte, displacement, fourth byte and EVERY state, running the FD arm from the '
                'state with IX and IY exchanged equals the DD arm\'s result with IX and IY exchanged back — registers, flags, memory and the identical ordered bus/port log (C11_tables); the DD arm neither reads nor writes IY and the FD arm '
                'neither reads nor writes IX (C11_dd_blind_iy / C11_fd_blind_ix). Via: per-slot obligations (both arms = reference decoder), decode symmetry by kernel evaluation over all 256 bytes, and a symmetry + frame theorem of the reference semantics over all instructions.',
        'note': NOTE_COMMON,
        'technique': 'Lean 4 proof: per-slot obligations + exec_mirror/exec_xy_blind (all instructions, all states) + decide over decode tables; differential correspondence incl. real-vs-real DD/FD mirror pairs',
    },
    'C09': {
        'text': 'Machine-checked about Gen.Step (regenerated, via C01): one Step on any of the 16 block instructions performs EXACTLY one element — explicit post-state incl. memory, pointers, counter, flags, ordered bus log; the repeating forms keep PC on the instruction iff not finished. '
                'By induction over the count, for EVERY BC (0 = 65536) / B (0 = 256), HL, DE (overlap, wrap), memory and device: LDIR/LDDR copy exactly BC bytes one per repetition in order (closed form ldMem; DE=HL+1 fills), BC=0, P/V=H=N=0, S/Z/C kept, PC after the instruction; '
                'CPIR/CPDR stop at the FIRST match or at BC=0, Z=found, P/V=(BC!=0); OTIR/OTDR write exactly B bytes from (HL±i) to port C in order; INIR/INDR make exactly B reads of port C stored at (HL±i); B=0, Z set.',
        'note': NOTE_COMMON + ' Closed forms assume the destination does not overwrite the two instruction bytes.',
        'technique': 'Lean 4 proof: explicit one-Step lemmas (simp through C01) + induction over the repeat count; differential correspondence running block operations to completion (up to 65536 Steps)',
    },
    'C07': {
        'text': 'Machine-checked about Gen.Step (via C06/C01) for EVERY boundary state: acceptance of NMI / mode 1 / mode 2 pushes exactly the current PC (the first instruction not yet executed; C09 shows PC is parked on a repeating block instruction, C08 that HALT leaves PC on its opcode) '
                'and alters only SP, PC, IFF1/IFF2, two stack bytes and the request; EI;RETI resp. RETN from ANY handler state with the stack as acceptance left it return to that PC and SP with interrupts re-enabled (IFF1 restored from IFF2 for RETN); the complete round trip through a minimal handler '
                'yields a state equal to the interrupted one in all registers, flags, IFF, IM, HALT and memory outside the two bytes below SP. Requests arriving under DI stay pending while the program runs (C06_pending) and are then accepted by the same theorems. '
                'Mode 0 with supplied bytes: known findings KF-1/KF-2 with kernel-evaluated witnesses. Partial: arbitrary handlers under the premise that they restore registers and balance the stack; the program x injection-point quantifier is exercised exhaustively per generated program by the correspondence.',
        'note': NOTE_COMMON,
        'technique': 'Lean 4 proof: acceptance/return lemmas (simp through C06/C01), composed round-trip theorems for all states; kernel-evaluated witnesses for the known findings; program x every-injection-point correspondence incl. real-vs-real transparency',
    },
    'C10': {
        'text': 'Machine-checked over regenerated structural facts and the regenerated Step: every field of the Go structs CPU, States, GPR, SPR, Register is exported and the model CPU record consists of exactly those fields (C10_public_fields, C10_model_state: adding a hidden field breaks the theorem); '
                'the package has no variable besides ErrBreakPoint and only Run starts a goroutine or touches sync/atomic (C10_no_globals; the translator refuses any other global); Step is a function of that state, so a run continued from a snapshot taken at ANY boundary equals the original run '
                '(C10_snapshot: stepN (m+n) = stepN m then stepN n, induction) and ANY interleaving of two CPUs equals the two separate runs (C10_isolation, induction over schedules). '
                'Supported dynamically: real-vs-real rebuild of the CPU from its public state after every Step on generated programs with injected interrupts; memory-kind independence (every vector also with z80.DumbMemory and z80.MapMemory holding the same bytes); the host\'s request objects and breakpoint map compared before and after (object identity is not part of the Lean state: the translator refuses writes through cpu.Interrupt, nil comparisons of slices and type assertions); concurrent CPUs under the race detector.',
        'note': NOTE_COMMON + ' Data-race freedom of concurrent CPUs is a runtime fact supported by the race detector run, not proved.',
        'technique': 'Lean 4 proof over regenerated struct/global facts + induction (snapshot composition, schedule interleaving); real-vs-real snapshot-rebuild correspondence and race-detector run as support',
    },
    'C18': {
        'text': 'Machine-checked on the regenerated CPU model (Gen.Step via C01) executing the BIOS bytes that go2lean extracts from tinycpm.go on every run: from the vector at 0005h with C=2 the stub writes exactly E to port 0 and returns to the address on the stack '
                'in 7 Steps; with C=9, for EVERY string without $ (any length, any byte values incl. 00h and >=80h, at any address, wrapping past FFFFh) followed by $, it writes exactly those bytes to port 0 in order and returns after 6*len+9 Steps (induction over the string); '
                'in both cases SP is restored, memory (caller code included) is untouched, BC/HL preserved; a jump to 0 halts at FF03h; the console model (port-0 writes in order, everything else a warning) appends exactly the printed bytes. '
                'The Go glue (tinycpm.Memory.Get/Set/put, tinycpm.IO.In/Out/SetStdout/SetWarnLogger) is TRANSLATED on every run (Z80/Gen/CPMGlue.lean) and proved to be the console / 64 KiB byte-array model for every argument (C18Glue: glue_console for ANY port log: exactly `console log` reaches the configured writer, `warnings log` warnings; Get/Set total; put copies a fitting block).',
        'note': NOTE_COMMON + ' tinycpm constructors and LoadFile are not translated (their statements are pinned by shape; the pages NewMemory installs are extracted as data); writers and loggers are opaque identities; several machines in one process are covered by executions (harness cpmpar, race detector), not by a theorem.',
        'technique': 'Lean 4 proof: per-instruction Step lemmas through C01, composed symbolic execution of the regenerated stub bytes, induction over the string; differential correspondence on the real tinycpm package',
    },
    'C16': {
        'text': 'Machine-checked symbolic bit-vector theorems over the definitions regenerated from flag.go/z80.go: GetFlag = any-named-bit, '
                'SetFlag = F|m, ResetFlag = F&~m for all masks and all F, frame (A and all other fields unchanged), constants = Z80 bit positions, '
                'SetU16;U16 identity on all 65536 values.',
        'note': NOTE_COMMON,
        'technique': 'Lean 4 proof over regenerated accessor definitions (symbolic BitVec reasoning)',
    },
}
NOT_APPLICABLE = {}
