/-
  C13 — Run honours cancellation promptly, at an instruction boundary, leak/race-free.

  Loop level (proved over the TRANSLATED loop body): the cancellation flag is loaded before EVERY Step; the
  first iteration that sees it set returns the context's error without executing another Step, so the CPU is
  left in a state reached by a whole number of Steps, and "prompt" holds in the only sense a model has: at most
  the Step in progress.

  Protocol level (proved by exhaustive exploration of ALL interleavings of the action lists that go2lean
  EXTRACTS from Run's prologue, sequentially consistent atomics): the plain write of ctxErr by the watcher always
  happens-before the plain read by the loop (no data race), and the watcher goroutine terminates in every
  execution once Run has returned (no leak), because the derived context is cancelled by a `defer`.

  Partial — runtime behaviour a model cannot exhibit: wall-clock delay, goroutine scheduling, actual leak
  counts and race-detector reports are measured by the correspondence harness as supporting evidence only.
-/
import Z80.Proofs.RunLoop

namespace Z80.Props.C13
open Z80 Z80.Gen
set_option maxRecDepth 8192

/-- cancellation observed at iteration k (and at no earlier one), no stop before: Run returns ctx.Err() and the
    CPU state is EXACTLY k whole Steps from where Run started -/
theorem C13_boundary (c : Nat → Bool) (s t : St) (k fuel : Nat) (hfuel : k + 1 ≤ fuel)
    (hbefore : ∀ j, j < k → c j = false) (hat : c k = true)
    (hsteps : stepN k { s with HALT := false } = .ok () t)
    (hnostop : ∀ j u, 1 ≤ j → j ≤ k → stepN j { s with HALT := false } = .ok () u → stopAt u = false) :
    run c fuel s = .done .ctxErr t := by
  simp only [run, show Gen.Run_init s = .ok () { s with HALT := false } by simp [Gen.Run_init]]
  exact runLoop_cancel c k fuel 0 _ t (by omega) (fun j hj => by simpa using hbefore j hj) (by simpa using hat) hsteps hnostop

/-- cancelled before the call: no Step at all -/
theorem C13_cancelled_before (c : Nat → Bool) (s : St) (fuel : Nat) (hfuel : 1 ≤ fuel) (h0 : c 0 = true) :
    run c fuel s = .done .ctxErr { s with HALT := false } :=
  C13_boundary c s _ 0 fuel (by omega) (fun j hj => by omega) h0 rfl (fun j u h1 h2 => by omega)

-- the hand-off protocol ---------------------------------------------------------------------

/-- global state of the two threads: watcher program counter, loop phase, shared variables -/
structure Sys where
  wpc : Nat            -- next watcher action
  cancelled : Bool     -- has ctx2 been cancelled (by the caller's ctx, or by the deferred cancel)?
  flag : Bool          -- the atomic int32
  errWritten : Bool    -- has the plain write of ctxErr happened?
  mpc : Nat            -- next action of the current cancel check (0 = load, 1.. = after a set flag)
  sawFlag : Bool
  returned : Bool      -- Run has returned
  race : Bool          -- a plain read of ctxErr happened without a preceding write (unordered → data race)
  deriving DecidableEq, Repr

def Sys.init : Sys := ⟨0, false, false, false, 0, false, false, false⟩

/-- all successor states: one thread takes one action, or the environment cancels the parent context,
    or the loop returns for another reason (breakpoint/HALT) -/
def Sys.next (W check : List Act) (deferCancel : Bool) (x : Sys) : List Sys :=
  let wstep : List Sys :=
    match W[x.wpc]? with
    | some .waitDone => if x.cancelled then [{ x with wpc := x.wpc + 1 }] else []
    | some .writeErr => [{ x with wpc := x.wpc + 1, errWritten := true }]
    | some .storeFlag => [{ x with wpc := x.wpc + 1, flag := true }]
    | some _ => [{ x with wpc := x.wpc + 1 }]
    | none => []
  let ret (y : Sys) : Sys := { y with returned := true, cancelled := y.cancelled || deferCancel }
  let mstep : List Sys :=
    if x.returned then [] else
    match check[x.mpc]? with
    | some .loadFlag =>
      if x.flag then [{ x with mpc := x.mpc + 1, sawFlag := true }]
      else [{ x with mpc := 0 }, ret x]        -- flag clear: a Step, then the next check — or Run returns (stop rule)
    | some .readErr => [ret { x with race := x.race || !x.errWritten, mpc := x.mpc + 1 }]
    | some _ => [{ x with mpc := x.mpc + 1 }]
    | none => [ret x]
  let env : List Sys := if x.cancelled then [] else [{ x with cancelled := true }]
  wstep ++ mstep ++ env

def addNew (seen : List Sys) (xs : List Sys) : List Sys :=
  xs.foldl (fun acc y => if acc.contains y then acc else acc ++ [y]) seen

/-- all states reachable within n rounds -/
def reach (W check : List Act) (dc : Bool) : Nat → List Sys → List Sys
  | 0, seen => seen
  | n+1, seen => reach W check dc n (addNew seen (seen.flatMap (Sys.next W check dc)))

/-- can the watcher still run to completion from x (without any further help from the loop)? -/
def watcherCanFinish (W : List Act) (x : Sys) : Bool :=
  x.wpc ≥ W.length || x.cancelled

def protocolOK (W check : List Act) (dc : Bool) : Bool :=
  let states := reach W check dc 12 [Sys.init]
  -- closed under `next` (the exploration is complete), race free, and leak free
  (states.flatMap (Sys.next W check dc)).all (states.contains ·) &&
  states.all (fun x => !x.race) &&
  states.all (fun x => !x.returned || watcherCanFinish W x)

/-- THE protocol theorem, about the action lists extracted from the current source of Run -/
theorem C13_protocol : protocolOK Gen.Run_watcher Gen.Run_check Gen.Run_deferCancel = true := by decide

/-- the exploration is not vacuous: the two classic mistakes are rejected -/
theorem C13_protocol_rejects_store_before_write :
    protocolOK [.waitDone, .storeFlag, .writeErr] [.loadFlag, .readErr] true = false := by decide
theorem C13_protocol_rejects_missing_defer :
    protocolOK [.waitDone, .writeErr, .storeFlag] [.loadFlag, .readErr] false = false := by decide


/-- reachability in the two-thread system -/
inductive Reach (W check : List Act) (dc : Bool) : Sys → Prop
  | init : Reach W check dc Sys.init
  | step {x y : Sys} : Reach W check dc x → y ∈ Sys.next W check dc x → Reach W check dc y

/-- a set that contains the initial state and is closed under `next` contains every reachable state -/
theorem reach_in_closed (W check : List Act) (dc : Bool) (states : List Sys) (hinit : Sys.init ∈ states)
    (hclosed : ∀ x ∈ states, ∀ y ∈ Sys.next W check dc x, y ∈ states) : ∀ x, Reach W check dc x → x ∈ states := by
  intro x hx
  induction hx with
  | init => exact hinit
  | step _ hy ih => exact hclosed _ ih _ hy

/-- the explored set of the extracted protocol -/
def explored : List Sys := reach Gen.Run_watcher Gen.Run_check Gen.Run_deferCancel 12 [Sys.init]

theorem explored_init : Sys.init ∈ explored := by decide

/-- THE invariant, for EVERY reachable state of the hand-off extracted from the current source (unboundedly many
    loop iterations, any interleaving, cancellation at any moment or never): ctxErr is never read before the
    ordered write, and once Run has returned the watcher goroutine can always run to completion -/
theorem C13_invariant : ∀ x, Reach Gen.Run_watcher Gen.Run_check Gen.Run_deferCancel x →
    x.race = false ∧ (x.returned = true → watcherCanFinish Gen.Run_watcher x = true) := by
  have hp := C13_protocol
  simp only [protocolOK, Bool.and_eq_true, List.all_eq_true] at hp
  obtain ⟨⟨hclosed, hrace⟩, hleak⟩ := hp
  intro x hx
  have hin : x ∈ explored := by
    apply reach_in_closed _ _ _ explored explored_init _ x hx
    intro a ha b hb
    have := hclosed b (List.mem_flatMap.mpr ⟨a, ha, hb⟩)
    simpa [explored] using this
  constructor
  · have := hrace x hin; simpa using this
  · intro hr
    have := hleak x hin
    simpa [hr] using this

/-- the cancel check is the first thing in every iteration (loads the flag, and reads ctxErr only after seeing it set) -/
theorem C13_check_shape : Gen.Run_check = [.loadFlag, .readErr] ∧ Gen.Run_watcher = [.waitDone, .writeErr, .storeFlag] ∧
    Gen.Run_deferCancel = true := ⟨rfl, rfl, rfl⟩

end Z80.Props.C13
