/-
  Z80.Spec.Koron — the one concrete `Impl` this emulator is compared against with EXACT equality.
  Each choice is behaviour the Z80 leaves open / the properties leave open; it records what
  koron-go/z80 does so that neither an alarm is raised nor a change goes unnoticed.
-/
import Z80.Spec.Decode

namespace Z80.Spec

def Impl.koron : Impl where
  -- CALL and PUSH qq store the high byte first (hardware order); RST, PUSH IX/IY, EX (SP),·,
  -- LD (nn),rr and the interrupt pushes go through writeU16 (low byte first)
  loFirst := fun
    | .call => false
    | .pushQQ => false
    | _ => true
  -- SCF/CCF copy bits 3/5 from A
  scf35 := fun a _ => a
  ccf35 := fun a _ => a
  -- BIT b,(HL)/(IX+d) clear bits 3/5
  bitMem35 := fun _ _ _ => 0#8
  -- block I/O leaves S 5 H 3 P/V as they were
  blockIO := fun f _ _ => f
  -- DD CB d op: the final opcode byte is fetched as an M1 cycle too
  ddcbM1 := 3
  -- the supplied opcode of a mode-0 request is read with an M1 fetch (R advances once)
  im0M1 := true

end Z80.Spec
