/-
  Z80.Spec.KoronIM0B — the recorded description of mode 0 as implemented, stated over the bus (hand-written):
  the supplied bytes are overlaid at PC … PC+len-1 and ONE reference instruction is executed through that overlay
  (reads inside the window see the supplied bytes and are not logged; writes inside it are dropped), then the Memory
  value is put back, both flip-flops are cleared and the request is consumed.  `step_im0_any` (Proofs/IM0B.lean)
  proves that this is what the regenerated code does, for every supplied instruction and every state.
  It deviates from the Z80 in the two recorded ways (KF-1: PC advances over the supplied bytes; KF-2: the window).
-/
import Z80.SpecB
import Z80.Spec.Interrupt

namespace Z80.Spec
open Z80 Z80.Gen

/-- the overlay the implementation installs: the supplied bytes appear at PC … PC+len-1 (wrap-safe) -/
def im0Overlay (s : St) (data : List U8) : MemVal :=
  .im0data s.PC (s.PC + BitVec.ofInt 16 (goLen data - 1)) data s.Memory

/-- mode 0 as implemented -/
def im0StepB (impl : Impl) (data : List U8) : M Unit := do
  let s ← getSt
  modifySt fun t => { t with Memory := im0Overlay s data }
  SpecB.executeOne impl
  modifySt fun t => { t with Memory := s.Memory, IFF1 := false, IFF2 := false, Interrupt := none }

/-- the reference step with mode 0 replaced by the implementation's behaviour -/
def stepKFB (impl : Impl) : M Unit := fun s =>
  match s.Interrupt with
  | some i =>
    if !isNMI i && s.IFF1 && s.IM == 0 && !i.Data.isEmpty then im0StepB impl i.Data s else step impl s
  | none => step impl s

/-- what the overlay does to the bus: inside the window reads return the supplied byte and leave no trace … -/
theorem overlay_read (s : St) (data : List U8) (mem : U16 → U8) (a : U16) (hu : s.Memory = .user) :
    busRead (im0Overlay s data) mem a = (if (a - s.PC).toNat < data.length then data.getD (a - s.PC).toNat 0#8 else mem a) ∧
    busEvR (im0Overlay s data) mem a = (if (a - s.PC).toNat < data.length then [] else [.mr a (mem a)]) := by
  simp only [im0Overlay, busRead, busEvR, hu, ge_iff_le]
  generalize (a - s.PC).toNat = off
  by_cases h : off < data.length
  · have : ¬ data.length ≤ off := by omega
    simp [h, this]
  · have : data.length ≤ off := by omega
    simp [h, this]
/-- … and writes inside the window are dropped -/
theorem overlay_write (s : St) (data : List U8) (mem : U16 → U8) (a : U16) (v : U8) (hu : s.Memory = .user) :
    busWrite (im0Overlay s data) mem a v = (if (a - s.PC).toNat < data.length then mem else upd mem a v) ∧
    busEvW (im0Overlay s data) a v = (if (a - s.PC).toNat < data.length then [] else [.mw a v]) := by
  simp only [im0Overlay, busWrite, busEvW, hu]
  generalize (a - s.PC).toNat = off
  by_cases h : off < data.length <;> simp [h]

end Z80.Spec
