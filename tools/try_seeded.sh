#!/bin/bash
# usage: tools/try_seeded.sh <seeded-id> <property> [<property>...]
# applies /verif/seeded/<id>/patch.diff to /repo, runs the quick checks, records the outcome, and undoes the patch.
id=$1; shift
d=/verif/seeded/$id
git -C /repo diff --quiet || { echo "/repo is not clean"; exit 2; }
# start from the state a developer starts from: model and drivers regenerated from the CLEAN tree (when the translator refuses the changed
# source, the search runs against the last model that could be generated)
/verif/bin/check regen > /dev/null 2>&1
git -C /repo apply $d/patch.diff || exit 2
# evidence written while /repo is patched must not stay in the tree
bk=$(mktemp -d /tmp/evidence_bk.XXXXXX); cp -a /verif/evidence/. $bk/
: > $d/result.txt
for p in "$@"; do
  s=$(date +%s)
  /verif/bin/check $p quick > $d/out_$p.txt 2>&1
  rc=$?
  echo "$p exit=$rc $(( $(date +%s) - s ))s $(grep -c '^VIOLATION' $d/out_$p.txt) violation line(s): $(grep '^VIOLATION' $d/out_$p.txt | head -1)" | tee -a $d/result.txt
done
git -C /repo checkout -- .
cp -a $bk/. /verif/evidence/; rm -rf $bk
