// verifharness drives the REAL koron-go/z80 code (public API only) on vectors of the line
// protocol and prints canonical result lines; it also generates the vectors.
//
//	harness run            < vectors > results      (real CPU.Step / CPU.Run)
//	harness gen <kind> ... > vectors
package main

import (
	"bufio"
	"context"
	"fmt"
	"log"
	"os"
	"runtime/debug"
	"strconv"
	"strings"
	"time"

	"github.com/koron-go/z80"
)

var curWorld *World

func runVec(v *Vec) (res string) {
	if v.Kind == "cpm" {
		return runCPM(v)
	}
	w := newWorld(v)
	curWorld = w
	cpu := buildCPU(v, w)
	defer func() {
		if r := recover(); r != nil {
			_ = debug.Stack
			res = fmt.Sprintf("%s panic %v", v.ID, r)
		}
		curWorld = nil
	}()
	switch v.Kind {
	case "step", "rebuild":
		for k := 0; k < v.N; k++ {
			for _, in := range v.Inj {
				if in.At == k {
					cpu.Interrupt = mkIntr(w, in.Intr.Type, in.Intr.Data)
				}
			}
			cpu.Step()
			if v.Kind == "rebuild" {
				// continue on a CPU rebuilt from the PUBLIC state only (a copy of States plus the exported fields)
				n := &z80.CPU{States: cpu.States, Memory: cpu.Memory, IO: cpu.IO, RETNHandler: cpu.RETNHandler, RETIHandler: cpu.RETIHandler,
					BreakPoints: cpu.BreakPoints, HALT: cpu.HALT}
				if cpu.Interrupt != nil {
					n.Interrupt = &z80.Interrupt{Type: cpu.Interrupt.Type, Data: append([]uint8{}, cpu.Interrupt.Data...)}
				}
				cpu = n
			}
		}
	case "short":
		// C12: the bundled SHORT memories and port spaces (DumbMemory / DumbIO shorter than their address range, MapMemory):
		// Step must return normally whatever is addressed.  Result: only whether it panicked, and where it ended.
		lens := []int{0, 1, 2, 3, 16, 255, 256, 257, 4096, 32768, 65535, 65536}
		ml := lens[int(v.MemSeed)%len(lens)]
		pl := []int{0, 1, 2, 128, 255, 256}[int(v.DevSeed)%6]
		var mem z80.Memory
		switch v.MemSeed % 3 {
		case 0:
			mm := z80.MapMemory{}
			for a, b := range w.mem {
				mm[a] = b
			}
			mem = mm
		default:
			if v.MemSeed%7 < 3 {
				// the slice ends INSIDE or right after the instruction at PC (1..4 bytes of it are in range), also at the very top of the
				// address space: length = PC + 1..4 (65535 and 65536 included when PC is FFFB..FFFF)
				ml = int(cpu.PC) + 1 + int(v.MemSeed/7)%4
				if ml > 65536 {
					ml = 65536
				}
			}
			dm := make(z80.DumbMemory, ml)
			for i := range dm {
				dm[i] = w.peek(uint16(i))
			}
			if ml > 0 && v.MemSeed%5 == 0 {
				// stack and pointers right at the end of the slice
				cpu.SP = uint16(ml)
				cpu.HL.SetU16(uint16(ml))
			}
			mem = dm
		}
		cpu.Memory = mem
		if v.HasIO {
			cpu.IO = make(z80.DumbIO, pl)
		}
		for k := 0; k < v.N; k++ {
			for _, in := range v.Inj {
				if in.At == k {
					cpu.Interrupt = mkIntr(w, in.Intr.Type, in.Intr.Data)
				}
			}
			cpu.Step()
		}
		return fmt.Sprintf("%s ok short mem=%d io=%d PC %04x", v.ID, ml, pl, cpu.PC)
	case "runirq", "stepirq":
		// a device that raises an interrupt from inside its callback at the k-th port access; the same schedule is
		// driven once by CPU.Run and once by CPU.Step with the stop rule applied externally (C08: real vs real)
		nport := 0
		w.onAccess = func(w *World, e Ev) {
			if e.K == 'i' || e.K == 'o' {
				nport++
				for _, in := range v.Inj {
					if in.At != nport {
						continue
					}
					if in.Intr.Type == 77 {
						// the device installs a NEW breakpoint set as a whole (a debugger port): no data = nil, one byte = empty set,
						// otherwise address pairs (hi, lo).  Run must look at the field as it is after each Step, exactly as a Step loop does
						switch {
						case len(in.Intr.Data) == 0:
							cpu.BreakPoints = nil
						default:
							nb := map[uint16]struct{}{}
							for j := 0; j+1 < len(in.Intr.Data); j += 2 {
								nb[uint16(in.Intr.Data[j])<<8|uint16(in.Intr.Data[j+1])] = struct{}{}
							}
							cpu.BreakPoints = nb
						}
						w.bp0, w.bpNil = nil, cpu.BreakPoints == nil
						for a := range cpu.BreakPoints {
							w.bp0 = append(w.bp0, a)
						}
						continue
					}
					cpu.Interrupt = mkIntr(w, in.Intr.Type, in.Intr.Data)
				}
			}
		}
		code := "limit"
		if v.Kind == "runirq" {
			ctx, cancel := context.WithTimeout(context.Background(), 5*time.Second)
			err := cpu.Run(ctx)
			cancel()
			switch {
			case err == nil:
				code = "nil"
			case err == z80.ErrBreakPoint:
				code = "bp"
			default:
				code = strings.ReplaceAll(err.Error(), " ", "_")
			}
		} else {
			cpu.HALT = false
			for k := 0; k < 200000; k++ {
				cpu.Step()
				if cpu.BreakPoints != nil {
					if _, ok := cpu.BreakPoints[cpu.PC]; ok {
						code = "bp"
						break
					}
				}
				if cpu.HALT {
					code = "nil"
					break
				}
			}
		}
		return resultStr(v.ID, cpu, w) + " RUN " + code
	case "run":
		// N consecutive calls of Run, each with a watchdog; the result is the error class of every call and the final state
		codes := ""
		n := v.N
		if n < 1 {
			n = 1
		}
		for k := 0; k < n; k++ {
			ctx, cancel := context.WithTimeout(context.Background(), 5*time.Second)
			err := cpu.Run(ctx)
			cancel()
			switch {
			case err == nil:
				codes += " nil"
			case err == z80.ErrBreakPoint:
				codes += " bp"
			default:
				codes += " " + strings.ReplaceAll(err.Error(), " ", "_")
			}
		}
		return resultStr(v.ID, cpu, w) + " RUN" + codes
	default:
		return v.ID + " ? unknown-kind"
	}
	return resultStr(v.ID, cpu, w)
}

func cmdRun() {
	log.SetFlags(0)
	log.SetOutput(warnWriter{&curWorld})
	in := bufio.NewReaderSize(os.Stdin, 1<<20)
	out := bufio.NewWriterSize(os.Stdout, 1<<20)
	defer out.Flush()
	for {
		line, err := in.ReadString('\n')
		line = strings.TrimSpace(line)
		if line != "" {
			v, perr := parseVec(line)
			if perr != nil {
				fmt.Fprintf(out, "? bad-vector %v\n", perr)
			} else {
				fmt.Fprintln(out, runVec(v))
			}
		}
		if err != nil {
			break
		}
	}
}

func main() {
	if len(os.Args) < 2 {
		fmt.Fprintln(os.Stderr, "usage: harness run | gen <kind> [-seed N] [-n N]")
		os.Exit(2)
	}
	switch os.Args[1] {
	case "run":
		cmdRun()
	case "gen":
		cmdGen(os.Args[2:])
	case "memio":
		cmdMemio()
	case "cpmglue":
		cmdCPMGlue()
	case "memkinds":
		cmdMemKinds()
	case "cpmpar":
		cmdCPMPar()
	case "cbraise":
		cmdCBRaise()
	case "mirrorpoke":
		cmdMirrorPoke()
	case "par":
		cmdPar(os.Args[2:])
	case "ctx":
		cmdCtx(os.Args[2:])
	case "flags":
		cmdFlags()
	default:
		fmt.Fprintln(os.Stderr, "unknown command")
		os.Exit(2)
	}
}

func atoiDef(s string, d int) int {
	v, err := strconv.Atoi(s)
	if err != nil {
		return d
	}
	return v
}
