/-
  C02 — 8-bit ALU, rotate/shift and bit results and flags are exact for all operands.

  (i)   Every Go flag/ALU helper (regenerated from accum.go, op_ctrl.go, op_rotateshift.go, op_bitop.go)
        equals the ARITHMETIC definition of Z80.Spec.Alu for every A, every operand and every incoming F:
        binary operations symbolically (carry-vector argument, no enumeration), unary ones and DAA by
        `decide` over their complete finite table.
  (ii)  What the arithmetic definitions say (C = "sum ≥ 256", H = "low nibbles ≥ 16", V = signed overflow,
        P = xor of the bits, CP takes bits 3/5 from the operand, BIT b,r from r, …).
  (iii) Every operand encoding of these families — B C D E H L A (HL) n IXH IXL IYH IYL (IX+d) (IY+d), 7 tables —
        executes exactly the reference instruction at the level of `Gen.Step`; the reference ALU step
        depends on (operation, A, operand value, F) only, hence the outcome is encoding independent.
-/
import Z80.Proofs.StepOf
import Z80.Proofs.Families.Alu8
import Z80.Proofs.Families.IncDec8
import Z80.Proofs.Families.RotShift
import Z80.Proofs.Families.Bit

namespace Z80.Props.C02
set_option maxRecDepth 8192
open Z80 Z80.Gen Z80.Spec Z80.Obl

-- (i) the helpers, all inputs ---------------------------------------------------

theorem C02_addU8 (a b : U8) (s : St) :
    Gen.addU8 a b s = .ok (add8 a b false).1 { s with AF.Lo := (add8 a b false).2 } := addU8_run a b s
theorem C02_adcU8 (a b : U8) (s : St) :
    Gen.adcU8 a b s = .ok (add8 a b (carryIn s.AF.Lo)).1 { s with AF.Lo := (add8 a b (carryIn s.AF.Lo)).2 } := adcU8_run a b s
theorem C02_subU8 (a b : U8) (s : St) :
    Gen.subU8 a b s = .ok (sub8 a b false).1 { s with AF.Lo := (sub8 a b false).2 } := subU8_run a b s
theorem C02_sbcU8 (a b : U8) (s : St) :
    Gen.sbcU8 a b s = .ok (sub8 a b (carryIn s.AF.Lo)).1 { s with AF.Lo := (sub8 a b (carryIn s.AF.Lo)).2 } := sbcU8_run a b s
theorem C02_cpU8 (a b : U8) (s : St) :
    Gen.cpU8 a b s = .ok (sub8 a b false).1 { s with AF.Lo := cp8 a b } := cpU8_run a b s
theorem C02_andU8 (a b : U8) (s : St) : Gen.andU8 a b s = .ok (and8 a b).1 { s with AF.Lo := (and8 a b).2 } := andU8_run a b s
theorem C02_orU8 (a b : U8) (s : St) : Gen.orU8 a b s = .ok (or8 a b).1 { s with AF.Lo := (or8 a b).2 } := orU8_run a b s
theorem C02_xorU8 (a b : U8) (s : St) : Gen.xorU8 a b s = .ok (xor8 a b).1 { s with AF.Lo := (xor8 a b).2 } := xorU8_run a b s
theorem C02_incU8 (a : U8) (s : St) :
    Gen.incU8 a s = .ok (inc8 a s.AF.Lo).1 { s with AF.Lo := (inc8 a s.AF.Lo).2 } := incU8_run a s
theorem C02_decU8 (a : U8) (s : St) :
    Gen.decU8 a s = .ok (dec8 a s.AF.Lo).1 { s with AF.Lo := (dec8 a s.AF.Lo).2 } := decU8_run a s
theorem C02_DAA (s : St) : Gen.oopDAA s = .ok () (setAF s (daa8 s.AF.Hi s.AF.Lo)) := oopDAA_run s
theorem C02_CPL (s : St) : Gen.oopCPL s = .ok () (setAF s (cpl8 s.AF.Hi s.AF.Lo)) := oopCPL_run s
theorem C02_NEG (s : St) : Gen.oopNEG s = .ok () (setAF s (neg8 s.AF.Hi)) := oopNEG_run s
theorem C02_SCF (s : St) : Gen.oopSCF s = .ok () (scfSt Impl.koron s) := oopSCF_run s
theorem C02_CCF (s : St) : Gen.oopCCF s = .ok () (ccfSt Impl.koron s) := oopCCF_run s
theorem C02_rot (a : U8) (s : St) :
    Gen.rlcU8 a s = .ok (rot8 .rlc a s.AF.Lo).1 { s with AF.Lo := (rot8 .rlc a s.AF.Lo).2 } ∧
    Gen.rrcU8 a s = .ok (rot8 .rrc a s.AF.Lo).1 { s with AF.Lo := (rot8 .rrc a s.AF.Lo).2 } ∧
    Gen.rlU8 a s = .ok (rot8 .rl a s.AF.Lo).1 { s with AF.Lo := (rot8 .rl a s.AF.Lo).2 } ∧
    Gen.rrU8 a s = .ok (rot8 .rr a s.AF.Lo).1 { s with AF.Lo := (rot8 .rr a s.AF.Lo).2 } ∧
    Gen.slaU8 a s = .ok (rot8 .sla a s.AF.Lo).1 { s with AF.Lo := (rot8 .sla a s.AF.Lo).2 } ∧
    Gen.sraU8 a s = .ok (rot8 .sra a s.AF.Lo).1 { s with AF.Lo := (rot8 .sra a s.AF.Lo).2 } ∧
    Gen.sl1U8 a s = .ok (rot8 .sll a s.AF.Lo).1 { s with AF.Lo := (rot8 .sll a s.AF.Lo).2 } ∧
    Gen.srlU8 a s = .ok (rot8 .srl a s.AF.Lo).1 { s with AF.Lo := (rot8 .srl a s.AF.Lo).2 } :=
  ⟨rlcU8_run a s, rrcU8_run a s, rlU8_run a s, rrU8_run a s, slaU8_run a s, sraU8_run a s, sl1U8_run a s, srlU8_run a s⟩
theorem C02_rotA (s : St) :
    Gen.oopRLCA s = .ok () (setAF s (rotA .rlc s.AF.Hi s.AF.Lo)) ∧ Gen.oopRRCA s = .ok () (setAF s (rotA .rrc s.AF.Hi s.AF.Lo)) ∧
    Gen.oopRLA s = .ok () (setAF s (rotA .rl s.AF.Hi s.AF.Lo)) ∧ Gen.oopRRA s = .ok () (setAF s (rotA .rr s.AF.Hi s.AF.Lo)) :=
  ⟨oopRLCA_run s, oopRRCA_run s, oopRLA_run s, oopRRA_run s⟩
theorem C02_bit_r (b v : U8) (hb : b.toNat < 8) (s : St) :
    Gen.bitchk8 b v s = .ok () { s with AF.Lo := bit8 b.toNat v s.AF.Lo v } := bitchk8_run b v hb s
theorem C02_bit_mem (b v : U8) (hb : b.toNat < 8) (s : St) :
    Gen.bitchk8b b v s = .ok () { s with AF.Lo := bit8 b.toNat v s.AF.Lo 0#8 } := bitchk8b_run b v hb s

-- (ii) what the arithmetic definitions say --------------------------------------

theorem add8_result (a b : U8) (c : Bool) : (add8 a b c).1 = a + b + (BitVec.ofBool c).setWidth 8 := by
  apply BitVec.eq_of_toNat_eq; cases c <;> simp [add8, BitVec.toNat_add]
theorem add8_C (a b : U8) (c : Bool) : (add8 a b c).2[0] = decide (a.toNat + b.toNat + c.toNat ≥ 256) := by simp [add8]
theorem add8_H (a b : U8) (c : Bool) : (add8 a b c).2[4] = decide (a.toNat % 16 + b.toNat % 16 + c.toNat ≥ 16) := by simp [add8]
theorem add8_V (a b : U8) (c : Bool) :
    (add8 a b c).2[2] = decide (a.toInt + b.toInt + (c.toNat : Int) < -128 ∨ a.toInt + b.toInt + (c.toNat : Int) > 127) := by simp [add8]
theorem add8_Z (a b : U8) (c : Bool) : (add8 a b c).2[6] = ((add8 a b c).1 == 0#8) := by simp [add8]
theorem add8_S (a b : U8) (c : Bool) : (add8 a b c).2[7] = (add8 a b c).1[7] := by simp [add8]
theorem add8_N (a b : U8) (c : Bool) : (add8 a b c).2[1] = false := by simp [add8]
theorem add8_35 (a b : U8) (c : Bool) : (add8 a b c).2[3] = (add8 a b c).1[3] ∧ (add8 a b c).2[5] = (add8 a b c).1[5] := by simp [add8]
theorem sub8_result (a b : U8) (c : Bool) : (sub8 a b c).1 = a - b - (BitVec.ofBool c).setWidth 8 := by
  rw [← sub8_res]
  cases c <;> simp <;> bv_omega
theorem sub8_C (a b : U8) (c : Bool) : (sub8 a b c).2[0] = decide (a.toNat < b.toNat + c.toNat) := by simp [sub8]
theorem sub8_H (a b : U8) (c : Bool) : (sub8 a b c).2[4] = decide (a.toNat % 16 < b.toNat % 16 + c.toNat) := by simp [sub8]
theorem sub8_V (a b : U8) (c : Bool) :
    (sub8 a b c).2[2] = decide (a.toInt - b.toInt - (c.toNat : Int) < -128 ∨ a.toInt - b.toInt - (c.toNat : Int) > 127) := by simp [sub8]
theorem sub8_N (a b : U8) (c : Bool) : (sub8 a b c).2[1] = true := by simp [sub8]
/-- CP: bits 3 and 5 come from the OPERAND, everything else from A − operand -/
theorem cp8_35 (a b : U8) : (cp8 a b)[3] = b[3] ∧ (cp8 a b)[5] = b[5] := by
  constructor <;> (rw [← BitVec.getLsbD_eq_getElem, ← BitVec.getLsbD_eq_getElem]; simp [cp8, keepBits, BitVec.getLsbD_or, BitVec.getLsbD_and])
theorem cp8_rest (a b : U8) (i : Nat) (hi : i < 8) (h3 : i ≠ 3) (h5 : i ≠ 5) :
    (cp8 a b).getLsbD i = (sub8 a b false).2.getLsbD i := by
  have : i = 0 ∨ i = 1 ∨ i = 2 ∨ i = 4 ∨ i = 6 ∨ i = 7 := by omega
  rcases this with h|h|h|h|h|h <;> subst h <;> simp [cp8, keepBits, BitVec.getLsbD_or, BitVec.getLsbD_and, BitVec.getLsbD_not]
/-- parity is the xor of the eight bits -/
theorem parity_def (v : U8) : parityEven v = !(v[0] ^^ v[1] ^^ v[2] ^^ v[3] ^^ v[4] ^^ v[5] ^^ v[6] ^^ v[7]) := by
  simp [parityEven, bitOf]
theorem logic_flags (r : U8) (h : Bool) :
    (logicFlags r h)[7] = r[7] ∧ (logicFlags r h)[6] = (r == 0#8) ∧ (logicFlags r h)[5] = r[5] ∧ (logicFlags r h)[4] = h ∧
    (logicFlags r h)[3] = r[3] ∧ (logicFlags r h)[2] = parityEven r ∧ (logicFlags r h)[1] = false ∧ (logicFlags r h)[0] = false := by
  simp [logicFlags]
/-- INC/DEC keep C; BIT keeps C; rotates on A keep S Z P/V -/
theorem inc8_keeps_C (x f : U8) : (inc8 x f).2[0] = f[0] := by
  rw [← BitVec.getLsbD_eq_getElem, ← BitVec.getLsbD_eq_getElem]; simp [inc8, keepBits, BitVec.getLsbD_or, BitVec.getLsbD_and, BitVec.getLsbD_not, flags_bit0]
theorem dec8_keeps_C (x f : U8) : (dec8 x f).2[0] = f[0] := by
  rw [← BitVec.getLsbD_eq_getElem, ← BitVec.getLsbD_eq_getElem]; simp [dec8, keepBits, BitVec.getLsbD_or, BitVec.getLsbD_and, BitVec.getLsbD_not, flags_bit0]
theorem inc8_V (x f : U8) : (inc8 x f).2[2] = (x == 0x7f#8) := by
  rw [← BitVec.getLsbD_eq_getElem]; simp [inc8, keepBits, BitVec.getLsbD_or, BitVec.getLsbD_and, BitVec.getLsbD_not, flags_bit2]
theorem dec8_V (x f : U8) : (dec8 x f).2[2] = (x == 0x80#8) := by
  rw [← BitVec.getLsbD_eq_getElem]; simp [dec8, keepBits, BitVec.getLsbD_or, BitVec.getLsbD_and, BitVec.getLsbD_not, flags_bit2]
/-- BIT b,r: Z = P/V = ¬bit, S only for bit 7, H set, N reset, 3/5 from the tested register -/
theorem bit8_flags (b : Nat) (x f : U8) :
    (bit8 b x f x).getLsbD 6 = !x.getLsbD b ∧ (bit8 b x f x).getLsbD 2 = !x.getLsbD b ∧
    (bit8 b x f x).getLsbD 7 = (decide (b = 7) && x.getLsbD b) ∧ (bit8 b x f x).getLsbD 4 = true ∧
    (bit8 b x f x).getLsbD 1 = false ∧ (bit8 b x f x).getLsbD 0 = f.getLsbD 0 ∧
    (bit8 b x f x).getLsbD 3 = x.getLsbD 3 ∧ (bit8 b x f x).getLsbD 5 = x.getLsbD 5 := by
  simp [bit8, keepBits, bitOf, BitVec.getLsbD_or, BitVec.getLsbD_and, BitVec.getLsbD_not, flags_bit0, flags_bit1, flags_bit2,
    flags_bit3, flags_bit4, flags_bit5, flags_bit6, flags_bit7]

-- textbook rows (the definitions are not vacuous)
example : add8 0x7f#8 0x01#8 false = (0x80#8, 0x94#8) := by decide     -- S H V
example : sub8 0x00#8 0x01#8 false = (0xff#8, 0xbb#8) := by decide     -- S 5 H 3 N C
example : daa8 0x9a#8 0x00#8 = (0x00#8, 0x55#8) := by decide           -- Z H P C
example : cp8 0x10#8 0x28#8 = 0xbb#8 := by decide                       -- 3/5 from the operand 0x28
example : rot8 .sll 0x80#8 0x00#8 = (0x01#8, 0x01#8) := by decide

-- (iii) every encoding, at the level of Step --------------------------------------

/-- the reference ALU step depends on (operation, A, operand value, F) only: the same for every operand encoding -/
theorem C02_encoding_independent (op : Alu) (x : U8) (s : St) :
    doAlu op x s = .ok () { s with AF := { Hi := (aluApply op s.AF.Hi x s.AF.Lo).1, Lo := (aluApply op s.AF.Hi x s.AF.Lo).2 } } := rfl
/-- every register/memory/immediate/index form of `alu op` is "read the operand, then that step" -/
theorem C02_alu_form (impl : Impl) (op : Alu) (src : Loc8) :
    exec impl (.alu op src) = (readLoc src >>= doAlu op) ∧ exec impl (.alun op) = (Spec.fetch >>= doAlu op) := ⟨rfl, rfl⟩
/-- INC/DEC/rotates/SET/RES on any location are one read-modify-write with the arithmetic function -/
theorem C02_rmw_form (impl : Impl) (l : Loc8) (k : Rot) :
    exec impl (.inc8 l) = rmwLoc l inc8 ∧ exec impl (.dec8 l) = rmwLoc l dec8 ∧ exec impl (.rot k l) = rmwLoc l (rot8 k) :=
  ⟨rfl, rfl, rfl⟩

/-- all unprefixed encodings of the C02 families -/
def mainSlots : List U8 := slots_Alu8_main ++ slots_IncDec8_main ++ slots_RotShift_main

theorem C02_step_main (s : St) (h₁ : s.Interrupt = none) (h₂ : s.Memory = .user) (b : U8) (hb : b ∈ mainSlots)
    (hop : s.mem s.PC = b) : Gen.Step s = execMain Impl.koron b (afterM1 s) := by
  apply step_main s h₁ h₂ b hop
  simp only [mainSlots, List.mem_append] at hb
  rcases hb with (hb | hb) | hb
  · exact fam_Alu8_main b hb
  · exact fam_IncDec8_main b hb
  · exact fam_RotShift_main b hb

/-- all 256 CB encodings: rotates/shifts (incl. SLL) and BIT/RES/SET on B C D E H L (HL) A -/
theorem C02_step_cb (s : St) (h₁ : s.Interrupt = none) (h₂ : s.Memory = .user) (b : U8)
    (hb : b ∈ slots_RotShift_cb ++ slots_Bit_cb) (hp : s.mem s.PC = 0xcb#8) (hop : s.mem (s.PC + 1#16) = b) :
    Gen.Step s = exec Impl.koron (decodeCB b.toNat) (afterM1 (afterM1 s)) := by
  apply step_cb s h₁ h₂ b hp hop
  rcases List.mem_append.1 hb with hb | hb
  · exact fun c0 => fam_RotShift_cb c0 b hb
  · exact fun c0 => fam_Bit_cb c0 b hb

/-- ED 44 (NEG), ED 67 / 6F (RRD / RLD) -/
theorem C02_step_ed (s : St) (h₁ : s.Interrupt = none) (h₂ : s.Memory = .user) (b : U8)
    (hb : b ∈ slots_Alu8_ed ++ slots_RotShift_ed) (hp : s.mem s.PC = 0xed#8) (hop : s.mem (s.PC + 1#16) = b) :
    Gen.Step s = execOpt Impl.koron [0xed#8, b] (decodeED b.toNat) (afterM1 (afterM1 s)) := by
  apply step_ed s h₁ h₂ b hp hop
  rcases List.mem_append.1 hb with hb | hb
  · exact fun c0 => fam_Alu8_ed c0 b hb
  · exact fun c0 => fam_RotShift_ed c0 b hb

/-- DD forms: IXH, IXL, (IX+d) and the mirrored register forms -/
theorem C02_step_dd (s : St) (h₁ : s.Interrupt = none) (h₂ : s.Memory = .user) (b : U8)
    (hb : b ∈ slots_Alu8_dd ++ slots_IncDec8_dd) (hp : s.mem s.PC = 0xdd#8) (hop : s.mem (s.PC + 1#16) = b) :
    Gen.Step s = execOpt Impl.koron [0xdd#8, b] (decodeXY .IX b.toNat) (afterM1 (afterM1 s)) := by
  apply step_dd s h₁ h₂ b hp hop
  rcases List.mem_append.1 hb with hb | hb
  · exact fun c0 => fam_Alu8_dd c0 b hb
  · exact fun c0 => fam_IncDec8_dd c0 b hb

/-- FD forms: IYH, IYL, (IY+d) and the mirrored register forms -/
theorem C02_step_fd (s : St) (h₁ : s.Interrupt = none) (h₂ : s.Memory = .user) (b : U8)
    (hb : b ∈ slots_Alu8_fd ++ slots_IncDec8_fd) (hp : s.mem s.PC = 0xfd#8) (hop : s.mem (s.PC + 1#16) = b) :
    Gen.Step s = execOpt Impl.koron [0xfd#8, b] (decodeXY .IY b.toNat) (afterM1 (afterM1 s)) := by
  apply step_fd s h₁ h₂ b hp hop
  rcases List.mem_append.1 hb with hb | hb
  · exact fun c0 => fam_Alu8_fd c0 b hb
  · exact fun c0 => fam_IncDec8_fd c0 b hb

/-- DD CB d op / FD CB d op: rotates/shifts and BIT/RES/SET on (IX+d) / (IY+d), every displacement -/
theorem C02_step_ddcb (s : St) (h₁ : s.Interrupt = none) (h₂ : s.Memory = .user) (d b : U8)
    (hb : b ∈ slots_RotShift_ddcb ++ slots_Bit_ddcb)
    (hp : s.mem s.PC = 0xdd#8) (hq : s.mem (s.PC + 1#16) = 0xcb#8) (hd : s.mem (s.PC + 2#16) = d) (hop : s.mem (s.PC + 3#16) = b) :
    Gen.Step s = execOpt Impl.koron [0xdd#8, 0xcb#8, d, b] (decodeXYCB .IX d b.toNat) (afterM1 (afterFetch (afterM1 (afterM1 s)))) := by
  apply step_ddcb s h₁ h₂ d b hp hq hd hop
  rcases List.mem_append.1 hb with hb | hb
  · exact fun c0 c1 d => fam_RotShift_ddcb c0 c1 d b hb
  · exact fun c0 c1 d => fam_Bit_ddcb c0 c1 d b hb
theorem C02_step_fdcb (s : St) (h₁ : s.Interrupt = none) (h₂ : s.Memory = .user) (d b : U8)
    (hb : b ∈ slots_RotShift_fdcb ++ slots_Bit_fdcb)
    (hp : s.mem s.PC = 0xfd#8) (hq : s.mem (s.PC + 1#16) = 0xcb#8) (hd : s.mem (s.PC + 2#16) = d) (hop : s.mem (s.PC + 3#16) = b) :
    Gen.Step s = execOpt Impl.koron [0xfd#8, 0xcb#8, d, b] (decodeXYCB .IY d b.toNat) (afterM1 (afterFetch (afterM1 (afterM1 s)))) := by
  apply step_fdcb s h₁ h₂ d b hp hq hd hop
  rcases List.mem_append.1 hb with hb | hb
  · exact fun c0 c1 d => fam_RotShift_fdcb c0 c1 d b hb
  · exact fun c0 c1 d => fam_Bit_fdcb c0 c1 d b hb

/-- the families cover the ~560 encodings the property speaks of -/
theorem C02_slot_count :
    mainSlots.length + (slots_RotShift_cb ++ slots_Bit_cb).length + (slots_Alu8_ed ++ slots_RotShift_ed).length +
    (slots_Alu8_dd ++ slots_IncDec8_dd).length + (slots_Alu8_fd ++ slots_IncDec8_fd).length +
    (slots_RotShift_ddcb ++ slots_Bit_ddcb).length + (slots_RotShift_fdcb ++ slots_Bit_fdcb).length = 559 := by decide

/-- worked instance: `ADD A,(IX+d)` and `ADD A,B` give the same (A', F') when the operand values agree -/
theorem C02_add_ixd_vs_b (s t : St) (hs₁ : s.Interrupt = none) (hs₂ : s.Memory = .user) (ht₁ : t.Interrupt = none)
    (ht₂ : t.Memory = .user)
    (hsp : s.mem s.PC = 0xdd#8) (hsop : s.mem (s.PC + 1#16) = 0x86#8) (htop : t.mem t.PC = 0x80#8)
    (hAF : s.AF = t.AF) (hx : s.mem (addDisp s.IX (s.mem (s.PC + 2#16))) = t.BC.Hi) :
    ∃ s' t', Gen.Step s = .ok () s' ∧ Gen.Step t = .ok () t' ∧ s'.AF = t'.AF := by
  rw [C02_step_dd s hs₁ hs₂ 0x86#8 (by decide) hsp hsop, C02_step_main t ht₁ ht₂ 0x80#8 (by decide) htop]
  simp only [addDisp] at hx
  simp [z80spec, afterM1, z80helper, hAF, hx]

end Z80.Props.C02
