/-
  Z80.Proofs.IM0B — mode 0 with supplied bytes, for EVERY supplied instruction and EVERY state: the regenerated Step
  is "one reference instruction executed over the overlay bus" (`Spec.im0StepB`), flip-flops cleared, request
  consumed, Memory value restored.
-/
import Z80.Proofs.StepB
import Z80.Spec.KoronIM0B

namespace Z80
open Z80.Gen Z80.Spec
set_option maxRecDepth 8192


/-- THE mode-0 theorem: any supplied bytes, any state (whatever Memory value is installed) -/
theorem step_im0_any (s : St) (i : Interrupt) (hi : s.Interrupt = some i) (hn : i.Type_ ≠ 0)
    (hf : s.IFF1 = true) (him : s.IM = 0) (hd : i.Data ≠ []) :
    Gen.Step s = Spec.im0StepB Impl.koron i.Data s := by
  have hlen : decide (goLen i.Data > (0 : Int)) = true := by
    cases hdd : i.Data with
    | nil => exact absurd hdd hd
    | cons a r => simp [goLen]
  simp only [Gen.Step, Gen.processInterrupt, bind_run, getSt_run, Res.bind_ok, hi, deref_some, hn, beq_iff_eq, if_false,
    hf, Bool.not_true, Bool.false_eq_true, him, if_true, hlen, ite_run, pure_run, modifySt_run, Gen.newIm0data,
    Option.isSome_some, Bool.and_true, bne_iff_ne, ne_eq, not_false_eq_true, decide_true]
  simp only [executeOne_eqB, Spec.im0StepB, Spec.im0Overlay, bind_run, getSt_run, Res.bind_ok, modifySt_run]
  simp only [hi]
  generalize SpecB.executeOne Impl.koron _ = r
  cases r with
  | panic e => simp [Res.bind]
  | ok a t => simp [Res.bind]

end Z80
