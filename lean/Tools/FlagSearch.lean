/-
  Tools.FlagSearch — search for a concrete counterexample to C16 in the REGENERATED accessor definitions:
  all 256 masks × 256 F values for GetFlag / SetFlag / ResetFlag, all 65536 values for SetU16;U16.
  Prints one line per kind for the first mismatch found.  Usage: lake env lean --run Tools/FlagSearch.lean
-/
import Z80.Gen.All
import Z80.Proto
open Z80 Z80.Gen Z80.Proto

def gprLens : Lens GPR := ⟨fun s => s.toGPR, fun v s => { s with toGPR := v }⟩
def bcLens : Lens Register := ⟨fun s => s.BC, fun v s => { s with BC := v }⟩
def st0 (a f : U8) : St := { (default : CPU) with AF := ⟨a, f⟩, Memory := .user, mem := fun _ => 0#8, dev := fun _ _ => 0#8, log := [] }

def main : IO Unit := do
  let mut badGet := 0
  let mut badSet := 0
  let mut badReset := 0
  for m in [0:256] do
    for f in [0:256] do
      let mk : U8 := BitVec.ofNat 8 m
      let fv : U8 := BitVec.ofNat 8 f
      let a : U8 := BitVec.ofNat 8 ((m * 7 + f * 13 + 5) % 256)
      let s := st0 a fv
      let got := GPR_GetFlag s.toGPR mk
      let want := (fv &&& mk) != 0#8
      if got != want then
        if badGet == 0 then IO.println s!"flag get mask={hex8 mk} F={hex8 fv} model={got} want={want}"
        badGet := badGet + 1
      match GPR_SetFlag gprLens mk s with
      | .ok _ t =>
        if t.AF.Lo != (fv ||| mk) || t.AF.Hi != a || t.BC != s.BC then
          if badSet == 0 then IO.println s!"flag set mask={hex8 mk} F={hex8 fv} A={hex8 a} model=F:{hex8 t.AF.Lo},A:{hex8 t.AF.Hi} want=F:{hex8 (fv ||| mk)},A:{hex8 a}"
          badSet := badSet + 1
      | .panic w => if badSet == 0 then IO.println s!"flag set mask={hex8 mk} F={hex8 fv} model=panic:{w}"; badSet := badSet + 1
      match GPR_ResetFlag gprLens mk s with
      | .ok _ t =>
        if t.AF.Lo != (fv &&& ~~~mk) || t.AF.Hi != a || t.BC != s.BC then
          if badReset == 0 then IO.println s!"flag reset mask={hex8 mk} F={hex8 fv} A={hex8 a} model=F:{hex8 t.AF.Lo},A:{hex8 t.AF.Hi} want=F:{hex8 (fv &&& ~~~mk)},A:{hex8 a}"
          badReset := badReset + 1
      | .panic w => if badReset == 0 then IO.println s!"flag reset mask={hex8 mk} F={hex8 fv} model=panic:{w}"; badReset := badReset + 1
  let mut badU16 := 0
  for v in [0:65536] do
    let w : U16 := BitVec.ofNat 16 v
    match Register_SetU16 bcLens w (st0 0#8 0#8) with
    | .ok _ t =>
      if Register_U16 t.BC != w || t.BC.Hi.toNat != v / 256 || t.BC.Lo.toNat != v % 256 then
        if badU16 == 0 then IO.println s!"flag u16 value={hex16 w} model=U16:{hex16 (Register_U16 t.BC)},Hi:{hex8 t.BC.Hi},Lo:{hex8 t.BC.Lo}"
        badU16 := badU16 + 1
    | .panic _ => badU16 := badU16 + 1
  IO.println s!"done get={badGet} set={badSet} reset={badReset} u16={badU16} pairs=65536 values=65536"
