/-
  C01 (continued) — the readable form of one Step, and "everything the instruction does not name is left bit-for-bit
  unchanged", field by field, for EVERY instruction and EVERY state of the regenerated code.

    * `C01_decoded`: Gen.Step s = exec (the instruction encoded at PC) (the state after its opcode / prefix /
      displacement fetches) — or, for an encoding outside the implemented set, one warning;
    * frame theorems at Step level: the alternate set changes only under EX AF,AF' / EXX; IM only under IM n;
      IFF1/IFF2 only under EI / DI / RETN; I and R(7) only under LD I,A / LD R,A (C14); IX resp. IY only under
      instructions naming that register; Interrupt / Memory / BreakPoints never; with the decode-table facts
      saying which opcodes those are (all 7 × 256 encodings, kernel evaluation).
-/
import Z80.Props.C01
import Z80.Proofs.Decoded
import Z80.Proofs.Frame2
import Z80.Proofs.Mirror
import Z80.Proofs.FrameB

namespace Z80.Props.C01
open Z80 Z80.Gen Z80.Spec
set_option maxRecDepth 8192

/-- one Step = the instruction encoded at PC, executed in the state after its fetches -/
theorem C01_decoded (s : St) (h₁ : s.Interrupt = none) (h₂ : s.Memory = .user) :
    Gen.Step s = execOpt Impl.koron (encodingBytes s) (decodedAt s) (afterFetches s) := by
  rw [C01_step s h₁ h₂, executeOne_decoded]

/-- the fetches touch PC, R and the bus log only -/
theorem afterFetches_frame (s : St) :
    (afterFetches s).toGPR = s.toGPR ∧ (afterFetches s).Alternate = s.Alternate ∧ (afterFetches s).IX = s.IX ∧
    (afterFetches s).IY = s.IY ∧ (afterFetches s).SP = s.SP ∧ (afterFetches s).IR.Hi = s.IR.Hi ∧
    (afterFetches s).IFF1 = s.IFF1 ∧ (afterFetches s).IFF2 = s.IFF2 ∧ (afterFetches s).IM = s.IM ∧
    (afterFetches s).HALT = s.HALT ∧ (afterFetches s).mem = s.mem ∧ (afterFetches s).Interrupt = s.Interrupt ∧
    (afterFetches s).Memory = s.Memory ∧ (afterFetches s).BreakPoints = s.BreakPoints := by
  unfold afterFetches
  split
  · simp [afterM1]
  · split
    · split <;> simp [afterM1, afterFetch]
    · simp [afterM1]

/-- a generic frame principle: a field that the fetches do not touch and that `exec i` keeps for the decoded
    instruction is unchanged by the Step -/
theorem step_keeps {β : Type} (g : St → β) (s t : St) (h₁ : s.Interrupt = none) (h₂ : s.Memory = .user)
    (hstep : Gen.Step s = .ok () t) (hf : g (afterFetches s) = g s)
    (hw : ∀ (bytes : List U8) (u : St), g { u with log := .warn bytes :: u.log } = g u)
    (hexec : ∀ i, decodedAt s = some i → ∀ u v, exec Impl.koron i u = .ok () v → g v = g u) : g t = g s := by
  rw [C01_decoded s h₁ h₂] at hstep
  cases hd : decodedAt s with
  | none =>
    simp only [hd, execOpt, consumed, warn, Res.ok.injEq, true_and] at hstep
    rw [← hstep, hw, hf]
  | some i =>
    simp only [hd, execOpt] at hstep
    rw [hexec i hd _ _ hstep, hf]

/-- the alternate register set changes only under EX AF,AF' and EXX -/
theorem C01_alt_kept (s t : St) (h₁ : s.Interrupt = none) (h₂ : s.Memory = .user) (hstep : Gen.Step s = .ok () t)
    (h1 : decodedAt s ≠ some .exAF) (h2 : decodedAt s ≠ some .exx) : t.Alternate = s.Alternate :=
  step_keeps (·.Alternate) s t h₁ h₂ hstep (afterFetches_frame s).2.1 (fun _ _ => rfl)
    (fun i hi u v hv => exec_alt_kept i (fun e => h1 (e ▸ hi)) (fun e => h2 (e ▸ hi)) u v hv)
/-- the interrupt mode changes only under IM n -/
theorem C01_im_kept (s t : St) (h₁ : s.Interrupt = none) (h₂ : s.Memory = .user) (hstep : Gen.Step s = .ok () t)
    (h : ∀ n, decodedAt s ≠ some (.im n)) : t.IM = s.IM :=
  step_keeps (·.IM) s t h₁ h₂ hstep (afterFetches_frame s).2.2.2.2.2.2.2.2.1 (fun _ _ => rfl)
    (fun i hi u v hv => exec_im_kept i (fun n e => h n (e ▸ hi)) u v hv)
/-- IFF1 / IFF2 change only under EI, DI, RETN -/
theorem C01_iff_kept (s t : St) (h₁ : s.Interrupt = none) (h₂ : s.Memory = .user) (hstep : Gen.Step s = .ok () t)
    (h1 : decodedAt s ≠ some .ei) (h2 : decodedAt s ≠ some .di) (h3 : decodedAt s ≠ some .retn) :
    t.IFF1 = s.IFF1 ∧ t.IFF2 = s.IFF2 := by
  have := step_keeps (fun u => (u.IFF1, u.IFF2)) s t h₁ h₂ hstep
    (by simp [(afterFetches_frame s).2.2.2.2.2.2.1, (afterFetches_frame s).2.2.2.2.2.2.2.1]) (fun _ _ => rfl)
    (fun i hi u v hv => by
      obtain ⟨a, b⟩ := exec_iff_kept i (fun e => h1 (e ▸ hi)) (fun e => h2 (e ▸ hi)) (fun e => h3 (e ▸ hi)) u v hv
      simp [a, b])
  simpa using this
/-- IX (IY) changes only under an instruction that names IX (IY) -/
theorem C01_xy_kept (x : XY) (s t : St) (h₁ : s.Interrupt = none) (h₂ : s.Memory = .user) (hstep : Gen.Step s = .ok () t)
    (h : ∀ i, decodedAt s = some i → i.mentions x = false) : getXY x t = getXY x s := by
  refine step_keeps (getXY x) s t h₁ h₂ hstep ?_ (fun _ _ => by cases x <;> rfl) ?_
  · cases x
    · exact (afterFetches_frame s).2.2.1
    · exact (afterFetches_frame s).2.2.2.1
  · intro i hi u v hv
    have hc := exec_xy_blind x i (h i hi) (getXY x u) u
    have e : setXY x (getXY x u) u = u := by cases x <;> rfl
    rw [e, hv] at hc
    simp only [Res.mapSt_ok, Res.ok.injEq, true_and] at hc
    rw [hc]; cases x <;> rfl
/-- the pending request, the Memory interface value and the breakpoint set are never changed by an instruction -/
theorem C01_control_kept (s t : St) (h₁ : s.Interrupt = none) (h₂ : s.Memory = .user) (hstep : Gen.Step s = .ok () t) :
    t.Interrupt = none ∧ t.Memory = .user ∧ t.BreakPoints = s.BreakPoints := by
  obtain ⟨u, hu, a, b, c⟩ := gen_executeOne_ok s h₂
  rw [gen_Step_noint s h₁, hu] at hstep
  simp only [Res.ok.injEq, true_and] at hstep
  subst hstep
  exact ⟨by rw [b, h₁], a, c⟩

/-- which encodings those are — all seven tables, every byte:
    EX AF,AF' is 08 only; EXX is D9 only; IM n is ED 46/56/5E only; EI is FB, DI is F3, RETN is ED 45 only -/
theorem C01_special_encodings :
    (∀ b : Fin 256, (decodeBase none b.val = some .exAF ↔ b.val = 0x08) ∧ (decodeBase none b.val = some .exx ↔ b.val = 0xd9) ∧
       (decodeBase none b.val = some .ei ↔ b.val = 0xfb) ∧ (decodeBase none b.val = some .di ↔ b.val = 0xf3) ∧
       decodeBase none b.val ≠ some .retn ∧ (∀ n : Fin 3, decodeBase none b.val ≠ some (.im n.val))) ∧
    (∀ b : Fin 256, decodeCB b.val ≠ .exAF ∧ decodeCB b.val ≠ .exx ∧ decodeCB b.val ≠ .ei ∧ decodeCB b.val ≠ .di ∧ decodeCB b.val ≠ .retn) ∧
    (∀ b : Fin 256, decodeED b.val ≠ some .exAF ∧ decodeED b.val ≠ some .exx ∧ decodeED b.val ≠ some .ei ∧ decodeED b.val ≠ some .di ∧
       (decodeED b.val = some .retn ↔ b.val = 0x45) ∧
       (decodeED b.val = some (.im 0) ↔ b.val = 0x46) ∧ (decodeED b.val = some (.im 1) ↔ b.val = 0x56) ∧ (decodeED b.val = some (.im 2) ↔ b.val = 0x5e)) ∧
    (∀ b : Fin 256, ∀ x : XY, decodeXY x b.val ≠ some .exAF ∧ decodeXY x b.val ≠ some .exx ∧ decodeXY x b.val ≠ some .ei ∧
       decodeXY x b.val ≠ some .di ∧ decodeXY x b.val ≠ some .retn) := by
  refine ⟨by decide, by decide, by decide, ?_⟩
  intro b x; cases x <;> revert b <;> decide

/-- the bus-layer form of C01: for EVERY state and EVERY Memory value (the user's memory, or the mode-0 overlay the
    interrupt controller installs), the regenerated instruction interpreter is the reference interpreter over that bus
    (a second, independent obligation layer: 1788 slot obligations without any hypothesis); on the user memory it is
    the reference of Z80/Spec -/
theorem C01_bus (s : St) : Gen.executeOne s = SpecB.executeOne Impl.koron s := executeOne_eqB s
theorem C01_bus_user (s : St) (h : s.Memory = .user) : SpecB.executeOne Impl.koron s = Spec.executeOne Impl.koron s :=
  executeOneB_user s h

end Z80.Props.C01
