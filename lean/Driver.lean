/-
  Driver — reads vectors on stdin, runs the GENERATED model (Z80.Gen) or the hand-written
  reference (Z80.Spec) on them and prints one canonical result line per vector.
  Usage: lake env lean --run Driver.lean [gen|spec]
-/
import Z80.Proto
import Z80.Gen.All
import Z80.Spec.Koron

open Z80 Z80.Proto

/-- reference step: only defined here for states without a pending request -/
def specStep : M Unit := fun s =>
  match s.Interrupt with
  | none => Z80.Spec.executeOne Z80.Spec.Impl.koron s
  | some _ => .panic "skip"

partial def loop (h : IO.FS.Stream) (out : IO.FS.Stream) (step : M Unit) : IO Unit := do
  let line ← h.getLine
  if line.isEmpty then return ()
  let line := line.trimAsciiEnd.toString
  if line.isEmpty then loop h out step else
  match parseVec line with
  | none => out.putStrLn ("? bad-vector " ++ line)
  | some v =>
    match runSteps step v with
    | .ok _ s => out.putStrLn (resultStr v.id s)
    | .panic w => out.putStrLn (v.id ++ " panic " ++ w)
  loop h out step

def main (args : List String) : IO Unit := do
  let stdin ← IO.getStdin
  let stdout ← IO.getStdout
  match args with
  | ["spec"] => loop stdin stdout specStep
  | _ => loop stdin stdout Z80.Gen.Step
