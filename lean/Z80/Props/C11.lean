/-
  C11 — FD-prefixed instructions do to IY exactly what DD-prefixed ones do to IX.

  About the REGENERATED code: `Gen.executeOne_sw_dd` / `Gen.executeOne_sw_fd` are the two hand-copied ~450-line
  switch arms of operation.go (they include the DDCB / FDCB sub-switches).  For EVERY second byte (all 256, the
  CB sub-table with every displacement and every fourth byte included) and EVERY state:
      running the FD table from the state with IX and IY exchanged  =  the DD table's result with IX and IY
      exchanged back — all registers, flags, memory, and the identical ordered bus/port log
  (C11_tables).  Neither table reads or writes the other index register (C11_dd_blind_iy, C11_fd_blind_ix).
  Proof: both tables equal the reference decoder (per-slot obligations, Tables/Dd, Tables/Fd), the reference
  decoder is parametric in the index register (decode symmetry by kernel evaluation over all 256 bytes), and the
  reference semantics is symmetric for every instruction and state (Proofs/Mirror: exec_mirror, exec_xy_blind).
-/
import Z80.Proofs.Mirror
import Z80.Proofs.Tables.Dd
import Z80.Proofs.Tables.Fd

namespace Z80.Props.C11
open Z80 Z80.Gen Z80.Spec Z80.Obl
set_option maxRecDepth 8192

/-- decode symmetry: the FD reading of a byte is the mirrored DD reading — all 256 second bytes -/
theorem decodeXY_mirror : ∀ b : Fin 256, decodeXY .IY b.val = (decodeXY .IX b.val).map Instr.mirror := by decide
/-- … and all 256 fourth bytes of DDCB/FDCB, every displacement -/
theorem decodeXYCB_mirror (d : U8) (b : Nat) : decodeXYCB .IY d b = (decodeXYCB .IX d b).map Instr.mirror := by
  simp only [decodeXYCB]
  split
  · simp only [Option.map_some, Option.some.injEq]
    split <;> rfl
  · rfl

/-- the DD table never names IY, the FD table never names IX -/
theorem decodeXY_other_tbl : ∀ b : Fin 256,
    ((decodeXY .IX b.val).map (Instr.mentions .IY)).getD false = false ∧
    ((decodeXY .IY b.val).map (Instr.mentions .IX)).getD false = false := by decide
theorem decodeXY_other (b : Fin 256) (i : Instr) : (decodeXY .IX b.val = some i → i.mentions .IY = false) ∧
    (decodeXY .IY b.val = some i → i.mentions .IX = false) := by
  have := decodeXY_other_tbl b
  constructor <;> intro h <;> simp [h] at this <;> simp [this]
theorem decodeXYCB_other (d : U8) (b : Nat) (i : Instr) :
    (decodeXYCB .IX d b = some i → i.mentions .IY = false) ∧ (decodeXYCB .IY d b = some i → i.mentions .IX = false) := by
  simp only [decodeXYCB]
  constructor <;> intro h <;> split at h
  all_goals first | (cases h; done) | skip
  all_goals (simp only [Option.some.injEq] at h; subst h; split <;> rfl)

private theorem fetch_swap (s : St) : Spec.fetch (swapXY s) = (Spec.fetch s).mapSt swapXY := by
  simp [Spec.fetch, rd8, swapXY]
private theorem fetchM1_swap (s : St) : Spec.fetchM1 (swapXY s) = (Spec.fetchM1 s).mapSt swapXY := by
  simp [Spec.fetchM1, Spec.fetch, rd8, swapXY]

private theorem execOpt_mirror (bytes : List U8) (oi : Option Instr) (s : St) :
    execOpt Impl.koron bytes (oi.map Instr.mirror) (swapXY s) = (execOpt Impl.koron bytes oi s).mapSt swapXY := by
  cases oi with
  | none => simp [execOpt, consumed, warn, swapXY]
  | some i => simp only [Option.map_some, execOpt]; exact exec_mirror i s

/-- the reference: after the prefix, the IY reading from the swapped state mirrors the IX reading -/
theorem execXYtail_mirror (c0 c1 : U8) (s : St) :
    execXYtail Impl.koron .IY c0 c1 (swapXY s) = (execXYtail Impl.koron .IX c0 c1 s).mapSt swapXY := by
  unfold execXYtail
  by_cases hcb : c1 = 0xcb#8
  · simp only [hcb, if_true, execXYCB, bind_run, fetch_swap, koron_ddcbM1, if_true, fetchM1_swap]
    cases h1 : Spec.fetch s with
    | panic e => simp
    | ok d s1 =>
      simp only [Res.mapSt_ok, Res.bind_ok, bind_run]
      rw [fetchM1_swap s1]
      cases h2 : Spec.fetchM1 s1 with
      | panic e => simp [Res.bind]
      | ok c3 s2 =>
        simp only [Res.mapSt_ok, Res.bind_ok]
        rw [decodeXYCB_mirror]; exact execOpt_mirror _ _ s2
  · simp only [hcb, if_false]
    have := decodeXY_mirror c1.toFin
    rw [show c1.toNat = c1.toFin.val from rfl, this]; exact execOpt_mirror _ _ s

/-- THE theorem, about the two generated switch arms: every second byte, every state -/
theorem C11_tables (c0 c1 : U8) (s : St) (h : s.Memory = .user) :
    Gen.executeOne_sw_fd c0 c1 (swapXY s) = (Gen.executeOne_sw_dd c0 c1 s).mapSt swapXY := by
  rw [sw_fd_eq c0 c1 (swapXY s) (by simpa [swapXY] using h), sw_dd_eq c0 c1 s h]
  exact execXYtail_mirror c0 c1 s
/-- … and the other direction (swapXY is an involution) -/
theorem C11_tables' (c0 c1 : U8) (s : St) (h : s.Memory = .user) :
    Gen.executeOne_sw_dd c0 c1 (swapXY s) = (Gen.executeOne_sw_fd c0 c1 s).mapSt swapXY := by
  have := C11_tables c0 c1 (swapXY s) (by simpa [swapXY] using h)
  rw [swapXY_swapXY] at this
  rw [this]
  cases Gen.executeOne_sw_dd c0 c1 (swapXY s) <;> simp

/-- the bus/port log is identical (it is a field the exchange does not touch) -/
theorem C11_same_accesses (c0 c1 : U8) (s t u : St) (h : s.Memory = .user)
    (hd : Gen.executeOne_sw_dd c0 c1 s = .ok () t) (hf : Gen.executeOne_sw_fd c0 c1 (swapXY s) = .ok () u) :
    u.log = t.log ∧ u.mem = t.mem ∧ u.toGPR = t.toGPR ∧ u.IX = t.IY ∧ u.IY = t.IX ∧ u.PC = t.PC ∧ u.SP = t.SP := by
  rw [C11_tables c0 c1 s h, hd] at hf
  simp only [Res.mapSt_ok, Res.ok.injEq, true_and] at hf
  subst hf
  exact ⟨rfl, rfl, rfl, rfl, rfl, rfl, rfl⟩

private theorem execOpt_blind (x : XY) (bytes : List U8) (oi : Option Instr) (hoi : ∀ i, oi = some i → i.mentions x = false)
    (v : U16) (s : St) :
    execOpt Impl.koron bytes oi (setXY x v s) = (execOpt Impl.koron bytes oi s).mapSt (setXY x v) := by
  cases oi with
  | none => cases x <;> simp [execOpt, consumed, warn, setXY]
  | some i => exact exec_xy_blind x i (hoi i rfl) v s

private theorem fetch_set (x : XY) (v : U16) (s : St) : Spec.fetch (setXY x v s) = (Spec.fetch s).mapSt (setXY x v) := by
  cases x <;> simp [Spec.fetch, rd8, setXY]
private theorem fetchM1_set (x : XY) (v : U16) (s : St) : Spec.fetchM1 (setXY x v s) = (Spec.fetchM1 s).mapSt (setXY x v) := by
  cases x <;> simp [Spec.fetchM1, Spec.fetch, rd8, setXY]

private theorem execXYtail_blind (x y : XY) (hxy : x ≠ y) (c0 c1 : U8) (v : U16) (s : St) :
    execXYtail Impl.koron x c0 c1 (setXY y v s) = (execXYtail Impl.koron x c0 c1 s).mapSt (setXY y v) := by
  unfold execXYtail
  by_cases hcb : c1 = 0xcb#8
  · simp only [hcb, if_true, execXYCB, bind_run, fetch_set, koron_ddcbM1, if_true]
    cases h1 : Spec.fetch s with
    | panic e => simp
    | ok d s1 =>
      simp only [Res.mapSt_ok, Res.bind_ok, bind_run]
      rw [fetchM1_set y v s1]
      cases h2 : Spec.fetchM1 s1 with
      | panic e => simp [Res.bind]
      | ok c3 s2 =>
        simp only [Res.mapSt_ok, Res.bind_ok]
        apply execOpt_blind
        intro i hi
        cases x <;> cases y <;> first | exact absurd rfl hxy | skip
        · exact (decodeXYCB_other d c3.toNat i).1 hi
        · exact (decodeXYCB_other d c3.toNat i).2 hi
  · simp only [hcb, if_false]
    apply execOpt_blind
    intro i hi
    cases x <;> cases y <;> first | exact absurd rfl hxy | skip
    · exact (decodeXY_other c1.toFin i).1 hi
    · exact (decodeXY_other c1.toFin i).2 hi

/-- the DD table (DDCB included) neither reads nor writes IY: changing IY beforehand changes nothing but IY afterwards -/
theorem C11_dd_blind_iy (c0 c1 : U8) (v : U16) (s : St) (h : s.Memory = .user) :
    Gen.executeOne_sw_dd c0 c1 { s with IY := v } = (Gen.executeOne_sw_dd c0 c1 s).mapSt (fun t => { t with IY := v }) := by
  rw [sw_dd_eq c0 c1 _ (by simpa using h), sw_dd_eq c0 c1 s h]
  exact execXYtail_blind .IX .IY (by decide) c0 c1 v s
/-- the FD table (FDCB included) neither reads nor writes IX -/
theorem C11_fd_blind_ix (c0 c1 : U8) (v : U16) (s : St) (h : s.Memory = .user) :
    Gen.executeOne_sw_fd c0 c1 { s with IX := v } = (Gen.executeOne_sw_fd c0 c1 s).mapSt (fun t => { t with IX := v }) := by
  rw [sw_fd_eq c0 c1 _ (by simpa using h), sw_fd_eq c0 c1 s h]
  exact execXYtail_blind .IY .IX (by decide) c0 c1 v s

/-- the unprefixed, CB and ED tables name neither index register -/
theorem C11_plain_tables : ∀ b : Fin 256,
    ((decodeBase none b.val).map (fun i => i.mentions .IX || i.mentions .IY)).getD false = false ∧
    ((decodeCB b.val).mentions .IX = false ∧ (decodeCB b.val).mentions .IY = false) ∧
    ((decodeED b.val).map (fun i => i.mentions .IX || i.mentions .IY)).getD false = false := by decide

-- non-vacuity: FD 6C (LD IYL,IYH) mirrors DD 6C (LD IXL,IXH); the mirrored instruction is a different one
example : decodeXY .IX 0x6c = some (.ld8 (.xl .IX) (.xh .IX)) ∧ decodeXY .IY 0x6c = some (.ld8 (.xl .IY) (.xh .IY)) := by decide
example : ∃ s : St, swapXY s ≠ s := ⟨{ (default : CPU) with IX := 1#16, IY := 2#16, mem := fun _ => 0#8, dev := fun _ _ => 0#8, log := [] }, by
  intro h; have := congrArg (fun t => t.IX) h; simp [swapXY] at this⟩

end Z80.Props.C11
