"""Per-property configuration of bin/check: Lean targets, obligation counting, correspondence."""
import re

ALL_OBL = ['Z80/Proofs/Obl/*.lean', 'Z80/Proofs/Tables/*.lean', 'Z80/Proofs/Helpers*.lean',
           'Z80/Proofs/Arith.lean', 'Z80/Proofs/Bits.lean', 'Z80/Proofs/Basic.lean', 'Z80/Proofs/Step.lean']


def slots_from_broken(broken):
    out = set()
    for b in broken:
        for m in re.finditer(r'obl_(main|cb|ed|dd|fd|ddcb|fdcb)_([0-9a-f]{2})\b', b):
            out.add((m.group(1), m.group(2)))
    return sorted(out)


def family_slots(chk, families):
    import json, os
    sl = json.load(open(os.path.join(chk.LEAN, 'Z80', 'Proofs', 'slots.json')))
    out = {}
    for k, v in sl.items():
        if v['family'] in families:
            t, op = k.split('_')
            out.setdefault(t, []).append(op)
    return out


def corr_slots(per_quick, per_thorough, tables=None, want_spec=True, family=None):
    def run(ctx, chk, broken):
        per = per_thorough if ctx.tier == 'thorough' else per_quick
        args = ['-seed', str(ctx.seed), '-per', str(per)]
        if tables:
            args += ['-tables', ','.join(tables)]
        if family:
            fams = family if isinstance(family, (list, tuple)) else [family]
            vectors = ''
            for t, ops in sorted(family_slots(chk, fams).items()):
                vectors += chk.gen_vectors('slots', args + ['-tables', t, '-ops', ','.join(sorted(ops))])
        else:
            vectors = chk.gen_vectors('slots', args)
        # targeted search first: the slots named by broken obligations, many states each
        for (t, op) in slots_from_broken(broken)[:24]:
            tv = chk.gen_vectors('slots', ['-seed', str(ctx.seed + 7), '-per', '200', '-tables', t, '-ops', op])
            vectors = re.sub(r'(?m)^(\w+-[0-9a-f]{2}-)', r'\1t', tv) + vectors
        dis, stats, go = chk.correspond(ctx, vectors, want_spec=want_spec)
        out = []
        for (stream, vid, v, g, o) in dis:
            out.append({'stream': stream, 'id': vid, 'vector': v, 'real': g, 'other': o})
        ids = [l.split(' ', 1)[0] for l in vectors.splitlines() if l.strip()]
        slots = {chk.slot_of(i) for i in ids}
        cov = {'evaluations': len(ids), 'distinct_nontrivial': len(slots - {None}),
               'rule': 'one vector = one Step of the real code from a generated state (register/flag/pointer classes, '
                       'wrap addresses, random memory and device) with the slot\'s opcode bytes at PC; distinct = distinct '
                       '(table, opcode) slots exercised; compared field by field (registers, IFF/IM/HALT, written memory, ordered bus log)',
               'correspondence': stats}
        if ids:
            cov.setdefault('samples_vectors', [vectors.splitlines()[0][:200]])
        return out, cov
    return run


HELPERS = ['Z80/Proofs/Helpers*.lean', 'Z80/Proofs/Arith.lean', 'Z80/Proofs/Bits.lean', 'Z80/Proofs/Basic.lean',
           'Z80/Proofs/StepOf.lean']


def fam(*names):
    return [f'Z80/Proofs/Obl/{n}_*.lean' for n in names]


def is_im0_data(v):
    t = v.split()
    if t[19] == '-':
        return False
    ty, data = t[19].split(':')
    return ty != '0' and t[15][0] == '1' and t[16] == '0' and data != ''


def im0_window_hit(v, spec_line):
    """does the reference write into [PC, PC+len) (where the implementation drops writes)?"""
    t = v.split()
    pc = int(t[14], 16)
    n = len(t[19].split(':')[1]) // 2
    m = re.search(r' MEM (\S+)', spec_line or '')
    if not m or m.group(1) == '-':
        return False
    for item in m.group(1).split(','):
        a = int(item.split('=')[0], 16)
        if (a - pc) % 65536 < n:
            return True
    return False


def corr_intr(n_quick, n_thorough):
    def run(ctx, chk, broken):
        n = n_thorough if ctx.tier == 'thorough' else n_quick
        vectors = chk.gen_vectors('intr', ['-seed', str(ctx.seed), '-n', str(n)])
        dis, stats, go = chk.correspond(ctx, vectors, want_spec=True, extra_streams=('kf',))
        kf_bad = {vid for (st, vid, v, g, o) in dis if st == 'kf'}
        out = []
        for (st, vid, v, g, o) in dis:
            d = {'stream': st, 'id': vid, 'vector': v, 'real': g, 'other': o}
            if st == 'spec' and vid not in kf_bad and is_im0_data(v):
                # the real code deviates from the reference exactly as the recorded description of mode 0 says
                d['known'] = 'KF-2' if im0_window_hit(v, o) else 'KF-1'
            out.append(d)
        ids = [l.split(' ', 1)[0] for l in vectors.splitlines() if l.strip()]
        classes = set()
        for l in vectors.splitlines():
            t = l.split()
            if len(t) > 20:
                ty, data = t[19].split(':') if ':' in t[19] else ('-', '')
                classes.add((ty, t[16], t[15], min(len(data) // 2, 4)))
        cov = {'evaluations': len(ids), 'distinct_nontrivial': len(classes),
               'rule': 'one vector = 1-2 Steps of the real code from a generated state with a pending request; request kind x IM x IFF1 x IFF2 x halted '
                       'enumerated, data shapes (RST, CALL nn, single byte, random, empty, vector byte) sampled; distinct = distinct (type, IM, IFF1/IFF2/HALT, data length) classes',
               'correspondence': stats}
        return out, cov
    return run


PROPS = {
    'C01': {
        'targets': ['Z80.Props.C01'],
        'count': ALL_OBL + ['Z80/Props/C01.lean'],
        'correspond': corr_slots(3, 40),
        'assumptions': ['user memory behaves as a byte store; the device answer is a function of the bus history',
                        'Impl.koron records the implementation-defined choices (bits 3/5 after SCF/CCF and BIT n,(HL); '
                        'undocumented flags of block I/O; DDCB counts three opcode fetches; byte order of word stores)'],
        'explanation': 'Gen.Step = Spec.executeOne Impl.koron for every state (1788 per-slot obligations + 4 prefix arms + 7 table theorems)',
    },
    'C03': {
        'targets': ['Z80.Props.C03'],
        'count': HELPERS + fam('Arith16') + ['Z80/Props/C03.lean'],
        'correspond': corr_slots(40, 400, family='Arith16'),
        'assumptions': ['operands are the register values of the state; flags compared as complete F bytes'],
        'explanation': 'addU16/adcU16/sbcU16 = arithmetic spec for all 2^33 inputs (symbolic carry-vector proof); 40 slot obligations; Step-level theorems for every ss encoding',
    },
    'C02': {
        'targets': ['Z80.Props.C02'],
        'count': HELPERS + fam('Alu8', 'IncDec8', 'RotShift', 'Bit') + ['Z80/Proofs/Families/Alu8.lean', 'Z80/Proofs/Families/IncDec8.lean',
                                                                       'Z80/Proofs/Families/RotShift.lean', 'Z80/Proofs/Families/Bit.lean', 'Z80/Props/C02.lean'],
        'correspond': corr_slots(12, 200, family=['Alu8', 'IncDec8', 'RotShift', 'Bit']),
        'assumptions': ['bits 3/5 after SCF/CCF and BIT n,(HL)/(IX+d) are implementation-defined (Impl.koron records: from A / cleared)'],
        'explanation': 'helper characterisations for all A x operand x F (symbolic for binary ops, decide over the full table for unary/DAA); 559 slot obligations; Step-level theorems for every encoding; encoding independence',
    },
    'C04': {
        'targets': ['Z80.Props.C04'],
        'count': HELPERS + fam('Jump', 'CallRet', 'Stack') + ['Z80/Proofs/Families/Jump.lean', 'Z80/Proofs/Families/CallRet.lean',
                                                             'Z80/Proofs/Families/Stack.lean', 'Z80/Props/C04.lean'],
        'correspond': corr_slots(40, 400, family=['Jump', 'CallRet', 'Stack']),
        'assumptions': ['user memory is a byte store (needed for the CALL;RET and PUSH;POP round trips)'],
        'explanation': 'slot obligations of Jump/CallRet/Stack; taken iff condition for all F; push layout; CALL;RET and PUSH;POP round trips for every state incl. SP wrap',
    },
    'C06': {
        'targets': ['Z80.Props.C06'],
        'count': ['Z80/Proofs/Interrupt.lean', 'Z80/Proofs/Frame.lean', 'Z80/Props/C06.lean'] + ALL_OBL,
        'correspond': corr_intr(3000, 60000),
        'assumptions': ['request types: Type = 0 is NMI, anything else maskable', 'IM 0 / IM 2 requests without data and IM outside {0,1,2} are outside the property; the code\'s behaviour (dropped / never accepted) is recorded in the specification',
                        'mode 0 with supplied bytes: see known findings KF-1, KF-2, KF-3'],
        'explanation': 'Gen.Step with a pending request = abstract interrupt controller (NMI, refused, IM 1, IM 2, empty, bad mode) for every state; pending-request induction; EI/DI/RETN/RETI',
    },
    'C16': {
        'targets': ['Z80.Props.C16'],
        'count': ['Z80/Props/C16.lean'],
        'correspond': None,
        'assumptions': ['the pointer receivers of SetFlag/ResetFlag/SetU16 are modelled as lenses on the CPU record'],
        'explanation': 'symbolic bit-vector theorems over the definitions regenerated from flag.go and z80.go (all masks x all F; all 65536 register values)',
    },
}
