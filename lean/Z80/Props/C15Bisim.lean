/-
  C15 (tie 1, whole machine) — the heap-and-handles model driven by the methods TRANSLATED from memio.go
  (Z80.MemIOGen.stepGen) is EQUAL to the hand-written model (Z80.Spec.MemIO.step), answer and successor world, on every
  well-typed world, and well-typedness is kept by every operation.  Hence for EVERY operation sequence from the empty
  world the two machines give the same answers (`runGen_eq`): the history theorems of Props/C15.lean, stated about
  `step`, are theorems about the machine that runs the translated source.
-/
import Z80.MemIOGen
import Z80.Props.C15Gen

namespace Z80.Props.C15Bisim
open Z80 Z80.Spec.MemIO Z80.GoStore Z80.MemIOGen Z80.Props.C15Gen

/-- every handle held by a variable refers to an object of its kind -/
def Typed (w : World) : Prop :=
  ∀ r h, w.var r = some h → match h with
    | .dm i | .dio i => (w.slice? i).isSome
    | .mm (some i) => (w.map? i).isSome
    | _ => True

theorem store_same (w : World) (i : Nat) (o : Obj) (h : w.heap[i]? = some o) : w.store i o = w := by
  unfold World.store
  obtain ⟨hi, e⟩ := List.getElem?_eq_some_iff.mp h
  have : w.heap.set i o = w.heap := by rw [← e]; exact List.set_getElem_self hi
  rw [this]

theorem slice_heap (w : World) (i : Nat) (l : Spec.MemIO.Slice) (h : w.slice? i = some l) : w.heap[i]? = some (.slice l) := by
  unfold World.slice? at h
  split at h
  · rename_i l' e; cases h; exact e
  · cases h
theorem map_heap (w : World) (i : Nat) (m : Spec.MemIO.Assoc) (h : w.map? i = some m) : w.heap[i]? = some (.map m) := by
  unfold World.map? at h
  split at h
  · rename_i m' e; cases h; exact e
  · cases h

theorem clone_val (m : Spec.MemIO.Assoc) : Gen.MemIO.MapMemory_Clone (some m) = some (some m, some (cloneOf m)) := by
  unfold Gen.MemIO.MapMemory_Clone
  have := copy_fold (fun cl (x : U16 × U8) => match x with | (k, v) => do let cl ← goMapAssign cl k v; pure cl)
    (by intro l kv; rfl) (goEntries (some m)) []
  show (List.foldlM _ goEmptyMap (goEntries (some m)) >>= fun cl => pure (some m, cl)) = _
  rw [goEmptyMap, this]
  simp [cloneOf, goEntries]
theorem clone_nil : Gen.MemIO.MapMemory_Clone none = some (none, some []) := rfl

/-- on a well-typed world the two machines take the same step -/
theorem stepGen_eq (w : World) (ht : Typed w) (op : Op) : stepGen w op = step w op := by
  cases op with
  | newDM r len => rfl
  | newDIO r len => rfl
  | newMM r => rfl
  | nilMM r => rfl
  | newOther r => rfl
  | alias_ r src => rfl
  | dump r => rfl
  | get r a =>
    simp only [stepGen, step]
    cases hv : w.var r with
    | none => first | rfl | simp [*]
    | some h =>
      cases h with
      | dm i =>
        cases hs : w.slice? i with
        | none => first | rfl | simp [*]
        | some l => simp [hs, DumbMemory_Get_eq, store_same w i _ (slice_heap w i l hs)]
      | dio i => first | rfl | simp [*]
      | other => first | rfl | simp [*]
      | mm x =>
        cases x with
        | none => simp [mapVal, MapMemory_Get_nil, mapStore]
        | some i =>
          cases hm : w.map? i with
          | none => simp [mapVal, hm]
          | some m => simp [mapVal, hm, MapMemory_Get_some, mapStore, store_same w i _ (map_heap w i m hm)]
  | set r a v =>
    simp only [stepGen, step]
    cases hv : w.var r with
    | none => first | rfl | simp [*]
    | some h =>
      cases h with
      | dm i =>
        cases hs : w.slice? i with
        | none => first | rfl | simp [*]
        | some l => simp [hs, DumbMemory_Set_eq]
      | dio i => first | rfl | simp [*]
      | other => first | rfl | simp [*]
      | mm x =>
        cases x with
        | none => simp [mapVal, MapMemory_Set_nil]
        | some i =>
          cases hm : w.map? i with
          | none => simp [mapVal, hm]
          | some m => simp [mapVal, hm, MapMemory_Set_some, mapStore]
  | put r a data =>
    simp only [stepGen, step]
    cases hv : w.var r with
    | none => first | rfl | simp [*]
    | some h =>
      cases h with
      | dm i =>
        cases hs : w.slice? i with
        | none => first | rfl | simp [*]
        | some l =>
          simp only [hs, DumbMemory_Put_eq]
          cases slicePut l a.toNat data <;> rfl
      | dio i => first | rfl | simp [*]
      | other => first | rfl | simp [*]
      | mm x =>
        cases x with
        | none =>
          cases data with
          | nil => simp [mapVal, MapMemory_Put_nil, mapStore]
          | cons d ds => simp [mapVal, MapMemory_Put_nil]
        | some i =>
          cases hm : w.map? i with
          | none => simp [mapVal, hm]
          | some m => simp [mapVal, hm, MapMemory_Put_some, mapStore]
  | putself r dst src n =>
    simp only [stepGen, step]
    cases hv : w.var r with
    | none => first | rfl | simp [*]
    | some h =>
      cases h with
      | dm i =>
        cases hs : w.slice? i with
        | none => first | rfl | simp [*]
        | some l =>
          simp only [hs, DumbMemory_Put_eq]
          rfl
      | dio i => first | rfl | simp [*]
      | other => first | rfl | simp [*]
      | mm x => first | rfl | simp [*]
  | inp r p =>
    simp only [stepGen, step]
    cases hv : w.var r with
    | none => first | rfl | simp [*]
    | some h =>
      cases h with
      | dio i =>
        cases hs : w.slice? i with
        | none => first | rfl | simp [*]
        | some l => simp [hs, DumbIO_In_eq, store_same w i _ (slice_heap w i l hs)]
      | dm i => first | rfl | simp [*]
      | other => first | rfl | simp [*]
      | mm x => first | rfl | simp [*]
  | out r p v =>
    simp only [stepGen, step]
    cases hv : w.var r with
    | none => first | rfl | simp [*]
    | some h =>
      cases h with
      | dio i =>
        cases hs : w.slice? i with
        | none => first | rfl | simp [*]
        | some l => simp [hs, DumbIO_Out_eq]
      | dm i => first | rfl | simp [*]
      | other => first | rfl | simp [*]
      | mm x => first | rfl | simp [*]
  | clone r src =>
    simp only [stepGen, step]
    cases hv : w.var src with
    | none => first | rfl | simp [*]
    | some h =>
      cases h with
      | dm i => first | rfl | simp [*]
      | dio i => first | rfl | simp [*]
      | other => first | rfl | simp [*]
      | mm x =>
        cases x with
        | none => simp [mapVal, clone_nil, mapStore]
        | some i =>
          cases hm : w.map? i with
          | none => simp [mapVal, hm]
          | some m => simp [mapVal, hm, clone_val, mapStore, store_same w i _ (map_heap w i m hm)]
  | clear r =>
    simp only [stepGen, step]
    cases hv : w.var r with
    | none => first | rfl | simp [*]
    | some h =>
      cases h with
      | dm i => first | rfl | simp [*]
      | dio i => first | rfl | simp [*]
      | other => first | rfl | simp [*]
      | mm x =>
        cases x with
        | none => simp [mapVal, MapMemory_Clear_nil, mapStore]
        | some i =>
          cases hm : w.map? i with
          | none => simp [mapVal, hm]
          | some m => simp [mapVal, hm, MapMemory_Clear_some, mapStore]
  | equal r a =>
    simp only [stepGen, step]
    cases hv : w.var r with
    | none => first | rfl | simp [*]
    | some h =>
      cases ha : w.var a with
      | none => cases h <;> first | rfl | simp [*]
      | some h' =>
        cases h with
        | dm i => first | rfl | simp [*]
        | dio i => first | rfl | simp [*]
        | other => first | rfl | simp [*]
        | mm x =>
          have tx := ht r _ hv
          have ta := ht a _ ha
          cases x with
          | none =>
            cases h' with
            | dm j => simp [mapVal, MapMemory_Equal_eq, mapStore]
            | dio j => simp [mapVal, MapMemory_Equal_eq, mapStore]
            | other => simp [mapVal, MapMemory_Equal_eq, mapStore]
            | mm y =>
              cases y with
              | none => simp [mapVal, MapMemory_Equal_eq, mapStore]
              | some j =>
                simp only at ta
                obtain ⟨m₂, hm₂⟩ := Option.isSome_iff_exists.mp ta
                simp [mapVal, hm₂, MapMemory_Equal_eq, mapStore]
          | some i =>
            simp only at tx
            obtain ⟨m₁, hm₁⟩ := Option.isSome_iff_exists.mp tx
            cases h' with
            | dm j => simp [mapVal, hm₁, MapMemory_Equal_eq, mapStore, store_same w i _ (map_heap w i m₁ hm₁)]
            | dio j => simp [mapVal, hm₁, MapMemory_Equal_eq, mapStore, store_same w i _ (map_heap w i m₁ hm₁)]
            | other => simp [mapVal, hm₁, MapMemory_Equal_eq, mapStore, store_same w i _ (map_heap w i m₁ hm₁)]
            | mm y =>
              cases y with
              | none => simp [mapVal, hm₁, MapMemory_Equal_eq, mapStore, store_same w i _ (map_heap w i m₁ hm₁)]
              | some j =>
                simp only at ta
                obtain ⟨m₂, hm₂⟩ := Option.isSome_iff_exists.mp ta
                simp [mapVal, hm₁, hm₂, MapMemory_Equal_eq, mapStore, store_same w i _ (map_heap w i m₁ hm₁)]

-- ---------------------------------------------------------------------------
-- well-typedness is kept by every operation

def HOk (w : World) (h : Handle) : Prop :=
  match h with
  | .dm i | .dio i => (w.slice? i).isSome
  | .mm (some i) => (w.map? i).isSome
  | _ => True

theorem typed_iff (w : World) : Typed w ↔ ∀ r h, w.var r = some h → HOk w h := Iff.rfl

theorem var_bind (w : World) (r q : Nat) (h : Handle) : (w.bind r h).var q = if q = r then some h else w.var q := by
  unfold World.var World.bind
  by_cases e : q = r
  · subst e; simp [List.find?_cons]
  · have : (r == q) = false := by simp [Ne.symm e]
    simp [List.find?_cons, this, e]

theorem slice?_bind (w : World) (r : Nat) (h : Handle) (j : Nat) : (w.bind r h).slice? j = w.slice? j := rfl
theorem map?_bind (w : World) (r : Nat) (h : Handle) (j : Nat) : (w.bind r h).map? j = w.map? j := rfl
theorem var_store (w : World) (i : Nat) (o : Obj) (q : Nat) : (w.store i o).var q = w.var q := rfl
theorem var_alloc (w : World) (o : Obj) (q : Nat) : (w.alloc o).1.var q = w.var q := rfl

theorem HOk_bind (w : World) (r : Nat) (h h' : Handle) : HOk (w.bind r h) h' ↔ HOk w h' := by
  cases h' with
  | mm x => cases x <;> simp [HOk, map?_bind]
  | dm i => simp [HOk, slice?_bind]
  | dio i => simp [HOk, slice?_bind]
  | other => simp [HOk]

theorem typed_bind (w : World) (r : Nat) (h : Handle) (ht : Typed w) (hh : HOk w h) : Typed (w.bind r h) := by
  intro q h' hq
  rw [var_bind] at hq
  show HOk (w.bind r h) h'
  rw [HOk_bind]
  by_cases e : q = r
  · simp [e] at hq; subst hq; exact hh
  · simp [e] at hq; exact ht q h' hq

theorem kind_store_slice (w : World) (i : Nat) (l' : Spec.MemIO.Slice) (hs : (w.slice? i).isSome) (j : Nat) :
    ((w.store i (.slice l')).slice? j).isSome = (w.slice? j).isSome ∧ ((w.store i (.slice l')).map? j).isSome = (w.map? j).isSome := by
  obtain ⟨l, hl⟩ := Option.isSome_iff_exists.mp hs
  have hh := slice_heap w i l hl
  obtain ⟨hi, he⟩ := List.getElem?_eq_some_iff.mp hh
  unfold World.slice? World.map? World.store
  by_cases e : j = i
  · subst e; simp [List.getElem?_set, hi, he]
  · simp [List.getElem?_set, Ne.symm e]

theorem kind_store_map (w : World) (i : Nat) (m' : Spec.MemIO.Assoc) (hs : (w.map? i).isSome) (j : Nat) :
    ((w.store i (.map m')).slice? j).isSome = (w.slice? j).isSome ∧ ((w.store i (.map m')).map? j).isSome = (w.map? j).isSome := by
  obtain ⟨m, hm⟩ := Option.isSome_iff_exists.mp hs
  have hh := map_heap w i m hm
  obtain ⟨hi, he⟩ := List.getElem?_eq_some_iff.mp hh
  unfold World.slice? World.map? World.store
  by_cases e : j = i
  · subst e; simp [List.getElem?_set, hi, he]
  · simp [List.getElem?_set, Ne.symm e]

theorem typed_store_slice (w : World) (i : Nat) (l' : Spec.MemIO.Slice) (ht : Typed w) (hs : (w.slice? i).isSome) :
    Typed (w.store i (.slice l')) := by
  intro q h hq
  have := ht q h (by rw [var_store] at hq; exact hq)
  cases h with
  | mm x => cases x <;> simp_all [HOk, (kind_store_slice w i l' hs _).2]
  | dm j => simp_all [HOk, (kind_store_slice w i l' hs _).1]
  | dio j => simp_all [HOk, (kind_store_slice w i l' hs _).1]
  | other => trivial

theorem typed_store_map (w : World) (i : Nat) (m' : Spec.MemIO.Assoc) (ht : Typed w) (hs : (w.map? i).isSome) :
    Typed (w.store i (.map m')) := by
  intro q h hq
  have := ht q h (by rw [var_store] at hq; exact hq)
  cases h with
  | mm x => cases x <;> simp_all [HOk, (kind_store_map w i m' hs _).2]
  | dm j => simp_all [HOk, (kind_store_map w i m' hs _).1]
  | dio j => simp_all [HOk, (kind_store_map w i m' hs _).1]
  | other => trivial

theorem kind_alloc (w : World) (o : Obj) (j : Nat) :
    ((w.slice? j).isSome → ((w.alloc o).1.slice? j).isSome) ∧ ((w.map? j).isSome → ((w.alloc o).1.map? j).isSome) := by
  unfold World.slice? World.map? World.alloc
  by_cases hj : j < w.heap.length
  · simp [List.getElem?_append_left hj]
  · have : w.heap[j]? = none := List.getElem?_eq_none (Nat.le_of_not_lt hj)
    simp [this]

theorem typed_alloc (w : World) (o : Obj) (ht : Typed w) : Typed (w.alloc o).1 := by
  intro q h hq
  have := ht q h (by rw [var_alloc] at hq; exact hq)
  cases h with
  | mm x =>
    cases x with
    | none => trivial
    | some j => exact (kind_alloc w o j).2 this
  | dm j => exact (kind_alloc w o j).1 this
  | dio j => exact (kind_alloc w o j).1 this
  | other => trivial

theorem alloc_slice_new (w : World) (l : Spec.MemIO.Slice) : ((w.alloc (.slice l)).1.slice? (w.alloc (.slice l)).2).isSome := by
  simp [World.alloc, World.slice?]
theorem alloc_map_new (w : World) (m : Spec.MemIO.Assoc) : ((w.alloc (.map m)).1.map? (w.alloc (.map m)).2).isSome := by
  simp [World.alloc, World.map?]

theorem typed_empty : Typed {} := by
  intro r h hq; simp [World.var] at hq

/-- every operation keeps the world well-typed -/
theorem typed_step (w : World) (ht : Typed w) (op : Op) : Typed (step w op).1 := by
  cases op with
  | newDM r len =>
    simp only [step]
    exact typed_bind _ _ _ (typed_alloc w _ ht) (alloc_slice_new w _)
  | newDIO r len =>
    simp only [step]
    exact typed_bind _ _ _ (typed_alloc w _ ht) (alloc_slice_new w _)
  | newMM r =>
    simp only [step]
    exact typed_bind _ _ _ (typed_alloc w _ ht) (alloc_map_new w _)
  | nilMM r => simp only [step]; exact typed_bind _ _ _ ht trivial
  | newOther r => simp only [step]; exact typed_bind _ _ _ ht trivial
  | alias_ r src =>
    simp only [step]
    cases hv : w.var src with
    | none => simpa [hv] using ht
    | some h => simp only [hv]; exact typed_bind _ _ _ ht (ht src h hv)
  | dump r =>
    simp only [step]
    cases hv : w.var r with
    | none => simpa [hv] using ht
    | some h =>
      cases h with
      | mm x =>
        cases x with
        | none => simpa [hv] using ht
        | some i => cases hm : w.map? i <;> simpa [hv, hm] using ht
      | dm i => cases hs : w.slice? i <;> simpa [hv, hs] using ht
      | dio i => cases hs : w.slice? i <;> simpa [hv, hs] using ht
      | other => simpa [hv] using ht
  | get r a =>
    simp only [step]
    cases hv : w.var r with
    | none => simpa [hv] using ht
    | some h =>
      cases h with
      | mm x =>
        cases x with
        | none => simpa [hv] using ht
        | some i => cases hm : w.map? i <;> simpa [hv, hm] using ht
      | dm i => cases hs : w.slice? i <;> simpa [hv, hs] using ht
      | dio i => simpa [hv] using ht
      | other => simpa [hv] using ht
  | inp r p =>
    simp only [step]
    cases hv : w.var r with
    | none => simpa [hv] using ht
    | some h =>
      cases h with
      | mm x => simpa [hv] using ht
      | dm i => simpa [hv] using ht
      | dio i => cases hs : w.slice? i <;> simpa [hv, hs] using ht
      | other => simpa [hv] using ht
  | set r a v =>
    simp only [step]
    cases hv : w.var r with
    | none => simpa [hv] using ht
    | some h =>
      cases h with
      | mm x =>
        cases x with
        | none => simpa [hv] using ht
        | some i =>
          cases hm : w.map? i with
          | none => simpa [hv, hm] using ht
          | some m => simp only [hv, hm]; exact typed_store_map w i _ ht (by simp [hm])
      | dm i =>
        cases hs : w.slice? i with
        | none => simpa [hv, hs] using ht
        | some l => simp only [hv, hs]; exact typed_store_slice w i _ ht (by simp [hs])
      | dio i => simpa [hv] using ht
      | other => simpa [hv] using ht
  | out r p v =>
    simp only [step]
    cases hv : w.var r with
    | none => simpa [hv] using ht
    | some h =>
      cases h with
      | mm x => simpa [hv] using ht
      | dm i => simpa [hv] using ht
      | dio i =>
        cases hs : w.slice? i with
        | none => simpa [hv, hs] using ht
        | some l => simp only [hv, hs]; exact typed_store_slice w i _ ht (by simp [hs])
      | other => simpa [hv] using ht
  | put r a data =>
    simp only [step]
    cases hv : w.var r with
    | none => simpa [hv] using ht
    | some h =>
      cases h with
      | mm x =>
        cases x with
        | none => simpa [hv] using ht
        | some i =>
          cases hm : w.map? i with
          | none => simpa [hv, hm] using ht
          | some m => simp only [hv, hm]; exact typed_store_map w i _ ht (by simp [hm])
      | dm i =>
        cases hs : w.slice? i with
        | none => simpa [hv, hs] using ht
        | some l =>
          simp only [hv, hs]
          cases hp : slicePut l a.toNat data with
          | none => simpa using ht
          | some l' => exact typed_store_slice w i _ ht (by simp [hs])
      | dio i => simpa [hv] using ht
      | other => simpa [hv] using ht
  | putself r dst src n =>
    simp only [step]
    cases hv : w.var r with
    | none => simpa [hv] using ht
    | some h =>
      cases h with
      | mm x => simpa [hv] using ht
      | dm i =>
        cases hs : w.slice? i with
        | none => simpa [hv, hs] using ht
        | some l =>
          simp only [hv, hs]
          by_cases hle : src + n ≤ l.length
          · simp only [hle, if_true]
            cases hp : slicePut l dst.toNat ((l.drop src).take n) with
            | none => simpa using ht
            | some l' => exact typed_store_slice w i _ ht (by simp [hs])
          · simpa [hle] using ht
      | dio i => simpa [hv] using ht
      | other => simpa [hv] using ht
  | clear r =>
    simp only [step]
    cases hv : w.var r with
    | none => simpa [hv] using ht
    | some h =>
      cases h with
      | mm x =>
        cases x with
        | none => simpa [hv] using ht
        | some i =>
          cases hm : w.map? i with
          | none => simpa [hv, hm] using ht
          | some m => simp only [hv, hm]; exact typed_store_map w i _ ht (by simp [hm])
      | dm i => simpa [hv] using ht
      | dio i => simpa [hv] using ht
      | other => simpa [hv] using ht
  | clone r src =>
    simp only [step]
    cases hv : w.var src with
    | none => simpa [hv] using ht
    | some h =>
      cases h with
      | mm x =>
        cases x with
        | none => simp only [hv]; exact typed_bind _ _ _ (typed_alloc w _ ht) (alloc_map_new w _)
        | some i =>
          cases hm : w.map? i with
          | none => simpa [hv, hm] using ht
          | some m => simp only [hv, hm]; exact typed_bind _ _ _ (typed_alloc w _ ht) (alloc_map_new w _)
      | dm i => simpa [hv] using ht
      | dio i => simpa [hv] using ht
      | other => simpa [hv] using ht
  | equal r a =>
    have : (step w (.equal r a)).1 = w := by
      simp only [step]
      cases w.var r with
      | none => rfl
      | some h =>
        cases w.var a with
        | none => cases h <;> rfl
        | some h' =>
          cases h with
          | mm x =>
            cases h' with
            | mm y =>
              cases x with
              | none => cases y <;> rfl
              | some i =>
                cases y with
                | none => rfl
                | some j =>
                  simp only []
                  cases w.map? i <;> cases w.map? j <;> rfl
            | dm j => rfl
            | dio j => rfl
            | other => rfl
          | dm i => rfl
          | dio i => rfl
          | other => rfl
    rw [this]; exact ht

-- ---------------------------------------------------------------------------
-- every operation sequence

/-- run a machine from a world, collecting the answers -/
def runWith (f : World → Op → World × Out) : World → List Op → List Out
  | _, [] => []
  | w, op :: rest => (f w op).2 :: runWith f (f w op).1 rest

theorem runWith_eq (w : World) (ht : Typed w) (ops : List Op) : runWith stepGen w ops = runWith step w ops := by
  induction ops generalizing w with
  | nil => rfl
  | cons op rest ih =>
    simp only [runWith, stepGen_eq w ht op]
    rw [ih _ (typed_step w ht op)]

/-- for EVERY operation sequence from the empty world, the machine that runs the methods translated from memio.go answers
    exactly as the hand-written model does -/
theorem runGen_eq (ops : List Op) : runWith stepGen {} ops = runWith step {} ops :=
  runWith_eq {} typed_empty ops

end Z80.Props.C15Bisim
