/-
  Z80.Attr — simp attribute sets used by the obligation tactic.
  z80gen: every generated definition.  z80spec: reference-spec definitions.
  z80helper: proved characterisations of the Go flag/ALU helpers.
-/
import Lean

register_simp_attr z80gen
register_simp_attr z80spec
register_simp_attr z80helper
/-- reference-spec definitions other than the register accessors (getR/setR/get16/set16/…) -/
register_simp_attr z80ctl
register_simp_attr z80specb
