package main

// memkinds (C10, real vs real): the outcome of a Step depends on the BYTES memory returns, not on what kind of object the memory is.
// Every vector is run three times on the real code — with the harness's recording memory, with a full-size z80.DumbMemory and with a
// z80.MapMemory holding the same 65536 bytes — and the three outcomes are compared: registers / flags / IFF / IM / HALT / pending request,
// the bytes of memory that differ from the initial contents, the ordered port accesses and handler notifications.  (A fast path keyed on
// the dynamic type of cpu.Memory, or anything else that makes the bundled stores behave differently from a user's Memory, shows up here.)

import (
	"bufio"
	"fmt"
	"log"
	"os"
	"sort"
	"strings"

	"github.com/koron-go/z80"
)

type kindOutcome struct {
	regs  string
	diff  string
	ports string
}

func runMemKind(v *Vec, kind string) (o kindOutcome) {
	w := newWorld(v)
	curWorld = w
	defer func() {
		if r := recover(); r != nil {
			o = kindOutcome{regs: fmt.Sprintf("panic %v", r)}
		}
		curWorld = nil
	}()
	init := newWorld(v) // untouched copy: the initial contents
	cpu := buildCPU(v, w)
	var dm z80.DumbMemory
	var mm z80.MapMemory
	switch kind {
	case "dm", "dmswap":
		dm = make(z80.DumbMemory, 65536)
		for a := 0; a < 65536; a++ {
			dm[a] = init.peek(uint16(a))
		}
		cpu.Memory = dm
	case "mm":
		mm = z80.MapMemory{}
		for a := 0; a < 65536; a++ {
			mm[uint16(a)] = init.peek(uint16(a))
		}
		cpu.Memory = mm
	}
	for k := 0; k < v.N; k++ {
		for _, in := range v.Inj {
			if in.At == k {
				cpu.Interrupt = mkIntr(w, in.Intr.Type, in.Intr.Data)
			}
		}
		cpu.Step()
		if kind == "dmswap" {
			// the host replaces the memory OBJECT between two Steps by another one holding the same bytes (bank switching, reloading):
			// nothing the CPU remembered about the old object may matter
			nd := make(z80.DumbMemory, 65536)
			copy(nd, dm)
			cpu.Memory = nd
			dm = nd
		}
	}
	full := resultStr(v.ID, cpu, w)
	if i := strings.Index(full, " MV "); i >= 0 {
		o.regs = full[:i]
	} else {
		o.regs = full
	}
	for _, mark := range []string{" BREAKPOINTS-CHANGED", " REQUEST-OBJECT-CHANGED"} {
		if i := strings.Index(full, mark); i >= 0 {
			o.regs += full[i:]
			break
		}
	}
	switch cpu.Memory.(type) {
	case recMem, z80.DumbMemory, z80.MapMemory:
	default:
		o.regs += " MEMORY-NOT-RESTORED"
	}
	var ds []string
	switch kind {
	case "dm", "dmswap":
		for a := 0; a < 65536; a++ {
			if dm[a] != init.peek(uint16(a)) {
				ds = append(ds, fmt.Sprintf("%04x=%02x", a, dm[a]))
			}
		}
		if len(dm) != 65536 {
			ds = append(ds, "LEN-CHANGED")
		}
	case "mm":
		for a := 0; a < 65536; a++ {
			if mm.Get(uint16(a)) != init.peek(uint16(a)) {
				ds = append(ds, fmt.Sprintf("%04x=%02x", a, mm.Get(uint16(a))))
			}
		}
		if len(mm) != 65536 {
			ds = append(ds, "LEN-CHANGED")
		}
	default:
		var as []int
		for a := range w.written {
			as = append(as, int(a))
		}
		sort.Ints(as)
		for _, a := range as {
			if w.peek(uint16(a)) != init.peek(uint16(a)) {
				ds = append(ds, fmt.Sprintf("%04x=%02x", a, w.peek(uint16(a))))
			}
		}
	}
	o.diff = strings.Join(ds, ",")
	var ps []string
	for _, e := range w.log {
		if e.K != 'r' && e.K != 'w' {
			ps = append(ps, e.String())
		}
	}
	o.ports = strings.Join(ps, ",")
	return o
}

func cmdMemKinds() {
	log.SetFlags(0)
	log.SetOutput(warnWriter{&curWorld})
	in := bufio.NewReaderSize(os.Stdin, 1<<20)
	out := bufio.NewWriterSize(os.Stdout, 1<<20)
	defer out.Flush()
	for {
		line, err := in.ReadString('\n')
		line = strings.TrimSpace(line)
		if line != "" {
			v, perr := parseVec(line)
			if perr != nil {
				fmt.Fprintf(out, "? bad-vector %v\n", perr)
			} else {
				base := runMemKind(v, "rec")
				res := v.ID + " same"
				kinds := []string{"dm", "mm"}
				if v.N > 1 {
					kinds = append(kinds, "dmswap")
				}
				for _, k := range kinds {
					o := runMemKind(v, k)
					switch {
					case o.regs != base.regs:
						res = fmt.Sprintf("%s DIFF memory=%s state: [%s] with a user memory: [%s]", v.ID, k, o.regs, base.regs)
					case o.diff != base.diff:
						res = fmt.Sprintf("%s DIFF memory=%s bytes changed: [%s] with a user memory: [%s]", v.ID, k, o.diff, base.diff)
					case o.ports != base.ports:
						res = fmt.Sprintf("%s DIFF memory=%s port/handler events: [%s] with a user memory: [%s]", v.ID, k, o.ports, base.ports)
					}
				}
				fmt.Fprintln(out, res)
			}
		}
		if err != nil {
			break
		}
	}
}
