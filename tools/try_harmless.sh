#!/bin/bash
# usage: tools/try_harmless.sh [<patch-file-name>...]      (default: all of harmless/checks.txt)
# applies each behaviour-preserving rewrite under /verif/harmless to /repo, runs the quick checks named in
# harmless/checks.txt, and restores /repo.  A check that exits non-zero here is a FALSE ALARM (possibly the
# permitted kind: "no-failing-input-found" after a proof broke) and is recorded as such.
cd /verif
git -C /repo diff --quiet || { echo "/repo is not clean"; exit 2; }
only=" $* "
[ $# -eq 0 ] && : > harmless/results.txt
while read -r patch checks; do
  [ -z "$patch" ] && continue
  if [ $# -gt 0 ]; then
    case "$only" in *" $patch "*) grep -v "^$patch " harmless/results.txt > harmless/results.tmp; mv harmless/results.tmp harmless/results.txt ;; *) continue ;; esac
  fi
  git -C /repo apply /verif/harmless/$patch || { echo "$patch does not apply" | tee -a harmless/results.txt; continue; }
  bk=$(mktemp -d /tmp/evidence_bk.XXXXXX); cp -a /verif/evidence/. $bk/
  for p in $checks; do
    s=$(date +%s)
    bin/check $p quick > /tmp/harmless_out.txt 2>&1
    rc=$?
    echo "$patch $p exit=$rc $(( $(date +%s) - s ))s $(grep '^VIOLATION' /tmp/harmless_out.txt | head -1)" | tee -a harmless/results.txt
  done
  git -C /repo checkout -- .
  cp -a $bk/. /verif/evidence/; rm -rf $bk
done < harmless/checks.txt
git -C /repo status --short
