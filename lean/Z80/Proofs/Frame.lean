/-
  Z80.Proofs.Frame — what one reference instruction can NOT see or touch (facts about the
  specification, lifted to the generated code through `executeOne_eq`):
    * the pending request, the Memory-interface value and the breakpoint set are neither read nor written;
    * the halted indication is never read (only HALT writes it);
    * no reference instruction panics.
-/
import Z80.Proofs.Step
import Z80.Spec.Interrupt

namespace Z80
open Z80.Gen Z80.Spec
set_option maxRecDepth 8192

/-- apply a state function to the final state of a result -/
def Res.mapSt {α} (f : St → St) : Res α → Res α
  | .ok a s => .ok a (f s)
  | .panic e => .panic e
@[simp] theorem Res.mapSt_ok {α} (f : St → St) (a : α) (s : St) : (Res.ok a s).mapSt f = .ok a (f s) := rfl
@[simp] theorem Res.mapSt_panic {α} (f : St → St) (e : String) : (Res.panic e : Res α).mapSt f = .panic e := rfl
@[simp] theorem Res.mapSt_ite {α} (f : St → St) (c : Prop) [Decidable c] (x y : Res α) :
    (if c then x else y).mapSt f = if c then x.mapSt f else y.mapSt f := by split <;> rfl

/-- the three fields no instruction looks at -/
def setFrame (x : Option Interrupt) (m : MemVal) (b : Option (U16 → Bool)) (s : St) : St :=
  { s with Interrupt := x, Memory := m, BreakPoints := b }
def setHalt (h : Bool) (s : St) : St := { s with HALT := h }

macro "frame_fin" : tactic =>
  `(tactic| (simp [z80spec, setFrame, setHalt] <;> (repeat' (split <;> simp_all [setFrame, setHalt]))))

macro "instr_cases " i:ident : tactic => `(tactic| (
  cases $i:ident
  case ld8 d s' => cases d <;> cases s' <;> frame_fin
  case alu op src => cases src <;> frame_fin
  case bit b l => cases l <;> frame_fin
  case res b l => cases l <;> frame_fin
  case set b l => cases l <;> frame_fin
  case rot k l => cases l <;> frame_fin
  case inc8 l => cases l <;> frame_fin
  case dec8 l => cases l <;> frame_fin
  case ld8n l => cases l <;> frame_fin
  case add16 d s' => cases d <;> cases s' <;> frame_fin
  case blk k d r => cases k <;> frame_fin
  case jpcc c => cases c <;> frame_fin
  case jrcc c => cases c <;> frame_fin
  case callcc c => cases c <;> frame_fin
  case retcc c => cases c <;> frame_fin
  all_goals first | frame_fin | (rename_i a; cases a <;> frame_fin)))

set_option maxHeartbeats 4000000 in
/-- an instruction neither reads nor writes Interrupt / Memory / BreakPoints -/
theorem exec_frame (i : Instr) (x : Option Interrupt) (m : MemVal) (b : Option (U16 → Bool)) (s : St) :
    exec Impl.koron i (setFrame x m b s) = (exec Impl.koron i s).mapSt (setFrame x m b) := by
  instr_cases i

set_option maxHeartbeats 4000000 in
/-- an instruction never reads HALT: runs from states differing only in HALT differ only in HALT -/
theorem exec_halt_blind (i : Instr) (h : Bool) (s : St) :
    (exec Impl.koron i (setHalt h s)).mapSt (setHalt false) = (exec Impl.koron i s).mapSt (setHalt false) := by
  instr_cases i

set_option maxHeartbeats 4000000 in
/-- no reference instruction panics -/
theorem exec_total (i : Instr) (s : St) : ∃ t, exec Impl.koron i s = .ok () t := by
  instr_cases i

def setIR (r : Register) (s : St) : St := { s with IR := r }

macro "frame_fin2" : tactic =>
  `(tactic| (simp [z80spec, setIR] <;> (repeat' (split <;> simp_all [setIR]))))

set_option maxHeartbeats 4000000 in
/-- no instruction other than LD A,I / LD A,R / LD I,A / LD R,A reads or writes I or R -/
theorem exec_IR_blind (i : Instr) (h1 : i ≠ .ldAI) (h2 : i ≠ .ldAR) (h3 : i ≠ .ldIA) (h4 : i ≠ .ldRA) (r : Register) (s : St) :
    exec Impl.koron i (setIR r s) = (exec Impl.koron i s).mapSt (setIR r) := by
  cases i
  case ldAI => exact absurd rfl h1
  case ldAR => exact absurd rfl h2
  case ldIA => exact absurd rfl h3
  case ldRA => exact absurd rfl h4
  case ld8 d s' => cases d <;> cases s' <;> frame_fin2
  case alu op src => cases src <;> frame_fin2
  case bit b l => cases l <;> frame_fin2
  case res b l => cases l <;> frame_fin2
  case set b l => cases l <;> frame_fin2
  case rot k l => cases l <;> frame_fin2
  case inc8 l => cases l <;> frame_fin2
  case dec8 l => cases l <;> frame_fin2
  case ld8n l => cases l <;> frame_fin2
  case add16 d s' => cases d <;> cases s' <;> frame_fin2
  case blk k d r => cases k <;> frame_fin2
  case jpcc c => cases c <;> frame_fin2
  case jrcc c => cases c <;> frame_fin2
  case callcc c => cases c <;> frame_fin2
  case retcc c => cases c <;> frame_fin2
  all_goals first | frame_fin2 | (rename_i a; cases a <;> frame_fin2)

/-- hence I and R come out of such an instruction exactly as they went in -/
theorem exec_IR_kept (i : Instr) (h1 : i ≠ .ldAI) (h2 : i ≠ .ldAR) (h3 : i ≠ .ldIA) (h4 : i ≠ .ldRA) (s t : St)
    (h : exec Impl.koron i s = .ok () t) : t.IR = s.IR := by
  have hc := exec_IR_blind i h1 h2 h3 h4 s.IR s
  have e : setIR s.IR s = s := rfl
  rw [e, h] at hc
  simp only [Res.mapSt_ok, Res.ok.injEq, true_and] at hc
  rw [hc]; rfl

-- ---------------------------------------------------------------------------
-- port traffic

/-- observe something of the final state of a result -/
def Res.proj {α β} (f : St → β) (d : β) : Res α → β
  | .ok _ s => f s
  | .panic _ => d
@[simp] theorem Res.proj_ok {α β} (f : St → β) (d : β) (a : α) (s : St) : (Res.ok a s).proj f d = f s := rfl
@[simp] theorem Res.proj_panic {α β} (f : St → β) (d : β) (w : String) : (Res.panic w : Res α).proj f d = d := rfl
@[simp] theorem Res.proj_ite {α β} (f : St → β) (d : β) (c : Prop) [Decidable c] (x y : Res α) :
    (if c then x else y).proj f d = if c then x.proj f d else y.proj f d := by split <;> rfl
theorem Res.proj_of_ok {α β} (f : St → β) (d : β) (r : Res α) (a : α) (t : St) (h : r = .ok a t) : r.proj f d = f t := by
  subst h; rfl

def isPortEv : Ev → Bool
  | .ior _ _ => true | .iow _ _ => true | _ => false
/-- the port events of a log (newest first, like the log) -/
def portLog (l : List Ev) : List Ev := l.filter isPortEv
@[simp] theorem portLog_mr (a v l) : portLog (.mr a v :: l) = portLog l := rfl
@[simp] theorem portLog_mw (a v l) : portLog (.mw a v :: l) = portLog l := rfl
@[simp] theorem portLog_retn (l) : portLog (.retn :: l) = portLog l := rfl
@[simp] theorem portLog_reti (l) : portLog (.reti :: l) = portLog l := rfl
@[simp] theorem portLog_warn (b l) : portLog (.warn b :: l) = portLog l := rfl
@[simp] theorem portLog_ior (p v l) : portLog (.ior p v :: l) = .ior p v :: portLog l := rfl
@[simp] theorem portLog_iow (p v l) : portLog (.iow p v :: l) = .iow p v :: portLog l := rfl

/-- the I/O instructions -/
def isIO : Instr → Bool
  | .inAn => true | .outnA => true | .inC _ => true | .outC _ => true
  | .blk .inp _ _ => true | .blk .out _ _ => true
  | _ => false

macro "proj_fin" : tactic =>
  `(tactic| (simp [z80spec, isIO] <;> (repeat' (split <;> simp_all))))

set_option maxHeartbeats 4000000 in
/-- an instruction that is not an I/O instruction performs no port access at all -/
theorem exec_no_port (i : Instr) (hio : isIO i = false) (s : St) :
    (exec Impl.koron i s).proj (fun t => portLog t.log) (portLog s.log) = portLog s.log := by
  cases i
  case inAn => simp [isIO] at hio
  case outnA => simp [isIO] at hio
  case inC r => simp [isIO] at hio
  case outC r => simp [isIO] at hio
  case blk k d r => cases k <;> first | (simp [isIO] at hio; done) | proj_fin
  case ld8 d s' => cases d <;> cases s' <;> proj_fin
  case alu op src => cases src <;> proj_fin
  case bit b l => cases l <;> proj_fin
  case res b l => cases l <;> proj_fin
  case set b l => cases l <;> proj_fin
  case rot k l => cases l <;> proj_fin
  case inc8 l => cases l <;> proj_fin
  case dec8 l => cases l <;> proj_fin
  case ld8n l => cases l <;> proj_fin
  case add16 d s' => cases d <;> cases s' <;> proj_fin
  case jpcc c => cases c <;> proj_fin
  case jrcc c => cases c <;> proj_fin
  case callcc c => cases c <;> proj_fin
  case retcc c => cases c <;> proj_fin
  all_goals first | proj_fin | (rename_i a; cases a <;> proj_fin)

-- ---------------------------------------------------------------------------
-- lifting to a whole reference step

/-- `m` commutes with the state function `u`: it neither reads nor writes what `u` changes -/
def Commutes {α} (u : St → St) (m : M α) : Prop := ∀ s, m (u s) = (m s).mapSt u

theorem Commutes.pure {α} (u : St → St) (a : α) : Commutes u (pure a : M α) := fun _ => rfl
theorem Commutes.bind {α β} {u : St → St} {m : M α} {f : α → M β} (hm : Commutes u m) (hf : ∀ a, Commutes u (f a)) :
    Commutes u (m >>= f) := by
  intro s
  simp only [bind_run, hm s]
  cases m s with
  | ok a t => simp [hf a t]
  | panic e => rfl
theorem Commutes.ite {α} {u : St → St} (c : Prop) [Decidable c] {m n : M α} (hm : Commutes u m) (hn : Commutes u n) :
    Commutes u (if c then m else n) := by
  split <;> assumption

theorem fetch_commutes (x : Option Interrupt) (m : MemVal) (b : Option (U16 → Bool)) :
    Commutes (setFrame x m b) Spec.fetch := by
  intro s; simp [Spec.fetch, rd8, setFrame]
theorem fetchM1_commutes (x : Option Interrupt) (m : MemVal) (b : Option (U16 → Bool)) :
    Commutes (setFrame x m b) Spec.fetchM1 := by
  intro s; simp [Spec.fetchM1, Spec.fetch, rd8, setFrame]
theorem execOpt_commutes (x : Option Interrupt) (m : MemVal) (b : Option (U16 → Bool)) (bytes : List U8) (oi : Option Instr) :
    Commutes (setFrame x m b) (execOpt Impl.koron bytes oi) := by
  intro s
  cases oi with
  | some i => exact exec_frame i x m b s
  | none => simp [execOpt, consumed, setFrame]

/-- a whole reference instruction neither reads nor writes the pending request, the Memory-interface value or
    the breakpoint set -/
theorem executeOne_commutes (x : Option Interrupt) (m : MemVal) (b : Option (U16 → Bool)) :
    Commutes (setFrame x m b) (Spec.executeOne Impl.koron) := by
  unfold Spec.executeOne
  refine Commutes.bind (fetchM1_commutes x m b) (fun c0 => ?_)
  unfold execMain
  refine Commutes.ite _ (Commutes.bind (fetchM1_commutes x m b) (fun c1 => fun s => exec_frame _ x m b s)) ?_
  refine Commutes.ite _ (Commutes.bind (fetchM1_commutes x m b) (fun c1 => execOpt_commutes x m b _ _)) ?_
  have hxy : ∀ i : XY, Commutes (setFrame x m b) (execXY Impl.koron i c0) := by
    intro i
    unfold execXY
    refine Commutes.bind (fetchM1_commutes x m b) (fun c1 => ?_)
    unfold execXYtail
    refine Commutes.ite _ ?_ (execOpt_commutes x m b _ _)
    unfold execXYCB
    refine Commutes.bind (fetch_commutes x m b) (fun d => ?_)
    refine Commutes.bind ?_ (fun c3 => execOpt_commutes x m b _ _)
    exact Commutes.ite _ (fetchM1_commutes x m b) (fetch_commutes x m b)
  exact Commutes.ite _ (hxy _) (Commutes.ite _ (hxy _) (execOpt_commutes x m b _ _))

/-- no reference step panics -/
theorem executeOne_total (s : St) : ∃ t, Spec.executeOne Impl.koron s = .ok () t := by
  have hopt : ∀ bytes oi s, ∃ t, execOpt Impl.koron bytes oi s = .ok () t := by
    intro bytes oi s
    cases oi with
    | some i => exact exec_total i s
    | none => exact ⟨_, rfl⟩
  simp only [Spec.executeOne, Spec.fetchM1, Spec.fetch, rd8, bind_run, getSt_run, userGet_run, Res.bind_ok, modifySt_run,
    pure_run, execMain, execXY, execXYtail, execXYCB, ite_run]
  split
  · exact exec_total _ _
  split
  · exact hopt _ _ _
  split
  · split
    · split <;> simp only [Spec.fetchM1, Spec.fetch, rd8, bind_run, getSt_run, userGet_run, Res.bind_ok, modifySt_run, pure_run] <;>
        exact hopt _ _ _
    · exact hopt _ _ _
  split
  · split
    · split <;> simp only [Spec.fetchM1, Spec.fetch, rd8, bind_run, getSt_run, userGet_run, Res.bind_ok, modifySt_run, pure_run] <;>
        exact hopt _ _ _
    · exact hopt _ _ _
  · exact hopt _ _ _

-- ---------------------------------------------------------------------------
-- the generated code, through `executeOne_eq`

/-- the generated `executeOne` on a user memory: total, keeps Memory / Interrupt / BreakPoints -/
theorem gen_executeOne_ok (s : St) (h : s.Memory = .user) :
    ∃ t, Gen.executeOne s = .ok () t ∧ t.Memory = .user ∧ t.Interrupt = s.Interrupt ∧ t.BreakPoints = s.BreakPoints := by
  rw [executeOne_eq s h]
  obtain ⟨t, ht⟩ := executeOne_total s
  refine ⟨t, ht, ?_⟩
  have hc := executeOne_commutes s.Interrupt s.Memory s.BreakPoints s
  have e : setFrame s.Interrupt s.Memory s.BreakPoints s = s := rfl
  rw [e, ht] at hc
  simp only [Res.mapSt_ok, Res.ok.injEq, true_and] at hc
  rw [hc]
  simp [setFrame, h]

end Z80
