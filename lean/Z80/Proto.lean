/-
  Z80.Proto — line protocol shared by the Lean driver (hand-written, core only).
  One vector per input line, one canonical result per output line (DESIGN.md appendix B).
-/
import Z80.Monad

namespace Z80.Proto
open Z80 Z80.Gen

def hexDigit (c : Char) : Option Nat :=
  if '0' ≤ c ∧ c ≤ '9' then some (c.toNat - '0'.toNat)
  else if 'a' ≤ c ∧ c ≤ 'f' then some (c.toNat - 'a'.toNat + 10)
  else if 'A' ≤ c ∧ c ≤ 'F' then some (c.toNat - 'A'.toNat + 10)
  else none

def parseHex (s : String) : Option Nat :=
  if s.isEmpty then none else
  s.foldl (fun acc c => match acc, hexDigit c with
    | some a, some d => some (a * 16 + d)
    | _, _ => none) (some 0)

def parseHexBytes (s : String) : Option (List U8) :=
  let cs := s.toList
  let rec go : List Char → List U8 → Option (List U8)
    | [], acc => some acc.reverse
    | [_], _ => none
    | a :: b :: rest, acc =>
      match hexDigit a, hexDigit b with
      | some x, some y => go rest (BitVec.ofNat 8 (x * 16 + y) :: acc)
      | _, _ => none
  go cs []

def hexN (n : Nat) (digits : Nat) : String :=
  let ds := (Nat.toDigits 16 n)
  String.ofList (List.replicate (digits - ds.length) '0' ++ ds)

def hex8 (v : U8) : String := hexN v.toNat 2
def hex16 (v : U16) : String := hexN v.toNat 4
def hexBytes (bs : List U8) : String := String.join (bs.map hex8)

/-- default memory contents: a fixed pseudo-random function of (seed, address) -/
def memDefault (seed : Nat) (a : U16) : U8 :=
  let h := ((a.toNat + 1) * (seed * 2 + 1)) % 65537
  BitVec.ofNat 8 (Nat.xor h (h / 128))

def isPortEv : Ev → Bool
  | .ior _ _ => true
  | .iow _ _ => true
  | _ => false

/-- the device: answer depends on (seed, port, number of previous port events) -/
def devFn (seed : Nat) (log : List Ev) (p : U8) : U8 :=
  let n := (log.filter isPortEv).length
  BitVec.ofNat 8 (((p.toNat + 1) * (seed * 2 + 1) + n * 97) % 257)

def evStr : Ev → String
  | .mr a v => "r" ++ hex16 a ++ hex8 v
  | .mw a v => "w" ++ hex16 a ++ hex8 v
  | .ior p v => "i" ++ hex8 p ++ hex8 v
  | .iow p v => "o" ++ hex8 p ++ hex8 v
  | .retn => "N"
  | .reti => "I"
  | .warn bs => "W" ++ hexBytes bs

def evCode : Ev → Nat
  | .mr a v => 1 * 16777216 + a.toNat * 256 + v.toNat
  | .mw a v => 2 * 16777216 + a.toNat * 256 + v.toNat
  | .ior p v => 3 * 16777216 + p.toNat * 256 + v.toNat
  | .iow p v => 4 * 16777216 + p.toNat * 256 + v.toNat
  | .retn => 5 * 16777216
  | .reti => 6 * 16777216
  | .warn bs => bs.foldl (fun h b => (h * 257 + b.toNat + 1) % 4294967296) (7 * 16777216)

/-- hash of the event log in chronological order -/
def logHash (chron : List Ev) : Nat :=
  chron.foldl (fun h e => (h * 31 + evCode e) % 4294967296) 7

structure Inject where
  at_ : Nat
  intr : Interrupt

structure Vec where
  id : String
  st : St
  steps : Nat
  inj : List Inject
  kind : String        -- "step" | "run"
  fuel : Nat := 0

def parseIntr (s : String) : Option (Option Interrupt) :=
  if s == "-" then some none else
  match s.splitOn ":" with
  | [t, d] =>
    let ty : Option Int :=
      if t.startsWith "m" then (t.drop 1).toNat?.map (fun n => -(Int.ofNat n)) else t.toNat?.map Int.ofNat
    match ty, (if d.isEmpty then some [] else parseHexBytes d) with
    | some ty, some bs => some (some { Type_ := ty, Data := bs })
    | _, _ => none
  | _ => none

def intrStr : Option Interrupt → String
  | none => "-"
  | some i => (if i.Type_ < 0 then "m" ++ toString i.Type_.natAbs else toString i.Type_.natAbs) ++ ":" ++ hexBytes i.Data

def parseInt (s : String) : Option Int :=
  if s.startsWith "m" then (s.drop 1).toNat?.map (fun n => -(Int.ofNat n)) else s.toNat?.map Int.ofNat

def intStr (i : Int) : String := if i < 0 then "m" ++ toString i.natAbs else toString i.natAbs

def reg (w : Nat) : Register := { Hi := BitVec.ofNat 8 (w / 256), Lo := BitVec.ofNat 8 (w % 256) }

def parseOverrides (s : String) : Option (List (U16 × List U8)) :=
  if s == "-" then some [] else
  (s.splitOn ",").foldr (fun item acc =>
    match acc, item.splitOn "=" with
    | some l, [a, bs] =>
      match parseHex a, parseHexBytes bs with
      | some a, some bs => some ((BitVec.ofNat 16 a, bs) :: l)
      | _, _ => none
    | _, _ => none) (some [])

def applyOverrides (m : U16 → U8) (ovs : List (U16 × List U8)) : U16 → U8 :=
  ovs.foldl (fun m (a, bs) =>
    (bs.foldl (fun (p : (U16 → U8) × U16) b => (upd p.1 p.2 b, p.2 + 1#16)) (m, a)).1) m

def bit (s : String) (i : Nat) : Bool := (s.toList.getD i '0') == '1'

/-- parse one vector line; fields:
  id S w13 flags IM caps I intr MS seed MO overrides DS seed N steps INJ list BP bps K kind -/
def parseVec (line : String) : Option Vec := do
  let toks := (line.splitOn " ").filter (· ≠ "")
  match toks with
  | id :: "S" :: af :: bc :: de :: hl :: af' :: bc' :: de' :: hl' :: ir :: ix :: iy :: sp :: pc ::
      flags :: im :: caps :: "I" :: intr :: "MS" :: ms :: "MO" :: mo :: "DS" :: ds :: "N" :: n ::
      "INJ" :: inj :: "BP" :: bp :: "K" :: kind :: _ =>
    let w (s : String) : Option Nat := parseHex s
    let af ← w af; let bc ← w bc; let de ← w de; let hl ← w hl
    let af' ← w af'; let bc' ← w bc'; let de' ← w de'; let hl' ← w hl'
    let ir ← w ir; let ix ← w ix; let iy ← w iy; let sp ← w sp; let pc ← w pc
    let im ← parseInt im
    let intr ← parseIntr intr
    let ms ← ms.toNat?
    let ds ← ds.toNat?
    let n ← n.toNat?
    let ovs ← parseOverrides mo
    let inj ← (if inj == "-" then some [] else
      (inj.splitOn ";").foldr (fun item acc =>
        match acc, item.splitOn "@" with
        | some l, [k, i] =>
          match k.toNat?, parseIntr i with
          | some k, some (some i) => some ({ at_ := k, intr := i } :: l)
          | _, _ => none
        | _, _ => none) (some []))
    let bps : Option (Option (U16 → Bool)) :=
      if bp == "nil" then some none
      else if bp == "-" then some (some (fun _ => false))
      else
        let addrs := (bp.splitOn ",").filterMap parseHex
        some (some (fun a => addrs.contains a.toNat))
    let bps ← bps
    -- `default` supplies any field this driver does not know about (a field ADDED to the Go struct must not stop
    -- the correspondence from running: it is the correspondence that has to find the input on which it matters)
    let c0 : CPU := default
    let c : CPU := { c0 with AF := reg af, BC := reg bc, DE := reg de, HL := reg hl, Alternate := { AF := reg af', BC := reg bc', DE := reg de', HL := reg hl' }, IR := reg ir, IX := BitVec.ofNat 16 ix, IY := BitVec.ofNat 16 iy, SP := BitVec.ofNat 16 sp, PC := BitVec.ofNat 16 pc, IFF1 := bit flags 0, IFF2 := bit flags 1, IM := im, Memory := .user, IO := bit caps 0, RETNHandler := bit caps 1, RETIHandler := bit caps 2, Interrupt := intr, BreakPoints := bps, HALT := bit flags 2 }
    let st : St := { c with mem := applyOverrides (memDefault ms) ovs, dev := devFn ds, log := [] }
    pure { id := id, st := st, steps := n, inj := inj, kind := kind }
  | _ => none

def regStr (r : Register) : String := hex8 r.Hi ++ hex8 r.Lo
def b01 (b : Bool) : String := if b then "1" else "0"

def memValStr : MemVal → String
  | .user => "user"
  | .im0data .. => "im0"

def insertSorted (a : Nat) : List Nat → List Nat
  | [] => [a]
  | x :: xs => if a < x then a :: x :: xs else if a = x then x :: xs else x :: insertSorted a xs

/-- canonical result line -/
def resultStr (id : String) (s : St) : String :=
  let chron := s.log.reverse
  let nw : Nat := chron.foldl (fun (n : Nat) e => match e with | .mw _ _ => n + 1 | _ => n) 0
  let written : List Nat :=
    if nw ≤ 64 then chron.foldl (fun acc e => match e with | .mw a _ => insertSorted a.toNat acc | _ => acc) []
    else
      let marks := chron.foldl (fun (m : ByteArray) e => match e with | .mw a _ => m.set! a.toNat 1 | _ => m) (ByteArray.mk (Array.replicate 65536 0))
      (List.range 65536).filter (fun i => marks.get! i == 1)
  let memS := if written.isEmpty then "-" else
    String.intercalate "," (written.map (fun a => hexN a 4 ++ "=" ++ hex8 (s.mem (BitVec.ofNat 16 a))))
  let n := chron.length
  let logS := if n = 0 then "-" else if n ≤ 48 then String.intercalate "," (chron.map evStr) else "..."
  String.intercalate " " [id, "ok", "S",
    regStr s.AF, regStr s.BC, regStr s.DE, regStr s.HL,
    regStr s.Alternate.AF, regStr s.Alternate.BC, regStr s.Alternate.DE, regStr s.Alternate.HL,
    regStr s.IR, hex16 s.IX, hex16 s.IY, hex16 s.SP, hex16 s.PC,
    b01 s.IFF1 ++ b01 s.IFF2 ++ b01 s.HALT, intStr s.IM, "I", intrStr s.Interrupt,
    "MV", memValStr s.Memory, "MEM", memS, "NLOG", toString n, "LH", toString (logHash chron), "LOG", logS]

/-- memory as a flat array (only used by the driver to keep long runs linear) -/
def memArray (m : U16 → U8) : ByteArray := Id.run do
  let mut a := ByteArray.emptyWithCapacity 65536
  for i in [0:65536] do
    a := a.push (m (BitVec.ofNat 16 i)).toNat.toUInt8
  return a
def arrMem (a : ByteArray) : U16 → U8 := fun ad => BitVec.ofNat 8 (a.get! ad.toNat).toNat
/-- fold the write events of a (newest first) log segment into the array, oldest first -/
def applyWrites (a : ByteArray) (seg : List Ev) : ByteArray :=
  seg.reverse.foldl (fun a e => match e with | .mw ad v => a.set! ad.toNat v.toNat.toUInt8 | _ => a) a

/-- run `steps` Steps with the injection schedule.  Long runs re-represent the memory function as an array every
    128 Steps (same function, extensionally: the array is the old array plus the writes logged since) -/
def runSteps (step : M Unit) (v : Vec) : Res Unit :=
  let long := v.steps > 300
  let rec go (k : Nat) (fuel : Nat) (s : St) (arr : ByteArray) (seen : Nat) : Res Unit :=
    match fuel with
    | 0 => .ok () s
    | fuel+1 =>
      let s := match v.inj.find? (fun i => i.at_ == k) with
        | some i => { s with Interrupt := some i.intr }
        | none => s
      let (s, arr, seen) :=
        if long && k % 128 == 0 then
          let n := s.log.length
          let arr := applyWrites arr (s.log.take (n - seen))
          ({ s with mem := arrMem arr }, arr, n)
        else (s, arr, seen)
      match step s with
      | .ok _ s' => go (k+1) fuel s' arr seen
      | .panic w => .panic w
  go 0 v.steps v.st (if long then memArray v.st.mem else ByteArray.empty) 0

end Z80.Proto
