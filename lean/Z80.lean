-- This module serves as the root of the `Z80` library.
-- Import modules here that should be built as part of the library.
import Z80.Basic
