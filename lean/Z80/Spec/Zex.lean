/-
  Z80.Spec.Zex — hand-written: the record layout of the zexdoc/zexall exerciser programs and a parser that
  follows the program's own path to its test records (JP at 0x0100 → `ld hl,tests` → pointer table up to the
  0 terminator → 65 bytes + message up to '$').  Core Lean only.
-/
import Z80.Base

namespace Z80.Spec

/-- little-endian word as two bytes -/
def le16 (v : Nat) : List Nat := [v % 256, v / 256 % 256]

/-- a 13-field Status (Inst0..3, MemOP, IY, IX, HL, DE, BC, Flags, Accum, SP) as the 20 bytes of a record -/
def statusBytes (f : List Nat) : List Nat :=
  match f with
  | [i0, i1, i2, i3, memop, iy, ix, hl, de, bc, flags, accum, sp] =>
    [i0, i1, i2, i3] ++ le16 memop ++ le16 iy ++ le16 ix ++ le16 hl ++ le16 de ++ le16 bc ++ [flags, accum] ++ le16 sp
  | _ => []

/-- the 65 bytes of a record: flag mask, base, increment, shift, CRC (most significant byte first) -/
def recordBytes (mask : Nat) (base inc shift : List Nat) (crc : Nat) : List Nat :=
  [mask] ++ statusBytes base ++ statusBytes inc ++ statusBytes shift ++
    [crc / 16777216 % 256, crc / 65536 % 256, crc / 256 % 256, crc % 256]

/-- drop the padding dots at the end of a message -/
def stripDots (s : String) : String := String.ofList (s.toList.reverse.dropWhile (· == '.')).reverse

/-- byte / word of an image loaded at 0x0100 -/
def imgByte (img : List Nat) (a : Nat) : Option Nat := if a < 0x100 then none else img[a - 0x100]?
def imgWord (img : List Nat) (a : Nat) : Option Nat := do
  let l ← imgByte img a
  let h ← imgByte img (a + 1)
  pure (l + 256 * h)

/-- the message: bytes up to (excluding) '$' -/
def takeMsg : Nat → List Nat → List Nat
  | 0, _ => []
  | _, [] => []
  | n+1, b :: rest => if b = 36 then [] else b :: takeMsg n rest

/-- one record at address p -/
def recordAt (img : List Nat) (p : Nat) : Option (List Nat × String) :=
  if p < 0x100 then none else
  let tail := img.drop (p - 0x100)
  if tail.length < 66 then none else
  some (tail.take 65, String.ofList ((takeMsg 64 (tail.drop 65)).map Char.ofNat))

/-- walk the pointer table -/
def walkTable (img : List Nat) : Nat → Nat → Option (List (List Nat × String))
  | 0, _ => none                      -- no terminator within the bound
  | fuel+1, t => do
    let p ← imgWord img t
    if p = 0 then pure [] else
      let r ← recordAt img p
      let rest ← walkTable img fuel (t + 2)
      pure (r :: rest)

/-- follow the program: `jp start`; at start `ld hl,(6); ld sp,hl; ld de,msg1; ld c,9; call bdos; ld hl,tests` -/
def parseImage (img : List Nat) : Option (List (List Nat × String)) := do
  let op ← imgByte img 0x100
  if op ≠ 0xc3 then none else
  let start ← imgWord img 0x101
  let pat := [(0, 0x2a), (1, 0x06), (2, 0x00), (3, 0xf9), (4, 0x11), (7, 0x0e), (8, 0x09), (9, 0xcd), (12, 0x21)]
  if pat.all (fun (o, b) => imgByte img (start + o) == some b) then
    let tests ← imgWord img (start + 13)
    walkTable img 200 tests
  else none

end Z80.Spec
