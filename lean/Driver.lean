/-
  Driver — reads vectors on stdin, runs the GENERATED model (Z80.Gen) on them and prints one
  canonical result line per vector.  Usage: lake env lean --run Driver.lean [gen|spec]
-/
import Z80.Proto
import Z80.Gen.All

open Z80 Z80.Proto

partial def loop (h : IO.FS.Stream) (out : IO.FS.Stream) (step : M Unit) : IO Unit := do
  let line ← h.getLine
  if line.isEmpty then return ()
  let line := line.trimAsciiEnd.toString
  if line.isEmpty then loop h out step else
  match parseVec line with
  | none => out.putStrLn ("? bad-vector " ++ line)
  | some v =>
    match runSteps step v with
    | .ok _ s => out.putStrLn (resultStr v.id s)
    | .panic w => out.putStrLn (v.id ++ " panic " ++ w)
  loop h out step

def main (args : List String) : IO Unit := do
  let stdin ← IO.getStdin
  let stdout ← IO.getStdout
  let _ := args
  loop stdin stdout Z80.Gen.Step
