package main

// genInject: register-transparent programs x every injection point x interrupt kinds (C07 / C10).

import (
	"bufio"
	"fmt"
)

func genInject(r *rng, out *bufio.Writer, nprog int, maxK int) {
	genInjectMode(r, out, nprog, maxK, false)
}

// genRunIRQ: the same programs; the request is raised by the device callback at the k-th port access, once under Run, once under Step
func genRunIRQ(r *rng, out *bufio.Writer, nprog int) {
	genInjectMode(r, out, nprog, 0, true)
}

func genInjectMode(r *rng, out *bufio.Writer, nprog int, maxK int, irq bool) {
	for p := 0; p < nprog; p++ {
		v := r.randomState(fmt.Sprintf("inj-%d-base", p))
		v.Intr = nil
		v.Kind = "step"
		v.HasIO, v.HasRN, v.HasRI = true, r.chance(70), r.chance(70)
		v.HALT = false
		v.IM = 0
		v.IFF1, v.IFF2 = false, false
		v.W[11] = 0xf000 // SP
		base := uint16(0x0100 + 0x10*r.n(16))
		v.W[12] = base
		v.W[8] = 0x2000 | uint16(r.u8()) // I = 0x20
		mode := r.n(3)                   // IM 0, IM 1 or IM 2
		var prog []uint8
		emit := func(b ...uint8) { prog = append(prog, b...) }
		emit(0xed, []uint8{0x46, 0x56, 0x5e}[mode]) // IM 0 / IM 1 / IM 2
		safe := func(k int) {
			for j := 0; j < k; j++ {
				ins := r.safeInstr()
				// keep SP, I and the IFF state under the program's control
				if ins[0] == 0x31 || ins[0] == 0x33 || ins[0] == 0x3b || ins[0] == 0xf3 || ins[0] == 0xfb || ins[0] == 0x39 || ins[0] == 0xd9 || ins[0] == 0x08 ||
					(ins[0] == 0xed && (ins[1] == 0x5f || ins[1] == 0x4f || ins[1] == 0x47 || ins[1] == 0x46 || ins[1] == 0x56 || ins[1] == 0x5e || ins[1] == 0x72 || ins[1] == 0x7a)) ||
					((ins[0] == 0xdd || ins[0] == 0xfd) && ins[1] == 0x39) {
					ins = []uint8{0x00}
				}
				emit(ins...)
			}
		}
		safe(r.n(3))
		emit(0xfb) // EI
		safe(1 + r.n(4))
		if r.chance(50) {
			emit(0xed, 0x57) // LD A,I with interrupts enabled: P/V = IFF2 = 1, whatever arrives at the next boundary
			safe(r.n(2))
		}
		// block copy in a scratch area
		cnt := uint8(1 + r.n(5))
		emit(0x21, 0x00, 0x80, 0x11, uint8(r.n(4)), 0x80|uint8(r.n(2))<<4, 0x01, cnt, 0x00)
		emit(0xed, []uint8{0xb0, 0xb8, 0xb1, 0xb9}[r.n(4)])
		// DI section with a subroutine call
		emit(0xf3)
		safe(1 + r.n(3))
		if r.chance(60) {
			// a repeating block instruction inside the DI section: a request raised here stays pending through every repetition
			emit(0x21, uint8(0x20+r.n(4)), 0x80, 0x11, uint8(0x40+r.n(4)), 0x80, 0x01, uint8(2+r.n(4)), 0x00)
			emit(0xed, []uint8{0xb0, 0xb8, 0xb1, 0xb9}[r.n(4)])
		}
		callAt := len(prog)
		emit(0xcd, 0x00, 0x00)
		safe(r.n(2))
		emit(0xfb)
		// DJNZ loop
		emit(0x06, uint8(1+r.n(4)), 0x0d, 0x10, 0xfd) // LD B,n ; DEC C ; DJNZ -3
		// OTIR on 1..3 bytes
		emit(0x21, 0x10, 0x80, 0x01, 0x7f, uint8(1+r.n(3)), 0xed, []uint8{0xb3, 0xbb, 0xb2}[r.n(3)])
		safe(r.n(3))
		emit(0x76) // HALT
		sub := base + uint16(len(prog))
		emit(0x3c, 0xc9) // INC A ; RET
		prog[callAt+1], prog[callAt+2] = uint8(sub), uint8(sub>>8)
		v.Over = []Override{
			{base, prog},
			{0x0038, []uint8{0xf5, 0xaf, 0xf1, 0xfb, 0xed, 0x4d}},             // PUSH AF ; XOR A ; POP AF ; EI ; RETI
			{0x0066, []uint8{0xf5, 0x3e, 0x55, 0xf1, 0xed, 0x45}},             // PUSH AF ; LD A,55h ; POP AF ; RETN
			{0x0080, []uint8{0xe5, 0x21, 0x34, 0x12, 0xe1, 0xfb, 0xed, 0x4d}}, // PUSH HL ; LD HL,1234h ; POP HL ; EI ; RETI
			{0x2000, []uint8{0x80, 0x00}}, {0x2012, []uint8{0x80, 0x00}}, {0x20fe, []uint8{0x80, 0x00}},
		}
		// number of Steps of the undisturbed run (on the real code)
		w := newWorld(v)
		curWorld = w
		cpu := buildCPU(v, w)
		n := 0
		for n < 3000 && !cpu.HALT {
			cpu.Step()
			n++
		}
		curWorld = nil
		total := n + 14
		v.N = total
		if irq {
			nports := 0
			for _, e := range w.log {
				if e.K == 'i' || e.K == 'o' {
					nports++
				}
			}
			kinds := []Intr{{Type: 0}, {Type: 1, Data: []uint8{0x12}}}
			if mode == 0 {
				kinds = []Intr{{Type: 0}} // mode 0 has known findings; NMI only
			}
			// the device replaces the breakpoint set as a whole at the k-th port access: the HALT address / a handler address / nothing
			haltAt := base + uint16(len(prog)) - 3
			for k := 1; k <= nports; k++ {
				acts := []Intr{{Type: 77, Data: []uint8{uint8(haltAt >> 8), uint8(haltAt)}}, {Type: 77}, {Type: 77, Data: []uint8{0xff}}, {Type: 77, Data: []uint8{uint8(sub >> 8), uint8(sub), 0x00, 0x38}}}
				act := acts[r.n(len(acts))]
				bp := []string{"nil", "-", fmt.Sprintf("%04x", haltAt), fmt.Sprintf("%04x", sub)}[r.n(4)]
				for _, kindName := range []string{"runirq", "stepirq"} {
					vv := *v
					vv.Kind = kindName
					vv.ID = fmt.Sprintf("ri-%d-b%d-%s", p, k, kindName)
					vv.Inj = []Inject{{At: k, Intr: act}}
					vv.BP = bp
					fmt.Fprintln(out, vv.String())
				}
			}
			for k := 1; k <= nports+1; k++ {
				for ki, kd := range kinds {
					bp := v.BP
					if r.chance(30) {
						bp = fmt.Sprintf("%04x", []uint16{0x0038, 0x0039, 0x0066, 0x0080, 0x0083}[r.n(5)])
					}
					for _, kindName := range []string{"runirq", "stepirq"} {
						vv := *v
						vv.Kind = kindName
						vv.ID = fmt.Sprintf("ri-%d-p%d-%d-%s", p, k, ki, kindName)
						vv.Inj = []Inject{{At: k, Intr: kd}}
						vv.BP = bp
						fmt.Fprintln(out, vv.String())
					}
				}
			}
			continue
		}
		fmt.Fprintln(out, v.String())
		type kind struct {
			name string
			in   Intr
		}
		kinds := []kind{{"nmi", Intr{Type: 0}}}
		if mode == 0 {
			// mode 0: the device supplies RST 38h or CALL 0080h (known findings KF-1 / KF-2 apply)
			kinds = append(kinds, kind{"im0rst", Intr{Type: 1, Data: []uint8{0xff}}}, kind{"im0call", Intr{Type: 1, Data: []uint8{0xcd, 0x80, 0x00}}})
		} else if mode == 1 {
			kinds = append(kinds, kind{"im1", Intr{Type: 1, Data: []uint8{r.u8()}}})
		} else {
			kinds = append(kinds, kind{"im2v00", Intr{Type: 1, Data: []uint8{0x00}}}, kind{"im2v13", Intr{Type: 1, Data: []uint8{0x13}}}, kind{"im2vfe", Intr{Type: 1, Data: []uint8{0xfe}}})
		}
		for k := 0; k <= n+1; k++ {
			if maxK > 0 && n > maxK && r.n(n) >= maxK {
				continue // sample injection points of long programs in the quick tier
			}
			for _, kd := range kinds {
				vv := *v
				vv.ID = fmt.Sprintf("inj-%d-k%d-%s", p, k, kd.name)
				vv.Inj = []Inject{{At: k, Intr: kd.in}}
				fmt.Fprintln(out, vv.String())
			}
			// two requests: an NMI, and a maskable one raised while the NMI handler runs (IFF1 clear, IFF2 holding the old IFF1): it must
			// wait until RETN has restored IFF1, and the whole episode must still be transparent
			if mode != 0 && (maxK == 0 || r.chance(35)) {
				vv := *v
				vv.ID = fmt.Sprintf("inj-%d-k%d-nmi%s", p, k, kinds[1].name)
				vv.Inj = []Inject{{At: k, Intr: Intr{Type: 0}}, {At: k + 1 + r.n(4), Intr: kinds[1].in}}
				vv.N = total + 14
				fmt.Fprintln(out, vv.String())
			}
		}
	}
}
