package main

// cimdata.go — extraction of the "output program" of cmd/cim2bin and cmd/cim2cas (C19): the ordered list of things
// run() writes to the output, the byte order of writeU16, the width / padding of writeName, the header literals and
// the default-name rule.  Anything of an unexpected shape is refused.

import (
	"fmt"
	"go/ast"
	"go/constant"
	"go/parser"
	"go/token"
	"path/filepath"
	"regexp"
	"strings"
)

func exprStr(fset *token.FileSet, e ast.Expr) string {
	var b strings.Builder
	ast.Inspect(e, func(n ast.Node) bool {
		switch x := n.(type) {
		case *ast.Ident:
			b.WriteString(x.Name + " ")
		case *ast.BasicLit:
			b.WriteString(x.Value + " ")
		case *ast.BinaryExpr:
			b.WriteString("(" + x.Op.String() + " ")
		case *ast.CallExpr:
			b.WriteString("(call ")
		case *ast.SliceExpr:
			b.WriteString("(slice ")
		}
		return true
	})
	return strings.TrimSpace(b.String())
}

var runShapes = []*regexp.Regexp{
	regexp.MustCompile(`^expr \(call flag (StringVar|UintVar) (cim|bin|cas|nam|off0) "[^"]*" ("[^"]*"|0x[0-9a-fA-F]+|[0-9]+) ` + "`[^`]*`$"),
	regexp.MustCompile(`^expr \(call flag Parse$`),
	regexp.MustCompile(`^decl off = \(call uint16 off0$`),
	regexp.MustCompile(`^if \(== nam "" \{assign nam = cim\}$`),
	regexp.MustCompile(`^assign b, err := \(call os ReadFile cim$`),
	regexp.MustCompile(`^if \(!= err nil \{return err\}$`),
	regexp.MustCompile(`^assign f, err := \(call os Create (bin|cas)$`),
	regexp.MustCompile(`^defer \(call f Close$`),
	regexp.MustCompile(`^assign w := \(call bufio NewWriter f$`),
	regexp.MustCompile(`^assign err = \(call w WriteByte 0x[0-9a-fA-F]+$`),
	regexp.MustCompile(`^assign err = \(call writeU16 w (off|\(- \(\+ off \(call uint16 \(call len b 1)$`),
	regexp.MustCompile(`^assign _, err = \(call w Write (b|header|typeBin)$`),
	regexp.MustCompile(`^assign err = \(call writeName w \(call byte nam$`),
	regexp.MustCompile(`^return \(call w Flush$`),
}

var u16Shapes = []*regexp.Regexp{
	regexp.MustCompile(`^decl\? buf \[2\]byte$`),
	regexp.MustCompile(`^assign buf 0 = \(call uint8 u16$`),
	regexp.MustCompile(`^assign buf 1 = \(call uint8 \(>> u16 8$`),
	regexp.MustCompile(`^assign _, err := \(call w Write \(slice buf$`),
	regexp.MustCompile(`^return err$`),
}
var nameShapes = []*regexp.Regexp{
	regexp.MustCompile(`^assign buf := byte( 0x0*20)+$`),
	regexp.MustCompile(`^if \(> \(call len name [0-9]+ \{assign name = \(slice name [0-9]+\}$`),
	regexp.MustCompile(`^expr \(call copy buf name$`),
	regexp.MustCompile(`^assign _, err := \(call w Write buf$`),
	regexp.MustCompile(`^return err$`),
}
var mainShapes = []*regexp.Regexp{
	regexp.MustCompile(`^assign err := \(call run$`),
	regexp.MustCompile(`^if \(!= err nil \{expr \(call log Fatal err\}$`),
}

func checkShapes(fset *token.FileSet, tool, fn string, body *ast.BlockStmt, shapes []*regexp.Regexp) {
	for _, st := range body.List {
		sh := stmtShape(fset, st)
		ok := false
		for _, re := range shapes {
			if re.MatchString(sh) {
				ok = true
				break
			}
		}
		if !ok {
			panic(refusal(tool + ": " + fn + "() contains a statement of an unexpected shape: " + sh))
		}
	}
}

// stmtShape: a canonical one-line rendering of a statement (identifiers, literals, operators and calls in source order)
func stmtShape(fset *token.FileSet, st ast.Stmt) string {
	join := func(es []ast.Expr) string {
		var q []string
		for _, e := range es {
			q = append(q, exprStr(fset, e))
		}
		return strings.Join(q, ", ")
	}
	switch x := st.(type) {
	case *ast.ExprStmt:
		return "expr " + exprStr(fset, x.X)
	case *ast.DeclStmt:
		gd, ok := x.Decl.(*ast.GenDecl)
		if !ok || len(gd.Specs) != 1 {
			return "decl ?"
		}
		vs, ok := gd.Specs[0].(*ast.ValueSpec)
		if ok && vs.Type != nil && len(vs.Values) == 0 && len(vs.Names) == 1 {
			if at, ok := vs.Type.(*ast.ArrayType); ok && at.Len != nil {
				return "decl? " + vs.Names[0].Name + " [" + exprStr(fset, at.Len) + "]" + exprStr(fset, at.Elt)
			}
		}
		if !ok || vs.Type != nil {
			return "decl ?"
		}
		var names []string
		for _, n := range vs.Names {
			names = append(names, n.Name)
		}
		return "decl " + strings.Join(names, ", ") + " = " + join(vs.Values)
	case *ast.AssignStmt:
		return "assign " + join(x.Lhs) + " " + x.Tok.String() + " " + join(x.Rhs)
	case *ast.IfStmt:
		if x.Init != nil || x.Else != nil {
			return "if ?"
		}
		var q []string
		for _, b := range x.Body.List {
			q = append(q, stmtShape(fset, b))
		}
		return "if " + exprStr(fset, x.Cond) + " {" + strings.Join(q, "; ") + "}"
	case *ast.DeferStmt:
		return "defer " + exprStr(fset, x.Call)
	case *ast.ReturnStmt:
		return "return " + join(x.Results)
	}
	return fmt.Sprintf("%T", st)
}

func cimProgram(repo, tool string) (items []string, u16order []string, nameWidth int, namePad int, lits map[string][]int64, defaultName bool) {
	fset := token.NewFileSet()
	path := filepath.Join(repo, "cmd", tool, tool+".go")
	f, err := parser.ParseFile(fset, path, nil, 0)
	if err != nil {
		panic(refusal(path + ": " + err.Error()))
	}
	lits = map[string][]int64{}
	intLit := func(e ast.Expr) (int64, bool) {
		bl, ok := e.(*ast.BasicLit)
		if !ok || bl.Kind != token.INT {
			return 0, false
		}
		return constant.Int64Val(constant.MakeFromLiteral(bl.Value, token.INT, 0))
	}
	for _, d := range f.Decls {
		if gd, ok := d.(*ast.GenDecl); ok && gd.Tok == token.VAR {
			for _, sp := range gd.Specs {
				vs := sp.(*ast.ValueSpec)
				for i, n := range vs.Names {
					if i < len(vs.Values) {
						if cl, ok := vs.Values[i].(*ast.CompositeLit); ok {
							var bs []int64
							good := true
							for _, el := range cl.Elts {
								v, ok := intLit(el)
								good = good && ok
								bs = append(bs, v)
							}
							if good {
								lits[n.Name] = bs
							}
						}
					}
				}
			}
		}
	}
	for _, d := range f.Decls {
		fd, ok := d.(*ast.FuncDecl)
		if !ok || fd.Body == nil {
			continue
		}
		switch fd.Name.Name {
		case "writeU16":
			// buf[0] = uint8(u16) ; buf[1] = uint8(u16 >> 8)
			for _, st := range fd.Body.List {
				as, ok := st.(*ast.AssignStmt)
				if !ok || len(as.Lhs) != 1 {
					continue
				}
				if ix, ok := as.Lhs[0].(*ast.IndexExpr); ok {
					idx, _ := intLit(ix.Index)
					u16order = append(u16order, fmt.Sprintf("(%d, %q)", idx, exprStr(fset, as.Rhs[0])))
				}
			}
		case "writeName":
			checkShapes(fset, tool, "writeName", fd.Body, nameShapes)
			for _, st := range fd.Body.List {
				switch x := st.(type) {
				case *ast.AssignStmt:
					if cl, ok := x.Rhs[0].(*ast.CompositeLit); ok {
						nameWidth = len(cl.Elts)
						namePad = -1
						for _, el := range cl.Elts {
							v, ok := intLit(el)
							if !ok || (namePad >= 0 && int(v) != namePad) {
								panic(refusal("writeName: padding literal of an unexpected shape"))
							}
							namePad = int(v)
						}
					}
				case *ast.IfStmt:
					// if len(name) > W { name = name[:W] }
					if be, ok := x.Cond.(*ast.BinaryExpr); !ok || exprStr(fset, be) != fmt.Sprintf("(> (call len name %d", nameWidth) {
						panic(refusal("writeName: truncation test of an unexpected shape: " + exprStr(fset, x.Cond)))
					}
				}
			}
		case "run":
			// every statement of run() must be one of the known shapes: nothing may stand between reading the image and writing it
			// (no reassignment of b, off or nam, no extra condition) without the extraction refusing
			var seq []string
			for _, st := range fd.Body.List {
				sh := stmtShape(fset, st)
				ok := false
				for _, re := range runShapes {
					if re.MatchString(sh) {
						ok = true
						break
					}
				}
				if !ok {
					panic(refusal(tool + ": run() contains a statement of an unexpected shape: " + sh))
				}
				seq = append(seq, sh)
			}
			// ... and in the known ORDER: flags, offset, (default name), READ the image, then create the output, then the writes, flush
			phase := func(sh string) int {
				switch {
				case strings.HasPrefix(sh, "expr (call flag "):
					return 0
				case strings.HasPrefix(sh, "decl off ="):
					return 1
				case strings.HasPrefix(sh, `if (== nam ""`):
					return 2
				case strings.HasPrefix(sh, "assign b, err := (call os ReadFile"):
					return 3
				case strings.HasPrefix(sh, "assign f, err := (call os Create"):
					return 4
				case strings.HasPrefix(sh, "defer (call f Close"):
					return 5
				case strings.HasPrefix(sh, "assign w := (call bufio NewWriter"):
					return 6
				case strings.HasPrefix(sh, "return (call w Flush"):
					return 8
				case strings.HasPrefix(sh, "if (!= err nil"):
					return -1 // follows whatever it checks
				}
				return 7 // the writes
			}
			last := 0
			for _, sh := range seq {
				ph := phase(sh)
				if ph < 0 {
					continue
				}
				if ph < last {
					panic(refusal(tool + ": run() performs its steps in an unexpected order (the image must be read before the output file is created and written): " + sh))
				}
				last = ph
			}
			ast.Inspect(fd.Body, func(n ast.Node) bool {
				if ifs, ok := n.(*ast.IfStmt); ok {
					if exprStr(fset, ifs.Cond) == `(== nam ""` {
						if len(ifs.Body.List) == 1 {
							if as, ok := ifs.Body.List[0].(*ast.AssignStmt); ok && exprStr(fset, as.Lhs[0]) == "nam" && exprStr(fset, as.Rhs[0]) == "cim" {
								defaultName = true
							}
						}
					}
				}
				ce, ok := n.(*ast.CallExpr)
				if !ok {
					return true
				}
				callee := exprStr(fset, ce.Fun)
				switch callee {
				case "w WriteByte":
					v, ok := intLit(ce.Args[0])
					if !ok {
						panic(refusal("run: WriteByte of a non-literal"))
					}
					items = append(items, fmt.Sprintf(".byte %d", v))
				case "writeU16":
					switch a := exprStr(fset, ce.Args[1]); a {
					case "off":
						items = append(items, ".u16off")
					case "(- (+ off (call uint16 (call len b 1":
						items = append(items, ".u16end")
					default:
						panic(refusal("run: writeU16 of an unexpected expression: " + a))
					}
				case "w Write":
					switch a := exprStr(fset, ce.Args[0]); a {
					case "b":
						items = append(items, ".body")
					default:
						if bs, ok := lits[a]; ok {
							var q []string
							for _, x := range bs {
								q = append(q, fmt.Sprintf("%d", x))
							}
							items = append(items, ".bytes ["+strings.Join(q, ", ")+"]")
						} else {
							panic(refusal("run: Write of an unexpected expression: " + a))
						}
					}
				case "writeName":
					if a := exprStr(fset, ce.Args[1]); a != "(call byte nam" {
						panic(refusal("run: writeName of an unexpected expression: " + a))
					}
					items = append(items, ".name")
				}
				return true
			})
		}
	}
	if len(items) == 0 {
		panic(refusal(tool + ": no output program found"))
	}
	return
}

func genCimData(repo string) string {
	var b strings.Builder
	b.WriteString("-- GENERATED by go2lean from cmd/cim2bin/cim2bin.go and cmd/cim2cas/cim2cas.go. DO NOT EDIT.\n\nnamespace Z80.Gen\n\n")
	b.WriteString("/-- one thing run() writes to the output -/\ninductive CimItem\n  | byte (v : Nat) | bytes (l : List Nat) | u16off | u16end | name | body\n  deriving Repr, DecidableEq\n\n")
	for _, tool := range []string{"cim2bin", "cim2cas"} {
		items, order, w, pad, _, def := cimProgram(repo, tool)
		fmt.Fprintf(&b, "/-- what %s's run() writes, in order -/\ndef %sProgram : List CimItem := [%s]\n", tool, tool, strings.Join(items, ", "))
		fmt.Fprintf(&b, "/-- writeU16 of %s: (buffer index, expression stored there) -/\ndef %sU16 : List (Nat × String) := [%s]\n", tool, tool, strings.Join(order, ", "))
		if tool == "cim2cas" {
			fmt.Fprintf(&b, "/-- writeName: field width, padding byte; and whether an empty -nam defaults to the input file name -/\ndef cim2casNameWidth : Nat := %d\ndef cim2casNamePad : Nat := %d\ndef cim2casDefaultName : Bool := %v\n", w, pad, def)
		}
		b.WriteString("\n")
	}
	b.WriteString("end Z80.Gen\n")
	return b.String()
}
