/-
  Z80.Proofs.StepB — bus layer, top: the generated `executeOne` IS the reference `executeOne` over the CPU's current
  bus, for EVERY state and EVERY Memory value (user memory, mode-0 overlay, nested overlays) — no hypothesis.
-/
import Z80.Proofs.TablesB.Main

namespace Z80
open Z80.Gen Z80.Spec Z80.OblB

theorem executeOne_eqB (s : St) : Gen.executeOne s = SpecB.executeOne Impl.koron s := by
  simp (config := {implicitDefEqProofs := false}) [Gen.executeOne, Gen.fetchM1, Memory_Get_eq, SpecB.executeOne, SpecB.fetchM1,
    SpecB.fetch, SpecB.rd8, incR, sw_main_eqB]

end Z80
