/-
  C12 — Step and Run are total: no input makes the emulator panic or hang.

  The model's only partial operations are the two slice indexings (`im0.data[off]`, `Interrupt.Data[0]`) and the
  dereferences of nil-able fields; go2lean translates them as CHECKED operations that yield `panic`, so "the real
  code cannot panic" is "the model never reaches `Res.panic`".
    * `C12_step`: for every state with the user's memory installed and every pending request outside mode 0 with
      supplied bytes — any type value, any IM value, empty or long data, any PC/SP, no I/O device attached,
      no handlers — Step returns normally, and keeps the Memory value (so the next Step is covered again).
    * `C12_overlay_*`: the mode-0 overlay accessors never index outside the supplied bytes, for EVERY data
      length, start address (wrap included) and address — the guard is sufficient.
    * `C12_consumed`: an unsupported opcode (outside the pinned set P) is consumed: its bytes are skipped, one
      warning is emitted, nothing else changes, and execution continues with the next byte.
    * no hang inside a Step: every generated definition is non-recursive (Lean accepted them without fuel; the
      translator refuses loops and recursion); Run returns once the program halts: C08.
  Partial: the composition "every decode arm × overlay memory" (mode 0 with supplied bytes) is exercised by the
  correspondence check's malformed stream, not proved.
-/
import Z80.Props.C06
import Z80.Proofs.FrameB
import Z80.Spec.KoronIM0
import Z80.Proofs.Families.Invalid

namespace Z80.Props.C12
open Z80 Z80.Gen Z80.Spec Z80.Obl
set_option maxRecDepth 8192

/-- the abstract controller never panics -/
theorem intStep_total (i : Interrupt) (s : St) (h : C06.NotIM0Data s i) : ∃ t, intStep Impl.koron i s = .ok () t := by
  obtain ⟨u, hu⟩ := executeOne_total s
  unfold intStep
  simp only [bind_run, getSt_run, Res.bind_ok, ite_run]
  split
  · simp [vectorTo, push16, wr16, wr8, Impl.koron]
  split
  · exact ⟨u, hu⟩
  split
  · simp [vectorTo, push16, wr16, wr8, Impl.koron]
  split
  · cases hd : i.Data with
    | nil => simp
    | cons v rest => simp [push16, wr16, wr8, rd16, rd8, Impl.koron]
  split
  · rename_i h0
    rcases h with h | h | h | h
    · simp_all [isNMI]
    · simp_all
    · exact absurd h0 h
    · simp [h]
  · exact ⟨u, hu⟩

/-- THE totality theorem for Step -/
theorem C12_step (s : St) (hm : s.Memory = .user) (hreq : ∀ i, s.Interrupt = some i → C06.NotIM0Data s i) :
    ∃ t, Gen.Step s = .ok () t := by
  cases hi : s.Interrupt with
  | none =>
    obtain ⟨t, ht, _⟩ := gen_executeOne_ok s hm
    exact ⟨t, by rw [gen_Step_noint s hi, ht]⟩
  | some i =>
    rw [C06.C06_step s i hi hm (hreq i hi)]
    obtain ⟨t, ht⟩ := intStep_total i s (hreq i hi)
    exact ⟨t, by simp [Spec.step, hi, ht]⟩


/-- the recorded description of mode 0 never panics (it runs one reference instruction on the overlaid memory) -/
theorem stepKF_im0_total (s : St) (data : List U8) : ∃ t, koronIM0 Impl.koron data s = .ok () t := by
  unfold koronIM0
  obtain ⟨t, ht⟩ := executeOne_total { s with mem := overlayMem s.PC data s.mem, log := [] }
  simp only [ht]
  exact ⟨_, rfl⟩

/-- mode 0 with a supplied RST p or CALL nn (the forms devices use): Step returns normally for EVERY state — via the
    proved equality with the recorded description (C06_im0_rst / C06_im0_call) -/
theorem C12_step_im0 (s : St) (i : Interrupt) (hi : s.Interrupt = some i) (hm : s.Memory = .user) (hn : i.Type_ ≠ 0)
    (hf : s.IFF1 = true) (him : s.IM = 0)
    (hd : (∃ b, (b = 0xc7#8 ∨ b = 0xcf#8 ∨ b = 0xd7#8 ∨ b = 0xdf#8 ∨ b = 0xe7#8 ∨ b = 0xef#8 ∨ b = 0xf7#8 ∨ b = 0xff#8) ∧ i.Data = [b]) ∨
          (∃ lo hi', i.Data = [0xcd#8, lo, hi'])) :
    ∃ t, Gen.Step s = .ok () t := by
  have hk : Spec.stepKF Impl.koron s = koronIM0 Impl.koron i.Data s := by
    have hne : i.Data ≠ [] := by rcases hd with ⟨b, _, h⟩ | ⟨lo, hi', h⟩ <;> simp [h]
    simp [Spec.stepKF, hi, isNMI, hn, hf, him, hne]
  rcases hd with ⟨b, hb, h⟩ | ⟨lo, hi', h⟩
  · rw [C06.C06_im0_rst s i hi hm hn hf him b hb h, hk]; exact stepKF_im0_total s i.Data
  · rw [C06.C06_im0_call s i hi hm hn hf him lo hi' h, hk]; exact stepKF_im0_total s i.Data


/-- THE unconditional totality theorem: for EVERY state with the user memory installed — any pending request
    whatsoever, mode 0 with ANY supplied bytes included — Step returns normally -/
theorem C12_step_all (s : St) (hm : s.Memory = .user) : ∃ t, Gen.Step s = .ok () t := by
  cases hi : s.Interrupt with
  | none => exact C12_step s hm (fun i h => by rw [hi] at h; cases h)
  | some i =>
    by_cases h0 : i.Type_ ≠ 0 ∧ s.IFF1 = true ∧ s.IM = 0 ∧ i.Data ≠ []
    · exact step_im0_total s i hi h0.1 h0.2.1 h0.2.2.1 h0.2.2.2
    · refine C12_step s hm (fun j hj => ?_)
      rw [hi] at hj; cases hj
      by_cases hn : i.Type_ = 0
      · exact .inl hn
      by_cases hf : s.IFF1 = false
      · exact .inr (.inl hf)
      by_cases him : s.IM = 0
      · right; right; right
        by_cases hd : i.Data = []
        · exact hd
        · exact absurd ⟨hn, by simpa using hf, him, hd⟩ h0
      · exact .inr (.inr (.inl him))
/-- the instruction interpreter itself never panics — EVERY state and EVERY Memory value (user memory, the mode-0
    overlay, nested overlays): every decode arm over every bus -/
theorem C12_executeOne_total (s : St) : ∃ t, Gen.executeOne s = .ok () t := gen_executeOne_total s

/-- with no request pending the Memory value is kept, so totality holds for every following Step as well -/
theorem C12_steps_noint (s : St) (hm : s.Memory = .user) (hi : s.Interrupt = none) :
    ∃ t, Gen.Step s = .ok () t ∧ t.Memory = .user ∧ t.Interrupt = none := by
  obtain ⟨t, ht, h1, h2, _⟩ := gen_executeOne_ok s hm
  exact ⟨t, by rw [gen_Step_noint s hi, ht], h1, by rw [h2, hi]⟩

/-- the mode-0 overlay: reads never index outside the supplied bytes — every length, every start, every address,
    every nesting of overlays (induction over the memory value) -/
theorem C12_overlay_get (m : MemVal) : ∀ (a : U16) (s : St), ∃ v t, Gen.Memory_Get m a s = .ok v t := by
  induction m with
  | user => intro a s; exact ⟨_, _, rfl⟩
  | im0data start end_ data base ih =>
    intro a s
    simp only [Gen.Memory_Get, bind_run, pure_run, ite_run]
    split
    · obtain ⟨v, t, h⟩ := ih a s
      exact ⟨v, t, by simp [h]⟩
    · rename_i h
      have hlt : (a - start).toNat < data.length := by
        simp only [goLen, decide_eq_true_eq, ge_iff_le, Int.not_le, Int.ofNat_eq_natCast] at h
        omega
      refine ⟨data[(a - start).toNat], s, ?_⟩
      rw [idx_run, List.getElem?_eq_getElem hlt]
/-- … and writes never index at all -/
theorem C12_overlay_set (m : MemVal) : ∀ (a : U16) (v : U8) (s : St), ∃ t, Gen.Memory_Set m a v s = .ok () t := by
  induction m with
  | user => intro a v s; exact ⟨_, rfl⟩
  | im0data start end_ data base ih =>
    intro a v s
    simp only [Gen.Memory_Set, bind_run, pure_run, ite_run]
    split
    · exact ⟨s, rfl⟩
    · obtain ⟨t, h⟩ := ih a v s
      exact ⟨t, by simp [h]⟩

/-- no I/O device attached: port reads yield 0, port writes are dropped — no nil dereference -/
theorem C12_nil_io (p v : U8) (s : St) (h : s.IO = false) :
    Gen.ioIn p s = .ok 0#8 s ∧ Gen.ioOut p v s = .ok () s := by
  simp [Gen.ioIn, Gen.ioOut, h]

theorem ed_invalid_none : ∀ b ∈ slots_Invalid_ed, decodeED b.toNat = none := by decide

/-- unsupported opcodes are consumed: after DD / FD / ED and a byte outside P, exactly the fetched bytes are
    skipped, R counts the two opcode fetches, one warning quoting the bytes is emitted, nothing else changes -/
theorem C12_consumed_ed (s : St) (h₁ : s.Interrupt = none) (h₂ : s.Memory = .user) (b : U8) (hb : b ∈ slots_Invalid_ed)
    (hp : s.mem s.PC = 0xed#8) (hop : s.mem (s.PC + 1#16) = b) :
    Gen.Step s = .ok () { (afterM1 (afterM1 s)) with log := .warn [0xed#8, b] :: (afterM1 (afterM1 s)).log } := by
  rw [step_ed s h₁ h₂ b hp hop (fun c0 => fam_Invalid_ed c0 b hb)]
  have : decodeED b.toNat = none := ed_invalid_none b hb
  simp [execOpt, consumed, this]

/-- the unprefixed and CB tables have no unsupported slot; the prefixed ones have 198 + 106×2 + 224×2 -/
theorem C12_invalid_counts :
    slots_Invalid_ed.length = 198 ∧ slots_Invalid_dd.length = 105 ∧ slots_Invalid_fd.length = 105 ∧
    slots_Invalid_ddcb.length = 224 ∧ slots_Invalid_fdcb.length = 224 := by decide

end Z80.Props.C12
