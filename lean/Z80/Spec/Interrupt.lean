/-
  Z80.Spec.Interrupt — hand-written abstract interrupt controller (the oracle for C06/C07) and the
  complete reference `step`.  Written from the Z80 rules, not from the Go code:

    * a pending request is examined at the start of a step;
    * NMI: always accepted — push PC, PC := 0x0066, IFF2 := IFF1, IFF1 := 0;
    * maskable: accepted iff IFF1; then IFF1 := IFF2 := 0 and
        mode 1: push PC, PC := 0x0038;
        mode 2: push PC, PC := word at I*256 + (vector AND 0xFE);
        mode 0: the supplied instruction is executed; its bytes come from the interrupting device, so
                PC does NOT advance while they are read (RST/CALL therefore push the address of the first
                instruction not yet executed);
    * an accepted request is consumed and no program instruction runs in that step;
    * a refused request changes nothing: the step is an ordinary instruction and the request stays.
-/
import Z80.Spec.Decode

namespace Z80.Spec
open Z80 Z80.Gen

/-- request kinds: `Type = 0` is the non-maskable one (NMIType), everything else is maskable -/
def isNMI (i : Interrupt) : Bool := i.Type_ == 0

/-- push PC and continue at `target` -/
def vectorTo (impl : Impl) (site : Site) (target : U16) : M Unit := do
  let s ← getSt
  push16 (impl.loFirst site) s.PC
  modifySt fun s => { s with PC := target }

/-- mode 0: instructions this specification defines when supplied by the device.
    Single-byte unprefixed instructions without operand bytes run exactly as `exec` (PC not advanced);
    `CALL nn` and `JP nn` take nn from the supplied bytes. -/
def operandBytes : Instr → Nat
  | .ld8n (.mXYd _) => 2
  | .ld8n _ => 1 | .alun _ => 1 | .jr => 1 | .jrcc _ => 1 | .djnz => 1 | .inAn => 1 | .outnA => 1
  | .ld8 (.mXYd _) _ => 1 | .ld8 _ (.mXYd _) => 1 | .alu _ (.mXYd _) => 1 | .inc8 (.mXYd _) => 1 | .dec8 (.mXYd _) => 1
  | .ld16n _ => 2 | .ld16m _ => 2 | .st16m _ => 2 | .ldA .nn => 2 | .stA .nn => 2
  | .jp => 2 | .jpcc _ => 2 | .call => 2 | .callcc _ => 2
  | _ => 0

inductive Im0 | instr (i : Instr) | call (nn : U16) | jp (nn : U16) | undefined

def im0Decode (data : List U8) : Im0 :=
  match data with
  | [b] =>
    match decodeBase none b.toNat with
    | some i => if operandBytes i = 0 then .instr i else .undefined
    | none => .undefined
  | [b, l, h] =>
    if b = 0xcd#8 then .call (mk16 h l) else if b = 0xc3#8 then .jp (mk16 h l) else .undefined
  | _ => .undefined

/-- is this mode-0 request within the defined part of the specification? -/
def im0Defined (data : List U8) : Bool :=
  match im0Decode data with
  | .undefined => false
  | _ => true

/-- the step taken when a request `i` is pending -/
def intStep (impl : Impl) (i : Interrupt) : M Unit := do
  let s ← getSt
  if isNMI i then
    vectorTo impl .nmi 0x0066#16
    modifySt fun t => { t with IFF2 := s.IFF1, IFF1 := false, Interrupt := none }
  else if !s.IFF1 then
    executeOne impl                       -- refused: the program continues, the request stays pending
  else if s.IM = 1 then
    vectorTo impl .im1 0x0038#16
    modifySt fun t => { t with IFF1 := false, IFF2 := false, Interrupt := none }
  else if s.IM = 2 then
    match i.Data with
    | v :: _ =>
      let s ← getSt
      push16 (impl.loFirst .im2) s.PC
      let a ← rd16 (mk16 s.IR.Hi (v &&& 0xfe#8))
      modifySt fun t => { t with PC := a, IFF1 := false, IFF2 := false, Interrupt := none }
    | [] => modifySt fun t => { t with Interrupt := none }     -- no vector supplied: unspecified; recorded as "dropped"
  else if s.IM = 0 then
    match i.Data with
    | [] => modifySt fun t => { t with Interrupt := none }     -- nothing supplied: unspecified; recorded as "dropped"
    | _ =>
      (if impl.im0M1 then modifySt fun t => { t with IR.Lo := incR t.IR.Lo } else pure ())
      (match im0Decode i.Data with
       | .instr ins => exec impl ins
       | .call nn => vectorTo impl .call nn
       | .jp nn => modifySt fun t => { t with PC := nn }
       | .undefined => pure ())            -- outside the defined part (see `im0Defined`)
      modifySt fun t => { t with IFF1 := false, IFF2 := false, Interrupt := none }
  else
    executeOne impl                       -- no such mode: the request can never be accepted

/-- one complete reference step -/
def step (impl : Impl) : M Unit := do
  let s ← getSt
  match s.Interrupt with
  | none => executeOne impl
  | some i => intStep impl i

end Z80.Spec
