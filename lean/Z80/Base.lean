/-
  Z80.Base — hand-written, core Lean only.
  Machine words, bus events and the few pure Go built-ins the translated code uses.
-/
namespace Z80

abbrev U8  := BitVec 8
abbrev U16 := BitVec 16
abbrev U32 := BitVec 32

/-- One externally visible event: every `Memory.Get/Set`, `IO.In/Out`,
    RETN/RETI handler call and `log.Printf` warning, in program order. -/
inductive Ev where
  | mr (a : U16) (v : U8)     -- Memory.Get(a) returned v
  | mw (a : U16) (v : U8)     -- Memory.Set(a, v)
  | ior (p : U8) (v : U8)     -- IO.In(p) returned v
  | iow (p : U8) (v : U8)     -- IO.Out(p, v)
  | retn                      -- RETNHandler.RETNHandle()
  | reti                      -- RETIHandler.RETIHandle()
  | warn (bytes : List U8)    -- cpu.warnf(...) with the quoted code bytes
  deriving DecidableEq, Repr, Inhabited

/-- `bits.OnesCount8` (returns Go `int`). -/
def popcount (r : U8) : Int :=
  (r.getLsbD 0).toNat + (r.getLsbD 1).toNat + (r.getLsbD 2).toNat + (r.getLsbD 3).toNat +
  (r.getLsbD 4).toNat + (r.getLsbD 5).toNat + (r.getLsbD 6).toNat + (r.getLsbD 7).toNat

/-- byte store update -/
def upd (m : U16 → U8) (a : U16) (v : U8) : U16 → U8 := fun x => if x = a then v else m x

@[simp] theorem upd_same (m : U16 → U8) (a : U16) (v : U8) : upd m a v a = v := by simp [upd]
theorem upd_other (m : U16 → U8) (a x : U16) (v : U8) (h : x ≠ a) : upd m a v x = m x := by simp [upd, h]

end Z80
