/-
  C14 — the refresh register counts opcode fetches; I and bit 7 of R change only by LD.

  Over the regenerated code (through C01's equality with the reference): the low seven bits of R advance by
  one per opcode fetch — once for an unprefixed instruction, twice for CB/ED/DD/FD-prefixed ones, three times
  for DDCB/FDCB forms (this project's count; silicon counts two — either is accepted), on every repetition of
  a block instruction and on every Step spent halted — wrapping 0x7F → 0x00 with bit 7 kept; I and bit 7 of R
  change only through LD I,A / LD R,A.  All 256 starting R values are covered because R is a variable.
-/
import Z80.Props.C01
import Z80.Proofs.Frame
import Z80.Proofs.StepOf

namespace Z80.Props.C14
open Z80 Z80.Gen Z80.Spec
set_option maxRecDepth 8192

/-- the per-fetch update: low seven bits + 1 modulo 128, bit 7 kept -/
theorem incR_def : ∀ r : U8, incR r = (r &&& 0x80#8) ||| ((r + 1#8) &&& 0x7f#8) := fun _ => rfl
/-- … it wraps 0x7F → 0x00 and 0xFF → 0x80, and never changes bit 7 (all 256 values) -/
theorem incR_wrap : incR 0x7f#8 = 0x00#8 ∧ incR 0xff#8 = 0x80#8 ∧ ∀ r : U8, (incR r)[7] = r[7] ∧
    (incR r).toNat % 128 = (r.toNat + 1) % 128 := by
  refine ⟨by decide, by decide, ?_⟩
  decide

/-- the opcode fetch of the REAL code advances R by exactly one `incR` and touches nothing else of I/R -/
theorem C14_fetchM1 (s : St) (h : s.Memory = .user) :
    ∃ t, Gen.fetchM1 s = .ok (s.mem s.PC) t ∧ t.IR = { Hi := s.IR.Hi, Lo := incR s.IR.Lo } :=
  ⟨_, gen_fetchM1 s h, rfl⟩
/-- an operand fetch does not touch R -/
theorem C14_fetch (s : St) (h : s.Memory = .user) : ∃ t, Gen.fetch s = .ok (s.mem s.PC) t ∧ t.IR = s.IR :=
  ⟨_, gen_fetch s h, rfl⟩

/-- an instruction other than LD A,I / LD A,R / LD I,A / LD R,A neither reads nor writes I or R -/
theorem C14_exec_blind (i : Instr) (h1 : i ≠ .ldAI) (h2 : i ≠ .ldAR) (h3 : i ≠ .ldIA) (h4 : i ≠ .ldRA) (s t : St)
    (h : exec Impl.koron i s = .ok () t) : t.IR = s.IR := exec_IR_kept i h1 h2 h3 h4 s t h

/-- the unprefixed table holds none of the four I/R instructions -/
theorem main_no_IR : ∀ b : Fin 256, ∀ i, decodeBase none b.val = some i → i ≠ .ldAI ∧ i ≠ .ldAR ∧ i ≠ .ldIA ∧ i ≠ .ldRA := by
  decide

private theorem execOpt_IR (bytes : List U8) (oi : Option Instr)
    (hoi : ∀ i, oi = some i → i ≠ .ldAI ∧ i ≠ .ldAR ∧ i ≠ .ldIA ∧ i ≠ .ldRA) (s t : St)
    (h : execOpt Impl.koron bytes oi s = .ok () t) : t.IR = s.IR := by
  cases oi with
  | some i => obtain ⟨a, b, c, d⟩ := hoi i rfl; exact exec_IR_kept i a b c d s t h
  | none => simp [execOpt, consumed] at h; rw [← h]

/-- UNPREFIXED instruction (first byte not CB/DD/ED/FD): exactly one opcode fetch — R' = incR R, I unchanged.
    This includes every Step spent on a HALT opcode (the HALT is re-fetched) and each repetition of … -/
theorem C14_unprefixed (s t : St) (h₁ : s.Interrupt = none) (h₂ : s.Memory = .user)
    (hcb : s.mem s.PC ≠ 0xcb#8) (hdd : s.mem s.PC ≠ 0xdd#8) (hed : s.mem s.PC ≠ 0xed#8) (hfd : s.mem s.PC ≠ 0xfd#8)
    (h : Gen.Step s = .ok () t) : t.IR = { Hi := s.IR.Hi, Lo := incR s.IR.Lo } := by
  rw [C01.C01_step s h₁ h₂] at h
  simp only [Spec.executeOne, Spec.fetchM1, Spec.fetch, rd8, bind_run, getSt_run, userGet_run, Res.bind_ok, modifySt_run,
    pure_run, execMain, hcb, hdd, hed, hfd, if_false, ite_run] at h
  have := execOpt_IR _ _ (fun i hi => main_no_IR (s.mem s.PC).toFin i hi) _ _ h
  rw [this]

/-- CB-prefixed: two opcode fetches -/
theorem C14_cb (s t : St) (h₁ : s.Interrupt = none) (h₂ : s.Memory = .user) (hp : s.mem s.PC = 0xcb#8)
    (h : Gen.Step s = .ok () t) : t.IR = { Hi := s.IR.Hi, Lo := incR (incR s.IR.Lo) } := by
  rw [C01.C01_step s h₁ h₂] at h
  simp only [Spec.executeOne, Spec.fetchM1, Spec.fetch, rd8, bind_run, getSt_run, userGet_run, Res.bind_ok, modifySt_run,
    pure_run, execMain, hp, if_true, ite_run] at h
  have hcb : ∀ b : Fin 256, decodeCB b.val ≠ .ldAI ∧ decodeCB b.val ≠ .ldAR ∧ decodeCB b.val ≠ .ldIA ∧ decodeCB b.val ≠ .ldRA := by
    decide
  obtain ⟨a, b, c, d⟩ := hcb (s.mem (s.PC + 1#16)).toFin
  have := exec_IR_kept _ a b c d _ _ h
  rw [this]

/-- LD R,A (ED 4F): R := A afterwards (all eight bits); LD I,A (ED 47): I := A -/
theorem C14_ld_r_a (impl : Impl) (s : St) :
    exec impl .ldRA s = .ok () { s with IR.Lo := s.AF.Hi } ∧ exec impl .ldIA s = .ok () { s with IR.Hi := s.AF.Hi } := by
  simp [exec]

/-- LD A,R / LD A,I: A := current R / I (R already including the two fetches of the instruction itself when
    run through Step), S and Z from the value, H = N = 0, P/V = IFF2, C preserved, bits 3/5 from the value -/
theorem C14_ld_a_ir (impl : Impl) (s : St) :
    exec impl .ldAR s = .ok () { s with AF := { Hi := s.IR.Lo, Lo := ldAIRFlags s.IR.Lo s.AF.Lo s.IFF2 } } ∧
    exec impl .ldAI s = .ok () { s with AF := { Hi := s.IR.Hi, Lo := ldAIRFlags s.IR.Hi s.AF.Lo s.IFF2 } } := by
  simp [exec]
theorem ldAIR_flags (v f : U8) (iff2 : Bool) :
    (ldAIRFlags v f iff2)[7] = v[7] ∧ (ldAIRFlags v f iff2)[6] = (v == 0#8) ∧ (ldAIRFlags v f iff2)[4] = false ∧
    (ldAIRFlags v f iff2)[2] = iff2 ∧ (ldAIRFlags v f iff2)[1] = false ∧ (ldAIRFlags v f iff2)[0] = f[0] ∧
    (ldAIRFlags v f iff2)[3] = v[3] ∧ (ldAIRFlags v f iff2)[5] = v[5] := by
  refine ⟨?_, ?_, ?_, ?_, ?_, ?_, ?_, ?_⟩ <;>
  (simp only [← BitVec.getLsbD_eq_getElem, ldAIRFlags, keepBits, BitVec.getLsbD_or, BitVec.getLsbD_and, BitVec.getLsbD_not,
     flags_bit0, flags_bit1, flags_bit2, flags_bit3, flags_bit4, flags_bit5, flags_bit6, flags_bit7, bitOf]
   simp [fC])

/-- LD A,R through Step: ED 5F at PC — A receives R advanced by the instruction's own two fetches -/
theorem C14_step_ld_a_r (s : St) (h₁ : s.Interrupt = none) (h₂ : s.Memory = .user)
    (hp : s.mem s.PC = 0xed#8) (hb : s.mem (s.PC + 1#16) = 0x5f#8) :
    ∃ t, Gen.Step s = .ok () t ∧ t.AF.Hi = incR (incR s.IR.Lo) ∧ t.IR.Lo = incR (incR s.IR.Lo) ∧
      t.AF.Lo = ldAIRFlags (incR (incR s.IR.Lo)) s.AF.Lo s.IFF2 := by
  rw [C01.C01_step s h₁ h₂]
  simp [Spec.executeOne, Spec.fetchM1, Spec.fetch, rd8, execMain, execOpt, decodeED, exec, hp, hb]


-- ---------------------------------------------------------------------------
-- the general statement: every instruction, every prefix

/-- R after n opcode fetches -/
def fetches : Nat → U8 → U8
  | 0, r => r
  | n+1, r => fetches n (incR r)

/-- the number of opcode fetches of the instruction at PC — this project's count (DDCB/FDCB: three) -/
def m1Count (s : St) : Nat :=
  if s.mem s.PC = 0xcb#8 ∨ s.mem s.PC = 0xed#8 then 2
  else if s.mem s.PC = 0xdd#8 ∨ s.mem s.PC = 0xfd#8 then (if s.mem (s.PC + 1#16) = 0xcb#8 then 3 else 2)
  else 1

/-- LD A,I and LD A,R read but do not change I and R -/
theorem exec_IR_kept2 (i : Instr) (h3 : i ≠ .ldIA) (h4 : i ≠ .ldRA) (s t : St)
    (h : exec Impl.koron i s = .ok () t) : t.IR = s.IR := by
  by_cases h1 : i = .ldAI
  · subst h1; simp [exec] at h; rw [← h]
  by_cases h2 : i = .ldAR
  · subst h2; simp [exec] at h; rw [← h]
  exact exec_IR_kept i h1 h2 h3 h4 s t h

private theorem execOpt_IR2 (bytes : List U8) (oi : Option Instr)
    (hoi : ∀ i, oi = some i → i ≠ .ldIA ∧ i ≠ .ldRA) (s t : St)
    (h : execOpt Impl.koron bytes oi s = .ok () t) : t.IR = s.IR := by
  cases oi with
  | some i => obtain ⟨c, d⟩ := hoi i rfl; exact exec_IR_kept2 i c d s t h
  | none => simp [execOpt, consumed] at h; rw [← h]

theorem ed_no_ld : ∀ b : Fin 256, b.val ≠ 0x47 → b.val ≠ 0x4f → ∀ i, decodeED b.val = some i → i ≠ .ldIA ∧ i ≠ .ldRA := by decide
theorem xy_no_ld (x : XY) : ∀ b : Fin 256, ∀ i, decodeXY x b.val = some i → i ≠ .ldIA ∧ i ≠ .ldRA := by
  cases x <;> decide
theorem xycb_no_ld (x : XY) (d : U8) (b : Nat) : ∀ i, decodeXYCB x d b = some i → i ≠ .ldIA ∧ i ≠ .ldRA := by
  intro i h
  simp only [decodeXYCB] at h
  split at h
  · simp only [Option.some.injEq] at h
    subst h
    split <;> simp
  · cases h

/-- ED-prefixed, other than LD I,A / LD R,A: two opcode fetches -/
theorem C14_ed (s t : St) (h₁ : s.Interrupt = none) (h₂ : s.Memory = .user) (hp : s.mem s.PC = 0xed#8)
    (h47 : s.mem (s.PC + 1#16) ≠ 0x47#8) (h4f : s.mem (s.PC + 1#16) ≠ 0x4f#8)
    (h : Gen.Step s = .ok () t) : t.IR = { Hi := s.IR.Hi, Lo := incR (incR s.IR.Lo) } := by
  rw [C01.C01_step s h₁ h₂] at h
  simp only [Spec.executeOne, Spec.fetchM1, Spec.fetch, rd8, bind_run, getSt_run, userGet_run, Res.bind_ok, modifySt_run,
    pure_run, execMain, hp, ite_run] at h
  simp only [show (0xed#8 : U8) = 0xcb#8 ↔ False by decide, if_false, if_true] at h
  have e1 : (s.mem (s.PC + 1#16)).toFin.val ≠ 0x47 := by
    intro e; apply h47; apply BitVec.eq_of_toNat_eq; simpa using e
  have e2 : (s.mem (s.PC + 1#16)).toFin.val ≠ 0x4f := by
    intro e; apply h4f; apply BitVec.eq_of_toNat_eq; simpa using e
  have := execOpt_IR2 _ _ (fun i hi => ed_no_ld (s.mem (s.PC + 1#16)).toFin e1 e2 i hi) _ _ h
  rw [this]

/-- LD R,A through Step: R afterwards is A exactly (all eight bits); LD I,A: I is A and R counted two fetches -/
theorem C14_step_ld_r_a (s : St) (h₁ : s.Interrupt = none) (h₂ : s.Memory = .user)
    (hp : s.mem s.PC = 0xed#8) :
    (s.mem (s.PC + 1#16) = 0x4f#8 → ∃ t, Gen.Step s = .ok () t ∧ t.IR = { Hi := s.IR.Hi, Lo := s.AF.Hi }) ∧
    (s.mem (s.PC + 1#16) = 0x47#8 → ∃ t, Gen.Step s = .ok () t ∧ t.IR = { Hi := s.AF.Hi, Lo := incR (incR s.IR.Lo) }) := by
  rw [C01.C01_step s h₁ h₂]
  constructor <;> intro hb <;>
    simp [Spec.executeOne, Spec.fetchM1, Spec.fetch, rd8, execMain, execOpt, decodeED, exec, hp, hb]

/-- DD/FD-prefixed (second byte not CB): two opcode fetches; DDCB/FDCB: three (this project's count) -/
theorem C14_xy (s t : St) (h₁ : s.Interrupt = none) (h₂ : s.Memory = .user)
    (hp : s.mem s.PC = 0xdd#8 ∨ s.mem s.PC = 0xfd#8)
    (h : Gen.Step s = .ok () t) :
    t.IR = { Hi := s.IR.Hi, Lo := if s.mem (s.PC + 1#16) = 0xcb#8 then incR (incR (incR s.IR.Lo)) else incR (incR s.IR.Lo) } := by
  rw [C01.C01_step s h₁ h₂] at h
  rcases hp with hp | hp <;>
  · simp only [Spec.executeOne, Spec.fetchM1, Spec.fetch, rd8, bind_run, getSt_run, userGet_run, Res.bind_ok, modifySt_run,
      pure_run, execMain, execXY, execXYtail, hp, ite_run] at h
    simp only [show (0xdd#8 : U8) = 0xcb#8 ↔ False by decide, show (0xdd#8 : U8) = 0xed#8 ↔ False by decide,
      show (0xfd#8 : U8) = 0xcb#8 ↔ False by decide, show (0xfd#8 : U8) = 0xed#8 ↔ False by decide,
      show (0xfd#8 : U8) = 0xdd#8 ↔ False by decide, if_false, if_true] at h
    by_cases hcb : s.mem (s.PC + 1#16) = 0xcb#8
    · simp only [hcb, if_true, execXYCB, Spec.fetch, Spec.fetchM1, rd8, bind_run, getSt_run, userGet_run, Res.bind_ok,
        modifySt_run, pure_run, show Impl.koron.ddcbM1 = 3 from rfl, ite_run, if_true] at h
      have := execOpt_IR2 _ _ (xycb_no_ld _ _ _) _ _ h
      rw [this]; simp [hcb]
    · simp only [hcb, if_false] at h
      have := execOpt_IR2 _ _ (fun i hi => xy_no_ld _ (s.mem (s.PC + 1#16)).toFin i hi) _ _ h
      rw [this]; simp [hcb]

/-- all together: except for LD I,A / LD R,A, a Step leaves I alone and advances R by exactly `m1Count` fetches -/
theorem C14_count (s t : St) (h₁ : s.Interrupt = none) (h₂ : s.Memory = .user)
    (hld : ¬ (s.mem s.PC = 0xed#8 ∧ (s.mem (s.PC + 1#16) = 0x47#8 ∨ s.mem (s.PC + 1#16) = 0x4f#8)))
    (h : Gen.Step s = .ok () t) : t.IR = { Hi := s.IR.Hi, Lo := fetches (m1Count s) s.IR.Lo } := by
  unfold m1Count
  by_cases hcb : s.mem s.PC = 0xcb#8
  · rw [C14_cb s t h₁ h₂ hcb h]; simp [hcb, fetches]
  by_cases hed : s.mem s.PC = 0xed#8
  · have h47 : s.mem (s.PC + 1#16) ≠ 0x47#8 := fun e => hld ⟨hed, .inl e⟩
    have h4f : s.mem (s.PC + 1#16) ≠ 0x4f#8 := fun e => hld ⟨hed, .inr e⟩
    rw [C14_ed s t h₁ h₂ hed h47 h4f h]; simp [hed, fetches]
  by_cases hdd : s.mem s.PC = 0xdd#8
  · rw [C14_xy s t h₁ h₂ (.inl hdd) h]; simp only [hdd]; split <;> simp [fetches]
  by_cases hfd : s.mem s.PC = 0xfd#8
  · rw [C14_xy s t h₁ h₂ (.inr hfd) h]; simp only [hfd]; split <;> simp [fetches]
  rw [C14_unprefixed s t h₁ h₂ hcb hdd hed hfd h]; simp [hcb, hed, hdd, hfd, fetches]

/-- bit 7 of R and the whole of I survive any number of fetches -/
theorem incR_iter_bit7 (n : Nat) (r : U8) : (fetches n r)[7] = r[7] := by
  induction n generalizing r with
  | zero => rfl
  | succ n ih => show (fetches n (incR r))[7] = r[7]; rw [ih, (incR_wrap.2.2 r).1]
/-- after n fetches the low seven bits are (R + n) mod 128 -/
theorem incR_iter_low (n : Nat) (r : U8) : (fetches n r).toNat % 128 = (r.toNat + n) % 128 := by
  induction n generalizing r with
  | zero => rfl
  | succ n ih => show (fetches n (incR r)).toNat % 128 = _; rw [ih, Nat.add_mod, (incR_wrap.2.2 r).2]; omega

-- non-vacuity: R = 0x7F before a NOP
example : ∃ s : St, s.Interrupt = none ∧ s.Memory = .user ∧ s.mem s.PC ≠ 0xcb#8 ∧ s.IR.Lo = 0x7f#8 :=
  ⟨{ (default : CPU) with Interrupt := none, Memory := .user, IR := ⟨0#8, 0x7f#8⟩, mem := fun _ => 0x00#8, dev := fun _ _ => 0#8, log := [] },
   rfl, rfl, by decide, rfl⟩

end Z80.Props.C14
