/-
  C17 — the Go exerciser tables are exactly the canonical zexdoc/zexall cases.

  go2lean emits the two Go tables (zex.DocCases / zex.AllCases, every field evaluated by the Go type checker) and
  the two program images shipped in cmd/zexdoc as Lean data on every run.  By kernel evaluation over the WHOLE
  finite data: the records found by following each program's own pointer table are, byte for byte (flag mask,
  base / increment / shift state vectors, CRC, description up to the padding dots), the Go table entries in the
  same order; there are 67 of each; and both coincide with the canonical records pinned in /verif (so editing an
  image and its table consistently is caught as well).
-/
import Z80.Spec.ZexEncode
import Z80.Spec.ZexCanon

namespace Z80.Props.C17
open Z80 Z80.Gen Z80.Spec

abbrev encode := encodeCase
abbrev normalise := normaliseRec

/-- zexdoc: image records = Go table, in order, byte for byte -/
theorem C17_doc : (parseImage zexdocImage).map (·.map normalise) = some (zexDocCases.map encode) := by decide +kernel
/-- zexall -/
theorem C17_all : (parseImage zexallImage).map (·.map normalise) = some (zexAllCases.map encode) := by decide +kernel

/-- no case is missing: 67 and 67 -/
theorem C17_counts : zexDocCases.length = 67 ∧ zexAllCases.length = 67 := by decide +kernel

/-- the images still contain the canonical records pinned in /verif -/
theorem C17_doc_canon : parseImage zexdocImage = some zexdocCanon := by decide +kernel
theorem C17_all_canon : parseImage zexallImage = some zexallCanon := by decide +kernel

/-- every field of every Go record is in range (bytes < 256, words < 65536, CRC < 2^32, mask < 256) -/
def inRange (c : ZexCase) : Bool :=
  c.mask < 256 && c.crc < 4294967296 &&
  [c.base, c.inc, c.shift].all (fun f => f.length == 13 &&
    (f.zipIdx.all fun (v, i) => if i < 4 || i == 10 || i == 11 then v < 256 else v < 65536))
theorem C17_ranges : zexDocCases.all inRange = true ∧ zexAllCases.all inRange = true := by decide +kernel

-- the record layout on a concrete case (first zexdoc record: mask C7, ED 42 …, CRC f8b4eaa9)
example : (zexDocCases.map encode).head? = some
    ([199,237,66,0,0,44,131,136,79,43,242,57,179,31,126,99,21,211,137,94,70,0,56,0,0,0,0,0,0,0,0,33,248,0,0,0,0,0,0,0,0,0,0,0,0,0,0,0,0,0,0,255,255,255,255,255,255,215,0,255,255,248,180,234,169],
     "<adc,sbc> hl,<bc,de,hl,sp>") := by decide +kernel

end Z80.Props.C17
