/-
  Z80.Proofs.Basic — simp infrastructure for the per-slot obligations: the unfolding set of the
  reference specification, normalisation of word arithmetic, and bridging lemmas between
  equivalent bit-vector spellings used by the Go code and by the specification.
-/
import Z80.Gen.All
import Z80.Spec.Koron
import Z80.Proofs.Bits

namespace Z80
open Z80.Gen Z80.Spec

attribute [z80spec] exec execOpt execMain execXY execXYCB Spec.executeOne consumed
  Spec.fetch Spec.fetchM1 Spec.fetch16 rd8 wr8 rd16 wr16 push16 pop16 locAddr isMem getLocReg setLocReg
  readLoc writeLoc rmwLoc getR setR getXY setXY regU16 regOf get16 set16 condHolds addDisp
  aluApply doAlu pushSite blkElem portIn portOut setAF ccfSt scfSt add16St adc16St sbc16St exxSt
  decodeBase decodeCB decodeED decodeXY decodeXYCB inXYSet r8 r8plain hlOf rpOf rp2Of condOf aluOf rotOf
  Impl.koron

/-- literal offsets: normalise `x - k` and `(x + a) + b` to `x + lit` -/
@[z80helper] theorem sub_lit16 (x : U16) (k : Nat) : x - BitVec.ofNat 16 k = x + (-(BitVec.ofNat 16 k)) :=
  BitVec.sub_eq_add_neg ..
@[z80helper] theorem add_lit_lit16 (x : U16) (a b : Nat) :
    x + BitVec.ofNat 16 a + BitVec.ofNat 16 b = x + (BitVec.ofNat 16 a + BitVec.ofNat 16 b) :=
  BitVec.add_assoc ..
@[z80helper] theorem sub_lit8 (x : U8) (k : Nat) : x - BitVec.ofNat 8 k = x + (-(BitVec.ofNat 8 k)) :=
  BitVec.sub_eq_add_neg ..
@[z80helper] theorem add_lit_lit8 (x : U8) (a b : Nat) :
    x + BitVec.ofNat 8 a + BitVec.ofNat 8 b = x + (BitVec.ofNat 8 a + BitVec.ofNat 8 b) :=
  BitVec.add_assoc ..

-- folding the Go spellings of byte/word packing into mk16 / hi8 / lo8
@[z80helper] theorem fold_mk16 (h l : U8) : (h.setWidth 16 <<< 8) ||| l.setWidth 16 = mk16 h l := rfl
@[z80helper] theorem fold_hi8 (v : U16) : (v >>> 8).setWidth 8 = hi8 v := rfl
@[z80helper] theorem fold_lo8 (v : U16) : (v.setWidth 8 : U8) = lo8 v := rfl
@[z80helper] theorem fold_lo8_and (v : U16) : ((v &&& 0x00ff#16).setWidth 8 : U8) = lo8 v := by
  unfold lo8; bits8
@[z80helper] theorem fold_ins_hi (n : U8) (v : U16) : (n.setWidth 16 <<< 8) ||| (v &&& 0x00ff#16) = mk16 n (lo8 v) := by
  unfold mk16 lo8; bits16
@[z80helper] theorem fold_ins_lo (n : U8) (v : U16) : n.setWidth 16 ||| (v &&& 0xff00#16) = mk16 (hi8 v) n := by
  unfold mk16 hi8; bits16

attribute [z80helper] hi8_mk16 lo8_mk16 mk16_hi_lo hi8_inc lo8_inc hi8_dec lo8_dec

@[z80helper] theorem lo8_shr8 (v : U16) : lo8 (v >>> 8) = hi8 v := rfl
@[z80helper] theorem and_ff8 : ∀ x : U8, x &&& 255#8 = x := by decide

-- single-bit tests: the Go spelling `f & mask != 0` against the specification's `bit i of f`
@[z80helper] theorem mask01 : ∀ f : U8, (f &&& 1#8 = 0#8 ↔ f[0] = false) := by decide
@[z80helper] theorem mask02 : ∀ f : U8, (f &&& 2#8 = 0#8 ↔ f[1] = false) := by decide
@[z80helper] theorem mask04 : ∀ f : U8, (f &&& 4#8 = 0#8 ↔ f[2] = false) := by decide
@[z80helper] theorem mask08 : ∀ f : U8, (f &&& 8#8 = 0#8 ↔ f[3] = false) := by decide
@[z80helper] theorem mask10 : ∀ f : U8, (f &&& 16#8 = 0#8 ↔ f[4] = false) := by decide
@[z80helper] theorem mask20 : ∀ f : U8, (f &&& 32#8 = 0#8 ↔ f[5] = false) := by decide
@[z80helper] theorem mask40 : ∀ f : U8, (f &&& 64#8 = 0#8 ↔ f[6] = false) := by decide
@[z80helper] theorem mask80 : ∀ f : U8, (f &&& 128#8 = 0#8 ↔ f[7] = false) := by decide

end Z80
