/-
  Z80.Spec.Alu — hand-written reference arithmetic of the Z80 (the oracle for C02/C03).
  Flags are defined ARITHMETICALLY on numbers (carry = "sum ≥ 256", half carry = "low nibbles
  sum ≥ 16", overflow = "signed result out of range", parity = xor of the bits), not with the
  implementation's carry-vector tricks.  Core Lean only; no reference to the Go code.
-/
import Z80.Base
import Z80.Attr

namespace Z80.Spec
open Z80

/-- flag bit positions -/
abbrev fC : U8 := 0x01#8
abbrev fN : U8 := 0x02#8
abbrev fPV : U8 := 0x04#8
abbrev f3 : U8 := 0x08#8
abbrev fH : U8 := 0x10#8
abbrev f5 : U8 := 0x20#8
abbrev fZ : U8 := 0x40#8
abbrev fS : U8 := 0x80#8

/-- a flag byte assembled from its eight bits (S Z 5 H 3 P/V N C) -/
def flags (s z b5 h b3 pv n c : Bool) : U8 :=
  (if s then fS else 0#8) ||| (if z then fZ else 0#8) ||| (if b5 then f5 else 0#8) |||
  (if h then fH else 0#8) ||| (if b3 then f3 else 0#8) ||| (if pv then fPV else 0#8) |||
  (if n then fN else 0#8) ||| (if c then fC else 0#8)

/-- bit i of a byte -/
abbrev bitOf (v : U8) (i : Nat) : Bool := v.getLsbD i

/-- even parity: xor of the eight bits is 0 -/
def parityEven (v : U8) : Bool :=
  !(bitOf v 0 ^^ bitOf v 1 ^^ bitOf v 2 ^^ bitOf v 3 ^^ bitOf v 4 ^^ bitOf v 5 ^^ bitOf v 6 ^^ bitOf v 7)

def carryIn (f : U8) : Bool := bitOf f 0

/-- keep the bits of `old` selected by `keep`, take the rest from `new` -/
def keepBits (keep : U8) (old new : U8) : U8 := (old &&& keep) ||| (new &&& ~~~keep)

-- ---------------------------------------------------------------------------
-- 8-bit add / subtract

/-- ADD/ADC: result and complete flag byte -/
def add8 (a b : U8) (cin : Bool) : U8 × U8 :=
  let sum := a.toNat + b.toNat + cin.toNat
  let r : U8 := BitVec.ofNat 8 sum
  let sv : Int := a.toInt + b.toInt + (cin.toNat : Int)
  (r, flags (bitOf r 7) (r == 0#8) (bitOf r 5)
        (decide (a.toNat % 16 + b.toNat % 16 + cin.toNat ≥ 16)) (bitOf r 3)
        (decide (sv < -128 ∨ sv > 127)) false (decide (sum ≥ 256)))

/-- SUB/SBC/CP/NEG: result and complete flag byte (bits 3/5 from the result) -/
def sub8 (a b : U8) (cin : Bool) : U8 × U8 :=
  let r : U8 := BitVec.ofInt 8 ((a.toNat : Int) - (b.toNat : Int) - (cin.toNat : Int))
  let sv : Int := a.toInt - b.toInt - (cin.toNat : Int)
  (r, flags (bitOf r 7) (r == 0#8) (bitOf r 5)
        (decide (a.toNat % 16 < b.toNat % 16 + cin.toNat)) (bitOf r 3)
        (decide (sv < -128 ∨ sv > 127)) true (decide (a.toNat < b.toNat + cin.toNat)))

/-- CP: like SUB but bits 3/5 come from the operand -/
def cp8 (a b : U8) : U8 :=
  keepBits 0x28#8 b (sub8 a b false).2

def logicFlags (r : U8) (h : Bool) : U8 :=
  flags (bitOf r 7) (r == 0#8) (bitOf r 5) h (bitOf r 3) (parityEven r) false false

def and8 (a b : U8) : U8 × U8 := (a &&& b, logicFlags (a &&& b) true)
def or8 (a b : U8) : U8 × U8 := (a ||| b, logicFlags (a ||| b) false)
def xor8 (a b : U8) : U8 × U8 := (a ^^^ b, logicFlags (a ^^^ b) false)

/-- INC: C is preserved from the old F -/
def inc8 (x : U8) (f : U8) : U8 × U8 :=
  let r := x + 1#8
  (r, keepBits fC f (flags (bitOf r 7) (r == 0#8) (bitOf r 5) (decide (x.toNat % 16 = 15)) (bitOf r 3)
        (x == 0x7f#8) false false))

/-- DEC: C is preserved from the old F -/
def dec8 (x : U8) (f : U8) : U8 × U8 :=
  let r := x - 1#8
  (r, keepBits fC f (flags (bitOf r 7) (r == 0#8) (bitOf r 5) (decide (x.toNat % 16 = 0)) (bitOf r 3)
        (x == 0x80#8) true false))

def neg8 (a : U8) : U8 × U8 := sub8 0#8 a false

/-- CPL: A := ¬A; H, N set; 3/5 from the new A; S Z P/V C preserved -/
def cpl8 (a f : U8) : U8 × U8 :=
  let r := ~~~a
  (r, keepBits (fS ||| fZ ||| fPV ||| fC) f (flags false false (bitOf r 5) true (bitOf r 3) false true false))

/-- DAA (Zilog's table form): correction from N, H, C and the nibbles -/
def daa8 (a f : U8) : U8 × U8 :=
  let n := bitOf f 1
  let h := bitOf f 4
  let c := bitOf f 0
  let lowAdj := h || decide (a.toNat % 16 > 9)
  let highAdj := c || decide (a.toNat > 0x99)
  let corr : U8 := (if lowAdj then 0x06#8 else 0#8) + (if highAdj then 0x60#8 else 0#8)
  let r := if n then a - corr else a + corr
  -- half carry out of / borrow into bit 4 of the correction step
  let hOut := if n then (h && decide (a.toNat % 16 < 6)) else decide (a.toNat % 16 > 9)
  (r, keepBits fN f (flags (bitOf r 7) (r == 0#8) (bitOf r 5) hOut (bitOf r 3) (parityEven r) false highAdj))

-- ---------------------------------------------------------------------------
-- rotates and shifts

inductive Rot | rlc | rrc | rl | rr | sla | sra | sll | srl
  deriving DecidableEq, Repr, Inhabited

/-- result and carry-out of one of the eight CB rotates/shifts -/
def rotRes (k : Rot) (x : U8) (cin : Bool) : U8 × Bool :=
  match k with
  | .rlc => ((x <<< 1) ||| (x >>> 7), bitOf x 7)
  | .rrc => ((x >>> 1) ||| (x <<< 7), bitOf x 0)
  | .rl  => ((x <<< 1) ||| (if cin then 1#8 else 0#8), bitOf x 7)
  | .rr  => ((x >>> 1) ||| (if cin then 0x80#8 else 0#8), bitOf x 0)
  | .sla => (x <<< 1, bitOf x 7)
  | .sra => ((x >>> 1) ||| (x &&& 0x80#8), bitOf x 0)
  | .sll => ((x <<< 1) ||| 1#8, bitOf x 7)
  | .srl => (x >>> 1, bitOf x 0)

/-- CB-prefixed rotate/shift: S Z 5 3 from the result, H = N = 0, P/V = parity, C = bit shifted out -/
def rot8 (k : Rot) (x f : U8) : U8 × U8 :=
  let (r, c) := rotRes k x (carryIn f)
  (r, flags (bitOf r 7) (r == 0#8) (bitOf r 5) false (bitOf r 3) (parityEven r) false c)

/-- RLCA RRCA RLA RRA: S Z P/V preserved, H = N = 0, 3/5 from the new A -/
def rotA (k : Rot) (a f : U8) : U8 × U8 :=
  let (r, c) := rotRes k a (carryIn f)
  (r, keepBits (fS ||| fZ ||| fPV) f (flags false false (bitOf r 5) false (bitOf r 3) false false c))

/-- RLD / RRD: new A, new memory byte, flags (C preserved) -/
def rld8 (a m f : U8) : U8 × U8 × U8 :=
  let a' := (a &&& 0xf0#8) ||| (m >>> 4)
  let m' := (m <<< 4) ||| (a &&& 0x0f#8)
  (a', m', keepBits fC f (logicFlags a' false))
def rrd8 (a m f : U8) : U8 × U8 × U8 :=
  let a' := (a &&& 0xf0#8) ||| (m &&& 0x0f#8)
  let m' := (a <<< 4) ||| (m >>> 4)
  (a', m', keepBits fC f (logicFlags a' false))

-- ---------------------------------------------------------------------------
-- BIT / SET / RES

/-- BIT b,x: Z = P/V = ¬bit, S = (b = 7 ∧ bit), H = 1, N = 0, C preserved;
    bits 3/5 are supplied by the caller (from the register, or implementation-defined for memory) -/
def bit8 (b : Nat) (x f b35 : U8) : U8 :=
  let t := bitOf x b
  keepBits fC f (flags (decide (b = 7) && t) (!t) (bitOf b35 5) true (bitOf b35 3) (!t) false false)

def set8 (b : Nat) (x : U8) : U8 := x ||| (1#8 <<< b)
def res8 (b : Nat) (x : U8) : U8 := x &&& ~~~(1#8 <<< b)

-- ---------------------------------------------------------------------------
-- 16-bit arithmetic

def hi8 (v : U16) : U8 := (v >>> 8).setWidth 8
def lo8 (v : U16) : U8 := v.setWidth 8
def mk16 (h l : U8) : U16 := ((h.setWidth 16) <<< 8) ||| (l.setWidth 16)

/-- ADD HL/IX/IY,ss: S Z P/V preserved; H = carry out of bit 11; C = carry out of bit 15; N = 0;
    3/5 from the high byte of the result -/
def add16 (a b : U16) (f : U8) : U16 × U8 :=
  let sum := a.toNat + b.toNat
  let r : U16 := BitVec.ofNat 16 sum
  (r, keepBits (fS ||| fZ ||| fPV) f
        (flags false false (bitOf (hi8 r) 5) (decide (a.toNat % 4096 + b.toNat % 4096 ≥ 4096)) (bitOf (hi8 r) 3)
          false false (decide (sum ≥ 65536))))

def adc16 (a b : U16) (cin : Bool) : U16 × U8 :=
  let sum := a.toNat + b.toNat + cin.toNat
  let r : U16 := BitVec.ofNat 16 sum
  let sv : Int := a.toInt + b.toInt + (cin.toNat : Int)
  (r, flags (r.getLsbD 15) (r == 0#16) (bitOf (hi8 r) 5)
        (decide (a.toNat % 4096 + b.toNat % 4096 + cin.toNat ≥ 4096)) (bitOf (hi8 r) 3)
        (decide (sv < -32768 ∨ sv > 32767)) false (decide (sum ≥ 65536)))

def sbc16 (a b : U16) (cin : Bool) : U16 × U8 :=
  let r : U16 := BitVec.ofInt 16 ((a.toNat : Int) - (b.toNat : Int) - (cin.toNat : Int))
  let sv : Int := a.toInt - b.toInt - (cin.toNat : Int)
  (r, flags (r.getLsbD 15) (r == 0#16) (bitOf (hi8 r) 5)
        (decide (a.toNat % 4096 < b.toNat % 4096 + cin.toNat)) (bitOf (hi8 r) 3)
        (decide (sv < -32768 ∨ sv > 32767)) true (decide (a.toNat < b.toNat + cin.toNat)))

-- ---------------------------------------------------------------------------
-- misc flag rules

/-- LD A,I / LD A,R: S Z 5 3 from the value, H = N = 0, P/V = IFF2, C preserved -/
def ldAIRFlags (v f : U8) (iff2 : Bool) : U8 :=
  keepBits fC f (flags (bitOf v 7) (v == 0#8) (bitOf v 5) false (bitOf v 3) iff2 false false)

/-- IN r,(C): S Z 5 3 from the value, H = N = 0, P/V parity, C preserved -/
def inFlags (v f : U8) : U8 := keepBits fC f (logicFlags v false)

/-- LDI/LDD(R): H = N = 0, P/V = (BC' ≠ 0), bit 3 = bit 3 of (A + byte), bit 5 = bit 1 of (A + byte);
    S Z C preserved -/
def ldiFlags (a v f : U8) (bcNZ : Bool) : U8 :=
  let n := a + v
  keepBits (fS ||| fZ ||| fC) f (flags false false (bitOf n 1) false (bitOf n 3) bcNZ false false)

/-- CPI/CPD(R): S Z H from A − byte, N = 1, P/V = (BC' ≠ 0), C preserved,
    bit 3 = bit 3 of n, bit 5 = bit 1 of n where n = A − byte − H -/
def cpiFlags (a v f : U8) (bcNZ : Bool) : U8 :=
  let r := a - v
  let h := decide (a.toNat % 16 < v.toNat % 16)
  let n := r - (if h then 1#8 else 0#8)
  keepBits fC f (flags (bitOf r 7) (r == 0#8) (bitOf n 1) h (bitOf n 3) bcNZ true false)

/-- refresh counter: low seven bits advance, bit 7 kept -/
def incR (r : U8) : U8 := (r &&& 0x80#8) ||| ((r + 1#8) &&& 0x7f#8)

end Z80.Spec
