/-
  SpecSanityDAA — DAA really is decimal adjust (see SpecSanity.lean): kernel evaluation over all 100 x 100 x 2
  packed-BCD operand combinations, for addition and for subtraction.  Separate module: it takes minutes to check
  and depends only on Z80/Spec/Alu.lean.
-/
import Z80.Spec.Alu

namespace Z80.Props.SpecSanity
open Z80 Z80.Spec

/-- packed BCD: both nibbles ≤ 9 -/
def bcdOK (v : U8) : Bool := v.toNat % 16 ≤ 9 && v.toNat / 16 ≤ 9
def bcdVal (v : U8) : Nat := v.toNat / 16 * 10 + v.toNat % 16
def bcd (n : Nat) : U8 := BitVec.ofNat 8 (n / 10 % 10 * 16 + n % 10)

/-- ADD/ADC then DAA = decimal addition (value modulo 100, decimal carry in C) -/
def daaAddOK (x y : Nat) (cin : Bool) : Bool :=
  let r := add8 (bcd x) (bcd y) cin
  let d := daa8 r.1 r.2
  bcdOK d.1 && bcdVal d.1 == (x + y + cin.toNat) % 100 && bitOf d.2 0 == decide (x + y + cin.toNat ≥ 100)
/-- SUB/SBC then DAA = decimal subtraction (value modulo 100, decimal borrow in C) -/
def daaSubOK (x y : Nat) (cin : Bool) : Bool :=
  let r := sub8 (bcd x) (bcd y) cin
  let d := daa8 r.1 r.2
  bcdOK d.1 && bcdVal d.1 == (100 + x - y - cin.toNat) % 100 && bitOf d.2 0 == decide (x < y + cin.toNat)

theorem daa_is_decimal_add : ∀ x : Fin 100, ∀ y : Fin 100, daaAddOK x.val y.val false = true ∧ daaAddOK x.val y.val true = true := by
  decide +kernel
theorem daa_is_decimal_sub : ∀ x : Fin 100, ∀ y : Fin 100, daaSubOK x.val y.val false = true ∧ daaSubOK x.val y.val true = true := by
  decide +kernel

end Z80.Props.SpecSanity
