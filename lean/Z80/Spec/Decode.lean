/-
  Z80.Spec.Decode — hand-written: opcode byte → instruction by bit fields (x = b[7:6], y = b[5:3],
  z = b[2:0], p = y>>1, q = y&1), the pinned set P of encodings this project implements, and the
  reference `step` (fetch/decode/execute with prefix handling).  No reference to the Go model.
-/
import Z80.Spec.Exec

namespace Z80.Spec
open Z80 Z80.Gen

def condOf (y : Nat) : Cond :=
  match y with
  | 0 => .NZ | 1 => .Z | 2 => .NC | 3 => .C | 4 => .PO | 5 => .PE | 6 => .P | _ => .M

def aluOf (y : Nat) : Alu :=
  match y with
  | 0 => .add | 1 => .adc | 2 => .sub | 3 => .sbc | 4 => .and | 5 => .xor | 6 => .or | _ => .cp

def rotOf (y : Nat) : Rot :=
  match y with
  | 0 => .rlc | 1 => .rrc | 2 => .rl | 3 => .rr | 4 => .sla | 5 => .sra | 6 => .sll | _ => .srl

/-- r[z] under index mode `m`; `memForm` = the instruction has a memory operand, in which case
    H and L are NOT replaced by the index-register halves -/
def r8 (m : Option XY) (memForm : Bool) (z : Nat) : Loc8 :=
  match z with
  | 0 => .r .B | 1 => .r .C | 2 => .r .D | 3 => .r .E
  | 4 => match m, memForm with | some i, false => .xh i | _, _ => .r .H
  | 5 => match m, memForm with | some i, false => .xl i | _, _ => .r .L
  | 6 => match m with | some i => .mXYd i | none => .mHL
  | _ => .r .A

def hlOf (m : Option XY) : Loc16 :=
  match m with | none => .HL | some .IX => .IX | some .IY => .IY

/-- rp[p] = BC DE HL SP (HL replaced under index mode) -/
def rpOf (m : Option XY) (p : Nat) : Loc16 :=
  match p with | 0 => .BC | 1 => .DE | 2 => hlOf m | _ => .SP

/-- rp2[p] = BC DE HL AF -/
def rp2Of (m : Option XY) (p : Nat) : Loc16 :=
  match p with | 0 => .BC | 1 => .DE | 2 => hlOf m | _ => .AF

/-- the unprefixed table (and, with `m = some i`, its DD/FD reading); `none` for the prefix bytes -/
def decodeBase (m : Option XY) (b : Nat) : Option Instr :=
  let x := b / 64
  let y := b / 8 % 8
  let z := b % 8
  let p := y / 2
  let q := y % 2
  match x with
  | 0 =>
    match z with
    | 0 => match y with
      | 0 => some .nop | 1 => some .exAF | 2 => some .djnz | 3 => some .jr
      | _ => some (.jrcc (condOf (y - 4)))
    | 1 => if q = 0 then some (.ld16n (rpOf m p)) else some (.add16 (hlOf m) (rpOf m p))
    | 2 => match q, p with
      | 0, 0 => some (.stA .BC) | 0, 1 => some (.stA .DE) | 0, 2 => some (.st16m (hlOf m)) | 0, _ => some (.stA .nn)
      | _, 0 => some (.ldA .BC) | _, 1 => some (.ldA .DE) | _, 2 => some (.ld16m (hlOf m)) | _, _ => some (.ldA .nn)
    | 3 => if q = 0 then some (.inc16 (rpOf m p)) else some (.dec16 (rpOf m p))
    | 4 => some (.inc8 (r8 m (y = 6) y))
    | 5 => some (.dec8 (r8 m (y = 6) y))
    | 6 => some (.ld8n (r8 m (y = 6) y))
    | _ => match y with
      | 0 => some (.rotA .rlc) | 1 => some (.rotA .rrc) | 2 => some (.rotA .rl) | 3 => some (.rotA .rr)
      | 4 => some .daa | 5 => some .cpl | 6 => some .scf | _ => some .ccf
  | 1 =>
    if y = 6 ∧ z = 6 then some .halt
    else some (.ld8 (r8 m (y = 6 ∨ z = 6) y) (r8 m (y = 6 ∨ z = 6) z))
  | 2 => some (.alu (aluOf y) (r8 m (z = 6) z))
  | _ =>
    match z with
    | 0 => some (.retcc (condOf y))
    | 1 => if q = 0 then some (.pop (rp2Of m p)) else
      match p with
      | 0 => some .ret | 1 => some .exx | 2 => some (.jpr (hlOf m)) | _ => some (.ldSP (hlOf m))
    | 2 => some (.jpcc (condOf y))
    | 3 => match y with
      | 0 => some .jp | 1 => none | 2 => some .outnA | 3 => some .inAn
      | 4 => some (.exSP (hlOf m)) | 5 => some .exDEHL | 6 => some .di | _ => some .ei
    | 4 => some (.callcc (condOf y))
    | 5 => if q = 0 then some (.push (rp2Of m p)) else
      match p with
      | 0 => some .call | _ => none
    | 6 => some (.alun (aluOf y))
    | _ => some (.rst (BitVec.ofNat 16 (y * 8)))

def r8plain (z : Nat) : R8 :=
  match z with
  | 0 => .B | 1 => .C | 2 => .D | 3 => .E | 4 => .H | 5 => .L | _ => .A

/-- the CB table: every byte is an instruction -/
def decodeCB (b : Nat) : Instr :=
  let x := b / 64
  let y := b / 8 % 8
  let z := b % 8
  let l := r8 none (z = 6) z
  match x with
  | 0 => .rot (rotOf y) l
  | 1 => .bit y l
  | 2 => .res y l
  | _ => .set y l

/-- the ED table, restricted to the pinned set P (documented instructions) -/
def decodeED (b : Nat) : Option Instr :=
  let x := b / 64
  let y := b / 8 % 8
  let z := b % 8
  let p := y / 2
  let q := y % 2
  match x with
  | 1 =>
    match z with
    | 0 => if y = 6 then none else some (.inC (r8plain y))
    | 1 => if y = 6 then none else some (.outC (r8plain y))
    | 2 => if q = 0 then some (.sbc16 (rpOf none p)) else some (.adc16 (rpOf none p))
    | 3 => if q = 0 then some (.st16m (rpOf none p)) else some (.ld16m (rpOf none p))
    | 4 => if y = 0 then some .neg else none
    | 5 => match y with | 0 => some .retn | 1 => some .reti | _ => none
    | 6 => match y with | 0 => some (.im 0) | 2 => some (.im 1) | 3 => some (.im 2) | _ => none
    | _ => match y with
      | 0 => some .ldIA | 1 => some .ldRA | 2 => some .ldAI | 3 => some .ldAR
      | 4 => some .rrd | 5 => some .rld | _ => none
  | 2 =>
    if y ≥ 4 ∧ z ≤ 3 then
      some (.blk (match z with | 0 => .ld | 1 => .cp | 2 => .inp | _ => .out) (y % 2 = 1) (y ≥ 6))
    else none
  | _ => none

/-- the pinned set P for the DD/FD tables: the 150 second bytes whose instruction involves
    HL, H, L or (HL), plus the mirrored register forms 40–7F / 80–BF this project supports -/
def inXYSet (b : Nat) : Bool :=
  b = 0x09 || b = 0x19 || b = 0x29 || b = 0x39 ||
  b = 0x21 || b = 0x22 || b = 0x23 || b = 0x24 || b = 0x25 || b = 0x26 ||
  b = 0x2a || b = 0x2b || b = 0x2c || b = 0x2d || b = 0x2e ||
  b = 0x34 || b = 0x35 || b = 0x36 ||
  (0x40 ≤ b && b ≤ 0x7f && b != 0x76) ||
  (0x80 ≤ b && b ≤ 0xbf) ||
  b = 0xe1 || b = 0xe3 || b = 0xe5 || b = 0xe9 || b = 0xf9

def decodeXY (i : XY) (b : Nat) : Option Instr :=
  if inXYSet b then decodeBase (some i) b else none

/-- DDCB/FDCB: only the (IX+d)/(IY+d) forms (z = 6) are in P -/
def decodeXYCB (i : XY) (d : U8) (b : Nat) : Option Instr :=
  let x := b / 64
  let y := b / 8 % 8
  let z := b % 8
  if z = 6 then
    some (match x with
      | 0 => .rot (rotOf y) (.mXY i d)
      | 1 => .bit y (.mXY i d)
      | 2 => .res y (.mXY i d)
      | _ => .set y (.mXY i d))
  else none

/-- an encoding outside P: its bytes have been fetched; one warning, nothing else -/
def consumed (bytes : List U8) : M Unit := warn bytes

def execOpt (impl : Impl) (bytes : List U8) : Option Instr → M Unit
  | some i => exec impl i
  | none => consumed bytes

/-- after DD CB d / FD CB d: the final opcode byte -/
def execXYCB (impl : Impl) (i : XY) (c0 c1 : U8) : M Unit := do
  let d ← fetch
  let c3 ← (if impl.ddcbM1 = 3 then fetchM1 else fetch)
  execOpt impl [c0, c1, d, c3] (decodeXYCB i d c3.toNat)

/-- after DD / FD and the second byte c1 -/
def execXYtail (impl : Impl) (i : XY) (c0 c1 : U8) : M Unit :=
  if c1 = 0xcb#8 then execXYCB impl i c0 c1
  else execOpt impl [c0, c1] (decodeXY i c1.toNat)

def execXY (impl : Impl) (i : XY) (c0 : U8) : M Unit := do
  let c1 ← fetchM1
  execXYtail impl i c0 c1

/-- dispatch on the first opcode byte -/
def execMain (impl : Impl) (c0 : U8) : M Unit := do
  if c0 = 0xcb#8 then
    let c1 ← fetchM1
    exec impl (decodeCB c1.toNat)
  else if c0 = 0xed#8 then
    let c1 ← fetchM1
    execOpt impl [c0, c1] (decodeED c1.toNat)
  else if c0 = 0xdd#8 then execXY impl .IX c0
  else if c0 = 0xfd#8 then execXY impl .IY c0
  else execOpt impl [c0] (decodeBase none c0.toNat)

/-- one instruction: fetch, decode, execute -/
def executeOne (impl : Impl) : M Unit := do
  let c0 ← fetchM1
  execMain impl c0

end Z80.Spec
