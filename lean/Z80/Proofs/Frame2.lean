/-
  Z80.Proofs.Frame2 — more frame facts about the reference semantics ("everything the instruction does not name is
  left unchanged", stated per field and proved over ALL instructions):
    * the alternate register set is touched only by EX AF,AF' and EXX;
    * IFF1/IFF2 only by EI, DI, RETN;          * the interrupt mode only by IM n;
    * the halted indication is written only by HALT;
  each as "blindness": running from a state with the field replaced = replacing the field afterwards.
-/
import Z80.Proofs.Frame

namespace Z80
open Z80.Gen Z80.Spec
set_option maxRecDepth 8192

def setAlt (a : GPR) (s : St) : St := { s with Alternate := a }
def setIFF (a b : Bool) (s : St) : St := { s with IFF1 := a, IFF2 := b }
def setIM (m : Int) (s : St) : St := { s with IM := m }

macro "frame3_fin" : tactic =>
  `(tactic| (simp [z80spec, setAlt, setIFF, setIM, setHalt] <;> (repeat' (split <;> simp_all [setAlt, setIFF, setIM, setHalt]))))

macro "instr_cases3 " i:ident : tactic => `(tactic| (
  cases $i:ident
  case ld8 d s' => cases d <;> cases s' <;> frame3_fin
  case alu op src => cases src <;> frame3_fin
  case bit b l => cases l <;> frame3_fin
  case res b l => cases l <;> frame3_fin
  case set b l => cases l <;> frame3_fin
  case rot k l => cases l <;> frame3_fin
  case inc8 l => cases l <;> frame3_fin
  case dec8 l => cases l <;> frame3_fin
  case ld8n l => cases l <;> frame3_fin
  case add16 d s' => cases d <;> cases s' <;> frame3_fin
  case blk k d r => cases k <;> frame3_fin
  case jpcc c => cases c <;> frame3_fin
  case jrcc c => cases c <;> frame3_fin
  case callcc c => cases c <;> frame3_fin
  case retcc c => cases c <;> frame3_fin
  all_goals first | frame3_fin | (rename_i a; cases a <;> frame3_fin)))

set_option maxHeartbeats 8000000 in
/-- the alternate set: only EX AF,AF' and EXX read or write it -/
theorem exec_alt_blind (i : Instr) (h1 : i ≠ .exAF) (h2 : i ≠ .exx) (a : GPR) (s : St) :
    exec Impl.koron i (setAlt a s) = (exec Impl.koron i s).mapSt (setAlt a) := by
  by_cases e1 : i = .exAF
  · exact absurd e1 h1
  by_cases e2 : i = .exx
  · exact absurd e2 h2
  clear h1 h2
  revert e1 e2
  instr_cases3 i

set_option maxHeartbeats 8000000 in
/-- the interrupt mode: only IM n writes it, nothing reads it -/
theorem exec_im_blind (i : Instr) (h : ∀ n, i ≠ .im n) (m : Int) (s : St) :
    exec Impl.koron i (setIM m s) = (exec Impl.koron i s).mapSt (setIM m) := by
  by_cases e : ∃ n, i = .im n
  · obtain ⟨n, rfl⟩ := e; exact absurd rfl (h n)
  clear h
  revert e
  instr_cases3 i

set_option maxHeartbeats 8000000 in
/-- the interrupt flip-flops: written only by EI, DI, RETN; read only by those and LD A,I / LD A,R (P/V := IFF2) -/
theorem exec_iff_blind (i : Instr) (h1 : i ≠ .ei) (h2 : i ≠ .di) (h3 : i ≠ .retn) (h4 : i ≠ .ldAI) (h5 : i ≠ .ldAR)
    (a b : Bool) (s : St) :
    exec Impl.koron i (setIFF a b s) = (exec Impl.koron i s).mapSt (setIFF a b) := by
  by_cases e1 : i = .ei
  · exact absurd e1 h1
  by_cases e2 : i = .di
  · exact absurd e2 h2
  by_cases e3 : i = .retn
  · exact absurd e3 h3
  by_cases e4 : i = .ldAI
  · exact absurd e4 h4
  by_cases e5 : i = .ldAR
  · exact absurd e5 h5
  clear h1 h2 h3 h4 h5
  revert e1 e2 e3 e4 e5
  instr_cases3 i

/-- hence: unchanged afterwards -/
theorem exec_alt_kept (i : Instr) (h1 : i ≠ .exAF) (h2 : i ≠ .exx) (s t : St) (h : exec Impl.koron i s = .ok () t) :
    t.Alternate = s.Alternate := by
  have hc := exec_alt_blind i h1 h2 s.Alternate s
  have e : setAlt s.Alternate s = s := rfl
  rw [e, h] at hc
  simp only [Res.mapSt_ok, Res.ok.injEq, true_and] at hc
  rw [hc]; rfl
theorem exec_im_kept (i : Instr) (hn : ∀ n, i ≠ .im n) (s t : St) (h : exec Impl.koron i s = .ok () t) : t.IM = s.IM := by
  have hc := exec_im_blind i hn s.IM s
  have e : setIM s.IM s = s := rfl
  rw [e, h] at hc
  simp only [Res.mapSt_ok, Res.ok.injEq, true_and] at hc
  rw [hc]; rfl
theorem exec_iff_kept (i : Instr) (h1 : i ≠ .ei) (h2 : i ≠ .di) (h3 : i ≠ .retn) (s t : St) (h : exec Impl.koron i s = .ok () t) :
    t.IFF1 = s.IFF1 ∧ t.IFF2 = s.IFF2 := by
  by_cases h4 : i = .ldAI
  · subst h4; simp [exec] at h; subst h; exact ⟨rfl, rfl⟩
  by_cases h5 : i = .ldAR
  · subst h5; simp [exec] at h; subst h; exact ⟨rfl, rfl⟩
  have hc := exec_iff_blind i h1 h2 h3 h4 h5 s.IFF1 s.IFF2 s
  have e : setIFF s.IFF1 s.IFF2 s = s := rfl
  rw [e, h] at hc
  simp only [Res.mapSt_ok, Res.ok.injEq, true_and] at hc
  rw [hc]; exact ⟨rfl, rfl⟩

end Z80
