/-
  C01 — every implemented instruction has exactly its Z80-defined effect in every state.

  `Gen.Step` is the Lean definition REGENERATED from cpu.go/operation.go/op_*.go/accum.go by go2lean
  on every run; `Spec.executeOne` is the hand-written reference Z80.  The theorem is an equality of
  complete results: every register incl. alternates, I, R, IFF1, IFF2, IM, HALT, the whole memory
  function and the ordered bus/port event log — for EVERY state `s` (no reachability assumption)
  with no request pending and the user's memory object installed.
-/
import Z80.Proofs.Step

namespace Z80.Props.C01
open Z80 Z80.Gen Z80.Spec

/-- one Step of the real (translated) code = one reference fetch/decode/execute -/
theorem C01_step (s : St) (h₁ : s.Interrupt = none) (h₂ : s.Memory = .user) :
    Gen.Step s = Spec.executeOne Impl.koron s := by
  have : Gen.Step s = Gen.executeOne s := by
    simp [Gen.Step, h₁]
  rw [this, executeOne_eq s h₂]

/-- everything an instruction does not name is unchanged: e.g. `LD B,C` (0x41) changes B, PC, R and
    appends one read to the bus log — nothing else, in any state -/
theorem C01_frame_example (s : St) (h₁ : s.Interrupt = none) (h₂ : s.Memory = .user)
    (hop : s.mem s.PC = 0x41#8) :
    Gen.Step s = .ok () { s with BC.Hi := s.BC.Lo, PC := s.PC + 1#16, IR.Lo := incR s.IR.Lo,
                                 log := .mr s.PC 0x41#8 :: s.log } := by
  rw [C01_step s h₁ h₂]
  simp [Spec.executeOne, Spec.fetchM1, Spec.fetch, rd8, hop, execMain, execOpt, decodeBase, r8, exec, isMem,
    readLoc, getLocReg, setLocReg, getR, setR]

/-- address arithmetic wraps modulo 65536: an opcode at PC = 0xFFFF leaves PC = 0x0000 -/
theorem C01_pc_wrap (s : St) (h₁ : s.Interrupt = none) (h₂ : s.Memory = .user)
    (hpc : s.PC = 0xffff#16) (hop : s.mem 0xffff#16 = 0x00#8) :
    ∃ t, Gen.Step s = .ok () t ∧ t.PC = 0x0000#16 := by
  rw [C01_step s h₁ h₂]
  simp [Spec.executeOne, Spec.fetchM1, Spec.fetch, rd8, hpc, hop, execMain, execOpt, decodeBase, exec]

-- the hypotheses are satisfiable by a concrete, non-trivial state
example : ∃ s : St, s.Interrupt = none ∧ s.Memory = .user ∧ s.mem s.PC = 0x41#8 :=
  ⟨{ (default : CPU) with Interrupt := none, Memory := .user, mem := fun _ => 0x41#8, dev := fun _ _ => 0#8, log := [] },
   rfl, rfl, rfl⟩

end Z80.Props.C01
