/-
  Driver — reads vectors on stdin, runs the GENERATED model (Z80.Gen) or the hand-written
  reference (Z80.Spec) on them and prints one canonical result line per vector.
  Usage: lake env lean --run Driver.lean [gen|spec]
-/
import Z80.Proto
import Z80.Gen.All
import Z80.Spec.Koron
import Z80.Spec.Interrupt
import Z80.Spec.KoronIM0

open Z80 Z80.Proto

/-- reference step; mode-0 requests outside the defined part of the specification are skipped -/
def specStep : M Unit := fun s =>
  match s.Interrupt with
  | none => Z80.Spec.step Z80.Spec.Impl.koron s
  | some i =>
    if !Z80.Spec.isNMI i && s.IFF1 && s.IM == 0 && !i.Data.isEmpty && !Z80.Spec.im0Defined i.Data then .panic "skip"
    else Z80.Spec.step Z80.Spec.Impl.koron s

partial def loop (h : IO.FS.Stream) (out : IO.FS.Stream) (step : M Unit) : IO Unit := do
  let line ← h.getLine
  if line.isEmpty then return ()
  let line := line.trimAsciiEnd.toString
  if line.isEmpty then loop h out step else
  match parseVec line with
  | none => out.putStrLn ("? bad-vector " ++ line)
  | some v =>
    match runSteps step v with
    | .ok _ s => out.putStrLn (resultStr v.id s)
    | .panic w => out.putStrLn (v.id ++ " panic " ++ w)
  loop h out step

def main (args : List String) : IO Unit := do
  let stdin ← IO.getStdin
  let stdout ← IO.getStdout
  match args with
  | ["spec"] => loop stdin stdout specStep
  | ["kf"] => loop stdin stdout (Z80.Spec.stepKF Z80.Spec.Impl.koron)
  | _ => loop stdin stdout Z80.Gen.Step
