package main

// memio: operation sequences on the REAL DumbMemory / DumbIO / MapMemory values (line protocol shared with
// lean/DriverMemIO.lean), and their generator.

import (
	"bufio"
	"encoding/hex"
	"fmt"
	"os"
	"sort"
	"strconv"
	"strings"

	"github.com/koron-go/z80"
)

type otherVal struct{}

func memioOp(vars map[int]interface{}, t []string) (res string) {
	defer func() {
		if r := recover(); r != nil {
			res = "panic"
		}
	}()
	num := func(s string) int { n, _ := strconv.Atoi(s); return n }
	hx := func(s string) int { n, _ := strconv.ParseUint(s, 16, 32); return int(n) }
	switch {
	case t[0] == "putself" && len(t) == 5:
		// dm.Put(dst, dm[src:src+n]...): the data is a VIEW of the receiver's own backing array (a variadic s... passes the slice header)
		dm, ok := vars[num(t[1])].(z80.DumbMemory)
		if !ok {
			return "bad"
		}
		dst, src, n := hx(t[2]), hx(t[3]), num(t[4])
		if src+n > len(dm) {
			return "bad"
		}
		dm.Put(uint16(dst), dm[src:src+n]...)
		return "ok"
	case t[0] == "dm" && len(t) == 3:
		vars[num(t[1])] = make(z80.DumbMemory, num(t[2]))
		return "ok"
	case t[0] == "dio" && len(t) == 3:
		vars[num(t[1])] = make(z80.DumbIO, num(t[2]))
		return "ok"
	case t[0] == "mm" && len(t) == 2:
		vars[num(t[1])] = z80.MapMemory{}
		return "ok"
	case t[0] == "nilmm" && len(t) == 2:
		vars[num(t[1])] = z80.MapMemory(nil)
		return "ok"
	case t[0] == "other" && len(t) == 2:
		vars[num(t[1])] = otherVal{}
		return "ok"
	case t[0] == "alias" && len(t) == 3:
		v, ok := vars[num(t[2])]
		if !ok {
			return "bad"
		}
		vars[num(t[1])] = v
		return "ok"
	case t[0] == "get" && len(t) == 3:
		switch m := vars[num(t[1])].(type) {
		case z80.DumbMemory:
			return fmt.Sprintf("%02x", m.Get(uint16(hx(t[2]))))
		case z80.MapMemory:
			return fmt.Sprintf("%02x", m.Get(uint16(hx(t[2]))))
		}
		return "bad"
	case t[0] == "set" && len(t) == 4:
		switch m := vars[num(t[1])].(type) {
		case z80.DumbMemory:
			m.Set(uint16(hx(t[2])), uint8(hx(t[3])))
			return "ok"
		case z80.MapMemory:
			m.Set(uint16(hx(t[2])), uint8(hx(t[3])))
			return "ok"
		}
		return "bad"
	case t[0] == "put" && len(t) == 4:
		var data []byte
		if t[3] != "-" {
			data, _ = hex.DecodeString(t[3])
		}
		switch m := vars[num(t[1])].(type) {
		case z80.DumbMemory:
			m.Put(uint16(hx(t[2])), data...)
			return "ok"
		case z80.MapMemory:
			m.Put(uint16(hx(t[2])), data...)
			return "ok"
		}
		return "bad"
	case t[0] == "in" && len(t) == 3:
		if m, ok := vars[num(t[1])].(z80.DumbIO); ok {
			return fmt.Sprintf("%02x", m.In(uint8(hx(t[2]))))
		}
		return "bad"
	case t[0] == "out" && len(t) == 4:
		if m, ok := vars[num(t[1])].(z80.DumbIO); ok {
			m.Out(uint8(hx(t[2])), uint8(hx(t[3])))
			return "ok"
		}
		return "bad"
	case t[0] == "clone" && len(t) == 3:
		if m, ok := vars[num(t[2])].(z80.MapMemory); ok {
			vars[num(t[1])] = m.Clone()
			return "ok"
		}
		return "bad"
	case t[0] == "clear" && len(t) == 2:
		if m, ok := vars[num(t[1])].(z80.MapMemory); ok {
			m.Clear()
			return "ok"
		}
		return "bad"
	case t[0] == "equal" && len(t) == 3:
		m, ok := vars[num(t[1])].(z80.MapMemory)
		a, ok2 := vars[num(t[2])]
		if !ok || !ok2 {
			return "bad"
		}
		if m.Equal(a) {
			return "true"
		}
		return "false"
	case t[0] == "dump" && len(t) == 2:
		var items []string
		n := 0
		switch m := vars[num(t[1])].(type) {
		case z80.DumbMemory:
			n = len(m)
			for i, v := range m {
				if v != 0 {
					items = append(items, fmt.Sprintf("%04x=%02x", i, v))
				}
			}
		case z80.DumbIO:
			n = len(m)
			for i, v := range m {
				if v != 0 {
					items = append(items, fmt.Sprintf("%04x=%02x", i, v))
				}
			}
		case z80.MapMemory:
			n = len(m)
			keys := make([]int, 0, len(m))
			for k := range m {
				keys = append(keys, int(k))
			}
			sort.Ints(keys)
			for _, k := range keys {
				items = append(items, fmt.Sprintf("%04x=%02x", k, m[uint16(k)]))
			}
		default:
			return "bad"
		}
		if len(items) == 0 {
			return fmt.Sprintf("contents %d -", n)
		}
		return fmt.Sprintf("contents %d %s", n, strings.Join(items, ","))
	}
	return "bad-op"
}

func cmdMemio() {
	in := bufio.NewReaderSize(os.Stdin, 1<<20)
	out := bufio.NewWriterSize(os.Stdout, 1<<20)
	defer out.Flush()
	vars := map[int]interface{}{}
	for {
		line, err := in.ReadString('\n')
		line = strings.TrimSpace(line)
		if line == "reset" {
			vars = map[int]interface{}{}
			fmt.Fprintln(out, "reset")
		} else if line != "" {
			fmt.Fprintln(out, memioOp(vars, strings.Fields(line)))
		}
		if err != nil {
			break
		}
	}
}

// genMemio: n sequences, each a fresh world
func genMemio(r *rng, out *bufio.Writer, n int) {
	for s := 0; s < n; s++ {
		fmt.Fprintln(out, "reset")
		nv := 2 + r.n(5)
		kinds := make([]string, nv) // "", dm, dio, mm, other
		lens := make([]int, nv)
		lenChoices := []int{0, 1, 2, 3, 16, 255, 256, 257, 1000, 4096, 65535, 65536}
		newVar := func(i int) {
			switch r.n(8) {
			case 0, 1:
				kinds[i], lens[i] = "dm", lenChoices[r.n(len(lenChoices))]
				if r.chance(30) {
					lens[i] = r.n(70000)
					if lens[i] > 65536 {
						lens[i] = 65536
					}
				}
				fmt.Fprintf(out, "dm %d %d\n", i, lens[i])
			case 2:
				kinds[i], lens[i] = "dio", []int{0, 1, 2, 128, 255, 256, 300}[r.n(7)]
				fmt.Fprintf(out, "dio %d %d\n", i, lens[i])
			case 3, 4, 5:
				kinds[i] = "mm"
				fmt.Fprintf(out, "mm %d\n", i)
			case 6:
				kinds[i] = "mm"
				fmt.Fprintf(out, "nilmm %d\n", i)
			default:
				kinds[i] = "other"
				fmt.Fprintf(out, "other %d\n", i)
			}
		}
		for i := 0; i < nv; i++ {
			newVar(i)
		}
		pick := func(kind string) int {
			var c []int
			for i, k := range kinds {
				if k == kind {
					c = append(c, i)
				}
			}
			if len(c) == 0 {
				return -1
			}
			return c[r.n(len(c))]
		}
		addrFor := func(i int) uint16 {
			if kinds[i] != "mm" && r.chance(60) {
				// around the end of the slice
				a := lens[i] + r.n(7) - 3
				if a < 0 {
					a = 0
				}
				if a > 65535 {
					a = 65535
				}
				return uint16(a)
			}
			if r.chance(30) {
				return uint16(r.n(8)) // collisions
			}
			return r.w16()
		}
		val := func() uint8 {
			if r.chance(25) {
				return []uint8{0xc7, 0xc7, 0x00}[r.n(3)] // the defaults themselves
			}
			return r.b8()
		}
		if r.chance(25) {
			// Equal probe: two maps of the same size that differ in one key; one side may hold the default value there
			a, b := nv, nv+1
			fmt.Fprintf(out, "mm %d\nmm %d\n", a, b)
			for k := r.n(4); k > 0; k-- {
				ad, v := r.w16(), val()
				fmt.Fprintf(out, "set %d %04x %02x\nset %d %04x %02x\n", a, ad, v, b, ad, v)
			}
			k1, k2 := r.w16(), r.w16()
			fmt.Fprintf(out, "set %d %04x %02x\nset %d %04x %02x\n", a, k1, val(), b, k2, val())
			fmt.Fprintf(out, "equal %d %d\nequal %d %d\n", a, b, b, a)
			fmt.Fprintf(out, "put %d ffff %02x%02x\nput %d 0000 %02x%02x\nequal %d %d\nequal %d %d\n", a, val(), val(), b, val(), val(), a, b, b, a)
		}
		nops := 20 + r.n(60)
		written := map[int][]uint16{} // addresses written so far through each variable: reads go back to them half of the time
		var writtenP []uint8
		for k := 0; k < nops; k++ {
			switch r.n(16) {
			case 0, 1, 2:
				if i := pick([]string{"dm", "mm"}[r.n(2)]); i >= 0 {
					a := addrFor(i)
					written[i] = append(written[i], a)
					fmt.Fprintf(out, "set %d %04x %02x\n", i, a, val())
				}
			case 3, 4, 5:
				if i := pick([]string{"dm", "mm"}[r.n(2)]); i >= 0 {
					a := addrFor(i)
					if len(written[i]) > 0 && r.chance(60) {
						a = written[i][r.n(len(written[i]))]
					}
					fmt.Fprintf(out, "get %d %04x\n", i, a)
				}
			case 6, 7:
				if i := pick([]string{"dm", "mm"}[r.n(2)]); i >= 0 {
					ln := r.n(6)
					if r.chance(20) {
						ln = r.n(40)
					}
					a := addrFor(i)
					if kinds[i] == "mm" && r.chance(40) {
						a = uint16(0x10000 - r.n(4)) // wraps
					}
					if kinds[i] == "dm" && r.chance(50) && lens[i] >= ln {
						a = uint16(lens[i] - ln - r.n(2)) // ends exactly at / one before the end
					}
					d := make([]byte, ln)
					for j := range d {
						d[j] = r.u8()
					}
					ds := "-"
					if ln > 0 {
						ds = hex.EncodeToString(d)
					}
					for j := 0; j < ln && j < 3; j++ {
						written[i] = append(written[i], a+uint16(r.n(ln)))
					}
					fmt.Fprintf(out, "put %d %04x %s\n", i, a, ds)
				}
			case 8:
				if i := pick("dio"); i >= 0 {
					p := uint8(addrFor(i))
					writtenP = append(writtenP, p)
					fmt.Fprintf(out, "out %d %02x %02x\n", i, p, r.b8())
				}
			case 9:
				if i := pick("dio"); i >= 0 {
					p := uint8(addrFor(i))
					if len(writtenP) > 0 && r.chance(55) {
						p = writtenP[r.n(len(writtenP))]
					}
					fmt.Fprintf(out, "in %d %02x\n", i, p)
				}
			case 10:
				if i := pick("mm"); i >= 0 {
					j := r.n(nv)
					kinds[j] = "mm"
					fmt.Fprintf(out, "clone %d %d\n", j, i)
				}
			case 11:
				if i := pick("mm"); i >= 0 && r.chance(40) {
					fmt.Fprintf(out, "clear %d\n", i)
				}
			case 12, 13:
				if i := pick("mm"); i >= 0 {
					j := r.n(nv)
					if r.chance(60) {
						if m := pick("mm"); m >= 0 {
							j = m
						}
					}
					fmt.Fprintf(out, "equal %d %d\n", i, j)
				}
			case 14:
				if r.chance(50) {
					if i := pick("dm"); i >= 0 && lens[i] >= 4 {
						// a block of DISTINCT bytes is stored, then moved inside the same memory with source and destination overlapping either
						// way (memmove semantics), then read back
						n := 2 + r.n(6)
						if n > lens[i]/2 {
							n = lens[i] / 2
						}
						src := r.n(lens[i] - n + 1)
						dst := src + r.n(2*n+1) - n
						if dst < 0 {
							dst = 0
						}
						if dst > 65535 {
							dst = 65535
						}
						blk := make([]byte, n)
						for j := range blk {
							blk[j] = uint8(0x11*(j+1)) ^ r.u8()&0x80
						}
						fmt.Fprintf(out, "put %d %04x %s\n", i, src, hex.EncodeToString(blk))
						fmt.Fprintf(out, "putself %d %04x %04x %d\n", i, dst, src, n)
						for j := 0; j < n && j < 4; j++ {
							fmt.Fprintf(out, "get %d %04x\n", i, uint16(dst+r.n(n)))
						}
						break
					}
				}
				i, j := r.n(nv), r.n(nv)
				kinds[i], lens[i] = kinds[j], lens[j]
				fmt.Fprintf(out, "alias %d %d\n", i, j)
			default:
				fmt.Fprintf(out, "dump %d\n", r.n(nv))
			}
		}
		for i := 0; i < nv; i++ {
			fmt.Fprintf(out, "dump %d\n", i)
		}
	}
}
