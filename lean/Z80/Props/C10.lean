/-
  C10 — execution is deterministic, captured by States + memory, and isolated per CPU.

  Facts regenerated from the Go source on every run (Gen/Facts.lean, Gen/Types.lean) and theorems over the
  regenerated Step:
    * every field of CPU, States, GPR, SPR, Register, Interrupt is exported, and the model's CPU record is made of
      exactly the fields of the Go struct — there is no hidden per-instance state (a new unexported field makes
      C10_public_fields false and C10_model_state ill-formed);
    * the package has no variable except the sentinel ErrBreakPoint; only Run starts a goroutine / uses atomics —
      there is no per-package state (go2lean also refuses to translate a package with any other global);
    * a Step is a function of that state, hence: a run continued from a snapshot taken at ANY instruction boundary
      equals the original run (C10_snapshot), two CPUs with equal state and extensionally equal memory / devices
      stay equal (C10_equal_stay_equal), and ANY interleaving of two CPUs on their own memories equals the two
      separate runs (C10_isolation).
  Partial: freedom from data races between goroutines is a property of the Go runtime execution; it is supported
  by the race-detector run of the correspondence and, structurally, by the absence of shared variables.
-/
import Z80.Gen.Facts
import Z80.Proofs.RunLoop

namespace Z80.Props.C10
open Z80 Z80.Gen

/-- every field of the state-carrying structs is exported: a user can copy all of it -/
theorem C10_public_fields :
    (fieldsCPU.all (·.2) && fieldsStates.all (·.2) && fieldsGPR.all (·.2) && fieldsSPR.all (·.2) && fieldsRegister.all (·.2) &&
     fieldsInterrupt.all (·.2)) = true ∧
    fieldsCPU.map (·.1) = ["States", "Memory", "IO", "RETNHandler", "RETIHandler", "Interrupt", "BreakPoints", "HALT"] ∧
    fieldsStates.map (·.1) = ["GPR", "SPR", "Alternate", "IFF1", "IFF2", "IM"] ∧
    fieldsGPR.map (·.1) = ["AF", "BC", "DE", "HL"] ∧ fieldsSPR.map (·.1) = ["IR", "IX", "IY", "SP", "PC"] := by decide

/-- the model CPU record has exactly those components (structure eta over the REGENERATED structure) -/
theorem C10_model_state (c : CPU) :
    c = { toStates := c.toStates, Memory := c.Memory, IO := c.IO, RETNHandler := c.RETNHandler, RETIHandler := c.RETIHandler, Interrupt := c.Interrupt, BreakPoints := c.BreakPoints, HALT := c.HALT } := rfl
theorem C10_model_states (c : States) :
    c = { toGPR := c.toGPR, toSPR := c.toSPR, Alternate := c.Alternate, IFF1 := c.IFF1, IFF2 := c.IFF2, IM := c.IM } := rfl

/-- no package-level state; goroutines and atomics only inside Run -/
theorem C10_no_globals : packageVars = ["ErrBreakPoint"] ∧ goroutineStarters = ["Run"] ∧ syncUsers = ["Run"] := by decide

/-- determinism from the public state and the bytes memory and ports return -/
theorem C10_equal_stay_equal (s₁ s₂ : St) (hc : s₁.toCPU = s₂.toCPU) (hm : ∀ a, s₁.mem a = s₂.mem a)
    (hd : ∀ l p, s₁.dev l p = s₂.dev l p) (hl : s₁.log = s₂.log) (n : Nat) : stepN n s₁ = stepN n s₂ := by
  have : s₁ = s₂ := by
    cases s₁; cases s₂
    simp only at hc hm hd hl
    subst hc hl
    have e1 := funext hm
    have e2 : _ := funext (fun l => funext (hd l))
    simp_all
  rw [this]

/-- snapshot / restore: running m Steps, taking the state, and running n more from it is running m+n Steps -/
theorem C10_snapshot (m n : Nat) (s : St) : stepN (m + n) s = (stepN m s).bind (fun _ t => stepN n t) := by
  induction m generalizing s with
  | zero => simp [stepN]
  | succ m ih =>
    rw [show m + 1 + n = (m + n) + 1 by omega]
    simp only [stepN]
    cases h : Gen.Step s with
    | panic e => simp [Res.bind]
    | ok a u => simp only [Res.bind_ok]; exact ih u

/-- one Step as a partial function on states -/
def stepO (s : St) : Option St := match Gen.Step s with | .ok _ t => some t | .panic _ => none
def runO : Nat → St → Option St
  | 0, s => some s
  | n+1, s => (stepO s).bind (runO n)
/-- two CPUs, each on its own memory; the schedule says whose turn it is -/
def run2 : List Bool → St × St → Option (St × St)
  | [], p => some p
  | true :: rest, (a, b) => (stepO a).bind fun a' => run2 rest (a', b)
  | false :: rest, (a, b) => (stepO b).bind fun b' => run2 rest (a, b')

/-- isolation: whatever the interleaving, each CPU ends where it would have ended running alone -/
theorem C10_isolation (sched : List Bool) : ∀ (a b : St),
    run2 sched (a, b) = (runO (sched.count true) a).bind fun a' => (runO (sched.count false) b).bind fun b' => some (a', b') := by
  induction sched with
  | nil => intro a b; rfl
  | cons x rest ih =>
    intro a b
    cases x with
    | true =>
      have hc : List.count false (true :: rest) = List.count false rest := by simp
      have ht : List.count true (true :: rest) = List.count true rest + 1 := by simp
      rw [hc, ht]
      simp only [run2, runO]
      cases h : stepO a with
      | none => simp
      | some a' => simp only [Option.bind_some]; exact ih a' b
    | false =>
      have hc : List.count true (false :: rest) = List.count true rest := by simp
      have hf : List.count false (false :: rest) = List.count false rest + 1 := by simp
      rw [hc, hf]
      simp only [run2, runO]
      cases hb : stepO b with
      | none =>
        cases runO (List.count true rest) a <;> simp
      | some b' =>
        simp only [Option.bind_some]
        rw [ih a b']

-- non-vacuity: a schedule with both CPUs
example : ([true, false, true] : List Bool).count true = 2 ∧ ([true, false, true] : List Bool).count false = 1 := by decide

end Z80.Props.C10
