/-
  Z80.GoStore — hand-written prelude for the translation of memio.go (tools/go2lean/memiotr.go): the Go operations on
  byte slices and uint16→uint8 maps that the bundled stores use, as total functions into `Option` (none = the Go
  statement panics).  This file is the translator's reading of the Go specification for that fragment and belongs to
  the trusted base; it is validated together with the translator by running the translated methods against the real
  ones (correspondence stream `memiogen`).  Core Lean only.

  A value of slice or map type is a HANDLE on an object; the functions here act on the object.  Which variables share
  an object (assignment, returning the receiver) is the business of the heap model in Z80.Spec.MemIO.
-/
import Z80.Base

namespace Z80.GoStore
open Z80

/-- the backing array of a []uint8 whose len equals its cap (every slice memio.go's callers make) -/
abbrev Slice := List U8
/-- entries of a map, newest binding first; a key may occur again further down (shadowed) -/
abbrev Assoc := List (U16 × U8)
/-- a map[uint16]uint8 value: `none` is the nil map -/
abbrev GoMap := Option Assoc
/-- an interface{} argument as far as `x.(MapMemory)` can tell: it holds a MapMemory (possibly nil), or something else -/
abbrev Dyn := Option GoMap

/-- len(s) as a Go int (64 bits in Go; unbounded here) -/
def goLen (s : List U8) : Int := (s.length : Int)
/-- an int used as an index: negative panics -/
def goIdx (i : Int) : Option Nat := if 0 ≤ i then some i.toNat else none
/-- s[i] as a value: index out of range panics -/
def goIndex (s : Slice) (i : Nat) : Option U8 := s[i]?
/-- s[i] = v -/
def goAssign (s : Slice) (i : Nat) (v : U8) : Option Slice := if i < s.length then some (s.set i v) else none
/-- make([]uint8, n): n zero bytes; a negative length panics -/
def goMake (n : Int) : Option Slice := if 0 ≤ n then some (List.replicate n.toNat 0#8) else none
/-- copy(s[lo:hi], src): the slice expression panics unless 0 ≤ lo ≤ hi ≤ cap(s); copy moves min(hi-lo, len src) bytes -/
def goCopy (s : Slice) (lo hi : Int) (src : List U8) : Option Slice :=
  if 0 ≤ lo ∧ lo ≤ hi ∧ hi ≤ (s.length : Int) then
    let n := min (hi - lo).toNat src.length
    some (s.take lo.toNat ++ src.take n ++ s.drop (lo.toNat + n))
  else none

def assocFind (l : Assoc) (k : U16) : Option U8 := (l.find? (fun kv => kv.1 == k)).map (·.2)

/-- v, ok := m[k]  (a nil map has no entries) -/
def goLookup (m : GoMap) (k : U16) : U8 × Bool :=
  match m with
  | none => (0#8, false)
  | some l => match assocFind l k with | some v => (v, true) | none => (0#8, false)
/-- m[k] = v: assignment to an entry of a nil map panics -/
def goMapAssign (m : GoMap) (k : U16) (v : U8) : Option GoMap :=
  match m with | none => none | some l => some (some ((k, v) :: l))
/-- delete(m, k): no-op on a nil map or a missing key -/
def goDelete (m : GoMap) (k : U16) : GoMap := m.map (fun l => l.filter (fun kv => kv.1 != k))
/-- the live entries, each key once (its newest binding), in list order -/
def assocLiveAux (seen : List U16) : Assoc → Assoc
  | [] => []
  | (k, v) :: rest => if seen.contains k then assocLiveAux seen rest else (k, v) :: assocLiveAux (k :: seen) rest
def assocLive (l : Assoc) : Assoc := assocLiveAux [] l
/-- what `for k, v := range m` visits (in an order Go does not specify; here: newest first) -/
def goEntries (m : GoMap) : Assoc := match m with | none => [] | some l => assocLive l
def goMapLen (m : GoMap) : Int := ((goEntries m).length : Int)
/-- T{} for a map type: an initialised, empty map -/
def goEmptyMap : GoMap := some []
/-- a, ok := x.(MapMemory) -/
def goAssertMap (d : Dyn) : GoMap × Bool := match d with | some m => (m, true) | none => (none, false)
/-- same keys with the same values -/
def assocEqual (a b : Assoc) : Bool :=
  (a.all fun kv => assocFind b kv.1 == assocFind a kv.1) && (b.all fun kv => assocFind a kv.1 == assocFind b kv.1)
/-- reflect.DeepEqual on two values of one map type: both nil, or both non-nil with the same length and equal values under every key -/
def goDeepEqualMap (a b : GoMap) : Bool :=
  match a, b with
  | none, none => true
  | some x, some y => assocEqual x y
  | _, _ => false

end Z80.GoStore
