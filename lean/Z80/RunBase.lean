/-
  Z80.RunBase — hand-written vocabulary for the translation of `CPU.Run` (core Lean only):
  loop control values, Run's result, and the actions of the cancellation protocol that go2lean
  extracts from Run's goroutine prologue.
-/
import Z80.Monad

namespace Z80

/-- what `Run` returns -/
inductive RunErr | nil | ctxErr | errBreakPoint
  deriving DecidableEq, Repr, Inhabited

/-- what one pass through the body of Run's `for` loop decides -/
inductive LoopCtl | cont | brk | ret (e : RunErr)
  deriving DecidableEq, Repr, Inhabited

/-- `_, ok := cpu.BreakPoints[pc]` (a nil map has no members) -/
def bpHas (b : Option (U16 → Bool)) (pc : U16) : Bool :=
  match b with
  | none => false
  | some f => f pc

/-- shared-memory actions of the cancellation hand-off between the watcher goroutine and the loop -/
inductive Act
  | waitDone      -- <-ctx2.Done()
  | writeErr      -- ctxErr = ctx.Err()          (plain write)
  | storeFlag     -- atomic.StoreInt32(&canceled, 1)
  | loadFlag      -- atomic.LoadInt32(&canceled)
  | readErr       -- return ctxErr               (plain read)
  deriving DecidableEq, Repr, Inhabited

end Z80
