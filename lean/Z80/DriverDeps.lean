-- everything the drivers (Driver.lean, DriverMemIO.lean, DriverCim.lean) import; built before every correspondence run
import Z80.Proto
import Z80.Gen.All
import Z80.Gen.TinyCPM
import Z80.Gen.ZexData
import Z80.Spec.Koron
import Z80.Spec.Interrupt
import Z80.Spec.KoronIM0
import Z80.Spec.KoronIM0B
import Z80.RunModel
import Z80.Spec.MemIO
import Z80.Spec.Cim
import Z80.Spec.ZexEncode
import Z80.Spec.ZexCanon
