/-
  Z80.Proofs.RunLoop — `CPU.Run` as a loop over its TRANSLATED body (Gen.Run_init, Gen.Run_body,
  Gen.Run_after come from go2lean), with fuel, and the cancellation flag as an oracle.
-/
import Z80.RunModel

namespace Z80
open Z80.Gen

theorem stepN_succ_ok (n : Nat) (s u : St) (h : Gen.Step s = .ok () u) : stepN (n+1) s = stepN n u := by
  simp [stepN, h]

/-- the stop rule applied after every Step -/
def stopAt (t : St) : Bool := bpHas t.BreakPoints t.PC || t.HALT
/-- … and the value Run returns then: the breakpoint wins over HALT -/
def stopResult (t : St) : RunErr := if bpHas t.BreakPoints t.PC then .errBreakPoint else Gen.Run_after

/-- one pass through the translated body when the flag is clear: exactly one Step, then the stop rule -/
theorem body_nocancel (s t : St) (h : Gen.Step s = .ok () t) :
    Gen.Run_body false s = .ok (if bpHas t.BreakPoints t.PC then .ret .errBreakPoint else if t.HALT then .brk else .cont) t := by
  simp only [Gen.Run_body, Bool.false_eq_true, if_false, bind_run, h, Res.bind_ok, getSt_run, ite_run, pure_run]
  cases hb : t.BreakPoints with
  | none => simp [bpHas]; by_cases hh : t.HALT = true <;> simp [hh]
  | some f => simp [bpHas]; by_cases hf : f t.PC = true <;> by_cases hh : t.HALT = true <;> simp [hf, hh]
/-- … and when the flag is set: no Step at all, Run returns the context's error -/
theorem body_cancel (s : St) : Gen.Run_body true s = .ok (.ret .ctxErr) s := by
  simp [Gen.Run_body]

/-- Run is repeated Step until the first Step after which the stop rule holds (never cancelled) -/
theorem runLoop_stops (c : Nat → Bool) (hc : ∀ i, c i = false) (m : Nat) :
    ∀ (fuel i : Nat) (s t : St), fuel ≥ m + 1 → stepN (m+1) s = .ok () t → stopAt t = true →
      (∀ j u, 1 ≤ j → j ≤ m → stepN j s = .ok () u → stopAt u = false) →
      runLoop c fuel i s = .done (stopResult t) t := by
  induction m with
  | zero =>
    intro fuel i s t hf hs hstop _
    obtain ⟨fuel', rfl⟩ : ∃ f, fuel = f + 1 := ⟨fuel - 1, by omega⟩
    have hstep : Gen.Step s = .ok () t := by
      cases h : Gen.Step s with
      | ok a u => simp [stepN, h] at hs; rw [hs]
      | panic e => simp [stepN, h] at hs
    simp only [runLoop, hc i, body_nocancel s t hstep]
    unfold stopAt at hstop
    unfold stopResult
    by_cases hb : bpHas t.BreakPoints t.PC = true
    · simp [hb]
    · have hh : t.HALT = true := by simpa [hb] using hstop
      simp [hb, hh]
  | succ m ih =>
    intro fuel i s t hf hs hstop hbefore
    obtain ⟨fuel', rfl⟩ : ∃ f, fuel = f + 1 := ⟨fuel - 1, by omega⟩
    cases h : Gen.Step s with
    | panic e => simp [stepN, h] at hs
    | ok a u =>
      have hu : stopAt u = false := hbefore 1 u (by omega) (by omega) (by simp [stepN, h])
      have hs' : stepN (m+1) u = .ok () t := by rw [← stepN_succ_ok (m+1) s u h]; exact hs
      unfold stopAt at hu
      have hb : bpHas u.BreakPoints u.PC = false := by
        cases hbb : bpHas u.BreakPoints u.PC <;> simp [hbb] at hu ⊢
      have hh : u.HALT = false := by
        cases hhh : u.HALT <;> simp [hb, hhh] at hu ⊢
      simp only [runLoop, hc i, body_nocancel s u h, hb, hh, Bool.false_eq_true, if_false]
      exact ih fuel' (i+1) u t (by omega) hs' hstop
        (fun j w hj1 hj2 hw => hbefore (j+1) w (by omega) (by omega) (by rw [stepN_succ_ok j s u h]; exact hw))

/-- cancellation is observed BEFORE every Step: if iteration k is the first to see the flag set and the stop
    rule did not hold after any of the first k Steps, Run returns the context's error having executed exactly
    k whole Steps -/
theorem runLoop_cancel (c : Nat → Bool) (k : Nat) :
    ∀ (fuel i : Nat) (s t : St), fuel ≥ k + 1 → (∀ j, j < k → c (i + j) = false) → c (i + k) = true →
      stepN k s = .ok () t → (∀ j u, 1 ≤ j → j ≤ k → stepN j s = .ok () u → stopAt u = false) →
      runLoop c fuel i s = .done .ctxErr t := by
  induction k with
  | zero =>
    intro fuel i s t hf _ hck hs _
    obtain ⟨fuel', rfl⟩ : ∃ f, fuel = f + 1 := ⟨fuel - 1, by omega⟩
    simp only [stepN, Res.ok.injEq, true_and] at hs
    simp only [Nat.add_zero] at hck
    simp [runLoop, hck, body_cancel, hs]
  | succ k ih =>
    intro fuel i s t hf hcl hck hs hbefore
    obtain ⟨fuel', rfl⟩ : ∃ f, fuel = f + 1 := ⟨fuel - 1, by omega⟩
    have hci : c i = false := by simpa using hcl 0 (by omega)
    cases h : Gen.Step s with
    | panic e => simp [stepN, h] at hs
    | ok a u =>
      have hu : stopAt u = false := hbefore 1 u (by omega) (by omega) (by simp [stepN, h])
      have hs' : stepN k u = .ok () t := by rw [← stepN_succ_ok k s u h]; exact hs
      unfold stopAt at hu
      have hb : bpHas u.BreakPoints u.PC = false := by
        cases hbb : bpHas u.BreakPoints u.PC <;> simp [hbb] at hu ⊢
      have hh : u.HALT = false := by
        cases hhh : u.HALT <;> simp [hb, hhh] at hu ⊢
      simp only [runLoop, hci, body_nocancel s u h, hb, hh, Bool.false_eq_true, if_false]
      exact ih fuel' (i+1) u t (by omega)
        (fun j hj => by have := hcl (j+1) (by omega); rwa [show i + (j + 1) = i + 1 + j by omega] at this)
        (by rwa [show i + (k + 1) = i + 1 + k by omega] at hck) hs'
        (fun j w hj1 hj2 hw => hbefore (j+1) w (by omega) (by omega) (by rw [stepN_succ_ok j s u h]; exact hw))

end Z80
