"""Texts for MANIFEST.json (level claimed / trusted base / technique) per property."""
NOTE_COMMON = ('Trusted: Lean 4.33 kernel; axioms propext/Classical.choice/Quot.sound only (audited per run); the go2lean '
               'translator + prelude reading of Go semantics (validated by the real-vs-model correspondence on every run); '
               'the hand-written reference Z80 (Z80/Spec) as oracle; user Memory modelled as a byte store, IO as a function of the bus history.')
TEXT = {
    'C01': {
        'text': 'Machine-checked theorem C01_step: for EVERY state without a pending request, Gen.Step (the Lean model regenerated '
                'from the Go source on each run) equals the hand-written reference fetch/decode/execute, as an equality of complete '
                'results (all registers, IFF/IM/HALT, whole memory function, ordered bus/port log). Assembled from 1792 kernel-checked '
                'per-slot obligations (7 tables x 256 bytes) and symbolic/finite-table characterisations of every flag helper. '
                'A proof settles all states at once, which is the quantifier the tests cannot reach.',
        'note': NOTE_COMMON,
        'technique': 'Lean 4 proof: regenerated model = reference spec (per-slot simp obligations + carry-vector lemmas); differential correspondence as tie and search',
    },
    'C03': {
        'text': 'Machine-checked: the Go helpers addU16/adcU16/sbcU16 (regenerated) equal the arithmetic definitions (carry out of bit 11/15, '
                'signed overflow, Z on 16 bits) for ALL 2^32 operand pairs x carry x F — symbolic proof from the ripple-carry theory of BitVec, '
                'no enumeration; plus kernel-checked Step-level theorems for every ss encoding of ADD HL/IX/IY, ADC/SBC HL, INC/DEC ss incl. doubling forms.',
        'note': NOTE_COMMON,
        'technique': 'Lean 4 proof: symbolic carry-vector lemmas (BitVec.carry + omega) + per-slot simp obligations; differential correspondence as tie',
    },
    'C02': {
        'text': 'Machine-checked: every Go ALU/flag helper (regenerated from accum.go etc.) equals the arithmetic definition for EVERY A, operand and incoming F — '
                'binary 8-bit ops by a symbolic carry-vector proof (no enumeration), unary ops/rotates/BIT/DAA by kernel `decide` over their COMPLETE finite table; '
                '559 per-encoding obligations lift this to Gen.Step for every operand encoding (B..A, (HL), n, IXH/IXL/IYH/IYL, (IX+d), (IY+d)); '
                'the reference ALU step is a function of (op, A, operand, F) only, hence encoding independent.',
        'note': NOTE_COMMON,
        'technique': 'Lean 4 proof: symbolic BitVec carry lemmas + decide over full unary tables + per-slot simp obligations; differential correspondence as tie',
    },
    'C04': {
        'text': 'Machine-checked: every Jump/CallRet/Stack encoding executes the reference instruction (per-slot obligations over the regenerated code); '
                'about the reference: taken iff condition for all 256 F (conditions decoded from opcode bits), untaken forms only skip operand bytes, DJNZ for all B, '
                'CALL/RST push layout, CALL;RET and PUSH;POP round trips for EVERY state including SP wrap, signed relative offsets, no flag change.',
        'note': NOTE_COMMON,
        'technique': 'Lean 4 proof: per-slot simp obligations + spec-level theorems (bv_omega for wrap-around); differential correspondence as tie',
    },
    'C06': {
        'text': 'Machine-checked theorem C06_step: with a request pending, Gen.Step (regenerated from cpu.go) equals the abstract interrupt controller written from '
                'the property text (NMI always; maskable iff IFF1; modes 1/2 push PC and vector, clearing IFF1 and IFF2; consumed; refused = ordinary instruction, '
                'request stays) for EVERY state — all control bits, PC/SP wrap, vector byte and I universally quantified; C06_pending by induction over any number of '
                'Steps; EI/DI/RETN/RETI obligations. Mode 0 with supplied bytes is checked against a recorded description (KF-1/KF-2 known findings).',
        'note': NOTE_COMMON + ' Mode 0 with supplied bytes: not proved; real code compared with Spec.stepKF by correspondence only.',
        'technique': 'Lean 4 proof: regenerated processInterrupt/Step = abstract controller (simp), induction for pending requests; differential correspondence incl. known-finding classification',
    },
    'C16': {
        'text': 'Machine-checked symbolic bit-vector theorems over the definitions regenerated from flag.go/z80.go: GetFlag = any-named-bit, '
                'SetFlag = F|m, ResetFlag = F&~m for all masks and all F, frame (A and all other fields unchanged), constants = Z80 bit positions, '
                'SetU16;U16 identity on all 65536 values.',
        'note': NOTE_COMMON,
        'technique': 'Lean 4 proof over regenerated accessor definitions (symbolic BitVec reasoning)',
    },
}
NOT_APPLICABLE = {}
