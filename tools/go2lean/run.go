package main

import (
	"crypto/sha256"
	"encoding/json"
	"fmt"
	"go/ast"
	"go/importer"
	"go/parser"
	"go/token"
	"go/types"
	"os"
	"path/filepath"
	"sort"
	"strings"
)

// functions that are not translated, with the reason (recorded in Manifest.json)
var skipFuncs = map[string]string{
	"warnf":        "primitive: modelled as one `warn` event quoting the code bytes (log.Printf is outside the model)",
	"Run":          "translated by the dedicated Run matcher (goroutine/context prologue matched structurally)",
	"NMIInterrupt": "constructor returning a fresh *Interrupt; hand-modelled (Spec.Interrupt)",
	"IM0Interrupt": "constructor using make/copy; hand-modelled (Spec.Interrupt)",
	"IM1Interrupt": "constructor returning a fresh *Interrupt; hand-modelled (Spec.Interrupt)",
	"IM2Interrupt": "constructor returning a fresh *Interrupt; hand-modelled (Spec.Interrupt)",
}

func fileTitle(base string) string {
	// op_load8 -> OpLoad8
	parts := strings.Split(base, "_")
	for i, p := range parts {
		if p != "" {
			parts[i] = strings.ToUpper(p[:1]) + p[1:]
		}
	}
	return strings.Join(parts, "")
}

func run() {
	t := &tr{fset: token.NewFileSet(), files: map[string]*ast.File{}, funcs: map[string]*funcInfo{}, byObj: map[types.Object]*funcInfo{}, skip: map[string]string{}}
	ents, err := os.ReadDir(*repo)
	if err != nil {
		panic(err)
	}
	var astFiles []*ast.File
	var names []string
	for _, e := range ents {
		n := e.Name()
		if e.IsDir() || !strings.HasSuffix(n, ".go") || strings.HasSuffix(n, "_test.go") {
			continue
		}
		names = append(names, n)
	}
	sort.Strings(names)
	srcHash := sha256.New()
	for _, n := range names {
		src, err := os.ReadFile(filepath.Join(*repo, n))
		if err != nil {
			panic(err)
		}
		srcHash.Write(src)
		f, err := parser.ParseFile(t.fset, filepath.Join(*repo, n), src, parser.ParseComments)
		if err != nil {
			panic(refusal(err.Error()))
		}
		if f.Name.Name != "z80" {
			continue
		}
		// build constraints: refuse files with build tags other than none (hooks use tag verif and
		// are excluded from the model on purpose)
		skipFile := false
		for _, cg := range f.Comments {
			for _, c := range cg.List {
				if strings.HasPrefix(c.Text, "//go:build") && cg.End() < f.Package {
					skipFile = true
				}
			}
		}
		if skipFile {
			continue
		}
		t.files[strings.TrimSuffix(n, ".go")] = f
		astFiles = append(astFiles, f)
	}
	t.info = &types.Info{
		Types:      map[ast.Expr]types.TypeAndValue{},
		Defs:       map[*ast.Ident]types.Object{},
		Uses:       map[*ast.Ident]types.Object{},
		Selections: map[*ast.SelectorExpr]*types.Selection{},
	}
	conf := types.Config{Importer: importer.ForCompiler(t.fset, "source", nil)}
	pkg, err := conf.Check("github.com/koron-go/z80", t.fset, astFiles, t.info)
	if err != nil {
		panic(refusal("type check: " + err.Error()))
	}
	t.pkg = pkg
	t.charact = map[string]bool{}
	if *noUnf != "" {
		data, err := os.ReadFile(*noUnf)
		if err != nil {
			panic(err)
		}
		for _, l := range strings.Split(string(data), "\n") {
			l = strings.TrimSpace(l)
			if l != "" && !strings.HasPrefix(l, "#") {
				t.charact[l] = true
			}
		}
	}

	t.checkPackageVars()
	typesTxt := t.genTypes()

	var runDecl *ast.FuncDecl
	// pass 1: collect and classify functions
	var fileNames []string
	for fn := range t.files {
		fileNames = append(fileNames, fn)
	}
	sort.Strings(fileNames)
	for _, fn := range fileNames {
		if fn == "memio" {
			continue // translated by memiotr.go (slices and maps)
		}
		for _, d := range t.files[fn].Decls {
			fd, ok := d.(*ast.FuncDecl)
			if !ok {
				continue
			}
			if why, ok := skipFuncs[fd.Name.Name]; ok {
				t.skip[fd.Name.Name] = why
				if fd.Name.Name == "Run" {
					runDecl = fd
				}
				if fd.Name.Name == "warnf" {
					// the primitive is modelled as one warning event and nothing else: its body must be exactly the log call
					if fd.Body == nil || len(fd.Body.List) != 1 || stmtShape(t.fset, fd.Body.List[0]) != `expr (call log Printf (+ "Z80 warn: " msg args` {
						panic(refusal("warnf is not a plain log.Printf any more"))
					}
				}
				continue
			}
			fi := &funcInfo{goName: fd.Name.Name, decl: fd, file: fn, calls: map[string]bool{}, writes: map[string]bool{}, lensPar: map[string]bool{}}
			fi.name = mangle(fd.Name.Name)
			fi.kind = kPure
			if fd.Recv != nil {
				rt := fd.Recv.List[0].Type
				ptr := false
				if se, ok := rt.(*ast.StarExpr); ok {
					rt = se.X
					ptr = true
				}
				rn := rt.(*ast.Ident).Name
				switch rn {
				case "CPU":
					fi.kind = kMon
				case "im0data":
					fi.kind = kMon
					fi.im0Recv = fd.Recv.List[0].Names[0].Name
					fi.name = "Memory_" + fd.Name.Name
				default:
					fi.name = rn + "_" + fd.Name.Name
					if ptr {
						fi.kind = kMon
					}
				}
			}
			for _, p := range fd.Type.Params.List {
				if se, ok := p.Type.(*ast.StarExpr); ok {
					fi.kind = kMon
					_ = se
				}
			}
			src := t.nodeText(fd)
			fi.hash = fmt.Sprintf("%x", sha256.Sum256([]byte(src)))[:16]
			if _, dup := t.funcs[fi.name]; dup {
				t.failf(fd.Pos(), "duplicate lean name %s", fi.name)
			}
			t.funcs[fi.name] = fi
			t.byObj[t.info.Defs[fd.Name]] = fi
		}
	}
	// pass 2: translate
	var fnames []string
	for n := range t.funcs {
		fnames = append(fnames, n)
	}
	sort.Strings(fnames)
	for _, n := range fnames {
		t.translate(t.funcs[n])
	}
	// Memory_Get / Memory_Set wrappers come from the im0data methods
	// ranks
	rank := map[string]int{}
	var visiting = map[string]bool{}
	var rk func(n string) int
	rk = func(n string) int {
		if r, ok := rank[n]; ok {
			return r
		}
		if visiting[n] {
			panic(refusal("recursion involving " + n))
		}
		visiting[n] = true
		fi := t.funcs[n]
		r := 0
		for cal := range fi.calls {
			if cal == n && fi.im0Recv != "" {
				continue // structural recursion of the Memory dispatcher
			}
			g := t.funcs[cal]
			cr := rk(cal)
			if g.file != fi.file {
				cr++
			}
			if cr > r {
				r = cr
			}
		}
		visiting[n] = false
		rank[n] = r
		return r
	}
	for _, n := range fnames {
		rk(n)
	}
	// transitive writes + unsequenced read/write check is done during translation via t.allWrites (lazy)

	// modules
	type module struct {
		name    string
		imports map[string]bool
		funcs   []string
	}
	mods := map[string]*module{}
	modOf := func(n string) string {
		fi := t.funcs[n]
		return fmt.Sprintf("%s_%d", fileTitle(fi.file), rank[n])
	}
	for _, n := range fnames {
		m := modOf(n)
		if mods[m] == nil {
			mods[m] = &module{name: m, imports: map[string]bool{}}
		}
		mods[m].funcs = append(mods[m].funcs, n)
		for cal := range t.funcs[n].calls {
			if cm := modOf(cal); cm != m {
				mods[m].imports[cm] = true
			}
		}
	}
	// switch modules: the switch defs of function f live in modules Sw_<f>_<path>, imported by f's module
	os.RemoveAll(*outDir)
	if err := os.MkdirAll(*outDir, 0o755); err != nil {
		panic(err)
	}
	write := func(name, txt string) {
		if err := os.WriteFile(filepath.Join(*outDir, name+".lean"), []byte(txt), 0o644); err != nil {
			panic(err)
		}
	}
	write("Types", typesTxt)
	header := "-- GENERATED by go2lean from the Go sources of package z80. DO NOT EDIT.\n"
	var allMods []string
	// data-only modules (tables, images, source pins, structural facts): NOT part of the `All` umbrella, so that an edit of
	// memio.go, tinycpm.go, cmd/* or the zex tables does not invalidate the CPU proofs; the properties import them directly
	var dataMods []string
	perFile := map[string][]string{}
	var modNames []string
	for m := range mods {
		modNames = append(modNames, m)
	}
	sort.Strings(modNames)
	for _, mn := range modNames {
		m := mods[mn]
		var b strings.Builder
		b.WriteString(header)
		b.WriteString("import Z80.Monad\nimport Z80.Attr\n")
		var imps []string
		for i := range m.imports {
			imps = append(imps, i)
		}
		// switch modules needed by functions of this module
		for _, fn := range m.funcs {
			for _, sw := range t.funcs[fn].swMods {
				imps = append(imps, sw)
			}
		}
		sort.Strings(imps)
		for _, i := range imps {
			fmt.Fprintf(&b, "import Z80.Gen.%s\n", i)
		}
		b.WriteString("\nset_option maxRecDepth 4096\nset_option linter.unusedVariables false\nnamespace Z80.Gen\nopen Z80\n\n")
		// order functions inside the module topologically
		done := map[string]bool{}
		var emitF func(n string)
		emitF = func(n string) {
			if done[n] {
				return
			}
			done[n] = true
			for cal := range t.funcs[n].calls {
				if cal != n && modOf(cal) == mn {
					emitF(cal)
				}
			}
			b.WriteString(t.funcs[n].text)
			b.WriteString("\n")
		}
		sort.Strings(m.funcs)
		for _, fn := range m.funcs {
			emitF(fn)
		}
		b.WriteString("end Z80.Gen\n")
		write(mn, b.String())
		allMods = append(allMods, mn)
		ft := strings.SplitN(mn, "_", 2)[0]
		perFile[ft] = append(perFile[ft], mn)
	}
	// switch modules
	for _, sm := range t.swModules {
		var b strings.Builder
		b.WriteString(header)
		b.WriteString("import Z80.Monad\nimport Z80.Attr\n")
		imps := map[string]bool{}
		for cal := range sm.calls {
			imps[modOf(cal)] = true
		}
		for _, s := range sm.subSw {
			imps[s] = true
		}
		var il []string
		for i := range imps {
			il = append(il, i)
		}
		sort.Strings(il)
		for _, i := range il {
			fmt.Fprintf(&b, "import Z80.Gen.%s\n", i)
		}
		b.WriteString("\nset_option maxRecDepth 8192\nset_option linter.unusedVariables false\nnamespace Z80.Gen\nopen Z80\n\n")
		b.WriteString(sm.text)
		b.WriteString("end Z80.Gen\n")
		write(sm.name, b.String())
		allMods = append(allMods, sm.name)
	}
	// Run
	if runDecl != nil {
		txt := t.translateRun(runDecl)
		var b strings.Builder
		b.WriteString(header)
		b.WriteString("import Z80.Monad\nimport Z80.Attr\nimport Z80.RunBase\n")
		imps := map[string]bool{}
		for cal := range t.runInfo.calls {
			imps[modOf(cal)] = true
		}
		var il []string
		for i := range imps {
			il = append(il, i)
		}
		sort.Strings(il)
		for _, i := range il {
			fmt.Fprintf(&b, "import Z80.Gen.%s\n", i)
		}
		b.WriteString("\nset_option linter.unusedVariables false\nnamespace Z80.Gen\nopen Z80\n\n")
		b.WriteString(txt)
		b.WriteString("\nend Z80.Gen\n")
		write("Run", b.String())
		allMods = append(allMods, "Run")
	} else {
		panic(refusal("CPU.Run not found"))
	}
	// data modules are generated independently of the CPU model: a refusal in one of them (source outside the fragment its extractor
	// understands) leaves a stub without definitions, so that only the properties importing that module stop building
	guarded := func(name string, f func() string) string {
		txt := ""
		func() {
			defer func() {
				if r := recover(); r != nil {
					msg, ok := r.(refusal)
					if !ok {
						panic(r)
					}
					fmt.Fprintf(os.Stderr, "go2lean: %s refused: %s\n", name, string(msg))
					txt = fmt.Sprintf("-- GENERATED by go2lean. DO NOT EDIT.\n-- the extractor REFUSED the current source, no definitions are available:\n--   %s\nnamespace Z80.Gen\ndef %s_refused : String := %q\nend Z80.Gen\n", strings.ReplaceAll(string(msg), "\n", " "), name, string(msg))
				}
			}()
			txt = f()
		}()
		return txt
	}
	// zex tables and images (data only)
	write("ZexData", guarded("ZexData", func() string { return genZexData(*repo) }))
	dataMods = append(dataMods, "ZexData")
	// tinycpm BIOS pages (C18)
	write("TinyCPM", guarded("TinyCPM", func() string { return genTinyCPM(*repo) }))
	dataMods = append(dataMods, "TinyCPM")
	// cim2bin / cim2cas output programs (C19)
	write("CimData", guarded("CimData", func() string { return genCimData(*repo) }))
	dataMods = append(dataMods, "CimData")
	// memio.go translated (C15)
	write("MemIO", guarded("MemIO", func() string { return t.genMemIO() }))
	dataMods = append(dataMods, "MemIO")
	// the request constructors of z80.go (C06)
	write("Ctor", guarded("Ctor", func() string { return t.genCtors() }))
	dataMods = append(dataMods, "Ctor")
	// the Go glue of internal/tinycpm translated (C18)
	write("CPMGlue", guarded("CPMGlue", func() string { return genTinyCPMGlue(*repo) }))
	dataMods = append(dataMods, "CPMGlue")
	// structural facts (C10)
	write("Facts", t.genFacts())
	dataMods = append(dataMods, "Facts")
	// per-file umbrellas and All
	var fts []string
	for ft := range perFile {
		fts = append(fts, ft)
	}
	sort.Strings(fts)
	for _, ft := range fts {
		var b strings.Builder
		b.WriteString(header)
		for _, m := range perFile[ft] {
			fmt.Fprintf(&b, "import Z80.Gen.%s\n", m)
		}
		write(ft, b.String())
	}
	{
		var b strings.Builder
		b.WriteString(header)
		sort.Strings(allMods)
		for _, m := range allMods {
			fmt.Fprintf(&b, "import Z80.Gen.%s\n", m)
		}
		write("All", b.String())
	}
	// manifest
	type fnRec struct {
		Name   string   `json:"name"`
		Go     string   `json:"go"`
		File   string   `json:"file"`
		Line   int      `json:"line"`
		Hash   string   `json:"hash"`
		Kind   string   `json:"kind"`
		Module string   `json:"module"`
		Calls  []string `json:"calls"`
		Writes []string `json:"writes"`
	}
	var frs []fnRec
	for _, n := range fnames {
		fi := t.funcs[n]
		var cs, ws []string
		for c := range fi.calls {
			cs = append(cs, c)
		}
		for w := range fi.writes {
			ws = append(ws, w)
		}
		sort.Strings(cs)
		sort.Strings(ws)
		k := "pure"
		if fi.kind == kMon {
			k = "monadic"
		}
		frs = append(frs, fnRec{Name: n, Go: fi.goName, File: fi.file + ".go", Line: t.fset.Position(fi.decl.Pos()).Line, Hash: fi.hash, Kind: k, Module: modOf(n), Calls: cs, Writes: ws})
	}
	man := map[string]interface{}{
		"source_sha256": fmt.Sprintf("%x", srcHash.Sum(nil)),
		"files":         names,
		"functions":     frs,
		"arms":          t.arms,
		"switches":      t.switches,
		"skipped":       t.skip,
		"package_vars":  t.pkgVars,
		"cpu_fields":    t.cpuFields,
		"consts":        t.constRecs,
	}
	js, _ := json.MarshalIndent(man, "", " ")
	if err := os.WriteFile(filepath.Join(*outDir, "Manifest.json"), js, 0o644); err != nil {
		panic(err)
	}
	fmt.Printf("go2lean: %d functions, %d arms, %d switches, %d modules\n", len(frs), len(t.arms), len(t.switches), len(allMods)+len(dataMods))
}

func (t *tr) nodeText(n ast.Node) string {
	start := t.fset.Position(n.Pos())
	end := t.fset.Position(n.End())
	src, err := os.ReadFile(start.Filename)
	if err != nil {
		panic(err)
	}
	return string(src[start.Offset:end.Offset])
}

// package-level variables: only the sentinel error and blank interface assertions are allowed
func (t *tr) checkPackageVars() {
	for fn, f := range t.files {
		for _, d := range f.Decls {
			gd, ok := d.(*ast.GenDecl)
			if !ok || gd.Tok != token.VAR {
				continue
			}
			for _, sp := range gd.Specs {
				vs := sp.(*ast.ValueSpec)
				for _, n := range vs.Names {
					if n.Name == "_" {
						continue
					}
					if n.Name == "ErrBreakPoint" && fn == "z80" {
						t.pkgVars = append(t.pkgVars, n.Name)
						continue
					}
					t.failf(n.Pos(), "package-level variable %s (hidden global state is outside the model)", n.Name)
				}
			}
		}
	}
}

// genTypes emits Types.lean: structs (embedded fields become `extends`), MemVal, constants.
func (t *tr) genTypes() string {
	var b strings.Builder
	b.WriteString("-- GENERATED by go2lean from the Go sources of package z80. DO NOT EDIT.\nimport Z80.Base\n\nnamespace Z80.Gen\nopen Z80\n\n")
	// collect struct types
	structs := map[string]*types.Struct{}
	var order []string
	scope := t.pkg.Scope()
	for _, n := range scope.Names() {
		tn, ok := scope.Lookup(n).(*types.TypeName)
		if !ok {
			continue
		}
		if st, ok := tn.Type().Underlying().(*types.Struct); ok {
			structs[n] = st
		}
	}
	// im0data becomes the MemVal inductive
	im0, ok := structs["im0data"]
	if !ok {
		panic(refusal("type im0data not found (the Memory overlay model depends on it)"))
	}
	delete(structs, "im0data")
	b.WriteString("/-- dynamic values of the `Memory` interface that the package itself can see:\n    the user's object, or the in-package overlay wrapping another Memory -/\ninductive MemVal where\n  | user\n  | im0data")
	for i := 0; i < im0.NumFields(); i++ {
		f := im0.Field(i)
		fmt.Fprintf(&b, " (%s : %s)", mangle(f.Name()), t.leanType(f.Type(), f.Pos()))
	}
	b.WriteString("\n  deriving Repr, DecidableEq, Inhabited\n\n")
	t.im0Fields = nil
	for i := 0; i < im0.NumFields(); i++ {
		t.im0Fields = append(t.im0Fields, im0.Field(i).Name())
	}
	// dependency order
	emitted := map[string]bool{}
	var emit func(n string)
	emit = func(n string) {
		if emitted[n] {
			return
		}
		emitted[n] = true
		st := structs[n]
		for i := 0; i < st.NumFields(); i++ {
			ft := st.Field(i).Type()
			if p, ok := ft.(*types.Pointer); ok {
				ft = p.Elem()
			}
			if nm, ok := ft.(*types.Named); ok {
				if _, isS := structs[nm.Obj().Name()]; isS {
					emit(nm.Obj().Name())
				}
			}
		}
		order = append(order, n)
	}
	var sn []string
	for n := range structs {
		sn = append(sn, n)
	}
	sort.Strings(sn)
	for _, n := range sn {
		emit(n)
	}
	for _, n := range order {
		st := structs[n]
		var ext []string
		var flds []string
		allDec := true
		for i := 0; i < st.NumFields(); i++ {
			f := st.Field(i)
			if f.Embedded() {
				ext = append(ext, mangle(f.Name()))
				continue
			}
			lt := t.leanType(f.Type(), f.Pos())
			if strings.Contains(lt, "→") {
				allDec = false
			}
			// qualify to avoid capture by same-named fields
			flds = append(flds, fmt.Sprintf("  %s : %s", mangle(f.Name()), qualify(lt, structs)))
			if n == "CPU" {
				t.cpuFields = append(t.cpuFields, f.Name())
			}
		}
		fmt.Fprintf(&b, "@[ext] structure %s", mangle(n))
		if len(ext) > 0 {
			fmt.Fprintf(&b, " extends %s", strings.Join(ext, ", "))
		}
		b.WriteString(" where\n")
		b.WriteString(strings.Join(flds, "\n"))
		if allDec && n != "CPU" {
			b.WriteString("\n  deriving Repr, DecidableEq, Inhabited\n\n")
		} else {
			b.WriteString("\n  deriving Inhabited\n\n")
		}
	}
	// constants
	for _, n := range scope.Names() {
		c, ok := scope.Lookup(n).(*types.Const)
		if !ok {
			continue
		}
		tv := types.TypeAndValue{Type: c.Type(), Value: c.Val()}
		ty := c.Type()
		if b2, ok := ty.(*types.Basic); ok && b2.Info()&types.IsUntyped != 0 {
			tv.Type = types.Default(ty)
		}
		lit := t.constLit(tv, c.Pos())
		fmt.Fprintf(&b, "def const_%s : %s := %s\n", n, t.leanType(tv.Type, c.Pos()), lit)
		t.constRecs = append(t.constRecs, map[string]string{"name": n, "type": tv.Type.String(), "value": c.Val().ExactString()})
	}
	b.WriteString("\nend Z80.Gen\n")
	return b.String()
}

func qualify(lt string, structs map[string]*types.Struct) string {
	for n := range structs {
		// whole-word replace
		lt = replaceWord(lt, mangle(n), "Z80.Gen."+mangle(n))
	}
	return lt
}

func replaceWord(s, w, r string) string {
	var out strings.Builder
	i := 0
	for i < len(s) {
		j := strings.Index(s[i:], w)
		if j < 0 {
			out.WriteString(s[i:])
			break
		}
		j += i
		before := j == 0 || !isIdentChar(s[j-1])
		after := j+len(w) >= len(s) || !isIdentChar(s[j+len(w)])
		out.WriteString(s[i:j])
		if before && after {
			out.WriteString(r)
		} else {
			out.WriteString(w)
		}
		i = j + len(w)
	}
	return out.String()
}

func isIdentChar(c byte) bool {
	return c == '_' || c == '.' || (c >= '0' && c <= '9') || (c >= 'a' && c <= 'z') || (c >= 'A' && c <= 'Z')
}

// translate one function
func (t *tr) translate(fi *funcInfo) {
	fd := fi.decl
	c := &fctx{t: t, fi: fi, indent: 1, muts: map[types.Object]bool{}}
	// mutable locals: assigned (not defined) anywhere
	ast.Inspect(fd.Body, func(n ast.Node) bool {
		switch x := n.(type) {
		case *ast.AssignStmt:
			for _, l := range x.Lhs {
				if id, ok := l.(*ast.Ident); ok {
					if obj := t.info.Uses[id]; obj != nil {
						c.muts[obj] = true
					}
				}
			}
		case *ast.IncDecStmt:
			if id, ok := x.X.(*ast.Ident); ok {
				if obj := t.info.Uses[id]; obj != nil {
					c.muts[obj] = true
				}
			}
		}
		return true
	})
	sig := t.info.Defs[fd.Name].Type().(*types.Signature)
	var params []string
	var paramObjs []*types.Var
	if fd.Recv != nil {
		rv := sig.Recv()
		rn := recvTypeName(fd)
		if rn != "CPU" && rn != "im0data" {
			params = append(params, fmt.Sprintf("(%s : %s)", mangle(rv.Name()), t.leanType(rv.Type(), fd.Pos())))
			paramObjs = append(paramObjs, rv)
		}
	}
	for i := 0; i < sig.Params().Len(); i++ {
		p := sig.Params().At(i)
		if ptr, ok := p.Type().(*types.Pointer); ok {
			if n, ok := ptr.Elem().(*types.Named); ok && n.Obj().Name() == "CPU" {
				continue
			}
		}
		ty := p.Type()
		lt := ""
		if sig.Variadic() && i == sig.Params().Len()-1 {
			lt = t.leanType(ty, fd.Pos()) // slice
		} else {
			lt = t.leanType(ty, fd.Pos())
		}
		params = append(params, fmt.Sprintf("(%s : %s)", mangle(p.Name()), lt))
		paramObjs = append(paramObjs, p)
	}
	resT := t.leanType(sig.Results(), fd.Pos())
	// named results
	for i := 0; i < sig.Results().Len(); i++ {
		r := sig.Results().At(i)
		if r.Name() != "" {
			c.named = append(c.named, r)
		}
	}
	// reassigned parameters need a mutable shadow
	for _, p := range paramObjs {
		if c.muts[p] {
			if fi.kind == kPure {
				t.failf(fd.Pos(), "reassigned parameter in pure function")
			}
			c.emit("let mut %s := %s", mangle(p.Name()), mangle(p.Name()))
		}
	}
	for _, r := range c.named {
		if fi.kind == kPure {
			break
		}
		c.emit("let mut %s : %s := %s", mangle(r.Name()), t.leanType(r.Type(), fd.Pos()), zeroOf(r.Type()))
		c.muts[r] = true
	}
	if fi.im0Recv != "" {
		c.im0 = map[string]bool{}
		for _, f := range t.im0Fields {
			c.im0[f] = true
		}
	}
	if fi.kind == kPure {
		c.pureBody(fd.Body.List)
	} else {
		c.block(fd.Body.List)
	}
	var b strings.Builder
	fmt.Fprintf(&b, "-- %s:%d %s\n", fi.file+".go", t.fset.Position(fd.Pos()).Line, fi.goName)
	body := strings.Join(c.lines, "\n")
	if fi.im0Recv != "" {
		// dispatcher over MemVal; the user arm is the user's object
		var pn []string
		for _, p := range paramObjs {
			pn = append(pn, mangle(p.Name()))
		}
		var pts []string
		for _, p := range paramObjs {
			pts = append(pts, t.leanType(p.Type(), fd.Pos()))
		}
		var fl []string
		for _, f := range t.im0Fields {
			fl = append(fl, mangle(f))
		}
		userPrim := map[string]string{"Get": "userGet", "Set": "userSet"}[fi.goName]
		if userPrim == "" {
			t.failf(fd.Pos(), "unexpected im0data method %s", fi.goName)
		}
		fmt.Fprintf(&b, "@[z80gen] def %s : MemVal → %s → M %s\n", fi.name, strings.Join(pts, " → "), resT)
		fmt.Fprintf(&b, "  | .user, %s => %s %s\n", strings.Join(pn, ", "), userPrim, strings.Join(pn, " "))
		fmt.Fprintf(&b, "  | .im0data %s, %s => do\n", strings.Join(fl, " "), strings.Join(pn, ", "))
		// indent body one more level
		for _, l := range c.lines {
			b.WriteString("  " + l + "\n")
		}
	} else {
		attr := "@[z80gen] "
		if t.charact[fi.name] {
			attr = "/- characterised by a lemma in Z80.Proofs.Helpers; not unfolded by the arm tactic -/\n"
		}
		if fi.kind == kPure {
			fmt.Fprintf(&b, "%sdef %s %s : %s :=\n%s\n", attr, fi.name, strings.Join(params, " "), resT, body)
		} else {
			fmt.Fprintf(&b, "%sdef %s %s : M %s := do\n%s\n", attr, fi.name, strings.Join(params, " "), resT, body)
		}
	}
	fi.text = b.String()
}

func recvTypeName(fd *ast.FuncDecl) string {
	rt := fd.Recv.List[0].Type
	if se, ok := rt.(*ast.StarExpr); ok {
		rt = se.X
	}
	return rt.(*ast.Ident).Name
}

// pureBody: straight-line `x := e` ... `return e` only
func (c *fctx) pureBody(stmts []ast.Stmt) {
	t := c.t
	for i, s := range stmts {
		switch x := s.(type) {
		case *ast.AssignStmt:
			if x.Tok != token.DEFINE || len(x.Lhs) != len(x.Rhs) {
				t.failf(x.Pos(), "pure function: only simple := allowed")
			}
			for j, l := range x.Lhs {
				id := l.(*ast.Ident)
				c.emit("let %s : %s := %s", mangle(id.Name), t.leanType(t.info.Defs[id].Type(), id.Pos()), c.expr(x.Rhs[j]))
			}
		case *ast.ReturnStmt:
			if i != len(stmts)-1 {
				t.failf(x.Pos(), "pure function: return must be last")
			}
			var vals []string
			for _, r := range x.Results {
				vals = append(vals, c.expr(r))
			}
			if len(vals) == 1 {
				c.emit("%s", vals[0])
			} else {
				c.emit("(%s)", strings.Join(vals, ", "))
			}
		default:
			t.failf(s.Pos(), "pure function: unsupported statement %T", s)
		}
	}
}
