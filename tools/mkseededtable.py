#!/usr/bin/env python3
"""Regenerates the seeded-change table in DESIGN.md from seeded/*/meta.json and seeded/*/result.txt."""
import json, os, re
V = '/verif'
rows = []
for sid in sorted(os.listdir(os.path.join(V, 'seeded'))):
    d = os.path.join(V, 'seeded', sid)
    if not os.path.isdir(d):
        continue
    meta = json.load(open(os.path.join(d, 'meta.json')))
    res = []
    rp = os.path.join(d, 'result.txt')
    if os.path.exists(rp):
        for l in open(rp):
            m = re.match(r'(C\d\d) exit=(\d+) (\d+)s (\d+) violation', l)
            if not m:
                continue
            pid, rc, secs = m.group(1), int(m.group(2)), m.group(3)
            if rc == 0:
                res.append(f'{pid}: **missed**')
            elif 'no-failing-input-found' in l:
                res.append(f'{pid}: caught, proof/tie broke, no input found ({secs}s)')
            else:
                kind = re.search(r'replays/C\d\d-(\w+)-', l)
                res.append(f'{pid}: caught with a concrete input ({kind.group(1) if kind else "?"} stream, {secs}s)')
    rows.append((sid, meta.get('property'), meta.get('needs', ''), '; '.join(res) or 'not run'))
tab = ['| seeded change | property | needs, to manifest | quick checks run against it |', '|---|---|---|---|']
for r in rows:
    tab.append(f'| `{r[0]}` | {r[1]} | {r[2]} | {r[3]} |')
s = open(os.path.join(V, 'DESIGN.md')).read()
a, b = '<!-- SEEDED-TABLE-BEGIN -->', '<!-- SEEDED-TABLE-END -->'
s = s[:s.index(a) + len(a)] + '\n' + '\n'.join(tab) + '\n' + s[s.index(b):]
# harmless rewrites
hp = os.path.join(V, 'harmless', 'results.txt')
if os.path.exists(hp) and '<!-- HARMLESS-TABLE-BEGIN -->' in s:
    agg = {}
    for l in open(hp):
        m = re.match(r'(\S+\.diff) (C\d\d) exit=(\d+) (\d+)s ?(.*)', l.strip())
        if m:
            verdict = 'quiet (exit 0)' if m.group(3) == '0' else ('alarm: proof/tie broke, no-failing-input-found' if 'no-failing-input-found' in m.group(5) else 'ALARM with an input (would be a false alarm)')
            agg.setdefault(m.group(1), []).append(f'{m.group(2)}: {verdict}')
    tab2 = ['| behaviour-preserving rewrite | quick checks run against it |', '|---|---|']
    for k in sorted(agg):
        tab2.append(f'| `{k}` | ' + '; '.join(agg[k]) + ' |')
    a2, b2 = '<!-- HARMLESS-TABLE-BEGIN -->', '<!-- HARMLESS-TABLE-END -->'
    s = s[:s.index(a2) + len(a2)] + '\n' + '\n'.join(tab2) + '\n' + s[s.index(b2):]
open(os.path.join(V, 'DESIGN.md'), 'w').write(s)
print(len(rows), 'rows')
