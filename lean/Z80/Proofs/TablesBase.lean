/-
  Z80.Proofs.TablesBase — Layer 2 support: the 256-way case split, the prefix-arm tactic and the
  DD/FD glue.
-/
import Z80.Proofs.ArmTac

namespace Z80.Obl
open Z80 Z80.Gen Z80.Spec

/-- every byte is one of the 256 literals -/
theorem u8_cases {P : U8 → Prop} (h : ∀ n : Fin 256, P (BitVec.ofFin n)) (b : U8) : P b := h b.toFin

/-- a DD/FD second byte other than CB: the table obligation is the tail of `execXY` -/
theorem xy_of_obl {i : XY} {c0 c1 : U8} {lhs : M Unit}
    (h : ∀ s : St, s.Memory = .user → lhs s = execOpt Impl.koron [c0, c1] (decodeXY i c1.toNat) s)
    (hne : c1 ≠ 0xcb#8 := by decide) :
    ∀ s : St, s.Memory = .user → lhs s = execXYtail Impl.koron i c0 c1 s := by
  intro s hs
  rw [h s hs]
  simp [execXYtail, hne]

theorem koron_ddcbM1 : Impl.koron.ddcbM1 = 3 := rfl

/-- a prefix arm: fetch the next byte(s), then the nested table theorem `t` -/
macro "prefix_tac " t:ident h:ident : tactic =>
  `(tactic| (simp (config := {implicitDefEqProofs := false}) [z80gen, z80helper, $h:ident, $t:ident,
      execMain, execXY, execXYtail, execXYCB, Spec.fetch, Spec.fetchM1, rd8, incR, koron_ddcbM1]))

end Z80.Obl
