/-
  Z80.Bus — what a Memory VALUE does to reads and writes, as pure functions (hand-written, core Lean only).
  `Memory_Get_eq` / `Memory_Set_eq` (Proofs/BusLemmas.lean) show that the REGENERATED accessors of cpu.go are exactly
  these functions, for every memory value (induction over nested overlays).
-/
import Z80.Monad

namespace Z80
open Z80.Gen

/-- the byte a read at `a` returns -/
def busRead : MemVal → (U16 → U8) → U16 → U8
  | .user, mem, a => mem a
  | .im0data start _ data base, mem, a =>
    if (a - start).toNat ≥ data.length then busRead base mem a else data.getD (a - start).toNat 0#8
/-- the events a read appends to the access log (newest first) -/
def busEvR : MemVal → (U16 → U8) → U16 → List Ev
  | .user, mem, a => [.mr a (mem a)]
  | .im0data start _ data base, mem, a => if (a - start).toNat ≥ data.length then busEvR base mem a else []
/-- the user memory after a write -/
def busWrite : MemVal → (U16 → U8) → U16 → U8 → (U16 → U8)
  | .user, mem, a, v => upd mem a v
  | .im0data start _ data base, mem, a, v => if (a - start).toNat < data.length then mem else busWrite base mem a v
/-- the events a write appends -/
def busEvW : MemVal → U16 → U8 → List Ev
  | .user, a, v => [.mw a v]
  | .im0data start _ data base, a, v => if (a - start).toNat < data.length then [] else busEvW base a v

@[simp] theorem busRead_user (mem : U16 → U8) (a : U16) : busRead .user mem a = mem a := rfl
@[simp] theorem busEvR_user (mem : U16 → U8) (a : U16) : busEvR .user mem a = [.mr a (mem a)] := rfl
@[simp] theorem busWrite_user (mem : U16 → U8) (a : U16) (v : U8) : busWrite .user mem a v = upd mem a v := rfl
@[simp] theorem busEvW_user (a : U16) (v : U8) : busEvW .user a v = [.mw a v] := rfl

/-- a read / a write through the CPU's current Memory value -/
def busGet (a : U16) : M U8 := fun s =>
  .ok (busRead s.Memory s.mem a) { s with log := busEvR s.Memory s.mem a ++ s.log }
def busSet (a : U16) (v : U8) : M Unit := fun s =>
  .ok () { s with mem := busWrite s.Memory s.mem a v, log := busEvW s.Memory a v ++ s.log }

@[simp] theorem busGet_run (a : U16) (s : St) :
    busGet a s = .ok (busRead s.Memory s.mem a) { s with log := busEvR s.Memory s.mem a ++ s.log } := rfl
@[simp] theorem busSet_run (a : U16) (v : U8) (s : St) :
    busSet a v s = .ok () { s with mem := busWrite s.Memory s.mem a v, log := busEvW s.Memory a v ++ s.log } := rfl

end Z80
