package main

// Dynamic checks that live in the Go runtime (support for C10 and C13, not proofs):
//   par  — the same vectors run on independent CPUs from many goroutines concurrently must give the sequential
//          results (and, built with -race, must not trip the race detector);
//   ctx  — CPU.Run under cancellation: returned error, bounded delay, state reachable by whole Steps (twin driven
//          by CPU.Step), no goroutine left behind.

import (
	"bufio"
	"context"
	"errors"
	"flag"
	"fmt"
	"io"
	"log"
	"os"
	"runtime"
	"strings"
	"sync"
	"sync/atomic"
	"time"

	"github.com/koron-go/z80"
)

func runVecQuiet(v *Vec) (res string) {
	w := newWorld(v)
	cpu := buildCPU(v, w)
	defer func() {
		if r := recover(); r != nil {
			res = fmt.Sprintf("%s panic %v", v.ID, r)
		}
	}()
	switch v.Kind {
	case "run":
		codes := ""
		n := v.N
		if n < 1 {
			n = 1
		}
		for k := 0; k < n; k++ {
			ctx, cancel := context.WithTimeout(context.Background(), 5*time.Second)
			err := cpu.Run(ctx)
			cancel()
			switch {
			case err == nil:
				codes += " nil"
			case err == z80.ErrBreakPoint:
				codes += " bp"
			default:
				codes += " " + strings.ReplaceAll(err.Error(), " ", "_")
			}
		}
		return resultStr(v.ID, cpu, w) + " RUN" + codes
	default:
		for k := 0; k < v.N; k++ {
			for _, in := range v.Inj {
				if in.At == k {
					cpu.Interrupt = mkIntr(w, in.Intr.Type, in.Intr.Data)
				}
			}
			cpu.Step()
		}
	}
	return resultStr(v.ID, cpu, w)
}

func cmdPar(args []string) {
	fs := flag.NewFlagSet("par", flag.ExitOnError)
	g := fs.Int("g", 8, "goroutines")
	fs.Parse(args)
	log.SetOutput(io.Discard)
	var vecs []*Vec
	in := bufio.NewReaderSize(os.Stdin, 1<<20)
	for {
		line, err := in.ReadString('\n')
		line = strings.TrimSpace(line)
		if line != "" {
			if v, perr := parseVec(line); perr == nil {
				vecs = append(vecs, v)
			}
		}
		if err != nil {
			break
		}
	}
	want := make([]string, len(vecs))
	for i, v := range vecs {
		want[i] = runVecQuiet(v)
	}
	var wg sync.WaitGroup
	bad := make([]string, *g)
	for k := 0; k < *g; k++ {
		wg.Add(1)
		go func(k int) {
			defer wg.Done()
			// each goroutine walks the vectors from a different offset so that different programs overlap in time
			for j := range vecs {
				i := (j + k*len(vecs) / *g) % len(vecs)
				if got := runVecQuiet(vecs[i]); got != want[i] && bad[k] == "" {
					bad[k] = fmt.Sprintf("par MISMATCH goroutine=%d vector=%s sequential=%q concurrent=%q", k, vecs[i].ID, want[i], got)
				}
			}
		}(k)
	}
	wg.Wait()
	ok := true
	for _, b := range bad {
		if b != "" {
			fmt.Println(b)
			ok = false
		}
	}
	if ok {
		fmt.Printf("par ok goroutines=%d vectors=%d\n", *g, len(vecs))
	}
}

// counting loop at 0x0100: INC BC ; JR -3   (never terminates; BC counts iterations)
func loopCPU() *z80.CPU {
	m := z80.MapMemory{}
	m.Put(0x0100, 0x03, 0x18, 0xfd)
	return &z80.CPU{States: z80.States{SPR: z80.SPR{PC: 0x0100, SP: 0xf000}}, Memory: m}
}

// wholeSteps: is the state of cpu reachable from a fresh loopCPU by a whole number of Steps?
func wholeSteps(cpu *z80.CPU) (int, bool) {
	// the loop does 2 Steps per BC increment; BC wraps after 65536, so the Step count is only known modulo 131072
	twin := loopCPU()
	for k := 0; k <= 131072+2; k++ {
		a, b := twin.States, cpu.States
		a.IR, b.IR = z80.Register{}, z80.Register{} // R counts fetches: known only modulo 128
		if a == b {
			return k, true
		}
		twin.Step()
	}
	return 0, false
}

func cmdCtx(args []string) {
	fs := flag.NewFlagSet("ctx", flag.ExitOnError)
	runs := fs.Int("runs", 300, "repeated Run calls for goroutine accounting")
	fs.Parse(args)
	log.SetOutput(io.Discard)
	report := func(name string, ok bool, detail string) {
		st := "ok"
		if !ok {
			st = "FAIL"
		}
		fmt.Printf("ctx %s %s %s\n", name, st, detail)
	}
	settle := func(base int) int {
		n := runtime.NumGoroutine()
		for i := 0; i < 200 && n > base; i++ {
			time.Sleep(10 * time.Millisecond)
			n = runtime.NumGoroutine()
		}
		return n
	}
	base := runtime.NumGoroutine()
	// 1. goroutine accounting: Run returning by HALT / breakpoint under a cancellable, uncancelled context
	{
		ctx, cancel := context.WithCancel(context.Background())
		okAll := true
		for i := 0; i < *runs; i++ {
			m := z80.MapMemory{}
			m.Put(0x0100, 0x00, 0x76)
			cpu := &z80.CPU{States: z80.States{SPR: z80.SPR{PC: 0x0100}}, Memory: m}
			if i%2 == 1 {
				cpu.BreakPoints = map[uint16]struct{}{0x0101: {}}
			}
			err := cpu.Run(ctx)
			if (i%2 == 0 && err != nil) || (i%2 == 1 && err != z80.ErrBreakPoint) {
				okAll = false
			}
		}
		after := settle(base + 2)
		report("leak-uncancelled", okAll && after <= base+2, fmt.Sprintf("runs=%d goroutines_before=%d after=%d", *runs, base, after))
		cancel()
		settle(base)
	}
	// 1b. the same with a FOREIGN context type (own Done channel, not built on the standard library's contexts, no AfterFunc method): still
	//     alive when Run returns — nothing may be left waiting on it — and it must still cancel a running program
	{
		fc := newForeignCtx()
		okAll := true
		for i := 0; i < *runs; i++ {
			m := z80.MapMemory{}
			m.Put(0x0100, 0x00, 0x76)
			cpu := &z80.CPU{States: z80.States{SPR: z80.SPR{PC: 0x0100}}, Memory: m}
			if i%2 == 1 {
				cpu.BreakPoints = map[uint16]struct{}{0x0101: {}}
			}
			err := cpu.Run(fc)
			if (i%2 == 0 && err != nil) || (i%2 == 1 && err != z80.ErrBreakPoint) {
				okAll = false
			}
		}
		after := settle(base + 2)
		cpu := loopCPU()
		go func() { time.Sleep(2 * time.Millisecond); fc.cancel() }()
		done := make(chan error, 1)
		go func() { done <- cpu.Run(fc) }()
		var err error
		returned := true
		select {
		case err = <-done:
		case <-time.After(3 * time.Second):
			returned = false
		}
		fc.cancel()
		if !returned {
			<-done
		}
		report("leak-foreign-context", okAll && after <= base+2 && returned && errors.Is(err, context.Canceled),
			fmt.Sprintf("runs=%d goroutines_before=%d after=%d (context still alive); then cancelled during a loop: returned_within_3s=%v err=%v", *runs, base, after, returned, err))
		settle(base)
	}
	// 2. cancelled before the call
	for i := 0; i < 20; i++ {
		ctx, cancel := context.WithCancel(context.Background())
		cancel()
		cpu := loopCPU()
		t0 := time.Now()
		err := cpu.Run(ctx)
		el := time.Since(t0)
		k, whole := wholeSteps(cpu)
		if !(errors.Is(err, context.Canceled) && el < 2*time.Second && whole) {
			report("cancel-before", false, fmt.Sprintf("err=%v elapsed=%v whole_steps=%v steps=%d BC=%04x PC=%04x", err, el, whole, k, cpu.BC.U16(), cpu.PC))
			return
		}
	}
	report("cancel-before", true, "20 runs: context.Canceled, state after a whole number of Steps")
	// 3. cancelled from another goroutine while running; deadline
	for i := 0; i < 40; i++ {
		var ctx context.Context
		var cancel context.CancelFunc
		want := context.Canceled
		if i%2 == 0 {
			ctx, cancel = context.WithCancel(context.Background())
			go func(d time.Duration) { time.Sleep(d); cancel() }(time.Duration(i%7) * 300 * time.Microsecond)
		} else {
			ctx, cancel = context.WithTimeout(context.Background(), time.Duration(1+i%5)*time.Millisecond)
			want = context.DeadlineExceeded
		}
		cpu := loopCPU()
		t0 := time.Now()
		err := cpu.Run(ctx)
		el := time.Since(t0)
		cancel()
		k, whole := wholeSteps(cpu)
		if !(errors.Is(err, want) && el < 2*time.Second && whole) {
			report("cancel-during", false, fmt.Sprintf("i=%d err=%v want=%v elapsed=%v whole_steps=%v steps=%d BC=%04x PC=%04x", i, err, want, el, whole, k, cpu.BC.U16(), cpu.PC))
			return
		}
	}
	report("cancel-during", true, "40 runs: context.Canceled / DeadlineExceeded within 2s, state after a whole number of Steps")
	// 3b. the same with a request pending that the CPU keeps refusing (maskable, IFF1 clear; or an interrupt mode outside 0..2): the program
	//     state must not matter to cancellation.  Run is watched from outside: if it has not returned 2 s after the cancellation the memory is
	//     switched to read as HALT so that the runaway Run ends and nothing is left behind
	for i := 0; i < 8; i++ {
		sm := &switchMem{}
		cpu := &z80.CPU{States: z80.States{SPR: z80.SPR{PC: 0x0100, SP: 0xf000}}, Memory: sm}
		cpu.IFF1 = false
		cpu.IM = []int{1, 2, 0, 7}[i%4]
		if cpu.IM == 7 {
			cpu.IFF1 = true // accepted by the gate, refused by the mode dispatch
		}
		cpu.Interrupt = []*z80.Interrupt{z80.IM1Interrupt(), z80.IM2Interrupt(0x10), z80.IM0Interrupt(0xff), z80.IM1Interrupt()}[i%4]
		ctx, cancel := context.WithCancel(context.Background())
		if i >= 4 {
			cancel() // cancelled before the call
		} else {
			go func() { time.Sleep(2 * time.Millisecond); cancel() }()
		}
		done := make(chan error, 1)
		go func() { done <- cpu.Run(ctx) }()
		var err error
		returned := true
		select {
		case err = <-done:
		case <-time.After(3 * time.Second):
			returned = false
			sm.halt.Store(true)
			<-done
		}
		cancel()
		if !returned || !errors.Is(err, context.Canceled) || cpu.Interrupt == nil || (cpu.PC != 0x0100 && cpu.PC != 0x0101) {
			report("cancel-pending-request", false, fmt.Sprintf("i=%d IM=%d returned_within_3s=%v err=%v PC=%04x request_still_pending=%v (a JR loop with a refused request waiting must be cancellable like any other)", i, cpu.IM, returned, err, cpu.PC, cpu.Interrupt != nil))
			return
		}
	}
	report("cancel-pending-request", true, "8 runs: a tight loop with a refused request pending (IM 1 / IM 2 / IM 0 with IFF1 clear, IM 7) returns context.Canceled, request still pending")
	// 4. bounded delay for an I/O loop: the device takes real time per access, so "a few more instructions" after
	//    cancellation must stay a few — whatever the loop is made of
	for i := 0; i < 4; i++ {
		m := z80.MapMemory{}
		m.Put(0x0100, 0xdb, 0x10, 0x18, 0xfc) // IN A,(10h) ; JR -4
		ctx, cancel := context.WithCancel(context.Background())
		if i%2 == 1 {
			cancel()
			ctx, cancel = context.WithTimeout(context.Background(), 3*time.Millisecond)
		}
		dev := &slowIO{ctx: ctx}
		cpu := &z80.CPU{States: z80.States{SPR: z80.SPR{PC: 0x0100, SP: 0xf000}}, Memory: m, IO: dev}
		if i%2 == 0 {
			go func() { time.Sleep(3 * time.Millisecond); cancel() }()
		}
		t0 := time.Now()
		err := cpu.Run(ctx)
		el := time.Since(t0)
		cancel()
		if err == nil || dev.late > 40 || (cpu.PC != 0x0100 && cpu.PC != 0x0102) {
			report("cancel-io-loop", false, fmt.Sprintf("i=%d err=%v elapsed=%v port_reads=%d reads_begun_after_cancellation=%d PC=%04x (the device sleeps 200us per read; at most a few reads may follow the cancellation)", i, err, el, dev.total, dev.late, cpu.PC))
			return
		}
	}
	report("cancel-io-loop", true, "4 runs: an I/O loop with a slow device stops within a few port reads of the cancellation / deadline")
	after := settle(base)
	report("leak-cancelled", after <= base, fmt.Sprintf("goroutines_before=%d after=%d", base, after))
}

// cmdFlags: exhaustive evaluation of the public flag / register accessors of the REAL code against the property's
// definition (support for C16's search; the proof is the Lean theorem).
func cmdFlags() {
	bad := map[string]int{}
	first := func(kind, msg string) {
		if bad[kind] == 0 {
			fmt.Println("flag " + kind + " " + msg)
		}
		bad[kind]++
	}
	consts := []struct {
		name string
		got  z80.Flag
		want uint8
	}{{"C", z80.FlagC, 0x01}, {"N", z80.FlagN, 0x02}, {"PV", z80.FlagPV, 0x04}, {"3", z80.Flag3, 0x08}, {"H", z80.FlagH, 0x10}, {"5", z80.Flag5, 0x20}, {"Z", z80.FlagZ, 0x40}, {"S", z80.FlagS, 0x80}}
	for _, c := range consts {
		if uint8(c.got) != c.want {
			first("const", fmt.Sprintf("name=%s real=%02x want=%02x", c.name, uint8(c.got), c.want))
		}
	}
	// the WHOLE domain: every mask x every F x every A (2^24 states), with the other register pairs holding marker values
	for m := 0; m < 256; m++ {
		for f := 0; f < 256; f++ {
			for ai := 0; ai < 256; ai++ {
				a := uint8(ai)
				g := z80.GPR{AF: z80.Register{Hi: a, Lo: uint8(f)}, BC: z80.Register{Hi: 0x12, Lo: 0x34}, DE: z80.Register{Hi: 0x56, Lo: 0x78}, HL: z80.Register{Hi: 0x9a, Lo: 0xbc}}
				if got, want := g.GetFlag(z80.Flag(m)), uint8(f)&uint8(m) != 0; got != want {
					first("get", fmt.Sprintf("mask=%02x F=%02x A=%02x real=%v want=%v", m, f, a, got, want))
				}
				if g.AF.Hi != a || g.AF.Lo != uint8(f) {
					first("get", fmt.Sprintf("mask=%02x F=%02x A=%02x GetFlag altered AF", m, f, a))
				}
				s := g
				s.SetFlag(z80.Flag(m))
				if s.AF.Lo != uint8(f)|uint8(m) || s.AF.Hi != a || s.BC != g.BC || s.DE != g.DE || s.HL != g.HL {
					first("set", fmt.Sprintf("mask=%02x F=%02x A=%02x real=F:%02x,A:%02x want=F:%02x,A:%02x", m, f, a, s.AF.Lo, s.AF.Hi, uint8(f)|uint8(m), a))
				}
				s = g
				s.ResetFlag(z80.Flag(m))
				if s.AF.Lo != uint8(f)&^uint8(m) || s.AF.Hi != a || s.BC != g.BC || s.DE != g.DE || s.HL != g.HL {
					first("reset", fmt.Sprintf("mask=%02x F=%02x A=%02x real=F:%02x,A:%02x want=F:%02x,A:%02x", m, f, a, s.AF.Lo, s.AF.Hi, uint8(f)&^uint8(m), a))
				}
			}
		}
	}
	for v := 0; v < 65536; v++ {
		var r z80.Register
		r.SetU16(uint16(v))
		if r.U16() != uint16(v) || r.Hi != uint8(v>>8) || r.Lo != uint8(v) {
			first("u16", fmt.Sprintf("value=%04x real=U16:%04x,Hi:%02x,Lo:%02x", v, r.U16(), r.Hi, r.Lo))
		}
	}
	fmt.Printf("done get=%d set=%d reset=%d u16=%d const=%d triples=16777216 values=65536\n", bad["get"], bad["set"], bad["reset"], bad["u16"], bad["const"])
}

// foreignCtx: a context.Context that owes nothing to the standard library's implementations
type foreignCtx struct {
	mu   sync.Mutex
	done chan struct{}
	err  error
}

func newForeignCtx() *foreignCtx                  { return &foreignCtx{done: make(chan struct{})} }
func (c *foreignCtx) Deadline() (time.Time, bool) { return time.Time{}, false }
func (c *foreignCtx) Done() <-chan struct{}       { return c.done }
func (c *foreignCtx) Value(any) any               { return nil }
func (c *foreignCtx) Err() error {
	c.mu.Lock()
	defer c.mu.Unlock()
	return c.err
}
func (c *foreignCtx) cancel() {
	c.mu.Lock()
	defer c.mu.Unlock()
	if c.err == nil {
		c.err = context.Canceled
		close(c.done)
	}
}

// switchMem: NOP; JR -3 at 0100h (a two-instruction loop), until told to read as HALT everywhere
type switchMem struct{ halt atomic.Bool }

func (m *switchMem) Get(a uint16) uint8 {
	if m.halt.Load() {
		return 0x76
	}
	switch a {
	case 0x0100:
		return 0x00 // NOP
	case 0x0101:
		return 0x18 // JR -3
	case 0x0102:
		return 0xfd
	}
	return 0x00
}
func (m *switchMem) Set(uint16, uint8) {}

// slowIO: every port read takes 200us; counts the reads that BEGIN after the context is done (and stops sleeping after
// 400 of them so that a failing run still ends quickly)
type slowIO struct {
	ctx         context.Context
	total, late int
}

func (d *slowIO) In(uint8) uint8 {
	d.total++
	if d.ctx.Err() != nil {
		d.late++
	}
	if d.late < 400 {
		time.Sleep(200 * time.Microsecond)
	}
	return 0
}
func (d *slowIO) Out(uint8, uint8) {}
