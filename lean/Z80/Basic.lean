def hello := "world"
