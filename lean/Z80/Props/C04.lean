/-
  C04 — jumps, calls, returns and the stack follow conditions and addresses exactly.

  Every encoding of the Jump / CallRet / Stack families executes the reference instruction at the level
  of `Gen.Step` (per-slot obligations over the regenerated code).  About the reference instructions:
  a conditional form transfers control iff its condition holds in F (for all 256 F), untaken forms only
  skip their operand bytes, DJNZ decrements B and jumps iff B is then non-zero, CALL/RST store the
  return address high byte at SP-1, low byte at SP-2, RET/POP read it back, CALL;RET and PUSH;POP are
  round trips (also across SP wrap), relative jumps are measured from the next instruction with a signed
  offset, and no flag changes.
-/
import Z80.Proofs.StepOf
import Z80.Proofs.Families.Jump
import Z80.Proofs.Families.CallRet
import Z80.Proofs.Families.Stack

namespace Z80.Props.C04
open Z80 Z80.Gen Z80.Spec Z80.Obl
set_option maxRecDepth 8192

-- every encoding, at the level of Step ---------------------------------------------

def mainSlots : List U8 := slots_Jump_main ++ slots_CallRet_main ++ slots_Stack_main

theorem C04_step_main (s : St) (h₁ : s.Interrupt = none) (h₂ : s.Memory = .user) (b : U8) (hb : b ∈ mainSlots)
    (hop : s.mem s.PC = b) : Gen.Step s = execMain Impl.koron b (afterM1 s) := by
  apply step_main s h₁ h₂ b hop
  simp only [mainSlots, List.mem_append] at hb
  rcases hb with (hb | hb) | hb
  · exact fam_Jump_main b hb
  · exact fam_CallRet_main b hb
  · exact fam_Stack_main b hb

/-- DD E1/E5/E9 (POP IX, PUSH IX, JP (IX)) -/
theorem C04_step_dd (s : St) (h₁ : s.Interrupt = none) (h₂ : s.Memory = .user) (b : U8)
    (hb : b ∈ slots_Jump_dd ++ slots_Stack_dd) (hp : s.mem s.PC = 0xdd#8) (hop : s.mem (s.PC + 1#16) = b) :
    Gen.Step s = execOpt Impl.koron [0xdd#8, b] (decodeXY .IX b.toNat) (afterM1 (afterM1 s)) := by
  apply step_dd s h₁ h₂ b hp hop
  rcases List.mem_append.1 hb with hb | hb
  · exact fun c0 => fam_Jump_dd c0 b hb
  · exact fun c0 => fam_Stack_dd c0 b hb
theorem C04_step_fd (s : St) (h₁ : s.Interrupt = none) (h₂ : s.Memory = .user) (b : U8)
    (hb : b ∈ slots_Jump_fd ++ slots_Stack_fd) (hp : s.mem s.PC = 0xfd#8) (hop : s.mem (s.PC + 1#16) = b) :
    Gen.Step s = execOpt Impl.koron [0xfd#8, b] (decodeXY .IY b.toNat) (afterM1 (afterM1 s)) := by
  apply step_fd s h₁ h₂ b hp hop
  rcases List.mem_append.1 hb with hb | hb
  · exact fun c0 => fam_Jump_fd c0 b hb
  · exact fun c0 => fam_Stack_fd c0 b hb
/-- ED 45 / 4D (RETN / RETI) -/
theorem C04_step_ed (s : St) (h₁ : s.Interrupt = none) (h₂ : s.Memory = .user) (b : U8)
    (hb : b ∈ slots_CallRet_ed) (hp : s.mem s.PC = 0xed#8) (hop : s.mem (s.PC + 1#16) = b) :
    Gen.Step s = execOpt Impl.koron [0xed#8, b] (decodeED b.toNat) (afterM1 (afterM1 s)) :=
  step_ed s h₁ h₂ b hp hop (fun c0 => fam_CallRet_ed c0 b hb)

-- conditions: taken iff the condition holds, for all 256 F ----------------------------

/-- the eight conditions are literally "flag bit clear / set" -/
theorem C04_cc (f : U8) :
    (condHolds .NZ f = !f[6]) ∧ (condHolds .Z f = f[6]) ∧ (condHolds .NC f = !f[0]) ∧ (condHolds .C f = f[0]) ∧
    (condHolds .PO f = !f[2]) ∧ (condHolds .PE f = f[2]) ∧ (condHolds .P f = !f[7]) ∧ (condHolds .M f = f[7]) := by
  simp [condHolds, bitOf]

/-- cc[y] is decoded from bits 5..3 of the opcode: C2 CA D2 DA E2 EA F2 FA = JP NZ Z NC C PO PE P M, same for CALL, RET -/
theorem C04_cc_decode :
    (List.range 8).map condOf = [.NZ, .Z, .NC, .C, .PO, .PE, .P, .M] ∧
    (∀ y : Fin 8, decodeBase none (0xc2 + 8 * y.val) = some (.jpcc (condOf y.val))) ∧
    (∀ y : Fin 8, decodeBase none (0xc4 + 8 * y.val) = some (.callcc (condOf y.val))) ∧
    (∀ y : Fin 8, decodeBase none (0xc0 + 8 * y.val) = some (.retcc (condOf y.val))) ∧
    (∀ y : Fin 4, decodeBase none (0x20 + 8 * y.val) = some (.jrcc (condOf y.val))) := by
  refine ⟨by decide, ?_, ?_, ?_, ?_⟩ <;> decide

/-- JP cc,nn: PC := nn iff the condition holds; otherwise only the two operand bytes are skipped.
    Nothing else changes in either case (no flag, no stack access). -/
theorem C04_jpcc (impl : Impl) (c : Cond) (s : St) :
    exec impl (.jpcc c) s = .ok () { (afterFetch (afterFetch s)) with PC := if condHolds c s.AF.Lo then mk16 (s.mem (s.PC + 1#16)) (s.mem s.PC) else s.PC + 2#16 } := by
  by_cases h : condHolds c s.AF.Lo <;> simp [exec, Spec.fetch16, Spec.fetch, rd8, afterFetch, h, z80helper]

/-- JR cc,e: taken iff the condition; target = address after the instruction + sign-extended e -/
theorem C04_jrcc (impl : Impl) (c : Cond) (s : St) :
    exec impl (.jrcc c) s = .ok () { (afterFetch s) with PC := if condHolds c s.AF.Lo then addDisp (s.PC + 1#16) (s.mem s.PC) else s.PC + 1#16 } := by
  by_cases h : condHolds c s.AF.Lo <;> simp [exec, Spec.fetch, rd8, afterFetch, h]
theorem C04_jr (impl : Impl) (s : St) :
    exec impl .jr s = .ok () { (afterFetch s) with PC := addDisp (s.PC + 1#16) (s.mem s.PC) } := by
  simp [exec, Spec.fetch, rd8, afterFetch]
/-- the offset is a signed 8-bit number: e = 0xFE jumps back onto the JR itself (PC + 2 - 2) -/
example (a : U16) : addDisp (a + 2#16) 0xfe#8 = a := by simp [addDisp]; bv_omega

/-- DJNZ e: B := B - 1, jump iff the new B is non-zero, for all 256 B; no flag changes -/
theorem C04_djnz (impl : Impl) (s : St) :
    exec impl .djnz s = .ok () { (afterFetch s) with BC.Hi := s.BC.Hi - 1#8, PC := if s.BC.Hi - 1#8 ≠ 0#8 then addDisp (s.PC + 1#16) (s.mem s.PC) else s.PC + 1#16 } := by
  by_cases h : s.BC.Hi - 1#8 = 0#8 <;> simp [exec, Spec.fetch, rd8, afterFetch, h]

/-- JP (HL) / JP (IX) / JP (IY): PC := the register value itself (no memory access) -/
theorem C04_jp_reg (impl : Impl) (s : St) :
    exec impl (.jpr .HL) s = .ok () { s with PC := regU16 s.HL } ∧
    exec impl (.jpr .IX) s = .ok () { s with PC := s.IX } ∧ exec impl (.jpr .IY) s = .ok () { s with PC := s.IY } := by
  simp [exec, get16]

/-- word-offset facts used below (all arithmetic is modulo 65536) -/
theorem sp_facts (x : U16) :
    x + 65535#16 ≠ x + 65534#16 ∧ x + 65534#16 ≠ x + 65535#16 ∧ x - 1#16 = x + 65535#16 ∧ x - 2#16 = x + 65534#16 ∧
    x + 65534#16 + 2#16 = x ∧ x + 1#16 ≠ x ∧ x ≠ x + 1#16 := by
  refine ⟨?_, ?_, ?_, ?_, ?_, ?_, ?_⟩ <;> bv_omega

/-- CALL nn: return address = address after the 3-byte instruction; high byte at SP-1, low byte at SP-2;
    SP lowered by 2; PC := nn; F untouched.  (`s` is the state after the opcode fetch.) -/
theorem C04_call (s : St) :
    ∃ t, exec Impl.koron .call s = .ok () t ∧ t.PC = mk16 (s.mem (s.PC + 1#16)) (s.mem s.PC) ∧ t.SP = s.SP - 2#16 ∧
      t.mem (s.SP - 1#16) = hi8 (s.PC + 2#16) ∧ t.mem (s.SP - 2#16) = lo8 (s.PC + 2#16) ∧ t.AF = s.AF ∧
      (∀ a, a ≠ s.SP - 1#16 → a ≠ s.SP - 2#16 → t.mem a = s.mem a) := by
  obtain ⟨h1, h2, h3, h4, _, _, _⟩ := sp_facts s.SP
  simp [exec, Spec.fetch16, Spec.fetch, rd8, push16, wr16, wr8, Impl.koron, z80helper, upd, h1, h2]
  intro a ha hb
  simp [ha, hb]

/-- CALL cc,nn untaken: the two operand bytes are skipped — no stack access, nothing else -/
theorem C04_callcc_untaken (impl : Impl) (c : Cond) (s : St) (h : condHolds c s.AF.Lo = false) :
    exec impl (.callcc c) s = .ok () (afterFetch (afterFetch s)) := by
  simp [exec, Spec.fetch16, Spec.fetch, rd8, afterFetch, h, z80helper]
/-- RET cc untaken: nothing at all (the opcode fetch has already happened) -/
theorem C04_retcc_untaken (impl : Impl) (c : Cond) (s : St) (h : condHolds c s.AF.Lo = false) :
    exec impl (.retcc c) s = .ok () s := by
  simp [exec, h]
/-- taken forms are the unconditional instruction -/
theorem C04_cc_taken (impl : Impl) (c : Cond) (s : St) (h : condHolds c s.AF.Lo = true) :
    exec impl (.callcc c) s = exec impl .call s ∧ exec impl (.retcc c) s = exec impl .ret s := by
  constructor <;> simp [exec, Spec.fetch16, Spec.fetch, rd8, h]

/-- RET: PC := word at SP (low byte at SP, high at SP+1), SP raised by 2, F untouched -/
theorem C04_ret (impl : Impl) (s : St) :
    ∃ t, exec impl .ret s = .ok () t ∧ t.PC = mk16 (s.mem (s.SP + 1#16)) (s.mem s.SP) ∧ t.SP = s.SP + 2#16 ∧
      t.AF = s.AF ∧ t.mem = s.mem := by
  simp [exec, pop16, rd16, rd8]

/-- RST p: like CALL to the fixed address (return address = address after the 1-byte instruction) -/
theorem C04_rst (t : U16) (s : St) :
    ∃ u, exec Impl.koron (.rst t) s = .ok () u ∧ u.PC = t ∧ u.SP = s.SP - 2#16 ∧
      u.mem (s.SP - 1#16) = hi8 s.PC ∧ u.mem (s.SP - 2#16) = lo8 s.PC ∧ u.AF = s.AF := by
  obtain ⟨h1, h2, h3, h4, _, _, _⟩ := sp_facts s.SP
  simp [exec, push16, wr16, wr8, Impl.koron, z80helper, upd, h1, h2]

/-- CALL nn immediately followed (at nn) by RET resumes right after the CALL with SP restored — for every
    state, also when SP wraps through 0x0000 (all addresses are 16-bit words) -/
theorem C04_call_ret (s : St) :
    ∃ t u, exec Impl.koron .call s = .ok () t ∧ exec Impl.koron .ret t = .ok () u ∧
      u.PC = s.PC + 2#16 ∧ u.SP = s.SP ∧ u.AF = s.AF ∧ u.toGPR = s.toGPR := by
  obtain ⟨h1, h2, h3, h4, h5, _, _⟩ := sp_facts s.SP
  simp [exec, Spec.fetch16, Spec.fetch, rd8, push16, wr16, wr8, Impl.koron, pop16, rd16, z80helper, upd, h1, h2, h5]

/-- RST p immediately followed (at p) by RET resumes right after the one-byte RST with SP restored — for
    every restart address and every state, also when SP wraps through 0x0000 -/
theorem C04_rst_ret (p : U16) (s : St) :
    ∃ t u, exec Impl.koron (.rst p) s = .ok () t ∧ exec Impl.koron .ret t = .ok () u ∧
      u.PC = s.PC ∧ u.SP = s.SP ∧ u.AF = s.AF ∧ u.toGPR = s.toGPR := by
  obtain ⟨h1, h2, h3, h4, h5, _, _⟩ := sp_facts s.SP
  simp [exec, push16, wr16, wr8, Impl.koron, pop16, rd16, rd8, z80helper, upd, h1, h2, h5]

/-- PUSH qq ; POP qq is the identity on qq and SP, for BC DE HL AF IX IY, for every SP -/
theorem C04_push_pop (r : Loc16) (hr : r ≠ .SP) (s : St) :
    ∃ t u, exec Impl.koron (.push r) s = .ok () t ∧ exec Impl.koron (.pop r) t = .ok () u ∧
      get16 r u = get16 r s ∧ u.SP = s.SP := by
  obtain ⟨h1, h2, h3, h4, h5, _, _⟩ := sp_facts s.SP
  cases r <;> first | exact absurd rfl hr | skip
  all_goals simp [exec, push16, wr16, wr8, Impl.koron, pushSite, get16, set16, pop16, rd16, rd8, regU16, regOf,
    z80helper, upd, h1, h2, h5]

-- non-vacuity: a concrete state with `CALL` at PC satisfies the step hypotheses
example : (0xcd#8) ∈ mainSlots ∧ (0xc9#8) ∈ mainSlots ∧ (0xf5#8) ∈ mainSlots ∧ (0x10#8) ∈ mainSlots := by decide

end Z80.Props.C04
