/-
  Z80.Spec.MemIO — hand-written model of memio.go (DumbMemory, DumbIO, MapMemory).  Core Lean only.

  Go slices and maps are reference types: a value of type DumbMemory / MapMemory is a handle on a backing object
  that Set/Put/Clear mutate in place and that assignment shares.  The model therefore has a heap of objects and
  a table of variables holding object ids; `Clone` is the only operation that allocates.  The model is tied to
  memio.go by the correspondence check (harness `memio`): identical operation sequences are executed on the real
  types and on this model and every answer is compared.
-/
import Z80.Base
import Z80.GoStore

namespace Z80.Spec.MemIO
open Z80

/-! ## the three stores as values -/

/-- DumbMemory / DumbIO: a byte slice (cap = len) -/
abbrev Slice := List U8

def sliceGet (dm : Slice) (a : Nat) : U8 := if a < dm.length then dm.getD a 0#8 else 0#8
def sliceSet (dm : Slice) (a : Nat) (v : U8) : Slice := if a < dm.length then dm.set a v else dm

/-- `copy(dm[a:a+len(data)], data)`: the slice expression panics unless a+len(data) ≤ cap -/
def slicePut (dm : Slice) (a : Nat) (data : List U8) : Option Slice :=
  if a + data.length ≤ dm.length then some (dm.take a ++ data ++ dm.drop (a + data.length)) else none

/-- MapMemory contents: association list, newest binding first -/
abbrev Assoc := List (U16 × U8)

def assocGet? (m : Assoc) (a : U16) : Option U8 := (m.find? (fun kv => kv.1 == a)).map (·.2)
def mapGet (m : Assoc) (a : U16) : U8 := (assocGet? m a).getD 0xC7#8
def mapSet (m : Assoc) (a : U16) (v : U8) : Assoc := (a, v) :: m
/-- `for _, v := range data { mm[addr] = v; addr++ }` with uint16 wrap-around -/
def mapPut (m : Assoc) (a : U16) : List U8 → Assoc
  | [] => m
  | v :: rest => mapPut (mapSet m a v) (a + 1#16) rest
/-- same set of keys with the same values (what reflect.DeepEqual compares for two non-nil maps) -/
def mapEqual (m₁ m₂ : Assoc) : Bool :=
  (m₁.all fun kv => assocGet? m₂ kv.1 == assocGet? m₁ kv.1) && (m₂.all fun kv => assocGet? m₁ kv.1 == assocGet? m₂ kv.1)

/-- the contents Clone builds: `cl := MapMemory{}; for k, v := range mm { cl[k] = v }` — the live entries of the source (each key
    once), inserted one after the other (the order range visits them in does not matter: Props/C15Gen.clone_any_order) -/
def cloneOf (m : Assoc) : Assoc := (GoStore.assocLive m).reverse

/-! ## heap of objects, variables holding handles -/

inductive Obj
  | slice (l : Slice)             -- backing array of a DumbMemory / DumbIO
  | map (m : Assoc)               -- an initialised map
deriving Repr

/-- what a Go variable holds -/
inductive Handle
  | dm (o : Nat) | dio (o : Nat)
  | mm (o : Option Nat)           -- none = nil MapMemory
  | other                         -- some value that is not a MapMemory (only used as argument of Equal)
deriving Repr, DecidableEq

structure World where
  heap : List Obj := []
  vars : List (Nat × Handle) := []

def World.var (w : World) (r : Nat) : Option Handle := (w.vars.find? (fun p => p.1 == r)).map (·.2)
def World.bind (w : World) (r : Nat) (h : Handle) : World := { w with vars := (r, h) :: w.vars }
def World.alloc (w : World) (o : Obj) : World × Nat := ({ w with heap := w.heap ++ [o] }, w.heap.length)
def World.store (w : World) (i : Nat) (o : Obj) : World := { w with heap := w.heap.set i o }
def World.slice? (w : World) (i : Nat) : Option Slice := match w.heap[i]? with | some (.slice l) => some l | _ => none
def World.map? (w : World) (i : Nat) : Option Assoc := match w.heap[i]? with | some (.map m) => some m | _ => none

inductive Op
  | newDM (r len : Nat) | newDIO (r len : Nat) | newMM (r : Nat) | nilMM (r : Nat) | newOther (r : Nat)
  | alias_ (r src : Nat)
  | get (r : Nat) (a : U16) | set (r : Nat) (a : U16) (v : U8) | put (r : Nat) (a : U16) (data : List U8)
  | inp (r : Nat) (p : U8) | out (r : Nat) (p : U8) (v : U8)
  | clone (r src : Nat) | clear (r : Nat) | equal (r a : Nat) | dump (r : Nat)
  | putself (r : Nat) (dst : U16) (src n : Nat)      -- dm.Put(dst, dm[src:src+n]...): the data is a view of the receiver itself
deriving Repr

inductive Out
  | ok | byte (v : U8) | bool (b : Bool) | panic | bad | contents (l : List (Nat × U8)) (len : Nat)
deriving Repr, DecidableEq

def insertKV (k : Nat) (v : U8) : List (Nat × U8) → List (Nat × U8)
  | [] => [(k, v)]
  | (k', v') :: rest => if k < k' then (k, v) :: (k', v') :: rest else if k = k' then (k', v') :: rest else (k', v') :: insertKV k v rest

/-- sorted, duplicate-free view of a map (newest binding wins) -/
def mapContents (m : Assoc) : List (Nat × U8) := m.reverse.foldl (fun acc kv => insertKV kv.1.toNat kv.2 (acc.filter (·.1 != kv.1.toNat))) []

def step (w : World) : Op → World × Out
  | .newDM r len => let (w, i) := w.alloc (.slice (List.replicate len 0#8)); (w.bind r (.dm i), .ok)
  | .newDIO r len => let (w, i) := w.alloc (.slice (List.replicate len 0#8)); (w.bind r (.dio i), .ok)
  | .newMM r => let (w, i) := w.alloc (.map []); (w.bind r (.mm (some i)), .ok)
  | .nilMM r => (w.bind r (.mm none), .ok)
  | .newOther r => (w.bind r .other, .ok)
  | .alias_ r src => match w.var src with | some h => (w.bind r h, .ok) | none => (w, .bad)
  | .get r a =>
    match w.var r with
    | some (.dm i) => (match w.slice? i with | some l => (w, .byte (sliceGet l a.toNat)) | none => (w, .bad))
    | some (.mm (some i)) => (match w.map? i with | some m => (w, .byte (mapGet m a)) | none => (w, .bad))
    | some (.mm none) => (w, .byte 0xC7#8)                       -- reading a nil map finds nothing
    | _ => (w, .bad)
  | .set r a v =>
    match w.var r with
    | some (.dm i) => (match w.slice? i with | some l => (w.store i (.slice (sliceSet l a.toNat v)), .ok) | none => (w, .bad))
    | some (.mm (some i)) => (match w.map? i with | some m => (w.store i (.map (mapSet m a v)), .ok) | none => (w, .bad))
    | some (.mm none) => (w, .panic)                             -- assignment to entry in nil map
    | _ => (w, .bad)
  | .put r a data =>
    match w.var r with
    | some (.dm i) =>
      (match w.slice? i with
       | some l => (match slicePut l a.toNat data with | some l' => (w.store i (.slice l'), .ok) | none => (w, .panic))
       | none => (w, .bad))
    | some (.mm (some i)) => (match w.map? i with | some m => (w.store i (.map (mapPut m a data)), .ok) | none => (w, .bad))
    | some (.mm none) => (w, if data.isEmpty then .ok else .panic)
    | _ => (w, .bad)
  | .putself r dst src n =>
    -- the argument slice is evaluated (a view of the backing array) and then copied with memmove semantics: what is stored is what the
    -- view showed BEFORE the call, however the two ranges overlap
    match w.var r with
    | some (.dm i) =>
      (match w.slice? i with
       | some l =>
         if src + n ≤ l.length then
           (match slicePut l dst.toNat ((l.drop src).take n) with | some l' => (w.store i (.slice l'), .ok) | none => (w, .panic))
         else (w, .bad)
       | none => (w, .bad))
    | _ => (w, .bad)
  | .inp r p =>
    match w.var r with
    | some (.dio i) => (match w.slice? i with | some l => (w, .byte (sliceGet l p.toNat)) | none => (w, .bad))
    | _ => (w, .bad)
  | .out r p v =>
    match w.var r with
    | some (.dio i) => (match w.slice? i with | some l => (w.store i (.slice (sliceSet l p.toNat v)), .ok) | none => (w, .bad))
    | _ => (w, .bad)
  | .clone r src =>
    match w.var src with
    | some (.mm (some i)) => (match w.map? i with | some m => let (w, j) := w.alloc (.map (cloneOf m)); (w.bind r (.mm (some j)), .ok) | none => (w, .bad))
    | some (.mm none) => let (w, j) := w.alloc (.map []); (w.bind r (.mm (some j)), .ok)   -- Clone of nil is an empty, initialised map
    | _ => (w, .bad)
  | .clear r =>
    match w.var r with
    | some (.mm (some i)) => (match w.map? i with | some _ => (w.store i (.map []), .ok) | none => (w, .bad))
    | some (.mm none) => (w, .ok)
    | _ => (w, .bad)
  | .equal r a =>
    match w.var r, w.var a with
    | some (.mm x), some (.mm y) =>
      (match x, y with
       | some i, some j => (match w.map? i, w.map? j with | some m₁, some m₂ => (w, .bool (mapEqual m₁ m₂)) | _, _ => (w, .bad))
       | none, none => (w, .bool true)                            -- DeepEqual of two nil maps
       | _, _ => (w, .bool false))                                -- nil vs initialised
    | some (.mm _), some _ => (w, .bool false)                    -- argument is not a MapMemory
    | _, _ => (w, .bad)
  | .dump r =>
    match w.var r with
    | some (.dm i) | some (.dio i) =>
      (match w.slice? i with
       | some l => (w, .contents ((l.zipIdx.filter (fun p => p.1 != 0#8)).map (fun p => (p.2, p.1))) l.length)
       | none => (w, .bad))
    | some (.mm (some i)) => (match w.map? i with | some m => (w, .contents (mapContents m) (mapContents m).length) | none => (w, .bad))
    | some (.mm none) => (w, .contents [] 0)
    | _ => (w, .bad)

end Z80.Spec.MemIO
