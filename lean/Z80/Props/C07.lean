/-
  C07 — an interrupt at any instruction boundary is transparent to the running program.

  About the regenerated code (Gen.Step, through C06/C01), for EVERY state at an instruction boundary:
    * acceptance (NMI, mode 1, mode 2) pushes exactly the current PC — the address of the first instruction
      that has not executed; for a repeating block instruction between repetitions and for a CPU parked on HALT
      that PC is the instruction itself (C09: PC parked; C08: HALT leaves PC on the opcode) — and changes nothing
      else but SP, PC, IFF1/IFF2, the two stack bytes and the request (accept_*);
    * the return sequences EI; RETI and RETN, from ANY handler state whose SP and two stack bytes are as
      acceptance left them, restore PC and SP and re-enable interrupts (return_*);
    * hence the complete round trip through a minimal handler (EI; RETI at 0038h / at the mode-2 vector, RETN at
      0066h) ends in a state equal to the interrupted one in every register, flag, IFF1/IFF2, IM, HALT, and in
      memory outside the two bytes below SP (C07_roundtrip_*): the program then continues exactly as if nothing
      had happened provided it does not read those two bytes before writing them;
    * a request arriving while interrupts are disabled stays pending, the program runs on (C06_pending) and the
      request is accepted at the first boundary with IFF1 set — by the same theorems.
  Partial: handlers longer than the minimal one are covered by `return_*` only under the stated premise
  (registers restored, stack balanced) — that premise is the handler's obligation, not the emulator's.
  Mode 0 with supplied bytes is NOT transparent in this code base: KF1_witness / KF2_witness (known findings).
-/
import Z80.Props.C06
import Z80.Props.C01
import Z80.Proofs.RunLoop

namespace Z80.Props.C07
open Z80 Z80.Gen Z80.Spec
set_option maxRecDepth 8192

/-- everything a program can observe except PC/SP/IFF, which the theorems state separately -/
structure SameRegs (s t : St) : Prop where
  gpr : t.toGPR = s.toGPR
  ix : t.IX = s.IX
  iy : t.IY = s.IY
  alt : t.Alternate = s.Alternate
  i : t.IR.Hi = s.IR.Hi
  im : t.IM = s.IM
  halt : t.HALT = s.HALT
  io : t.IO = s.IO ∧ t.RETNHandler = s.RETNHandler ∧ t.RETIHandler = s.RETIHandler ∧ t.dev = s.dev ∧ t.BreakPoints = s.BreakPoints

theorem SameRegs.refl (s : St) : SameRegs s s := ⟨rfl, rfl, rfl, rfl, rfl, rfl, rfl, ⟨rfl, rfl, rfl, rfl, rfl⟩⟩
theorem SameRegs.trans {a b c : St} (h1 : SameRegs a b) (h2 : SameRegs b c) : SameRegs a c :=
  ⟨h2.gpr.trans h1.gpr, h2.ix.trans h1.ix, h2.iy.trans h1.iy, h2.alt.trans h1.alt, h2.i.trans h1.i, h2.im.trans h1.im,
   h2.halt.trans h1.halt,
   ⟨h2.io.1.trans h1.io.1, h2.io.2.1.trans h1.io.2.1, h2.io.2.2.1.trans h1.io.2.2.1, h2.io.2.2.2.1.trans h1.io.2.2.2.1,
    h2.io.2.2.2.2.trans h1.io.2.2.2.2⟩⟩

/-- what acceptance does, whichever kind -/
structure Accepted (s t : St) (target : U16) : Prop where
  pc : t.PC = target
  sp : t.SP = s.SP - 2#16
  ret_hi : t.mem (s.SP - 1#16) = hi8 s.PC          -- the return address is the CURRENT PC
  ret_lo : t.mem (s.SP - 2#16) = lo8 s.PC
  mem : ∀ a, a ≠ s.SP - 1#16 → a ≠ s.SP - 2#16 → t.mem a = s.mem a
  req : t.Interrupt = none
  user : t.Memory = .user
  regs : SameRegs s t

private theorem sp_ne1 (sp : U16) : sp + 65535#16 ≠ sp + 65534#16 := by bv_omega
private theorem sp_ne2 (sp : U16) : sp + 65534#16 ≠ sp + 65535#16 := by bv_omega

/-- mode 1 -/
theorem accept_im1 (s : St) (i : Interrupt) (hi : s.Interrupt = some i) (hm : s.Memory = .user) (hn : i.Type_ ≠ 0)
    (hf : s.IFF1 = true) (him : s.IM = 1) :
    ∃ t, Gen.Step s = .ok () t ∧ Accepted s t 0x0038#16 ∧ t.IFF1 = false ∧ t.IFF2 = false := by
  rw [C06.C06_step s i hi hm (Or.inr (Or.inr (Or.inl (by rw [him]; decide))))]
  refine ⟨_, by simp [Spec.step, intStep, isNMI, vectorTo, push16, wr16, wr8, Impl.koron, hi, hn, hf, him]; rfl, ?_, by simp, by simp⟩
  constructor <;> simp [z80helper, upd, sp_ne1, sp_ne2, hm]
  · intro a h1 h2; simp [h1, h2]
  · constructor <;> simp [him]

/-- NMI: IFF2 remembers IFF1 -/
theorem accept_nmi (s : St) (i : Interrupt) (hi : s.Interrupt = some i) (hm : s.Memory = .user) (hn : i.Type_ = 0) :
    ∃ t, Gen.Step s = .ok () t ∧ Accepted s t 0x0066#16 ∧ t.IFF1 = false ∧ t.IFF2 = s.IFF1 := by
  rw [C06.C06_step s i hi hm (Or.inl hn)]
  refine ⟨_, by simp [Spec.step, intStep, isNMI, vectorTo, push16, wr16, wr8, Impl.koron, hi, hn]; rfl, ?_, by simp, by simp⟩
  constructor <;> simp [z80helper, upd, sp_ne1, sp_ne2, hm]
  · intro a h1 h2; simp [h1, h2]
  · constructor <;> simp

/-- mode 2: the handler address is the word at I*256 + (vector AND 0xFE), read after the push -/
theorem accept_im2 (s : St) (i : Interrupt) (hi : s.Interrupt = some i) (hm : s.Memory = .user) (hn : i.Type_ ≠ 0)
    (hf : s.IFF1 = true) (him : s.IM = 2) (v : U8) (rest : List U8) (hd : i.Data = v :: rest) :
    ∃ t, Gen.Step s = .ok () t ∧
      Accepted s t (mk16 (t.mem (mk16 s.IR.Hi (v &&& 0xfe#8) + 1#16)) (t.mem (mk16 s.IR.Hi (v &&& 0xfe#8)))) ∧
      t.IFF1 = false ∧ t.IFF2 = false := by
  rw [C06.C06_step s i hi hm (Or.inr (Or.inr (Or.inl (by rw [him]; decide))))]
  refine ⟨_, by simp [Spec.step, intStep, isNMI, push16, wr16, wr8, rd16, rd8, Impl.koron, hi, hn, hf, him, hd]; rfl, ?_, by simp, by simp⟩
  constructor <;> simp [z80helper, upd, sp_ne1, sp_ne2, hm]
  · intro a h1 h2; simp [h1, h2]
  · constructor <;> simp [him]

-- the return sequences ----------------------------------------------------------------------

/-- EI -/
theorem step_ei (u : St) (h₁ : u.Interrupt = none) (h₂ : u.Memory = .user) (hop : u.mem u.PC = 0xfb#8) :
    Gen.Step u = .ok () { u with PC := u.PC + 1#16, IFF1 := true, IFF2 := true, IR := { Hi := u.IR.Hi, Lo := incR u.IR.Lo }, log := .mr u.PC 0xfb#8 :: u.log } := by
  rw [Props.C01.C01_step u h₁ h₂]
  simp [Spec.executeOne, Spec.fetchM1, Spec.fetch, rd8, execMain, execOpt, decodeBase, exec, hop]

/-- RETI (ED 4D): pops PC; RETN (ED 45): pops PC and copies IFF2 into IFF1 -/
theorem step_reti (u : St) (h₁ : u.Interrupt = none) (h₂ : u.Memory = .user) (hp : u.mem u.PC = 0xed#8) (hop : u.mem (u.PC + 1#16) = 0x4d#8) :
    ∃ t, Gen.Step u = .ok () t ∧ t.PC = mk16 (u.mem (u.SP + 1#16)) (u.mem u.SP) ∧ t.SP = u.SP + 2#16 ∧ t.mem = u.mem ∧
      t.IFF1 = u.IFF1 ∧ t.IFF2 = u.IFF2 ∧ t.Interrupt = none ∧ t.Memory = .user ∧ SameRegs u t := by
  rw [Props.C01.C01_step u h₁ h₂]
  by_cases hh : u.RETIHandler <;>
  · simp [Spec.executeOne, Spec.fetchM1, Spec.fetch, rd8, execMain, execOpt, decodeED, exec, pop16, rd16, callRETI, hp, hop, hh, h₁, h₂]
    constructor <;> simp [hh]
theorem step_retn (u : St) (h₁ : u.Interrupt = none) (h₂ : u.Memory = .user) (hp : u.mem u.PC = 0xed#8) (hop : u.mem (u.PC + 1#16) = 0x45#8) :
    ∃ t, Gen.Step u = .ok () t ∧ t.PC = mk16 (u.mem (u.SP + 1#16)) (u.mem u.SP) ∧ t.SP = u.SP + 2#16 ∧ t.mem = u.mem ∧
      t.IFF1 = u.IFF2 ∧ t.IFF2 = u.IFF2 ∧ t.Interrupt = none ∧ t.Memory = .user ∧ SameRegs u t := by
  rw [Props.C01.C01_step u h₁ h₂]
  by_cases hh : u.RETNHandler <;>
  · simp [Spec.executeOne, Spec.fetchM1, Spec.fetch, rd8, execMain, execOpt, decodeED, exec, pop16, rd16, callRETN, hp, hop, hh, h₁, h₂]
    constructor <;> simp [hh]

/-- the handler's epilogue EI; RETI from ANY handler state u whose stack is as acceptance left it:
    back at the interrupted PC with the interrupted SP, interrupts enabled -/
theorem return_ei_reti (s u : St) (h₁ : u.Interrupt = none) (h₂ : u.Memory = .user)
    (hsp : u.SP = s.SP - 2#16) (hhi : u.mem (s.SP - 1#16) = hi8 s.PC) (hlo : u.mem (s.SP - 2#16) = lo8 s.PC)
    (c0 : u.mem u.PC = 0xfb#8) (c1 : u.mem (u.PC + 1#16) = 0xed#8) (c2 : u.mem (u.PC + 2#16) = 0x4d#8) :
    ∃ t, stepN 2 u = .ok () t ∧ t.PC = s.PC ∧ t.SP = s.SP ∧ t.IFF1 = true ∧ t.IFF2 = true ∧ t.mem = u.mem ∧
      t.Interrupt = none ∧ t.Memory = .user ∧ SameRegs u t := by
  have e1 := step_ei u h₁ h₂ c0
  obtain ⟨t, ht, hpc, hsp', hmem, hf1, hf2, hint, huser, hregs⟩ :=
    step_reti { u with PC := u.PC + 1#16, IFF1 := true, IFF2 := true, IR := { Hi := u.IR.Hi, Lo := incR u.IR.Lo }, log := .mr u.PC 0xfb#8 :: u.log }
      h₁ h₂ c1 (by simpa [z80helper] using c2)
  refine ⟨t, by simp [stepN, e1, ht], ?_, ?_, by simpa using hf1, by simpa using hf2, by simpa using hmem, hint, huser, ?_⟩
  · rw [hpc]; simp only [hsp]
    have e : s.SP - 2#16 + 1#16 = s.SP - 1#16 := by bv_omega
    rw [e, hhi, hlo, mk16_hi_lo]
  · rw [hsp']; simp only [hsp]; bv_omega
  · obtain ⟨a, b, c, d, e, f, g, h⟩ := hregs
    exact ⟨by simpa using a, by simpa using b, by simpa using c, by simpa using d, by simpa using e, by simpa using f,
      by simpa using g, by simpa using h⟩

/-- … and RETN: back at the interrupted PC and SP with IFF1 restored from IFF2 -/
theorem return_retn (s u : St) (h₁ : u.Interrupt = none) (h₂ : u.Memory = .user)
    (hsp : u.SP = s.SP - 2#16) (hhi : u.mem (s.SP - 1#16) = hi8 s.PC) (hlo : u.mem (s.SP - 2#16) = lo8 s.PC)
    (c0 : u.mem u.PC = 0xed#8) (c1 : u.mem (u.PC + 1#16) = 0x45#8) :
    ∃ t, stepN 1 u = .ok () t ∧ t.PC = s.PC ∧ t.SP = s.SP ∧ t.IFF1 = u.IFF2 ∧ t.IFF2 = u.IFF2 ∧ t.mem = u.mem ∧
      t.Interrupt = none ∧ t.Memory = .user ∧ SameRegs u t := by
  obtain ⟨t, ht, hpc, hsp', hmem, hf1, hf2, hint, huser, hregs⟩ := step_retn u h₁ h₂ c0 c1
  refine ⟨t, by simp [stepN, ht], ?_, ?_, hf1, hf2, hmem, hint, huser, hregs⟩
  · rw [hpc]; simp only [hsp]
    have e : s.SP - 2#16 + 1#16 = s.SP - 1#16 := by bv_omega
    rw [e, hhi, hlo, mk16_hi_lo]
  · rw [hsp', hsp]; bv_omega

-- complete round trips -----------------------------------------------------------------------

/-- what "transparent" means for one interrupt: the state after the round trip equals the interrupted state s
    in everything but the two bytes below SP, R and the access log -/
structure Transparent (s t : St) : Prop where
  pc : t.PC = s.PC
  sp : t.SP = s.SP
  regs : SameRegs s t
  mem : ∀ a, a ≠ s.SP - 1#16 → a ≠ s.SP - 2#16 → t.mem a = s.mem a
  req : t.Interrupt = none
  user : t.Memory = .user

/-- mode 1, handler `EI; RETI` at 0038h, at ANY boundary of ANY program: three Steps later the program is where it was -/
theorem C07_roundtrip_im1 (s : St) (i : Interrupt) (hi : s.Interrupt = some i) (hm : s.Memory = .user) (hn : i.Type_ ≠ 0)
    (hf : s.IFF1 = true) (him : s.IM = 1)
    (c0 : s.mem 0x0038#16 = 0xfb#8) (c1 : s.mem 0x0039#16 = 0xed#8) (c2 : s.mem 0x003a#16 = 0x4d#8)
    (hstack : ∀ a, a = 0x0038#16 ∨ a = 0x0039#16 ∨ a = 0x003a#16 → a ≠ s.SP - 1#16 ∧ a ≠ s.SP - 2#16) :
    ∃ t, stepN 3 s = .ok () t ∧ Transparent s t ∧ t.IFF1 = true ∧ t.IFF2 = true := by
  obtain ⟨u, hu, acc, _, _⟩ := accept_im1 s i hi hm hn hf him
  have m0 := acc.mem _ (hstack _ (.inl rfl)).1 (hstack _ (.inl rfl)).2
  have m1 := acc.mem _ (hstack _ (.inr (.inl rfl))).1 (hstack _ (.inr (.inl rfl))).2
  have m2 := acc.mem _ (hstack _ (.inr (.inr rfl))).1 (hstack _ (.inr (.inr rfl))).2
  obtain ⟨t, ht, hpc, hsp, hf1, hf2, hmem, hint, huser, hregs⟩ := return_ei_reti s u acc.req acc.user acc.sp acc.ret_hi acc.ret_lo
    (by rw [acc.pc, m0, c0]) (by rw [acc.pc]; simpa [m1] using c1) (by rw [acc.pc]; simpa [m2] using c2)
  refine ⟨t, by rw [stepN_succ_ok 2 s u hu]; exact ht, ⟨hpc, hsp, acc.regs.trans hregs, ?_, hint, huser⟩, hf1, hf2⟩
  intro a h1 h2; rw [hmem]; exact acc.mem a h1 h2

/-- NMI, handler `RETN` at 0066h: two Steps later the program is where it was, IFF1 as before the NMI -/
theorem C07_roundtrip_nmi (s : St) (i : Interrupt) (hi : s.Interrupt = some i) (hm : s.Memory = .user) (hn : i.Type_ = 0)
    (c0 : s.mem 0x0066#16 = 0xed#8) (c1 : s.mem 0x0067#16 = 0x45#8)
    (hstack : ∀ a, a = 0x0066#16 ∨ a = 0x0067#16 → a ≠ s.SP - 1#16 ∧ a ≠ s.SP - 2#16) :
    ∃ t, stepN 2 s = .ok () t ∧ Transparent s t ∧ t.IFF1 = s.IFF1 := by
  obtain ⟨u, hu, acc, _, hiff2⟩ := accept_nmi s i hi hm hn
  have m0 := acc.mem _ (hstack _ (.inl rfl)).1 (hstack _ (.inl rfl)).2
  have m1 := acc.mem _ (hstack _ (.inr rfl)).1 (hstack _ (.inr rfl)).2
  obtain ⟨t, ht, hpc, hsp, hf1, hf2, hmem, hint, huser, hregs⟩ := return_retn s u acc.req acc.user acc.sp acc.ret_hi acc.ret_lo
    (by rw [acc.pc, m0, c0]) (by rw [acc.pc]; simpa [m1] using c1)
  refine ⟨t, by rw [stepN_succ_ok 1 s u hu]; exact ht, ⟨hpc, hsp, acc.regs.trans hregs, ?_, hint, huser⟩, by rw [hf1, hiff2]⟩
  intro a h1 h2; rw [hmem]; exact acc.mem a h1 h2

/-- mode 2, handler `EI; RETI` at the address h stored in the vector table -/
theorem C07_roundtrip_im2 (s : St) (i : Interrupt) (hi : s.Interrupt = some i) (hm : s.Memory = .user) (hn : i.Type_ ≠ 0)
    (hf : s.IFF1 = true) (him : s.IM = 2) (v : U8) (rest : List U8) (hd : i.Data = v :: rest) (h : U16)
    (htab : mk16 (s.mem (mk16 s.IR.Hi (v &&& 0xfe#8) + 1#16)) (s.mem (mk16 s.IR.Hi (v &&& 0xfe#8))) = h)
    (c0 : s.mem h = 0xfb#8) (c1 : s.mem (h + 1#16) = 0xed#8) (c2 : s.mem (h + 2#16) = 0x4d#8)
    (hstack : ∀ a, a = h ∨ a = h + 1#16 ∨ a = h + 2#16 ∨ a = mk16 s.IR.Hi (v &&& 0xfe#8) ∨ a = mk16 s.IR.Hi (v &&& 0xfe#8) + 1#16 →
      a ≠ s.SP - 1#16 ∧ a ≠ s.SP - 2#16) :
    ∃ t, stepN 3 s = .ok () t ∧ Transparent s t ∧ t.IFF1 = true ∧ t.IFF2 = true := by
  obtain ⟨u, hu, acc, _, _⟩ := accept_im2 s i hi hm hn hf him v rest hd
  have ma := fun a (ha : a = h ∨ a = h + 1#16 ∨ a = h + 2#16 ∨ a = mk16 s.IR.Hi (v &&& 0xfe#8) ∨ a = mk16 s.IR.Hi (v &&& 0xfe#8) + 1#16) =>
    acc.mem a (hstack a ha).1 (hstack a ha).2
  have hpcu : u.PC = h := by
    rw [acc.pc, ma _ (.inr (.inr (.inr (.inr rfl)))), ma _ (.inr (.inr (.inr (.inl rfl)))), htab]
  obtain ⟨t, ht, hpc, hsp, hf1, hf2, hmem, hint, huser, hregs⟩ := return_ei_reti s u acc.req acc.user acc.sp acc.ret_hi acc.ret_lo
    (by rw [hpcu, ma _ (.inl rfl), c0]) (by rw [hpcu, ma _ (.inr (.inl rfl)), c1]) (by rw [hpcu, ma _ (.inr (.inr (.inl rfl))), c2])
  refine ⟨t, by rw [stepN_succ_ok 2 s u hu]; exact ht, ⟨hpc, hsp, acc.regs.trans hregs, ?_, hint, huser⟩, hf1, hf2⟩
  intro a h1 h2; rw [hmem]; exact acc.mem a h1 h2


-- known findings: mode 0 with supplied bytes is not transparent in this code base ---------------------

/-- RST 38h supplied in mode 0 at PC = 0x0100 -/
def kf1St : St := { (default : CPU) with PC := 0x0100#16, SP := 0x0000#16, IFF1 := true, IM := 0, Memory := .user, Interrupt := some { Type_ := 1, Data := [0xff#8] }, mem := fun _ => 0#8, dev := fun _ _ => 0#8, log := [] }
/-- the same with the stack directly above the instruction: SP - 2 = PC -/
def kf2St : St := { (default : CPU) with PC := 0x0110#16, SP := 0x0112#16, IFF1 := true, IM := 0, Memory := .user, Interrupt := some { Type_ := 1, Data := [0xff#8] }, mem := fun _ => 0#8, dev := fun _ _ => 0#8, log := [] }
def pushedWord (r : Res Unit) : Option U16 := match r with | .ok _ t => some (mk16 (t.mem (t.SP + 1#16)) (t.mem t.SP)) | .panic _ => none
def memAt (r : Res Unit) (a : U16) : Option U8 := match r with | .ok _ t => some (t.mem a) | .panic _ => none

set_option maxRecDepth 100000 in
/-- KF-1 (kernel evaluation of the REGENERATED code): the return address pushed is 0x0101, not the interrupted
    PC 0x0100 — the program resumes one byte too far; the reference pushes 0x0100 -/
theorem KF1_witness : pushedWord (Gen.Step kf1St) = some 0x0101#16 ∧ pushedWord (Spec.step Impl.koron kf1St) = some 0x0100#16 := by
  constructor <;> rfl
set_option maxRecDepth 100000 in
/-- KF-2: the low byte of the return address, pushed to an address inside [PC, PC+len), is dropped: memory there
    still holds 0x00, the high byte 0x01 was stored; the reference stores 0x10 -/
theorem KF2_witness : memAt (Gen.Step kf2St) 0x0110#16 = some 0x00#8 ∧ memAt (Gen.Step kf2St) 0x0111#16 = some 0x01#8 ∧
    memAt (Spec.step Impl.koron kf2St) 0x0110#16 = some 0x10#8 := by
  refine ⟨?_, ?_, ?_⟩ <;> rfl

/-- KF-1 for EVERY state (not only the witness): with RST 38h supplied in mode 0 and the stack away from PC, the
    return address the handler will pop is PC+1 — the interrupted program resumes one byte too far -/
theorem KF1_every_state (s : St) (i : Interrupt) (hi : s.Interrupt = some i) (hm : s.Memory = .user) (hn : i.Type_ ≠ 0)
    (hf : s.IFF1 = true) (him : s.IM = 0) (hd : i.Data = [0xff#8])
    (h1 : s.SP - 1#16 ≠ s.PC) (h2 : s.SP - 2#16 ≠ s.PC) :
    ∃ t, Gen.Step s = .ok () t ∧ t.PC = 0x0038#16 ∧ t.SP = s.SP - 2#16 ∧
      mk16 (t.mem (t.SP + 1#16)) (t.mem t.SP) = s.PC + 1#16 := by
  rw [C06.C06_im0_rst s i hi hm hn hf him 0xff#8 (by simp) hd]
  have e1 : s.SP - 2#16 + 1#16 = s.SP - 1#16 := by bv_omega
  have hne : s.SP - 2#16 ≠ s.SP - 1#16 := by bv_omega
  refine ⟨_, by simp [Spec.stepKF, hi, isNMI, hn, hf, him, hd, koronIM0, Spec.executeOne, Spec.fetchM1, Spec.fetch, rd8, overlayMem, inWindow, execMain, execOpt, decodeBase, exec, push16, wr16, wr8, Impl.koron]; rfl, ?_, ?_, ?_⟩
  · simp
  · simp
  · simp only [e1]
    simp [upd, hne, hne.symm, e1]
    have c1 : ¬ (65536 - BitVec.toNat s.PC + (65535 + BitVec.toNat s.SP)) % 65536 = 0 := by
      intro h; apply h1; apply BitVec.eq_of_toNat_eq
      have := s.PC.isLt; have := s.SP.isLt
      simp [BitVec.toNat_sub]; omega
    have c2 : ¬ (65536 - BitVec.toNat s.PC + (65534 + BitVec.toNat s.SP)) % 65536 = 0 := by
      intro h; apply h2; apply BitVec.eq_of_toNat_eq
      have := s.PC.isLt; have := s.SP.isLt
      simp [BitVec.toNat_sub]; omega
    simp [c1, c2, mk16_hi_lo]

end Z80.Props.C07
