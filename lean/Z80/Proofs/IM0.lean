/-
  Z80.Proofs.IM0 — mode 0 with a supplied RST p: the REGENERATED code equals the recorded description
  `Spec.stepKF` (which includes the known findings KF-1 and KF-2) for EVERY state.
-/
import Z80.Proofs.Interrupt
import Z80.Spec.KoronIM0

namespace Z80
open Z80.Gen Z80.Spec
set_option maxRecDepth 8192

theorem winA (pc sp : U16) : (((65536 - pc.toNat : Nat) : Int) + (65534 + (sp.toNat : Int))) % 65536 < 1 ↔ sp + 65534#16 = pc := by
  have := pc.isLt; have := sp.isLt
  constructor
  · intro h; apply BitVec.eq_of_toNat_eq; simp [BitVec.toNat_add]; omega
  · intro h; have := congrArg BitVec.toNat h; simp [BitVec.toNat_add] at this; omega
theorem winB (pc sp : U16) : (((65536 - pc.toNat : Nat) : Int) + (65534 + (sp.toNat : Int) + 1)) % 65536 < 1 ↔ sp + 65535#16 = pc := by
  have := pc.isLt; have := sp.isLt
  constructor
  · intro h; apply BitVec.eq_of_toNat_eq; simp [BitVec.toNat_add]; omega
  · intro h; have := congrArg BitVec.toNat h; simp [BitVec.toNat_add] at this; omega
theorem winC (pc a : U16) : (65536 - pc.toNat + a.toNat) % 65536 = 0 ↔ a = pc := by
  have := pc.isLt; have := a.isLt
  constructor
  · intro h; apply BitVec.eq_of_toNat_eq; omega
  · intro h; subst h; omega
theorem sp21 (x : U16) : x - 2#16 + 1#16 = x + 65535#16 := by bv_omega
theorem sp2 (x : U16) : x - 2#16 = x + 65534#16 := by bv_omega

set_option maxHeartbeats 2000000 in
theorem im0_rst_c7 (s : St) (i : Interrupt) (hi : s.Interrupt = some i) (hm : s.Memory = .user) (hn : i.Type_ ≠ 0)
    (hf : s.IFF1 = true) (him : s.IM = 0) (hd : i.Data = [0xc7#8]) :
    Gen.Step s = Spec.stepKF Impl.koron s := by
  simp (config := {implicitDefEqProofs := false}) [Gen.Step, Gen.processInterrupt, hi, hn, hf, him, hd, hm, Gen.newIm0data, Gen.executeOne, Gen.fetchM1, Gen.Memory_Get,
    Gen.Memory_Set, idx_run, executeOne_sw_at_c7, executeOne_arm_c7, z80gen, goLen,
    Spec.stepKF, isNMI, koronIM0, Spec.executeOne, Spec.fetchM1, Spec.fetch, rd8, overlayMem, inWindow, execMain, execOpt, decodeBase, exec,
    push16, wr16, wr8, Impl.koron]
  simp only [winA, winB, winC, sp2]
  have hne : s.SP + 65534#16 ≠ s.SP + 65535#16 := by bv_omega
  by_cases h1 : s.SP + 65534#16 = s.PC <;> by_cases h2 : s.SP + 65535#16 = s.PC
  · exact absurd (h1.trans h2.symm) hne
  all_goals
    have h1' : (s.PC = s.SP + 65534#16) = (s.SP + 65534#16 = s.PC) := propext ⟨Eq.symm, Eq.symm⟩
    have h2' : (s.PC = s.SP + 65535#16) = (s.SP + 65535#16 = s.PC) := propext ⟨Eq.symm, Eq.symm⟩
    simp [h1, h2, evAddr, incR, z80helper]
    try (funext a; by_cases ha : a = s.PC <;> simp_all [upd, overlayMem, inWindow, winC])

set_option maxHeartbeats 2000000 in
theorem im0_rst_cf (s : St) (i : Interrupt) (hi : s.Interrupt = some i) (hm : s.Memory = .user) (hn : i.Type_ ≠ 0)
    (hf : s.IFF1 = true) (him : s.IM = 0) (hd : i.Data = [0xcf#8]) :
    Gen.Step s = Spec.stepKF Impl.koron s := by
  simp (config := {implicitDefEqProofs := false}) [Gen.Step, Gen.processInterrupt, hi, hn, hf, him, hd, hm, Gen.newIm0data, Gen.executeOne, Gen.fetchM1, Gen.Memory_Get,
    Gen.Memory_Set, idx_run, executeOne_sw_at_cf, executeOne_arm_cf, z80gen, goLen,
    Spec.stepKF, isNMI, koronIM0, Spec.executeOne, Spec.fetchM1, Spec.fetch, rd8, overlayMem, inWindow, execMain, execOpt, decodeBase, exec,
    push16, wr16, wr8, Impl.koron]
  simp only [winA, winB, winC, sp2]
  have hne : s.SP + 65534#16 ≠ s.SP + 65535#16 := by bv_omega
  by_cases h1 : s.SP + 65534#16 = s.PC <;> by_cases h2 : s.SP + 65535#16 = s.PC
  · exact absurd (h1.trans h2.symm) hne
  all_goals
    have h1' : (s.PC = s.SP + 65534#16) = (s.SP + 65534#16 = s.PC) := propext ⟨Eq.symm, Eq.symm⟩
    have h2' : (s.PC = s.SP + 65535#16) = (s.SP + 65535#16 = s.PC) := propext ⟨Eq.symm, Eq.symm⟩
    simp [h1, h2, evAddr, incR, z80helper]
    try (funext a; by_cases ha : a = s.PC <;> simp_all [upd, overlayMem, inWindow, winC])

set_option maxHeartbeats 2000000 in
theorem im0_rst_d7 (s : St) (i : Interrupt) (hi : s.Interrupt = some i) (hm : s.Memory = .user) (hn : i.Type_ ≠ 0)
    (hf : s.IFF1 = true) (him : s.IM = 0) (hd : i.Data = [0xd7#8]) :
    Gen.Step s = Spec.stepKF Impl.koron s := by
  simp (config := {implicitDefEqProofs := false}) [Gen.Step, Gen.processInterrupt, hi, hn, hf, him, hd, hm, Gen.newIm0data, Gen.executeOne, Gen.fetchM1, Gen.Memory_Get,
    Gen.Memory_Set, idx_run, executeOne_sw_at_d7, executeOne_arm_d7, z80gen, goLen,
    Spec.stepKF, isNMI, koronIM0, Spec.executeOne, Spec.fetchM1, Spec.fetch, rd8, overlayMem, inWindow, execMain, execOpt, decodeBase, exec,
    push16, wr16, wr8, Impl.koron]
  simp only [winA, winB, winC, sp2]
  have hne : s.SP + 65534#16 ≠ s.SP + 65535#16 := by bv_omega
  by_cases h1 : s.SP + 65534#16 = s.PC <;> by_cases h2 : s.SP + 65535#16 = s.PC
  · exact absurd (h1.trans h2.symm) hne
  all_goals
    have h1' : (s.PC = s.SP + 65534#16) = (s.SP + 65534#16 = s.PC) := propext ⟨Eq.symm, Eq.symm⟩
    have h2' : (s.PC = s.SP + 65535#16) = (s.SP + 65535#16 = s.PC) := propext ⟨Eq.symm, Eq.symm⟩
    simp [h1, h2, evAddr, incR, z80helper]
    try (funext a; by_cases ha : a = s.PC <;> simp_all [upd, overlayMem, inWindow, winC])

set_option maxHeartbeats 2000000 in
theorem im0_rst_df (s : St) (i : Interrupt) (hi : s.Interrupt = some i) (hm : s.Memory = .user) (hn : i.Type_ ≠ 0)
    (hf : s.IFF1 = true) (him : s.IM = 0) (hd : i.Data = [0xdf#8]) :
    Gen.Step s = Spec.stepKF Impl.koron s := by
  simp (config := {implicitDefEqProofs := false}) [Gen.Step, Gen.processInterrupt, hi, hn, hf, him, hd, hm, Gen.newIm0data, Gen.executeOne, Gen.fetchM1, Gen.Memory_Get,
    Gen.Memory_Set, idx_run, executeOne_sw_at_df, executeOne_arm_df, z80gen, goLen,
    Spec.stepKF, isNMI, koronIM0, Spec.executeOne, Spec.fetchM1, Spec.fetch, rd8, overlayMem, inWindow, execMain, execOpt, decodeBase, exec,
    push16, wr16, wr8, Impl.koron]
  simp only [winA, winB, winC, sp2]
  have hne : s.SP + 65534#16 ≠ s.SP + 65535#16 := by bv_omega
  by_cases h1 : s.SP + 65534#16 = s.PC <;> by_cases h2 : s.SP + 65535#16 = s.PC
  · exact absurd (h1.trans h2.symm) hne
  all_goals
    have h1' : (s.PC = s.SP + 65534#16) = (s.SP + 65534#16 = s.PC) := propext ⟨Eq.symm, Eq.symm⟩
    have h2' : (s.PC = s.SP + 65535#16) = (s.SP + 65535#16 = s.PC) := propext ⟨Eq.symm, Eq.symm⟩
    simp [h1, h2, evAddr, incR, z80helper]
    try (funext a; by_cases ha : a = s.PC <;> simp_all [upd, overlayMem, inWindow, winC])

set_option maxHeartbeats 2000000 in
theorem im0_rst_e7 (s : St) (i : Interrupt) (hi : s.Interrupt = some i) (hm : s.Memory = .user) (hn : i.Type_ ≠ 0)
    (hf : s.IFF1 = true) (him : s.IM = 0) (hd : i.Data = [0xe7#8]) :
    Gen.Step s = Spec.stepKF Impl.koron s := by
  simp (config := {implicitDefEqProofs := false}) [Gen.Step, Gen.processInterrupt, hi, hn, hf, him, hd, hm, Gen.newIm0data, Gen.executeOne, Gen.fetchM1, Gen.Memory_Get,
    Gen.Memory_Set, idx_run, executeOne_sw_at_e7, executeOne_arm_e7, z80gen, goLen,
    Spec.stepKF, isNMI, koronIM0, Spec.executeOne, Spec.fetchM1, Spec.fetch, rd8, overlayMem, inWindow, execMain, execOpt, decodeBase, exec,
    push16, wr16, wr8, Impl.koron]
  simp only [winA, winB, winC, sp2]
  have hne : s.SP + 65534#16 ≠ s.SP + 65535#16 := by bv_omega
  by_cases h1 : s.SP + 65534#16 = s.PC <;> by_cases h2 : s.SP + 65535#16 = s.PC
  · exact absurd (h1.trans h2.symm) hne
  all_goals
    have h1' : (s.PC = s.SP + 65534#16) = (s.SP + 65534#16 = s.PC) := propext ⟨Eq.symm, Eq.symm⟩
    have h2' : (s.PC = s.SP + 65535#16) = (s.SP + 65535#16 = s.PC) := propext ⟨Eq.symm, Eq.symm⟩
    simp [h1, h2, evAddr, incR, z80helper]
    try (funext a; by_cases ha : a = s.PC <;> simp_all [upd, overlayMem, inWindow, winC])

set_option maxHeartbeats 2000000 in
theorem im0_rst_ef (s : St) (i : Interrupt) (hi : s.Interrupt = some i) (hm : s.Memory = .user) (hn : i.Type_ ≠ 0)
    (hf : s.IFF1 = true) (him : s.IM = 0) (hd : i.Data = [0xef#8]) :
    Gen.Step s = Spec.stepKF Impl.koron s := by
  simp (config := {implicitDefEqProofs := false}) [Gen.Step, Gen.processInterrupt, hi, hn, hf, him, hd, hm, Gen.newIm0data, Gen.executeOne, Gen.fetchM1, Gen.Memory_Get,
    Gen.Memory_Set, idx_run, executeOne_sw_at_ef, executeOne_arm_ef, z80gen, goLen,
    Spec.stepKF, isNMI, koronIM0, Spec.executeOne, Spec.fetchM1, Spec.fetch, rd8, overlayMem, inWindow, execMain, execOpt, decodeBase, exec,
    push16, wr16, wr8, Impl.koron]
  simp only [winA, winB, winC, sp2]
  have hne : s.SP + 65534#16 ≠ s.SP + 65535#16 := by bv_omega
  by_cases h1 : s.SP + 65534#16 = s.PC <;> by_cases h2 : s.SP + 65535#16 = s.PC
  · exact absurd (h1.trans h2.symm) hne
  all_goals
    have h1' : (s.PC = s.SP + 65534#16) = (s.SP + 65534#16 = s.PC) := propext ⟨Eq.symm, Eq.symm⟩
    have h2' : (s.PC = s.SP + 65535#16) = (s.SP + 65535#16 = s.PC) := propext ⟨Eq.symm, Eq.symm⟩
    simp [h1, h2, evAddr, incR, z80helper]
    try (funext a; by_cases ha : a = s.PC <;> simp_all [upd, overlayMem, inWindow, winC])

set_option maxHeartbeats 2000000 in
theorem im0_rst_f7 (s : St) (i : Interrupt) (hi : s.Interrupt = some i) (hm : s.Memory = .user) (hn : i.Type_ ≠ 0)
    (hf : s.IFF1 = true) (him : s.IM = 0) (hd : i.Data = [0xf7#8]) :
    Gen.Step s = Spec.stepKF Impl.koron s := by
  simp (config := {implicitDefEqProofs := false}) [Gen.Step, Gen.processInterrupt, hi, hn, hf, him, hd, hm, Gen.newIm0data, Gen.executeOne, Gen.fetchM1, Gen.Memory_Get,
    Gen.Memory_Set, idx_run, executeOne_sw_at_f7, executeOne_arm_f7, z80gen, goLen,
    Spec.stepKF, isNMI, koronIM0, Spec.executeOne, Spec.fetchM1, Spec.fetch, rd8, overlayMem, inWindow, execMain, execOpt, decodeBase, exec,
    push16, wr16, wr8, Impl.koron]
  simp only [winA, winB, winC, sp2]
  have hne : s.SP + 65534#16 ≠ s.SP + 65535#16 := by bv_omega
  by_cases h1 : s.SP + 65534#16 = s.PC <;> by_cases h2 : s.SP + 65535#16 = s.PC
  · exact absurd (h1.trans h2.symm) hne
  all_goals
    have h1' : (s.PC = s.SP + 65534#16) = (s.SP + 65534#16 = s.PC) := propext ⟨Eq.symm, Eq.symm⟩
    have h2' : (s.PC = s.SP + 65535#16) = (s.SP + 65535#16 = s.PC) := propext ⟨Eq.symm, Eq.symm⟩
    simp [h1, h2, evAddr, incR, z80helper]
    try (funext a; by_cases ha : a = s.PC <;> simp_all [upd, overlayMem, inWindow, winC])

set_option maxHeartbeats 2000000 in
theorem im0_rst_ff (s : St) (i : Interrupt) (hi : s.Interrupt = some i) (hm : s.Memory = .user) (hn : i.Type_ ≠ 0)
    (hf : s.IFF1 = true) (him : s.IM = 0) (hd : i.Data = [0xff#8]) :
    Gen.Step s = Spec.stepKF Impl.koron s := by
  simp (config := {implicitDefEqProofs := false}) [Gen.Step, Gen.processInterrupt, hi, hn, hf, him, hd, hm, Gen.newIm0data, Gen.executeOne, Gen.fetchM1, Gen.Memory_Get,
    Gen.Memory_Set, idx_run, executeOne_sw_at_ff, executeOne_arm_ff, z80gen, goLen,
    Spec.stepKF, isNMI, koronIM0, Spec.executeOne, Spec.fetchM1, Spec.fetch, rd8, overlayMem, inWindow, execMain, execOpt, decodeBase, exec,
    push16, wr16, wr8, Impl.koron]
  simp only [winA, winB, winC, sp2]
  have hne : s.SP + 65534#16 ≠ s.SP + 65535#16 := by bv_omega
  by_cases h1 : s.SP + 65534#16 = s.PC <;> by_cases h2 : s.SP + 65535#16 = s.PC
  · exact absurd (h1.trans h2.symm) hne
  all_goals
    have h1' : (s.PC = s.SP + 65534#16) = (s.SP + 65534#16 = s.PC) := propext ⟨Eq.symm, Eq.symm⟩
    have h2' : (s.PC = s.SP + 65535#16) = (s.SP + 65535#16 = s.PC) := propext ⟨Eq.symm, Eq.symm⟩
    simp [h1, h2, evAddr, incR, z80helper]
    try (funext a; by_cases ha : a = s.PC <;> simp_all [upd, overlayMem, inWindow, winC])

/-- mode 0, the device supplies RST p (any of the eight): for EVERY state the regenerated Step is exactly the
    recorded description — executes as if stored at PC (pushes PC+1: KF-1), drops a pushed byte that lands on PC
    (KF-2), clears both flip-flops, consumes the request -/
theorem im0_rst (s : St) (i : Interrupt) (hi : s.Interrupt = some i) (hm : s.Memory = .user) (hn : i.Type_ ≠ 0)
    (hf : s.IFF1 = true) (him : s.IM = 0) (b : U8)
    (hb : b = 0xc7#8 ∨ b = 0xcf#8 ∨ b = 0xd7#8 ∨ b = 0xdf#8 ∨ b = 0xe7#8 ∨ b = 0xef#8 ∨ b = 0xf7#8 ∨ b = 0xff#8)
    (hd : i.Data = [b]) : Gen.Step s = Spec.stepKF Impl.koron s := by
  rcases hb with rfl | rfl | rfl | rfl | rfl | rfl | rfl | rfl
  · exact im0_rst_c7 s i hi hm hn hf him hd
  · exact im0_rst_cf s i hi hm hn hf him hd
  · exact im0_rst_d7 s i hi hm hn hf him hd
  · exact im0_rst_df s i hi hm hn hf him hd
  · exact im0_rst_e7 s i hi hm hn hf him hd
  · exact im0_rst_ef s i hi hm hn hf him hd
  · exact im0_rst_f7 s i hi hm hn hf him hd
  · exact im0_rst_ff s i hi hm hn hf him hd

-- CALL nn supplied in mode 0 (three-byte window) ------------------------------------------

theorem offI1 (pc : U16) : (((65536 - pc.toNat : Nat) : Int) + ((pc.toNat : Int) + 1)) % 65536 = 1 := by have := pc.isLt; omega
theorem offI2 (pc : U16) : (((65536 - pc.toNat : Nat) : Int) + ((pc.toNat : Int) + 1 + 1)) % 65536 = 2 := by have := pc.isLt; omega
theorem offN1 (pc : U16) : (65536 - pc.toNat + (pc.toNat + 1)) % 65536 = 1 := by have := pc.isLt; omega
theorem offN2 (pc : U16) : (65536 - pc.toNat + (pc.toNat + 1 + 1)) % 65536 = 2 := by have := pc.isLt; omega
/-- a inside the three-byte window at pc -/
def inW (pc a : U16) : Prop := (a - pc).toNat < 3
instance (pc a : U16) : Decidable (inW pc a) := by unfold inW; infer_instance
/-- window membership, Int form produced by the translated guard ↔ the reference's form -/
theorem winI1 (pc sp : U16) : (((65536 - pc.toNat : Nat) : Int) + (65535 + (sp.toNat : Int))) % 65536 < 3 ↔ inW pc (sp + 65535#16) := by
  have := pc.isLt; have := sp.isLt
  simp [inW, BitVec.toNat_sub, BitVec.toNat_add]; omega
theorem winI2 (pc sp : U16) : (((65536 - pc.toNat : Nat) : Int) + (65535 + (65535 + (sp.toNat : Int)))) % 65536 < 3 ↔ inW pc (sp + 65534#16) := by
  have := pc.isLt; have := sp.isLt
  simp [inW, BitVec.toNat_sub, BitVec.toNat_add]; omega
theorem winN (pc a : U16) : (65536 - pc.toNat + a.toNat) % 65536 < 3 ↔ inW pc a := by
  have := pc.isLt; have := a.isLt
  simp [inW, BitVec.toNat_sub]
theorem spm1 (x : U16) : x - 1#16 = x + 65535#16 := by bv_omega
theorem spm2 (x : U16) : x - 1#16 - 1#16 = x + 65534#16 := by bv_omega

set_option maxHeartbeats 4000000 in
/-- mode 0, the device supplies CALL nn: for EVERY state and every nn the regenerated Step is exactly the recorded
    description (pushes PC+3: KF-1; pushed bytes landing inside [PC,PC+3) are dropped: KF-2) -/
theorem im0_call (s : St) (i : Interrupt) (hi : s.Interrupt = some i) (hm : s.Memory = .user) (hn : i.Type_ ≠ 0)
    (hf : s.IFF1 = true) (him : s.IM = 0) (lo hi' : U8) (hd : i.Data = [0xcd#8, lo, hi']) :
    Gen.Step s = Spec.stepKF Impl.koron s := by
  simp (config := {implicitDefEqProofs := false}) [Gen.Step, Gen.processInterrupt, hi, hn, hf, him, hd, hm, Gen.newIm0data, Gen.executeOne, Gen.fetchM1, Gen.fetch, Gen.Memory_Get,
    Gen.Memory_Set, idx_run, executeOne_sw_at_cd, executeOne_arm_cd, z80gen, goLen, offI1, offI2, offN1, offN2,
    Spec.stepKF, isNMI, koronIM0, Spec.executeOne, Spec.fetchM1, Spec.fetch, Spec.fetch16, rd8, overlayMem, inWindow, execMain, execOpt, decodeBase, exec,
    push16, wr16, wr8, Impl.koron]
  simp only [winI1, winI2, winN, spm2, spm1, sp2, sp21]
  have hne : s.SP + 65534#16 ≠ s.SP + 65535#16 := by bv_omega
  have hne' : s.SP + 65535#16 ≠ s.SP + 65534#16 := by bv_omega
  have w0 : inW s.PC s.PC := by simp [inW]
  have e1 : s.PC + 1#16 - s.PC = 1#16 := by bv_omega
  have e2 : s.PC + 1#16 + 1#16 - s.PC = 2#16 := by bv_omega
  have w1 : inW s.PC (s.PC + 1#16) := by unfold inW; rw [e1]; decide
  have w2 : inW s.PC (s.PC + 1#16 + 1#16) := by unfold inW; rw [e2]; decide
  have n1 : s.SP + 65535#16 + 65535#16 = s.SP + 65534#16 := by bv_omega
  have n2 : s.SP + 65534#16 + 1#16 = s.SP + 65535#16 := by bv_omega
  rw [n1, n2]
  have e3 : s.PC + 2#16 - s.PC = 2#16 := by bv_omega
  have w2' : inW s.PC (s.PC + 2#16) := by unfold inW; rw [e3]; decide
  by_cases hA : inW s.PC (s.SP + 65535#16) <;> by_cases hB : inW s.PC (s.SP + 65534#16) <;>
  · simp [hA, hB, w0, w1, w2, w2', evAddr, incR, z80helper, winN]
    first
      | done
      | (funext a
         by_cases ha : inW s.PC a <;> by_cases h4 : a = s.SP + 65534#16 <;> by_cases h5 : a = s.SP + 65535#16 <;>
           simp_all [upd, overlayMem, inWindow, winN])

end Z80
