#!/bin/bash
# usage: tools/run_all_seeded.sh [<seeded-id>...]
# runs every seeded change (or the named ones) against the quick checks of the properties it is expected to break
# (seeded/<id>/meta.json: "checks"), one after the other; /repo is restored after each.
cd /verif
ids="$@"; [ -z "$ids" ] && ids=$(ls seeded)
for id in $ids; do
  checks=$(python3 -c "import json;cl={c['property_id'] for c in json.load(open('MANIFEST.json'))['checks']};print(' '.join(c for c in json.load(open('seeded/$id/meta.json'))['checks'] if c in cl))")
  [ -z "$checks" ] && { echo "$id: no check claims this property yet"; continue; }
  echo "### $id -> $checks"
  tools/try_seeded.sh $id $checks
done
git -C /repo status --short
