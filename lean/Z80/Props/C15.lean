/-
  C15 — the bundled memory and port types behave as plain byte stores with safe bounds.

  Theorems about the store functions and the heap model of Z80.Spec.MemIO.  The store functions are tied to memio.go by
  Props/C15Gen.lean (each method, translated from the source on every run, IS the model's function — for all inputs);
  the heap/handle bookkeeping by the `memio` correspondence (the same operation sequences run on the real
  DumbMemory/DumbIO/MapMemory values, on this model, and on the model driven by the translated methods).
    * slices (DumbMemory, DumbIO): for EVERY history of Set/Put (resp. Out), reading address a returns the value
      last written there, else 0; an address beyond the slice reads 0 and ignores writes — for every slice length;
    * MapMemory: the same with default 0xC7, Put wrapping past 0xFFFF;
    * Clone allocates a fresh object: later operations through either handle never change what the other shows;
      Clear empties; Equal is true exactly for identical contents (initialised maps), false for any non-MapMemory.
-/
import Z80.Spec.MemIO
import Z80.Proofs.Assoc

namespace Z80.Props.C15
open Z80 Z80.Spec.MemIO

-- ---------------------------------------------------------------------------
-- slices

theorem sliceGet_oob (dm : Slice) (a : Nat) (h : dm.length ≤ a) : sliceGet dm a = 0#8 := by
  simp [sliceGet, Nat.not_lt.mpr h]
theorem sliceSet_oob (dm : Slice) (a : Nat) (v : U8) (h : dm.length ≤ a) : sliceSet dm a v = dm := by
  simp [sliceSet, Nat.not_lt.mpr h]
@[simp] theorem sliceSet_length (dm : Slice) (a : Nat) (v : U8) : (sliceSet dm a v).length = dm.length := by
  unfold sliceSet; split <;> simp
theorem slicePut_length (dm dm' : Slice) (a : Nat) (data : List U8) (h : slicePut dm a data = some dm') :
    dm'.length = dm.length := by
  unfold slicePut at h
  split at h
  · cases h; simp; omega
  · cases h

/-- read after write -/
theorem sliceGet_set (dm : Slice) (a b : Nat) (v : U8) :
    sliceGet (sliceSet dm a v) b = if b = a ∧ a < dm.length then v else sliceGet dm b := by
  unfold sliceSet sliceGet
  by_cases ha : a < dm.length
  · by_cases hb : b < dm.length
    · by_cases hab : b = a
      · subst hab; simp [ha]
      · simp [ha, hb, hab, List.getD_eq_getElem?_getD, List.getElem_set_ne (fun e => hab e.symm)]
    · have : b ≠ a := fun e => hb (e ▸ ha)
      simp [ha, hb, this]
  · simp [ha]

/-- read after Put: inside the block the block's byte, elsewhere unchanged -/
theorem sliceGet_put (dm dm' : Slice) (a b : Nat) (data : List U8) (h : slicePut dm a data = some dm') :
    sliceGet dm' b = if h' : a ≤ b ∧ b < a + data.length then data[b - a]'(by omega) else sliceGet dm b := by
  unfold slicePut at h
  split at h
  · rename_i hle
    cases h
    unfold sliceGet
    have hlen : (dm.take a ++ data ++ dm.drop (a + data.length)).length = dm.length := by simp; omega
    rw [hlen]
    by_cases hb : b < dm.length
    · simp only [hb, if_true, List.getD_eq_getElem?_getD]
      by_cases h1 : b < a
      · have : ¬ (a ≤ b ∧ b < a + data.length) := by omega
        simp only [this, dite_false]
        rw [List.append_assoc, List.getElem?_append_left (by simp; omega)]
        simp [List.getElem?_take, h1]
      · by_cases h2 : b < a + data.length
        · have hin : a ≤ b ∧ b < a + data.length := ⟨by omega, h2⟩
          simp only [hin, and_self, dite_true]
          rw [List.append_assoc, List.getElem?_append_right (by simp; omega)]
          have : (List.take a dm).length = a := by simp; omega
          rw [this, List.getElem?_append_left (by omega)]
          simp [List.getElem?_eq_getElem (show b - a < data.length by omega)]
        · have : ¬ (a ≤ b ∧ b < a + data.length) := by omega
          simp only [this, dite_false]
          rw [List.getElem?_append_right (by simp; omega)]
          have : (List.take a dm ++ data).length = a + data.length := by simp; omega
          rw [this, List.getElem?_drop]
          congr 2; omega
    · have : ¬ (a ≤ b ∧ b < a + data.length) := by omega
      simp [hb, this]
  · cases h

/-- a history of writes to one slice (newest first) -/
inductive SOp | set (a : Nat) (v : U8) | put (a : Nat) (data : List U8)

/-- the slice after the history (a Put outside the slice panics in Go and changes nothing) -/
def sliceAfter (n : Nat) : List SOp → Slice
  | [] => List.replicate n 0#8
  | .set a v :: older => sliceSet (sliceAfter n older) a v
  | .put a data :: older => (slicePut (sliceAfter n older) a data).getD (sliceAfter n older)

/-- the specification: the value last written to address b, if any -/
def lastWritten (n : Nat) : List SOp → Nat → Option U8
  | [], _ => none
  | .set a v :: older, b => if b = a ∧ a < n then some v else lastWritten n older b
  | .put a data :: older, b =>
    if a + data.length ≤ n ∧ a ≤ b ∧ b < a + data.length then data[b - a]? else lastWritten n older b

theorem sliceAfter_length (n : Nat) (h : List SOp) : (sliceAfter n h).length = n := by
  induction h with
  | nil => simp [sliceAfter]
  | cons op older ih =>
    cases op with
    | set a v => simp [sliceAfter, ih]
    | put a data =>
      simp only [sliceAfter]
      cases hp : slicePut (sliceAfter n older) a data with
      | none => simpa using ih
      | some dm' => simp [slicePut_length _ _ _ _ hp, ih]

/-- THE slice theorem: for every length and every history, Get returns the value last written, or 0 —
    in particular 0 beyond the slice, where writes are ignored -/
theorem C15_slice (n : Nat) (h : List SOp) (b : Nat) :
    sliceGet (sliceAfter n h) b = (lastWritten n h b).getD 0#8 := by
  induction h with
  | nil =>
    simp only [sliceAfter, lastWritten, sliceGet, Option.getD_none, List.length_replicate]
    split
    · rename_i hb; simp [List.getD_eq_getElem?_getD, hb]
    · rfl
  | cons op older ih =>
    cases op with
    | set a v =>
      simp only [sliceAfter, lastWritten, sliceGet_set, sliceAfter_length]
      split <;> simp [ih]
    | put a data =>
      simp only [sliceAfter, lastWritten]
      cases hp : slicePut (sliceAfter n older) a data with
      | none =>
        have : ¬ (a + data.length ≤ n) := by
          intro hle; simp [slicePut, sliceAfter_length, hle] at hp
        simp [this, ih]
      | some dm' =>
        have hle : a + data.length ≤ n := by
          by_cases hle : a + data.length ≤ n
          · exact hle
          · simp [slicePut, sliceAfter_length, hle] at hp
        simp only [Option.getD_some, sliceGet_put _ _ _ _ _ hp, hle, true_and]
        split
        · rename_i hin; simp [List.getElem?_eq_getElem (show b - a < data.length by omega)]
        · exact ih
/-- beyond the slice: reads 0 whatever happened before -/
theorem C15_slice_oob (n : Nat) (h : List SOp) (b : Nat) (hb : n ≤ b) : sliceGet (sliceAfter n h) b = 0#8 :=
  sliceGet_oob _ _ (by rw [sliceAfter_length]; exact hb)

-- ---------------------------------------------------------------------------
-- MapMemory contents

@[simp] theorem mapGet_nil (a : U16) : mapGet [] a = 0xC7#8 := rfl
theorem mapGet_set (m : Assoc) (a b : U16) (v : U8) : mapGet (mapSet m a v) b = if b = a then v else mapGet m b := by
  unfold mapGet mapSet assocGet?
  by_cases h : b = a
  · subst h; simp
  · have : (a == b) = false := by simp; exact fun e => h e.symm
    simp [List.find?, this, h]
theorem assocGet?_set (m : Assoc) (a b : U16) (v : U8) :
    assocGet? (mapSet m a v) b = if b = a then some v else assocGet? m b := by
  unfold mapSet assocGet?
  by_cases h : b = a
  · subst h; simp
  · have : (a == b) = false := by simp; exact fun e => h e.symm
    simp [List.find?, this, h]

/-- Put stores consecutive bytes from a, wrapping past 0xFFFF (blocks of at most 65536 bytes) -/
theorem mapGet_put (data : List U8) : ∀ (m : Assoc) (a b : U16), data.length ≤ 65536 →
    mapGet (mapPut m a data) b =
      if h : (b - a).toNat < data.length then data[(b - a).toNat] else mapGet m b := by
  induction data with
  | nil => intro m a b _; simp [mapPut]
  | cons v rest ih =>
    intro m a b hlen
    simp only [mapPut, List.length_cons] at *
    rw [ih (mapSet m a v) (a + 1#16) b (by omega)]
    by_cases hba : b = a
    · subst hba
      have h0 : (b - b).toNat = 0 := by simp
      have h1 : (b - (b + 1#16)).toNat = 65535 := by
        have : b - (b + 1#16) = 0xffff#16 := by bv_omega
        rw [this]; rfl
      have : ¬ (65535 < rest.length) := by omega
      simp [h0, h1, this, mapGet_set]
    · have hne : (b - a).toNat ≠ 0 := by
        intro e; apply hba
        have : b - a = 0#16 := BitVec.eq_of_toNat_eq (by simpa using e)
        bv_omega
      have hs : (b - (a + 1#16)).toNat = (b - a).toNat - 1 := by bv_omega
      rw [hs, mapGet_set]
      simp only [hba, if_false]
      by_cases hlt : (b - a).toNat < rest.length + 1
      · have : (b - a).toNat - 1 < rest.length := by omega
        rw [dif_pos this, dif_pos hlt, List.getElem_cons, dif_neg hne]
      · have : ¬ ((b - a).toNat - 1 < rest.length) := by omega
        rw [dif_neg this, dif_neg hlt]

/-- a history of writes to one map (newest first) -/
inductive MOp | set (a : U16) (v : U8) | put (a : U16) (data : List U8) | clear

def mapAfter : List MOp → Assoc
  | [] => []
  | .set a v :: older => mapSet (mapAfter older) a v
  | .put a data :: older => mapPut (mapAfter older) a data
  | .clear :: _ => []

def lastWrittenM : List MOp → U16 → Option U8
  | [], _ => none
  | .set a v :: older, b => if b = a then some v else lastWrittenM older b
  | .put a data :: older, b => if (b - a).toNat < data.length then data[(b - a).toNat]? else lastWrittenM older b
  | .clear :: _, _ => none

/-- THE map theorem: for every history of Set / Put (blocks up to 64 KiB) / Clear, Get returns the value last
    written since the last Clear, or 0xC7 -/
theorem C15_map (h : List MOp) (hput : ∀ a data, MOp.put a data ∈ h → data.length ≤ 65536) (b : U16) :
    mapGet (mapAfter h) b = (lastWrittenM h b).getD 0xC7#8 := by
  induction h with
  | nil => rfl
  | cons op older ih =>
    have ih' := ih (fun a d hm => hput a d (List.mem_cons_of_mem _ hm))
    cases op with
    | set a v => simp only [mapAfter, lastWrittenM, mapGet_set]; split <;> simp [ih']
    | put a data =>
      simp only [mapAfter, lastWrittenM]
      rw [mapGet_put data _ a b (hput a data (List.mem_cons_self ..))]
      split
      · rename_i hlt; simp only [List.getElem?_eq_getElem hlt, Option.getD_some]
      · exact ih'
    | clear => rfl

-- ---------------------------------------------------------------------------
-- Equal

theorem assocGet?_mem (m : Assoc) (a : U16) (v : U8) (h : assocGet? m a = some v) : ∃ kv ∈ m, kv.1 = a := by
  unfold assocGet? at h
  cases hf : m.find? (fun kv => kv.1 == a) with
  | none => simp [hf] at h
  | some kv =>
    refine ⟨kv, List.mem_of_find?_eq_some hf, ?_⟩
    have := List.find?_some hf
    simpa using this

/-- Equal is true exactly when both maps hold the same keys with the same values -/
theorem C15_equal (m₁ m₂ : Assoc) : mapEqual m₁ m₂ = true ↔ ∀ a, assocGet? m₁ a = assocGet? m₂ a := by
  unfold mapEqual
  simp only [Bool.and_eq_true, List.all_eq_true, beq_iff_eq]
  constructor
  · intro ⟨h1, h2⟩ a
    cases e1 : assocGet? m₁ a with
    | some v =>
      obtain ⟨kv, hkv, rfl⟩ := assocGet?_mem m₁ a v e1
      rw [← e1]; exact (h1 kv hkv).symm
    | none =>
      cases e2 : assocGet? m₂ a with
      | none => rfl
      | some v =>
        obtain ⟨kv, hkv, rfl⟩ := assocGet?_mem m₂ a v e2
        rw [← e1, ← e2]; exact (h2 kv hkv)
  · intro h
    exact ⟨fun kv _ => (h kv.1).symm, fun kv _ => h kv.1⟩

/-- in particular equal maps read the same everywhere, and a map differs from one with an extra/changed entry -/
theorem C15_equal_reads (m₁ m₂ : Assoc) (h : mapEqual m₁ m₂ = true) (a : U16) : mapGet m₁ a = mapGet m₂ a := by
  unfold mapGet; rw [(C15_equal m₁ m₂).mp h a]
theorem C15_equal_refl (m : Assoc) : mapEqual m m = true := (C15_equal m m).mpr fun _ => rfl
theorem C15_unequal_after_write (m : Assoc) (a : U16) (v : U8) (h : assocGet? m a ≠ some v) :
    mapEqual m (mapSet m a v) = false := by
  cases e : mapEqual m (mapSet m a v) with
  | false => rfl
  | true =>
    have := (C15_equal _ _).mp e a
    rw [assocGet?_set] at this
    simp at this
    exact absurd this h

-- ---------------------------------------------------------------------------
-- the heap: Clone independence, Clear, Equal on handles

/-- storing into object i does not change any other object -/
theorem store_other (w : World) (i j : Nat) (o : Obj) (h : j ≠ i) : (w.store i o).heap[j]? = w.heap[j]? := by
  simp [World.store, List.getElem?_set, Ne.symm h]
theorem alloc_old (w : World) (o : Obj) (j : Nat) (h : j < w.heap.length) : (w.alloc o).1.heap[j]? = w.heap[j]? := by
  simp [World.alloc, List.getElem?_append_left h]
theorem alloc_new (w : World) (o : Obj) : (w.alloc o).1.heap[(w.alloc o).2]? = some o := by
  simp [World.alloc]
theorem alloc_fresh (w : World) (o : Obj) : (w.alloc o).2 = w.heap.length := rfl

/-- every handle held by a variable refers to an allocated object -/
def WF (w : World) : Prop :=
  ∀ r h, w.var r = some h → match h with
    | .dm i | .dio i | .mm (some i) => i < w.heap.length
    | _ => True

/-- the clone's contents answer every read as the source does -/
theorem cloneOf_get (m : Assoc) (a : U16) : mapGet (cloneOf m) a = mapGet m a := by
  unfold mapGet cloneOf
  have := Z80.Proofs.Assoc.find_live_reverse m a
  unfold GoStore.assocFind at this
  unfold assocGet?
  rw [this]

/-- Clone: the new variable holds a FRESH object (no existing handle refers to it) whose contents equal the source's -/
theorem C15_clone_fresh (w : World) (r src i : Nat) (m : Assoc) (hwf : WF w)
    (hs : w.var src = some (.mm (some i))) (hm : w.map? i = some m) :
    let w' := (step w (.clone r src)).1
    w'.var r = some (.mm (some w.heap.length)) ∧ w'.map? w.heap.length = some (cloneOf m) ∧ (∀ a, mapGet (cloneOf m) a = mapGet m a) ∧
    (∀ q h, w.var q = some h → h ≠ .mm (some w.heap.length)) ∧
    (∀ j, j < w.heap.length → w'.heap[j]? = w.heap[j]?) := by
  simp only [step, hs, hm]
  refine ⟨?_, ?_, cloneOf_get m, ?_, ?_⟩
  · simp [World.var, World.bind, World.alloc]
  · simp [World.map?, World.bind, World.alloc]
  · intro q h hq e
    subst e
    have := hwf q _ hq
    simp at this
  · intro j hj
    simp [World.bind, World.alloc, List.getElem?_append_left hj]

/-- … therefore writing through one of the two handles never changes what the other shows: a write to object j
    leaves every other object — in particular the clone's source, or the clone — as it was -/
theorem C15_clone_independent (w : World) (i j : Nat) (o : Obj) (h : i ≠ j) (a : U16) (m : Assoc)
    (hm : w.map? i = some m) : (w.store j o).map? i = some m := by
  unfold World.map? at *
  rw [store_other w j i o h]; exact hm

/-- Clear empties the map (every address reads the default again) -/
theorem C15_clear (w : World) (r i : Nat) (m : Assoc) (hs : w.var r = some (.mm (some i))) (hm : w.map? i = some m)
    (hi : i < w.heap.length) : (step w (.clear r)).1.map? i = some [] ∧ ∀ a, mapGet [] a = 0xC7#8 := by
  have hh : w.heap[i]? = some (.map m) := by
    unfold World.map? at hm
    split at hm <;> simp_all
  simp only [step, hs, hm]
  simp [World.map?, World.store, List.getElem?_set, hi]

/-- Equal on handles: a non-MapMemory argument is never equal; two initialised maps are equal iff same contents -/
theorem C15_equal_other (w : World) (r a : Nat) (x : Option Nat) (hr : w.var r = some (.mm x)) (ha : w.var a = some .other) :
    (step w (.equal r a)).2 = .bool false := by
  simp [step, hr, ha]
theorem C15_equal_maps (w : World) (r a i j : Nat) (m₁ m₂ : Assoc)
    (hr : w.var r = some (.mm (some i))) (ha : w.var a = some (.mm (some j)))
    (h1 : w.map? i = some m₁) (h2 : w.map? j = some m₂) :
    (step w (.equal r a)).2 = .bool (mapEqual m₁ m₂) := by
  simp [step, hr, ha, h1, h2]


-- (the tie of these functions to memio.go is Props/C15Gen.lean: every translated method IS the model's function)


-- non-vacuity: a short slice, a write beyond it, a wrapping Put
example : sliceGet (sliceAfter 4 [.set 9 0x55#8, .set 2 0x11#8]) 2 = 0x11#8 ∧
          sliceGet (sliceAfter 4 [.set 9 0x55#8, .set 2 0x11#8]) 9 = 0#8 := by decide
example : mapGet (mapAfter [.put 0xffff#16 [1#8, 2#8, 3#8]]) 0x0001#16 = 3#8 ∧
          mapGet (mapAfter [.put 0xffff#16 [1#8, 2#8, 3#8]]) 0x0002#16 = 0xC7#8 := by decide

end Z80.Props.C15
