/-
  Driver — reads vectors on stdin, runs the GENERATED model (Z80.Gen) or the hand-written
  reference (Z80.Spec) on them and prints one canonical result line per vector.
  Usage: lake env lean --run Driver.lean [gen|spec]
-/
import Z80.Proto
import Z80.Gen.All
import Z80.Spec.Koron
import Z80.Spec.Interrupt
import Z80.Spec.KoronIM0
import Z80.Spec.KoronIM0B
import Z80.RunModel
import Z80.Gen.TinyCPM

open Z80 Z80.Proto

/-- reference step; mode-0 requests outside the defined part of the specification are skipped -/
def specStep : M Unit := fun s =>
  match s.Interrupt with
  | none => Z80.Spec.step Z80.Spec.Impl.koron s
  | some i =>
    if !Z80.Spec.isNMI i && s.IFF1 && s.IM == 0 && !i.Data.isEmpty && !Z80.Spec.im0Defined i.Data then .panic "skip"
    else Z80.Spec.step Z80.Spec.Impl.koron s

/-- hand-written reference of `Run` over a given step function: discard HALT, then Step until the stop rule holds
    (breakpoint before HALT); `none` = fuel exhausted -/
def refRun (step : M Unit) (fuel : Nat) (s : St) : Option (String × St) :=
  let rec go : Nat → St → Option (String × St)
    | 0, _ => none
    | f+1, s =>
      match step s with
      | .panic w => some ("panic:" ++ w, s)
      | .ok _ t => if bpHas t.BreakPoints t.PC then some ("bp", t) else if t.HALT then some ("nil", t) else go f t
  go fuel { s with HALT := false }

/-- `Run` of the GENERATED model (never cancelled) -/
def genRun (fuel : Nat) (s : St) : Option (String × St) :=
  match Z80.run (fun _ => false) fuel s with
  | .running => none
  | .panicked => some ("panic", s)
  | .done .nil t => some ("nil", t)
  | .done .errBreakPoint t => some ("bp", t)
  | .done .ctxErr t => some ("ctx", t)

/-- the tinycpm machine: zero memory, the BIOS pages from the REGENERATED table, then the vector's overrides;
    a device that answers 0; console = bytes written to port 0; every other port access is a warning -/
def cpmState (v : Vec) (line : String) : St :=
  let toks := (line.splitOn " ").filter (· ≠ "")
  let mo := match toks.dropWhile (· ≠ "MO") with | _ :: x :: _ => x | _ => "-"
  let ovs := (parseOverrides mo).getD []
  let bios : List (U16 × List U8) := Z80.Gen.cpmBios.map fun p => (BitVec.ofNat 16 p.1, p.2.map (BitVec.ofNat 8))
  let arr := (bios ++ ovs).foldl (fun (a : ByteArray) (p : U16 × List U8) =>
      (p.2.foldl (fun (q : ByteArray × Nat) b => (q.1.set! (q.2 % 65536) b.toNat.toUInt8, q.2 + 1)) (a, p.1.toNat)).1) (ByteArray.mk (Array.replicate 65536 0))
  { v.st with mem := arrMem arr, dev := fun _ _ => 0#8, IO := true, IFF1 := false, IFF2 := false, IM := 0,
              HALT := false, Interrupt := none, BreakPoints := none, RETNHandler := false, RETIHandler := false,
              IX := 0#16, IY := 0#16, IR := ⟨0#8, 0#8⟩, Alternate := default }

def cpmResult (id : String) (code : String) (s : St) : String :=
  let chron := s.log.reverse
  let outB := chron.filterMap fun e => match e with | .iow p v => if p == 0#8 then some v else none | _ => none
  let warns := (chron.filter fun e => match e with | .iow p _ => p != 0#8 | .ior _ _ => true | _ => false).length
  String.intercalate " " [id, "cpm", "PC", hex16 s.PC, "SP", hex16 s.SP, "HALT", b01 s.HALT, "OUT", (if outB.isEmpty then "-" else hexBytes outB),
    "WARN", toString warns, "RUN", code]

/-- N consecutive Run calls -/
def runCalls (run1 : St → Option (String × St)) : Nat → St → String → Option (String × St)
  | 0, s, codes => some (codes, s)
  | n+1, s, codes =>
    match run1 s with
    | none => none
    | some (c, t) => runCalls run1 n t (codes ++ " " ++ c)

partial def loop (h : IO.FS.Stream) (out : IO.FS.Stream) (step : M Unit) (isGen : Bool := false) : IO Unit := do
  let line ← h.getLine
  if line.isEmpty then return ()
  let line := line.trimAsciiEnd.toString
  if line.isEmpty then loop h out step else
  match parseVec line with
  | none => out.putStrLn ("? bad-vector " ++ line)
  | some v =>
    if v.kind == "cpm" then
      match (if isGen then genRun 60000 else refRun step 60000) (cpmState v line) with
      | some (code, s) => out.putStrLn (cpmResult v.id code s)
      | none => out.putStrLn (v.id ++ " running")
    else if v.kind == "run" then
      let run1 := if isGen then genRun 100000 else refRun step 100000
      match runCalls run1 (max v.steps 1) v.st "" with
      | some (codes, s) => out.putStrLn (resultStr v.id s ++ " RUN" ++ codes)
      | none => out.putStrLn (v.id ++ " running")
    else
    match runSteps step v with
    | .ok _ s => out.putStrLn (resultStr v.id s)
    | .panic w => out.putStrLn (v.id ++ " panic " ++ w)
  loop h out step isGen

def main (args : List String) : IO Unit := do
  let stdin ← IO.getStdin
  let stdout ← IO.getStdout
  match args with
  | ["spec"] => loop stdin stdout specStep
  | ["kf"] => loop stdin stdout (Z80.Spec.stepKFB Z80.Spec.Impl.koron)
  | ["kfold"] => loop stdin stdout (Z80.Spec.stepKF Z80.Spec.Impl.koron)
  | _ => loop stdin stdout Z80.Gen.Step true
