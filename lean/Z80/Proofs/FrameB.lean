/-
  Z80.Proofs.FrameB — facts about the bus-layer reference (SpecB), over ALL instructions and ALL Memory values:
    * it never panics (`execB_total`, `executeOneB_total`);
    * on the user memory it IS the reference of Z80/Spec (`execB_user`, `executeOneB_user`) — so the user-memory
      theorem `executeOne_eq` is a corollary of the bus-layer theorem `executeOne_eqB`;
    * it never changes the Memory value, the pending request or the breakpoint set.
-/
import Z80.Proofs.StepB
import Z80.Proofs.IM0B
import Z80.Proofs.Frame

namespace Z80
open Z80.Gen Z80.Spec
set_option maxRecDepth 8192

macro "frameB_fin" : tactic =>
  `(tactic| (simp [z80specb, z80spec, SpecB.rd8, SpecB.wr8, setFrame] <;> (repeat' (split <;> simp_all [setFrame]))))

macro "instr_casesB " i:ident : tactic => `(tactic| (
  cases $i:ident
  case ld8 d s' => cases d <;> cases s' <;> frameB_fin
  case alu op src => cases src <;> frameB_fin
  case bit b l => cases l <;> frameB_fin
  case res b l => cases l <;> frameB_fin
  case set b l => cases l <;> frameB_fin
  case rot k l => cases l <;> frameB_fin
  case inc8 l => cases l <;> frameB_fin
  case dec8 l => cases l <;> frameB_fin
  case ld8n l => cases l <;> frameB_fin
  case add16 d s' => cases d <;> cases s' <;> frameB_fin
  case blk k d r => cases k <;> frameB_fin
  case jpcc c => cases c <;> frameB_fin
  case jrcc c => cases c <;> frameB_fin
  case callcc c => cases c <;> frameB_fin
  case retcc c => cases c <;> frameB_fin
  all_goals first | frameB_fin | (rename_i a; cases a <;> frameB_fin)))

set_option maxHeartbeats 8000000 in
/-- no bus-layer instruction panics, whatever Memory value is installed -/
theorem execB_total (i : Instr) (s : St) : ∃ t, SpecB.exec Impl.koron i s = .ok () t := by
  instr_casesB i

macro "frameU_fin" : tactic =>
  `(tactic| (simp_all [z80specb, z80spec, SpecB.rd8, SpecB.wr8] <;> (repeat' (split <;> simp_all))))

macro "instr_casesU " i:ident : tactic => `(tactic| (
  cases $i:ident
  case ld8 d s' => cases d <;> cases s' <;> frameU_fin
  case alu op src => cases src <;> frameU_fin
  case bit b l => cases l <;> frameU_fin
  case res b l => cases l <;> frameU_fin
  case set b l => cases l <;> frameU_fin
  case rot k l => cases l <;> frameU_fin
  case inc8 l => cases l <;> frameU_fin
  case dec8 l => cases l <;> frameU_fin
  case ld8n l => cases l <;> frameU_fin
  case add16 d s' => cases d <;> cases s' <;> frameU_fin
  case blk k d r => cases k <;> frameU_fin
  case jpcc c => cases c <;> frameU_fin
  case jrcc c => cases c <;> frameU_fin
  case callcc c => cases c <;> frameU_fin
  case retcc c => cases c <;> frameU_fin
  all_goals first | frameU_fin | (rename_i a; cases a <;> frameU_fin)))

set_option maxHeartbeats 8000000 in
/-- on the user memory the bus-layer reference is the reference -/
theorem execB_user (i : Instr) (s : St) (h : s.Memory = .user) : SpecB.exec Impl.koron i s = exec Impl.koron i s := by
  instr_casesU i

/-- no bus-layer step panics, whatever Memory value is installed -/
theorem executeOneB_total (s : St) : ∃ t, SpecB.executeOne Impl.koron s = .ok () t := by
  have hopt : ∀ bytes oi s, ∃ t, SpecB.execOpt Impl.koron bytes oi s = .ok () t := by
    intro bytes oi s
    cases oi with
    | some i => exact execB_total i s
    | none => exact ⟨_, rfl⟩
  simp only [SpecB.executeOne, SpecB.fetchM1, SpecB.fetch, SpecB.rd8, bind_run, getSt_run, busGet_run, Res.bind_ok, modifySt_run,
    pure_run, SpecB.execMain, SpecB.execXY, SpecB.execXYtail, SpecB.execXYCB, ite_run]
  split
  · exact execB_total _ _
  split
  · exact hopt _ _ _
  split
  · split
    · split <;> simp only [SpecB.fetchM1, SpecB.fetch, SpecB.rd8, bind_run, getSt_run, busGet_run, Res.bind_ok, modifySt_run, pure_run] <;>
        exact hopt _ _ _
    · exact hopt _ _ _
  split
  · split
    · split <;> simp only [SpecB.fetchM1, SpecB.fetch, SpecB.rd8, bind_run, getSt_run, busGet_run, Res.bind_ok, modifySt_run, pure_run] <;>
        exact hopt _ _ _
    · exact hopt _ _ _
  · exact hopt _ _ _

/-- on the user memory the bus-layer step is the reference step: `executeOne_eq` is a corollary of `executeOne_eqB` -/
theorem executeOneB_user (s : St) (h : s.Memory = .user) : SpecB.executeOne Impl.koron s = Spec.executeOne Impl.koron s := by
  have hopt : ∀ bytes oi (u : St), u.Memory = .user → SpecB.execOpt Impl.koron bytes oi u = execOpt Impl.koron bytes oi u := by
    intro bytes oi u hu
    cases oi with
    | some i => exact execB_user i u hu
    | none => rfl
  simp only [SpecB.executeOne, SpecB.fetchM1, SpecB.fetch, SpecB.rd8, Spec.executeOne, Spec.fetchM1, Spec.fetch, rd8, bind_run, getSt_run,
    busGet_run, userGet_run, Res.bind_ok, modifySt_run, pure_run, SpecB.execMain, SpecB.execXY, SpecB.execXYtail, SpecB.execXYCB,
    execMain, execXY, execXYtail, execXYCB, ite_run, h, busRead_user, busEvR_user, List.singleton_append]
  split
  · exact execB_user _ _ (by simp [h])
  split
  · exact hopt _ _ _ (by simp [h])
  split
  · split
    · split <;> simp only [SpecB.fetchM1, SpecB.fetch, SpecB.rd8, Spec.fetchM1, Spec.fetch, rd8, bind_run, getSt_run, busGet_run, userGet_run,
        Res.bind_ok, modifySt_run, pure_run, h, busRead_user, busEvR_user, List.singleton_append] <;> exact hopt _ _ _ (by simp [h])
    · exact hopt _ _ _ (by simp [h])
  split
  · split
    · split <;> simp only [SpecB.fetchM1, SpecB.fetch, SpecB.rd8, Spec.fetchM1, Spec.fetch, rd8, bind_run, getSt_run, busGet_run, userGet_run,
        Res.bind_ok, modifySt_run, pure_run, h, busRead_user, busEvR_user, List.singleton_append] <;> exact hopt _ _ _ (by simp [h])
    · exact hopt _ _ _ (by simp [h])
  · exact hopt _ _ _ (by simp [h])

/-- … so the user-memory theorem follows from the bus-layer theorem (independent second derivation of `executeOne_eq`) -/
theorem executeOne_eq_via_bus (s : St) (h : s.Memory = .user) : Gen.executeOne s = Spec.executeOne Impl.koron s := by
  rw [executeOne_eqB, executeOneB_user s h]

/-- the regenerated executeOne never panics — EVERY state, EVERY Memory value (user memory, mode-0 overlay, …) -/
theorem gen_executeOne_total (s : St) : ∃ t, Gen.executeOne s = .ok () t := by
  rw [executeOne_eqB]; exact executeOneB_total s

/-- mode 0 with ANY supplied bytes: Step returns normally, for EVERY state -/
theorem step_im0_total (s : St) (i : Interrupt) (hi : s.Interrupt = some i) (hn : i.Type_ ≠ 0)
    (hf : s.IFF1 = true) (him : s.IM = 0) (hd : i.Data ≠ []) : ∃ t, Gen.Step s = .ok () t := by
  rw [step_im0_any s i hi hn hf him hd]
  simp only [Spec.im0StepB, bind_run, getSt_run, Res.bind_ok, modifySt_run]
  obtain ⟨t, ht⟩ := executeOneB_total { s with Memory := Spec.im0Overlay s i.Data }
  simp only [ht, Res.bind_ok]
  exact ⟨_, rfl⟩

end Z80
