package main

// Line protocol shared with the Lean driver (see /verif/lean/Z80/Proto.lean and DESIGN.md app. B).

import (
	"fmt"
	"sort"
	"strconv"
	"strings"

	"github.com/koron-go/z80"
)

type Intr struct {
	Type int
	Data []uint8
}

type Inject struct {
	At   int
	Intr Intr
}

type Vec struct {
	ID      string
	W       [13]uint16 // AF BC DE HL AF' BC' DE' HL' IR IX IY SP PC
	IFF1    bool
	IFF2    bool
	HALT    bool
	IM      int
	HasIO   bool
	HasRN   bool
	HasRI   bool
	Intr    *Intr
	MemSeed uint
	Over    []Override
	DevSeed uint
	N       int
	Inj     []Inject
	BP      string // "nil", "-" or comma separated hex addresses
	Kind    string
}

type Override struct {
	Addr  uint16
	Bytes []uint8
}

func intStr(i int) string {
	if i < 0 {
		return "m" + strconv.Itoa(-i)
	}
	return strconv.Itoa(i)
}

func parseInt(s string) (int, error) {
	if strings.HasPrefix(s, "m") {
		v, err := strconv.Atoi(s[1:])
		return -v, err
	}
	return strconv.Atoi(s)
}

func hexBytes(b []uint8) string {
	var sb strings.Builder
	for _, x := range b {
		fmt.Fprintf(&sb, "%02x", x)
	}
	return sb.String()
}

func parseHexBytes(s string) ([]uint8, error) {
	if len(s)%2 != 0 {
		return nil, fmt.Errorf("odd hex")
	}
	out := make([]uint8, 0, len(s)/2)
	for i := 0; i < len(s); i += 2 {
		v, err := strconv.ParseUint(s[i:i+2], 16, 8)
		if err != nil {
			return nil, err
		}
		out = append(out, uint8(v))
	}
	return out, nil
}

func (i *Intr) String() string {
	if i == nil {
		return "-"
	}
	return intStr(i.Type) + ":" + hexBytes(i.Data)
}

func parseIntr(s string) (*Intr, error) {
	if s == "-" {
		return nil, nil
	}
	p := strings.SplitN(s, ":", 2)
	if len(p) != 2 {
		return nil, fmt.Errorf("bad interrupt %q", s)
	}
	t, err := parseInt(p[0])
	if err != nil {
		return nil, err
	}
	d, err := parseHexBytes(p[1])
	if err != nil {
		return nil, err
	}
	return &Intr{Type: t, Data: d}, nil
}

func b01(b bool) string {
	if b {
		return "1"
	}
	return "0"
}

func (v *Vec) String() string {
	var sb strings.Builder
	sb.WriteString(v.ID)
	sb.WriteString(" S")
	for _, w := range v.W {
		fmt.Fprintf(&sb, " %04x", w)
	}
	fmt.Fprintf(&sb, " %s%s%s %s %s%s%s I %s MS %d MO ", b01(v.IFF1), b01(v.IFF2), b01(v.HALT), intStr(v.IM),
		b01(v.HasIO), b01(v.HasRN), b01(v.HasRI), v.Intr.String(), v.MemSeed)
	if len(v.Over) == 0 {
		sb.WriteString("-")
	} else {
		for i, o := range v.Over {
			if i > 0 {
				sb.WriteString(",")
			}
			fmt.Fprintf(&sb, "%04x=%s", o.Addr, hexBytes(o.Bytes))
		}
	}
	fmt.Fprintf(&sb, " DS %d N %d INJ ", v.DevSeed, v.N)
	if len(v.Inj) == 0 {
		sb.WriteString("-")
	} else {
		for i, in := range v.Inj {
			if i > 0 {
				sb.WriteString(";")
			}
			fmt.Fprintf(&sb, "%d@%s", in.At, in.Intr.String())
		}
	}
	bp := v.BP
	if bp == "" {
		bp = "nil"
	}
	kind := v.Kind
	if kind == "" {
		kind = "step"
	}
	fmt.Fprintf(&sb, " BP %s K %s", bp, kind)
	return sb.String()
}

func parseVec(line string) (*Vec, error) {
	t := strings.Fields(line)
	if len(t) < 33 {
		return nil, fmt.Errorf("short vector (%d fields)", len(t))
	}
	v := &Vec{ID: t[0]}
	if t[1] != "S" {
		return nil, fmt.Errorf("expected S")
	}
	for i := 0; i < 13; i++ {
		w, err := strconv.ParseUint(t[2+i], 16, 16)
		if err != nil {
			return nil, err
		}
		v.W[i] = uint16(w)
	}
	fl := t[15]
	v.IFF1, v.IFF2, v.HALT = fl[0] == '1', fl[1] == '1', fl[2] == '1'
	var err error
	if v.IM, err = parseInt(t[16]); err != nil {
		return nil, err
	}
	caps := t[17]
	v.HasIO, v.HasRN, v.HasRI = caps[0] == '1', caps[1] == '1', caps[2] == '1'
	// t[18] == "I"
	if v.Intr, err = parseIntr(t[19]); err != nil {
		return nil, err
	}
	ms, err := strconv.ParseUint(t[21], 10, 32)
	if err != nil {
		return nil, err
	}
	v.MemSeed = uint(ms)
	if t[23] != "-" {
		for _, item := range strings.Split(t[23], ",") {
			p := strings.SplitN(item, "=", 2)
			a, err := strconv.ParseUint(p[0], 16, 16)
			if err != nil {
				return nil, err
			}
			bs, err := parseHexBytes(p[1])
			if err != nil {
				return nil, err
			}
			v.Over = append(v.Over, Override{uint16(a), bs})
		}
	}
	ds, err := strconv.ParseUint(t[25], 10, 32)
	if err != nil {
		return nil, err
	}
	v.DevSeed = uint(ds)
	if v.N, err = strconv.Atoi(t[27]); err != nil {
		return nil, err
	}
	if t[29] != "-" {
		for _, item := range strings.Split(t[29], ";") {
			p := strings.SplitN(item, "@", 2)
			k, err := strconv.Atoi(p[0])
			if err != nil {
				return nil, err
			}
			in, err := parseIntr(p[1])
			if err != nil || in == nil {
				return nil, fmt.Errorf("bad injection")
			}
			v.Inj = append(v.Inj, Inject{k, *in})
		}
	}
	v.BP = t[31]
	v.Kind = t[33]
	return v, nil
}

// ---------------------------------------------------------------------------
// the outside world: recording memory, device, handlers

type Ev struct {
	K byte // r w i o N I W
	A uint16
	V uint8
	B []uint8
}

func (e Ev) String() string {
	switch e.K {
	case 'r', 'w':
		return fmt.Sprintf("%c%04x%02x", e.K, e.A, e.V)
	case 'i', 'o':
		return fmt.Sprintf("%c%02x%02x", e.K, e.A, e.V)
	case 'N', 'I':
		return string(e.K)
	case 'W':
		return "W" + hexBytes(e.B)
	}
	return "?"
}

func (e Ev) code() uint64 {
	switch e.K {
	case 'r':
		return 1*16777216 + uint64(e.A)*256 + uint64(e.V)
	case 'w':
		return 2*16777216 + uint64(e.A)*256 + uint64(e.V)
	case 'i':
		return 3*16777216 + uint64(e.A)*256 + uint64(e.V)
	case 'o':
		return 4*16777216 + uint64(e.A)*256 + uint64(e.V)
	case 'N':
		return 5 * 16777216
	case 'I':
		return 6 * 16777216
	case 'W':
		h := uint64(7 * 16777216)
		for _, b := range e.B {
			h = (h*257 + uint64(b) + 1) % 4294967296
		}
		return h
	}
	return 0
}

type World struct {
	memSeed  uint
	devSeed  uint
	mem      map[uint16]uint8
	log      []Ev
	nPort    int
	written  map[uint16]bool
	onAccess func(w *World, e Ev) // optional callback (devices that raise interrupts)
	reqs     []reqRec             // every request object handed to the CPU in this run, with the bytes it was built from
	bp0      []uint16             // the breakpoint set as it was handed over (the host's map: read-only for the CPU)
	bpNil    bool
}

// reqRec: a request object belongs to the host: the CPU may read it and drop its pointer, never change it
type reqRec struct {
	obj  *z80.Interrupt
	ty   int
	data []uint8
}

func memDefault(seed uint, a uint16) uint8 {
	h := ((uint64(a) + 1) * (uint64(seed)*2 + 1)) % 65537
	return uint8(h ^ (h / 128))
}

func devFn(seed uint, p uint8, n int) uint8 {
	return uint8(((uint64(p)+1)*(uint64(seed)*2+1) + uint64(n)*97) % 257)
}

func newWorld(v *Vec) *World {
	w := &World{memSeed: v.MemSeed, devSeed: v.DevSeed, mem: map[uint16]uint8{}, written: map[uint16]bool{}}
	for _, o := range v.Over {
		a := o.Addr
		for _, b := range o.Bytes {
			w.mem[a] = b
			a++
		}
	}
	return w
}

func (w *World) peek(a uint16) uint8 {
	if v, ok := w.mem[a]; ok {
		return v
	}
	return memDefault(w.memSeed, a)
}

func (w *World) add(e Ev) {
	w.log = append(w.log, e)
	if w.onAccess != nil {
		w.onAccess(w, e)
	}
}

type recMem struct{ w *World }

func (m recMem) Get(a uint16) uint8 {
	v := m.w.peek(a)
	m.w.add(Ev{K: 'r', A: a, V: v})
	return v
}
func (m recMem) Set(a uint16, v uint8) {
	m.w.mem[a] = v
	m.w.written[a] = true
	m.w.add(Ev{K: 'w', A: a, V: v})
}

// nilPtrDev: see buildCPU
type nilPtrDev struct{ _ int }

func (d *nilPtrDev) In(p uint8) uint8     { return recIO{curWorld}.In(p) }
func (d *nilPtrDev) Out(p uint8, v uint8) { recIO{curWorld}.Out(p, v) }

type recIO struct{ w *World }

func (d recIO) In(p uint8) uint8 {
	v := devFn(d.w.devSeed, p, d.w.nPort)
	d.w.nPort++
	d.w.add(Ev{K: 'i', A: uint16(p), V: v})
	return v
}
func (d recIO) Out(p uint8, v uint8) {
	d.w.nPort++
	d.w.add(Ev{K: 'o', A: uint16(p), V: v})
}

type recRETN struct{ w *World }

func (h recRETN) RETNHandle() { h.w.add(Ev{K: 'N'}) }

type recRETI struct{ w *World }

func (h recRETI) RETIHandle() { h.w.add(Ev{K: 'I'}) }

// warnWriter receives log.Printf output of cpu.warnf
type warnWriter struct{ cur **World }

func (ww warnWriter) Write(p []byte) (int, error) {
	s := string(p)
	if i := strings.Index(s, "ignored: "); i >= 0 && *ww.cur != nil {
		hx := strings.TrimSpace(s[i+len("ignored: "):])
		b, err := parseHexBytes(strings.ToLower(hx))
		if err != nil {
			b = []uint8{}
		}
		(*ww.cur).add(Ev{K: 'W', B: b})
	} else if *ww.cur != nil {
		(*ww.cur).add(Ev{K: 'W', B: []uint8{0xEE}})
	}
	return len(p), nil
}

func buildCPU(v *Vec, w *World) *z80.CPU {
	r := func(x uint16) z80.Register { return z80.Register{Hi: uint8(x >> 8), Lo: uint8(x)} }
	cpu := &z80.CPU{}
	cpu.AF, cpu.BC, cpu.DE, cpu.HL = r(v.W[0]), r(v.W[1]), r(v.W[2]), r(v.W[3])
	cpu.Alternate.AF, cpu.Alternate.BC, cpu.Alternate.DE, cpu.Alternate.HL = r(v.W[4]), r(v.W[5]), r(v.W[6]), r(v.W[7])
	cpu.IR = r(v.W[8])
	cpu.IX, cpu.IY, cpu.SP, cpu.PC = v.W[9], v.W[10], v.W[11], v.W[12]
	cpu.IFF1, cpu.IFF2, cpu.HALT, cpu.IM = v.IFF1, v.IFF2, v.HALT, v.IM
	cpu.Memory = recMem{w}
	if v.HasIO {
		if curWorld == w && v.DevSeed%5 == 2 {
			// the same device as a TYPED NIL POINTER whose methods never touch the receiver (a stateless device declared as `var d *T`):
			// it is a device like any other.  Only on the sequential paths, where curWorld is this run's world.
			cpu.IO = (*nilPtrDev)(nil)
		} else {
			cpu.IO = recIO{w}
		}
	}
	if v.HasRN {
		cpu.RETNHandler = recRETN{w}
	}
	if v.HasRI {
		cpu.RETIHandler = recRETI{w}
	}
	if v.Intr != nil {
		cpu.Interrupt = mkIntr(w, v.Intr.Type, v.Intr.Data)
	}
	switch v.BP {
	case "nil", "":
	case "-":
		cpu.BreakPoints = map[uint16]struct{}{}
	default:
		cpu.BreakPoints = map[uint16]struct{}{}
		for _, a := range strings.Split(v.BP, ",") {
			x, _ := strconv.ParseUint(a, 16, 16)
			cpu.BreakPoints[uint16(x)] = struct{}{}
		}
	}
	w.bp0, w.bpNil = nil, cpu.BreakPoints == nil
	for a := range cpu.BreakPoints {
		w.bp0 = append(w.bp0, a)
	}
	return cpu
}

func resultStr(id string, cpu *z80.CPU, w *World) string {
	var sb strings.Builder
	rs := func(r z80.Register) string { return fmt.Sprintf("%02x%02x", r.Hi, r.Lo) }
	fmt.Fprintf(&sb, "%s ok S %s %s %s %s %s %s %s %s %s %04x %04x %04x %04x %s%s%s %s I ", id,
		rs(cpu.AF), rs(cpu.BC), rs(cpu.DE), rs(cpu.HL),
		rs(cpu.Alternate.AF), rs(cpu.Alternate.BC), rs(cpu.Alternate.DE), rs(cpu.Alternate.HL),
		rs(cpu.IR), cpu.IX, cpu.IY, cpu.SP, cpu.PC, b01(cpu.IFF1), b01(cpu.IFF2), b01(cpu.HALT), intStr(cpu.IM))
	if cpu.Interrupt == nil {
		sb.WriteString("-")
	} else {
		sb.WriteString(intStr(int(cpu.Interrupt.Type)) + ":" + hexBytes(cpu.Interrupt.Data))
	}
	mv := "im0"
	if _, ok := cpu.Memory.(recMem); ok {
		mv = "user"
	}
	sb.WriteString(" MV " + mv + " MEM ")
	if len(w.written) == 0 {
		sb.WriteString("-")
	} else {
		var as []int
		for a := range w.written {
			as = append(as, int(a))
		}
		sort.Ints(as)
		for i, a := range as {
			if i > 0 {
				sb.WriteString(",")
			}
			fmt.Fprintf(&sb, "%04x=%02x", a, w.peek(uint16(a)))
		}
	}
	h := uint64(7)
	for _, e := range w.log {
		h = (h*31 + e.code()) % 4294967296
	}
	fmt.Fprintf(&sb, " NLOG %d LH %d LOG ", len(w.log), h)
	if len(w.log) == 0 {
		sb.WriteString("-")
	} else if len(w.log) <= 48 {
		for i, e := range w.log {
			if i > 0 {
				sb.WriteString(",")
			}
			sb.WriteString(e.String())
		}
	} else {
		sb.WriteString("...")
	}
	// the host's breakpoint set must be exactly as it was handed over
	if (cpu.BreakPoints == nil) != w.bpNil || len(cpu.BreakPoints) != len(w.bp0) {
		fmt.Fprintf(&sb, " BREAKPOINTS-CHANGED nil:%v->%v len:%d->%d", w.bpNil, cpu.BreakPoints == nil, len(w.bp0), len(cpu.BreakPoints))
	} else {
		for _, a := range w.bp0 {
			if _, ok := cpu.BreakPoints[a]; !ok {
				fmt.Fprintf(&sb, " BREAKPOINTS-CHANGED %04x removed", a)
			}
		}
	}
	// the host's request objects must be exactly as they were handed over (hidden state outside States and memory otherwise)
	for i, q := range w.reqs {
		if int(q.obj.Type) != q.ty || len(q.obj.Data) != len(q.data) || hexBytes(q.obj.Data) != hexBytes(q.data) {
			fmt.Fprintf(&sb, " REQUEST-OBJECT-CHANGED #%d built=%d:%s now=%d:%s", i, q.ty, hexBytes(q.data), int(q.obj.Type), hexBytes(q.obj.Data))
		}
	}
	return sb.String()
}

// mkIntr: the request (type, data) as a user would build it — through the package's own constructors whenever one of them can express
// it (NMIInterrupt, IM1Interrupt, IM2Interrupt, IM0Interrupt), so that the constructors are part of what is compared; a plain struct
// literal otherwise (NMI carrying data, unknown types)
func mkIntr(w *World, ty int, data []uint8) *z80.Interrupt {
	var q *z80.Interrupt
	alt := (w.memSeed+uint(len(w.reqs)))%2 == 1 // varies from vector to vector (no shared state: the harness also runs under the race detector)
	switch {
	case ty == int(z80.NMIType) && len(data) == 0 && !alt:
		q = z80.NMIInterrupt()
	case ty == int(z80.IMType) && len(data) == 0 && !alt:
		q = z80.IM1Interrupt() // Data is nil
	case len(data) == 0:
		q = &z80.Interrupt{Type: z80.InterruptType(ty), Data: []uint8{}} // empty but NOT nil
	case ty == int(z80.IMType) && len(data) == 1:
		if data[0]&0x10 == 0 {
			q = z80.IM2Interrupt(data[0])
		} else {
			q = z80.IM0Interrupt(data[0])
		}
	case ty == int(z80.IMType):
		q = z80.IM0Interrupt(data[0], data[1:]...)
	default:
		q = &z80.Interrupt{Type: z80.InterruptType(ty), Data: append([]uint8{}, data...)}
	}
	w.reqs = append(w.reqs, reqRec{q, ty, append([]uint8{}, data...)})
	return q
}
