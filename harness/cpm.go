package main

// cpm: programs on the REAL tinycpm machine (a copy of internal/tinycpm taken at check time, see bin/check),
// driven by CPU.Run, console and warning logger captured; and their generator.

import (
	"bufio"
	"bytes"
	"context"
	"encoding/hex"
	"fmt"
	"log"
	"strings"
	"time"

	"github.com/koron-go/z80"
	"verifharness/cpmcopy/tinycpm"
)

func runCPM(v *Vec) (res string) {
	defer func() {
		if r := recover(); r != nil {
			res = fmt.Sprintf("%s panic %v", v.ID, r)
		}
	}()
	mem, io := tinycpm.New()
	var outb, warnb bytes.Buffer
	io.SetStdout(&outb)
	io.SetWarnLogger(log.New(&warnb, "", 0))
	for _, o := range v.Over {
		for i, b := range o.Bytes {
			mem.Set(o.Addr+uint16(i), b)
		}
	}
	r := func(x uint16) z80.Register { return z80.Register{Hi: uint8(x >> 8), Lo: uint8(x)} }
	cpu := &z80.CPU{Memory: mem, IO: io}
	cpu.AF, cpu.BC, cpu.DE, cpu.HL = r(v.W[0]), r(v.W[1]), r(v.W[2]), r(v.W[3])
	cpu.SP, cpu.PC = v.W[11], v.W[12]
	ctx, cancel := context.WithTimeout(context.Background(), 1*time.Second)
	err := cpu.Run(ctx)
	cancel()
	code := "nil"
	if err != nil {
		code = strings.ReplaceAll(err.Error(), " ", "_")
	}
	o := hex.EncodeToString(outb.Bytes())
	if o == "" {
		o = "-"
	}
	h := 0
	if cpu.HALT {
		h = 1
	}
	return fmt.Sprintf("%s cpm PC %04x SP %04x HALT %d OUT %s WARN %d RUN %s", v.ID, cpu.PC, cpu.SP, h, o, strings.Count(warnb.String(), "\n"), code)
}

func genCPM(r *rng, out *bufio.Writer, n int, long int) {
	for i := 0; i < n; i++ {
		v := r.randomState(fmt.Sprintf("cpm-%d", i))
		v.Kind = "cpm"
		v.Intr = nil
		v.N = 1
		v.W[11], v.W[12] = 0xf800, 0x0100
		if r.chance(50) {
			// the caller's stack elsewhere: top of memory, right below the stub, in the unused gap between the stub (FE06..FE1C) and the
			// stop code (FF03), right after the stop code, anywhere in the upper half — never such that the two bytes CALL 5 pushes (SP-2, SP-1)
			// land on a BIOS byte: a program that overwrites the BIOS is outside the property
			v.W[11] = []uint16{0x0000, 0xfe06, 0xfe04, uint16(0xfe1f + r.n(0xe5)), uint16(0xfe1f + r.n(0xe5)), 0xff03, 0xff06, uint16(0x8000 + r.n(0x7000))}[r.n(8)]
		}
		var prog []uint8
		var over []Override
		next := uint16(0x2000 + r.n(0x100))
		calls := 1 + r.n(5)
		for c := 0; c < calls; c++ {
			switch k := r.n(20); {
			case k < 6: // function 2
				prog = append(prog, 0x0e, 0x02, 0x1e, r.b8(), 0xcd, 0x05, 0x00)
			case k < 16: // function 9
				ln := r.n(24)
				switch r.n(10) {
				case 0:
					ln = 0
				case 1:
					ln = 200 + r.n(200)
				}
				if c == 0 && i < long {
					ln = 4096
				}
				str := make([]uint8, ln)
				for j := range str {
					b := r.u8()
					if r.chance(20) {
						b = []uint8{0x00, 0x80, 0xff, 0x23, 0x25, 0x0a}[r.n(6)]
					}
					if b == '$' {
						b = 0x23
					}
					str[j] = b
				}
				addr := next
				switch r.n(5) {
				case 0: // the string crosses a 256-byte page boundary
					if ln > 0 {
						addr = (next&0xff00 + 0x100) - uint16(r.n(ln+1))
					}
				case 1: // the '$' is the first byte of the next page
					addr = (next&0xff00 + 0x200) - uint16(ln)
				}
				over = append(over, Override{addr, append(str, '$')})
				next = addr + uint16(ln) + 1 + uint16(r.n(64))
				prog = append(prog, 0x0e, 0x09, 0x11, uint8(addr), uint8(addr>>8), 0xcd, 0x05, 0x00)
			case k < 17: // write to another port / read a port: warnings only
				if r.chance(50) {
					prog = append(prog, 0x3e, r.u8(), 0xd3, uint8(1+r.n(255)))
				} else {
					prog = append(prog, 0xdb, r.u8())
				}
			case k < 18: // unsupported function number: the stub halts
				prog = append(prog, 0x0e, []uint8{0, 1, 3, 8, 10, 255}[r.n(6)], 0xcd, 0x05, 0x00)
			default: // direct OUT (0),A
				prog = append(prog, 0x3e, r.u8(), 0xd3, 0x00)
			}
		}
		prog = append(prog, 0xc3, 0x00, 0x00)
		v.Over = append([]Override{{0x0100, prog}}, over...)
		fmt.Fprintln(out, v.String())
	}
}
