/-
  Z80.Proofs.Block — block instructions as whole operations: one Step = one element (explicit post-state),
  and by induction over the count the closed form of the complete LDIR/LDDR, CPIR/CPDR, OTIR/OTDR, INIR/INDR.
-/
import Z80.Props.C01
import Z80.Proofs.RunLoop
import Z80.Proofs.Frame

namespace Z80
open Z80.Gen Z80.Spec
set_option maxRecDepth 8192

/-- pointer stepping of a block instruction -/
def stp (dec : Bool) (v : U16) : U16 := if dec then v - 1#16 else v + 1#16
/-- the pointer after i elements -/
def stpN (dec : Bool) (v : U16) (i : Nat) : U16 := if dec then v - BitVec.ofNat 16 i else v + BitVec.ofNat 16 i

theorem stpN_zero (dec : Bool) (v : U16) : stpN dec v 0 = v := by cases dec <;> simp [stpN]
theorem stpN_succ (dec : Bool) (v : U16) (i : Nat) : stpN dec v (i+1) = stpN dec (stp dec v) i := by
  cases dec <;> simp [stpN, stp] <;> bv_omega

/-- the second opcode byte of LDI/LDD/LDIR/LDDR -/
def ldOp (dec rep : Bool) : U8 := match dec, rep with
  | false, false => 0xa0#8 | true, false => 0xa8#8 | false, true => 0xb0#8 | true, true => 0xb8#8

/-- the state after ONE element of LDI/LDD/LDIR/LDDR -/
def ldElemSt (dec rep : Bool) (s : St) : St :=
  let hl := regU16 s.HL
  let de := regU16 s.DE
  let v := s.mem hl
  let bc' := regU16 s.BC - 1#16
  { s with mem := upd s.mem de v, DE := regOf (stp dec de), HL := regOf (stp dec hl), BC := regOf bc',
           AF := { Hi := s.AF.Hi, Lo := ldiFlags s.AF.Hi v s.AF.Lo (bc' != 0#16) },
           PC := if rep && bc' != 0#16 then s.PC else s.PC + 2#16,
           IR := { Hi := s.IR.Hi, Lo := incR (incR s.IR.Lo) },
           log := .mw de v :: .mr hl v :: .mr (s.PC + 1#16) (ldOp dec rep) :: .mr s.PC 0xed#8 :: s.log }

theorem pc_back (x : U16) : x + 1#16 + 1#16 - 2#16 = x := by bv_omega

/-- ONE Step on LDI/LDD/LDIR/LDDR = exactly one element -/
theorem step_ld_elem (dec rep : Bool) (s : St) (h₁ : s.Interrupt = none) (h₂ : s.Memory = .user)
    (hp : s.mem s.PC = 0xed#8) (hop : s.mem (s.PC + 1#16) = ldOp dec rep) :
    Gen.Step s = .ok () (ldElemSt dec rep s) := by
  rw [Props.C01.C01_step s h₁ h₂]
  cases dec <;> cases rep <;>
  · simp only [ldOp] at hop
    simp [Spec.executeOne, Spec.fetchM1, Spec.fetch, rd8, wr8, execMain, execOpt, decodeED, exec, blkElem, hp, hop, ldElemSt, stp, ldOp,
      add_1_1_16, pc_back]
    all_goals first | done | (split <;> simp_all <;> bv_omega)

/-- memory after n elements of an ascending / descending copy, one byte per repetition (overlaps propagate) -/
def ldMem (dec : Bool) : Nat → (U16 → U8) → U16 → U16 → (U16 → U8)
  | 0, m, _, _ => m
  | n+1, m, hl, de => ldMem dec n (upd m de (m hl)) (stp dec hl) (stp dec de)

theorem ldiFlags_bits (a v f : U8) (nz : Bool) :
    (ldiFlags a v f nz)[2] = nz ∧ (ldiFlags a v f nz)[4] = false ∧ (ldiFlags a v f nz)[1] = false ∧
    (ldiFlags a v f nz)[7] = f[7] ∧ (ldiFlags a v f nz)[6] = f[6] ∧ (ldiFlags a v f nz)[0] = f[0] := by
  refine ⟨?_, ?_, ?_, ?_, ?_, ?_⟩ <;>
  (simp only [← BitVec.getLsbD_eq_getElem, ldiFlags, keepBits, BitVec.getLsbD_or, BitVec.getLsbD_and, BitVec.getLsbD_not,
     flags_bit0, flags_bit1, flags_bit2, flags_bit3, flags_bit4, flags_bit5, flags_bit6, flags_bit7, bitOf]
   simp [fS, fZ, fC])

@[simp] theorem regU16_regOf (v : U16) : regU16 (regOf v) = v := by
  simp [regU16, regOf, z80helper]

/-- what survives / results from a complete LDIR / LDDR -/
structure LdDone (dec : Bool) (n : Nat) (s t : St) : Prop where
  pc : t.PC = s.PC + 2#16
  mem : t.mem = ldMem dec n s.mem (regU16 s.HL) (regU16 s.DE)
  hl : regU16 t.HL = stpN dec (regU16 s.HL) n
  de : regU16 t.DE = stpN dec (regU16 s.DE) n
  bc : regU16 t.BC = 0#16
  a : t.AF.Hi = s.AF.Hi
  pv : t.AF.Lo[2] = false
  hn : t.AF.Lo[4] = false ∧ t.AF.Lo[1] = false
  szc : t.AF.Lo[7] = s.AF.Lo[7] ∧ t.AF.Lo[6] = s.AF.Lo[6] ∧ t.AF.Lo[0] = s.AF.Lo[0]
  other : t.IX = s.IX ∧ t.IY = s.IY ∧ t.SP = s.SP ∧ t.Alternate = s.Alternate ∧ t.IFF1 = s.IFF1 ∧ t.IFF2 = s.IFF2 ∧ t.IM = s.IM ∧ t.HALT = s.HALT

/-- THE whole-operation theorem for LDIR / LDDR: started with count n (BC = n mod 65536, so BC = 0 means 65536),
    exactly n Steps later the copy is complete; before that PC stays on the instruction.  The destination must
    not hit the two instruction bytes (otherwise the program has modified itself). -/
theorem ld_run (dec : Bool) : ∀ (n : Nat), 1 ≤ n → n ≤ 65536 → ∀ (s : St), s.Interrupt = none → s.Memory = .user →
    s.mem s.PC = 0xed#8 → s.mem (s.PC + 1#16) = ldOp dec true →
    regU16 s.BC = BitVec.ofNat 16 n →
    (∀ i, i < n → stpN dec (regU16 s.DE) i ≠ s.PC ∧ stpN dec (regU16 s.DE) i ≠ s.PC + 1#16) →
    ∃ t, stepN n s = .ok () t ∧ LdDone dec n s t ∧
      (∀ j, j < n → ∃ u, stepN j s = .ok () u ∧ u.PC = s.PC) := by
  intro n
  induction n with
  | zero => intro h; omega
  | succ n ih =>
    intro _ hle s h₁ h₂ hp hop hbc hdst
    have hstep := step_ld_elem dec true s h₁ h₂ hp hop
    have fl := ldiFlags_bits s.AF.Hi (s.mem (regU16 s.HL)) s.AF.Lo (regU16 s.BC - 1#16 != 0#16)
    by_cases hn : n = 0
    · -- last element
      subst hn
      have hbc' : regU16 s.BC - 1#16 = 0#16 := by rw [hbc]; decide
      refine ⟨ldElemSt dec true s, by simp [stepN, hstep], ?_, ?_⟩
      · have fl0 := ldiFlags_bits s.AF.Hi (s.mem (regU16 s.HL)) s.AF.Lo false
        constructor <;> simp [ldElemSt, hbc', ldMem, stpN_succ, stpN_zero]
        · exact fl0.1
        · exact ⟨fl0.2.1, fl0.2.2.1⟩
        · exact fl0.2.2.2
      · intro j hj
        have : j = 0 := by omega
        subst this
        exact ⟨s, rfl, rfl⟩
    · -- more to go: PC stays, apply the induction hypothesis to the next state
      have hbc' : regU16 s.BC - 1#16 = BitVec.ofNat 16 n := by rw [hbc]; bv_omega
      have hnz : regU16 s.BC - 1#16 ≠ 0#16 := by
        rw [hbc']; intro h
        have := congrArg BitVec.toNat h
        simp at this; omega
      let s' := ldElemSt dec true s
      have hpc : s'.PC = s.PC := by simp [s', ldElemSt, hnz]
      have hd0 := hdst 0 (by omega)
      rw [stpN_zero] at hd0
      have hmem : ∀ a, a ≠ regU16 s.DE → s'.mem a = s.mem a := by
        intro a ha; simp [s', ldElemSt, upd, ha]
      obtain ⟨t, ht, hdone, hpark⟩ := ih (by omega) (by omega) s' (by simp [s', ldElemSt, h₁]) (by simp [s', ldElemSt, h₂])
        (by rw [hpc, hmem _ (Ne.symm hd0.1)]; exact hp)
        (by rw [hpc, hmem _ (Ne.symm hd0.2)]; exact hop)
        (by simp [s', ldElemSt, hbc'])
        (by
          intro i hi
          have := hdst (i+1) (by omega)
          rw [stpN_succ] at this
          simpa [s', ldElemSt, hnz] using this)
      refine ⟨t, by rw [stepN_succ_ok n s s' hstep]; exact ht, ?_, ?_⟩
      · have fl' := fl
        constructor
        · rw [hdone.pc, hpc]
        · rw [hdone.mem]; simp [s', ldElemSt, ldMem]
        · rw [hdone.hl]; simp [s', ldElemSt, stpN_succ]
        · rw [hdone.de]; simp [s', ldElemSt, stpN_succ]
        · exact hdone.bc
        · rw [hdone.a]; simp [s', ldElemSt]
        · exact hdone.pv
        · exact hdone.hn
        · obtain ⟨a, b, c⟩ := hdone.szc
          refine ⟨?_, ?_, ?_⟩
          · rw [a]; simpa [s', ldElemSt] using fl.2.2.2.1
          · rw [b]; simpa [s', ldElemSt] using fl.2.2.2.2.1
          · rw [c]; simpa [s', ldElemSt] using fl.2.2.2.2.2
        · obtain ⟨a, b, c, d, e, f, g, h⟩ := hdone.other
          simp [s', ldElemSt] at a b c d e f g h
          exact ⟨a, b, c, d, e, f, g, h⟩
      · intro j hj
        cases j with
        | zero => exact ⟨s, rfl, rfl⟩
        | succ j =>
          obtain ⟨u, hu, hupc⟩ := hpark j (by omega)
          exact ⟨u, by rw [stepN_succ_ok j s s' hstep]; exact hu, by rw [hupc, hpc]⟩

-- ---------------------------------------------------------------------------
-- CPI / CPD / CPIR / CPDR

def cpOp (dec rep : Bool) : U8 := match dec, rep with
  | false, false => 0xa1#8 | true, false => 0xa9#8 | false, true => 0xb1#8 | true, true => 0xb9#8

/-- the state after ONE element of CPI/CPD/CPIR/CPDR -/
def cpElemSt (dec rep : Bool) (s : St) : St :=
  let hl := regU16 s.HL
  let v := s.mem hl
  let bc' := regU16 s.BC - 1#16
  { s with HL := regOf (stp dec hl), BC := regOf bc',
           AF := { Hi := s.AF.Hi, Lo := cpiFlags s.AF.Hi v s.AF.Lo (bc' != 0#16) },
           PC := if rep && (bc' != 0#16 && s.AF.Hi != v) then s.PC else s.PC + 2#16,
           IR := { Hi := s.IR.Hi, Lo := incR (incR s.IR.Lo) },
           log := .mr hl v :: .mr (s.PC + 1#16) (cpOp dec rep) :: .mr s.PC 0xed#8 :: s.log }

theorem step_cp_elem (dec rep : Bool) (s : St) (h₁ : s.Interrupt = none) (h₂ : s.Memory = .user)
    (hp : s.mem s.PC = 0xed#8) (hop : s.mem (s.PC + 1#16) = cpOp dec rep) :
    Gen.Step s = .ok () (cpElemSt dec rep s) := by
  rw [Props.C01.C01_step s h₁ h₂]
  cases dec <;> cases rep <;>
  · simp only [cpOp] at hop
    simp [Spec.executeOne, Spec.fetchM1, Spec.fetch, rd8, wr8, execMain, execOpt, decodeED, exec, blkElem, hp, hop, cpElemSt, stp, cpOp,
      add_1_1_16, pc_back]
    all_goals first | done | (split <;> simp_all <;> bv_omega)

theorem cpiFlags_bits (a v f : U8) (nz : Bool) :
    (cpiFlags a v f nz)[6] = (a == v) ∧ (cpiFlags a v f nz)[2] = nz ∧ (cpiFlags a v f nz)[1] = true ∧
    (cpiFlags a v f nz)[0] = f[0] ∧ (cpiFlags a v f nz)[7] = (a - v)[7] := by
  have e : (a - v == 0#8) = (a == v) := by
    rw [Bool.eq_iff_iff]; simp only [beq_iff_eq]
    constructor <;> intro h <;> bv_omega
  refine ⟨?_, ?_, ?_, ?_, ?_⟩ <;>
  (simp only [← BitVec.getLsbD_eq_getElem, cpiFlags, keepBits, BitVec.getLsbD_or, BitVec.getLsbD_and, BitVec.getLsbD_not,
     flags_bit0, flags_bit1, flags_bit2, flags_bit3, flags_bit4, flags_bit5, flags_bit6, flags_bit7, bitOf]
   simp [fC, e])

/-- result of a complete CPIR / CPDR that examined m elements of a count of n -/
structure CpDone (dec : Bool) (n m : Nat) (s t : St) : Prop where
  pc : t.PC = s.PC + 2#16
  mem : t.mem = s.mem
  hl : regU16 t.HL = stpN dec (regU16 s.HL) m
  bc : regU16 t.BC = BitVec.ofNat 16 (n - m)
  a : t.AF.Hi = s.AF.Hi
  z : t.AF.Lo[6] = (s.AF.Hi == s.mem (stpN dec (regU16 s.HL) (m - 1)))      -- Z: found
  pv : t.AF.Lo[2] = decide (n - m ≠ 0)                                       -- P/V: count not exhausted
  nc : t.AF.Lo[1] = true ∧ t.AF.Lo[0] = s.AF.Lo[0]
  de : t.DE = s.DE

/-- THE whole-operation theorem for CPIR / CPDR: with count n (BC = n mod 65536; 0 means 65536), if the first
    m-1 bytes differ from A and either the m-th byte equals A or m = n, then exactly m Steps later the search is
    complete — it stops at the FIRST match or when the count is exhausted, never earlier (PC stays on the
    instruction during the first m-1 Steps) -/
theorem cp_run (dec : Bool) : ∀ (m : Nat), 1 ≤ m → ∀ (n : Nat), m ≤ n → n ≤ 65536 → ∀ (s : St),
    s.Interrupt = none → s.Memory = .user → s.mem s.PC = 0xed#8 → s.mem (s.PC + 1#16) = cpOp dec true →
    regU16 s.BC = BitVec.ofNat 16 n →
    (∀ i, i + 1 < m → s.mem (stpN dec (regU16 s.HL) i) ≠ s.AF.Hi) →
    (m = n ∨ s.mem (stpN dec (regU16 s.HL) (m - 1)) = s.AF.Hi) →
    ∃ t, stepN m s = .ok () t ∧ CpDone dec n m s t ∧ (∀ j, j < m → ∃ u, stepN j s = .ok () u ∧ u.PC = s.PC) := by
  intro m
  induction m with
  | zero => intro h; omega
  | succ m ih =>
    intro _ n hmn hn s h₁ h₂ hp hop hbc hne hlast
    have hstep := step_cp_elem dec true s h₁ h₂ hp hop
    have fl := cpiFlags_bits s.AF.Hi (s.mem (regU16 s.HL)) s.AF.Lo (regU16 s.BC - 1#16 != 0#16)
    have hbc' : regU16 s.BC - 1#16 = BitVec.ofNat 16 (n - 1) := by rw [hbc]; bv_omega
    have hnz : (regU16 s.BC - 1#16 != 0#16) = decide (n - 1 ≠ 0) := by
      rw [hbc']
      by_cases h : n - 1 = 0
      · simp [h]
      · have : BitVec.ofNat 16 (n - 1) ≠ 0#16 := by
          intro e; have := congrArg BitVec.toNat e; simp at this; omega
        simp [h, this]
    by_cases hm : m = 0
    · -- this element ends the search
      subst hm
      have hstop : (true && (regU16 s.BC - 1#16 != 0#16 && s.AF.Hi != s.mem (regU16 s.HL))) = false := by
        rcases hlast with h | h
        · have : n - 1 = 0 := by omega
          simp [hnz, this]
        · simp [stpN_zero] at h; simp [h]
      refine ⟨cpElemSt dec true s, by simp [stepN, hstep], ?_, ?_⟩
      · have hz : (0 + 1 - 1 : Nat) = 0 := rfl
        exact {
          pc := by simp only [cpElemSt, hstop]; rfl
          mem := rfl
          hl := by simp [cpElemSt, stpN_succ, stpN_zero]
          bc := by simp [cpElemSt, hbc']
          a := rfl
          z := by
            show (cpiFlags s.AF.Hi (s.mem (regU16 s.HL)) s.AF.Lo (regU16 s.BC - 1#16 != 0#16))[6] = _
            rw [fl.1, hz, stpN_zero]
          pv := by
            show (cpiFlags s.AF.Hi (s.mem (regU16 s.HL)) s.AF.Lo (regU16 s.BC - 1#16 != 0#16))[2] = _
            rw [fl.2.1, hnz]
          nc := ⟨fl.2.2.1, fl.2.2.2.1⟩
          de := rfl }
      · intro j hj
        have : j = 0 := by omega
        subst this
        exact ⟨s, rfl, rfl⟩
    · have hv : s.mem (regU16 s.HL) ≠ s.AF.Hi := by
        have := hne 0 (by omega); rwa [stpN_zero] at this
      have hn2 : n - 1 ≠ 0 := by omega
      have hgo : (true && (regU16 s.BC - 1#16 != 0#16 && s.AF.Hi != s.mem (regU16 s.HL))) = true := by
        simp [hnz, hn2, Ne.symm hv]
      let s' := cpElemSt dec true s
      have hpc : s'.PC = s.PC := by simp [s', cpElemSt, hgo]
      have hmem : s'.mem = s.mem := by simp [s', cpElemSt]
      obtain ⟨t, ht, hdone, hpark⟩ := ih (by omega) (n - 1) (by omega) (by omega) s' (by simp [s', cpElemSt, h₁]) (by simp [s', cpElemSt, h₂])
        (by rw [hpc, hmem]; exact hp) (by rw [hpc, hmem]; exact hop)
        (by simp [s', cpElemSt, hbc'])
        (by
          intro i hi
          have := hne (i+1) (by omega)
          rw [stpN_succ] at this
          simpa [s', cpElemSt] using this)
        (by
          rcases hlast with h | h
          · left; omega
          · right
            have e : m + 1 - 1 = (m - 1) + 1 := by omega
            rw [e, stpN_succ] at h
            simpa [s', cpElemSt] using h)
      refine ⟨t, by rw [stepN_succ_ok m s s' hstep]; exact ht, ?_, ?_⟩
      · constructor
        · rw [hdone.pc, hpc]
        · rw [hdone.mem, hmem]
        · rw [hdone.hl]; simp [s', cpElemSt, stpN_succ]
        · rw [hdone.bc]; congr 1; omega
        · rw [hdone.a]; simp [s', cpElemSt]
        · rw [hdone.z]
          have e : m + 1 - 1 = (m - 1) + 1 := by omega
          rw [e, stpN_succ]
          simp [s', cpElemSt]
        · rw [hdone.pv]; congr 1; simp; omega
        · obtain ⟨a, b⟩ := hdone.nc
          exact ⟨a, by rw [b]; simpa [s', cpElemSt] using fl.2.2.2.1⟩
        · rw [hdone.de]; simp [s', cpElemSt]
      · intro j hj
        cases j with
        | zero => exact ⟨s, rfl, rfl⟩
        | succ j =>
          obtain ⟨u, hu, hupc⟩ := hpark j (by omega)
          exact ⟨u, by rw [stepN_succ_ok j s s' hstep]; exact hu, by rw [hupc, hpc]⟩

-- ---------------------------------------------------------------------------
-- OUTI / OUTD / OTIR / OTDR and INI / IND / INIR / INDR

def otOp (dec rep : Bool) : U8 := match dec, rep with
  | false, false => 0xa3#8 | true, false => 0xab#8 | false, true => 0xb3#8 | true, true => 0xbb#8
def inOp (dec rep : Bool) : U8 := match dec, rep with
  | false, false => 0xa2#8 | true, false => 0xaa#8 | false, true => 0xb2#8 | true, true => 0xba#8

/-- flags after one element of block I/O (this project's choice for the undocumented bits: incoming F) -/
def bioFlags (f b' : U8) : U8 := keepBits fC f ((f &&& 0xbc#8) ||| fN ||| (if b' == 0#8 then fZ else 0#8))

/-- the state after ONE element of OUTI/OUTD/OTIR/OTDR (a device is attached) -/
def otElemSt (dec rep : Bool) (s : St) : St :=
  let hl := regU16 s.HL
  let v := s.mem hl
  let b' := s.BC.Hi - 1#8
  { s with HL := regOf (stp dec hl), BC := { Hi := b', Lo := s.BC.Lo },
           AF := { Hi := s.AF.Hi, Lo := bioFlags s.AF.Lo b' },
           PC := if rep && b' != 0#8 then s.PC else s.PC + 2#16,
           IR := { Hi := s.IR.Hi, Lo := incR (incR s.IR.Lo) },
           log := .iow s.BC.Lo v :: .mr hl v :: .mr (s.PC + 1#16) (otOp dec rep) :: .mr s.PC 0xed#8 :: s.log }

theorem step_ot_elem (dec rep : Bool) (s : St) (h₁ : s.Interrupt = none) (h₂ : s.Memory = .user) (hio : s.IO = true)
    (hp : s.mem s.PC = 0xed#8) (hop : s.mem (s.PC + 1#16) = otOp dec rep) :
    Gen.Step s = .ok () (otElemSt dec rep s) := by
  rw [Props.C01.C01_step s h₁ h₂]
  cases dec <;> cases rep <;>
  · simp only [otOp] at hop
    simp [Spec.executeOne, Spec.fetchM1, Spec.fetch, rd8, wr8, execMain, execOpt, decodeED, exec, blkElem, hp, hop, otElemSt, stp, otOp,
      add_1_1_16, pc_back, hio, ioOutUser, bioFlags, Impl.koron]
    all_goals first | done | (split <;> simp_all <;> bv_omega)

/-- the state after ONE element of INI/IND/INIR/INDR: the byte comes from port C -/
def inElemSt (dec rep : Bool) (s : St) : St :=
  let hl := regU16 s.HL
  let v := s.dev (.mr (s.PC + 1#16) (inOp dec rep) :: .mr s.PC 0xed#8 :: s.log) s.BC.Lo
  let b' := s.BC.Hi - 1#8
  { s with mem := upd s.mem hl v, HL := regOf (stp dec hl), BC := { Hi := b', Lo := s.BC.Lo },
           AF := { Hi := s.AF.Hi, Lo := bioFlags s.AF.Lo b' },
           PC := if rep && b' != 0#8 then s.PC else s.PC + 2#16,
           IR := { Hi := s.IR.Hi, Lo := incR (incR s.IR.Lo) },
           log := .mw hl v :: .ior s.BC.Lo v :: .mr (s.PC + 1#16) (inOp dec rep) :: .mr s.PC 0xed#8 :: s.log }

theorem step_in_elem (dec rep : Bool) (s : St) (h₁ : s.Interrupt = none) (h₂ : s.Memory = .user) (hio : s.IO = true)
    (hp : s.mem s.PC = 0xed#8) (hop : s.mem (s.PC + 1#16) = inOp dec rep) :
    Gen.Step s = .ok () (inElemSt dec rep s) := by
  rw [Props.C01.C01_step s h₁ h₂]
  cases dec <;> cases rep <;>
  · simp only [inOp] at hop
    simp [Spec.executeOne, Spec.fetchM1, Spec.fetch, rd8, wr8, execMain, execOpt, decodeED, exec, blkElem, hp, hop, inElemSt, stp, inOp,
      add_1_1_16, pc_back, hio, ioInUser, bioFlags, Impl.koron]
    all_goals first | done | (split <;> simp_all <;> bv_omega)

theorem bioFlags_bits (f b' : U8) : (bioFlags f b')[6] = (b' == 0#8) ∧ (bioFlags f b')[1] = true ∧ (bioFlags f b')[0] = f[0] := by
  refine ⟨?_, ?_, ?_⟩ <;>
  (simp only [← BitVec.getLsbD_eq_getElem, bioFlags, keepBits, BitVec.getLsbD_or, BitVec.getLsbD_and, BitVec.getLsbD_not]
   by_cases h : b' = 0#8 <;> simp [h, fC, fN, fZ])

/-- the port writes of a complete OTIR/OTDR, newest first: element i carries the byte at HL ± i -/
def otEvents (dec : Bool) (c : U8) (m : U16 → U8) (hl : U16) : Nat → List Ev
  | 0 => []
  | n+1 => otEvents dec c m (stp dec hl) n ++ [.iow c (m hl)]

structure OtDone (dec : Bool) (n : Nat) (s t : St) : Prop where
  pc : t.PC = s.PC + 2#16
  mem : t.mem = s.mem
  hl : regU16 t.HL = stpN dec (regU16 s.HL) n
  b : t.BC.Hi = 0#8
  c : t.BC.Lo = s.BC.Lo
  a : t.AF.Hi = s.AF.Hi
  z : t.AF.Lo[6] = true ∧ t.AF.Lo[1] = true ∧ t.AF.Lo[0] = s.AF.Lo[0]
  ports : portLog t.log = otEvents dec s.BC.Lo s.mem (regU16 s.HL) n ++ portLog s.log
  de : t.DE = s.DE

/-- THE whole-operation theorem for OTIR / OTDR: count n (B = n mod 256; 0 means 256): exactly n Steps, n bytes
    from (HL), (HL±1), … written to port C in that order, B = 0, Z set -/
theorem ot_run (dec : Bool) : ∀ (n : Nat), 1 ≤ n → n ≤ 256 → ∀ (s : St), s.Interrupt = none → s.Memory = .user → s.IO = true →
    s.mem s.PC = 0xed#8 → s.mem (s.PC + 1#16) = otOp dec true → s.BC.Hi = BitVec.ofNat 8 n →
    ∃ t, stepN n s = .ok () t ∧ OtDone dec n s t ∧ (∀ j, j < n → ∃ u, stepN j s = .ok () u ∧ u.PC = s.PC) := by
  intro n
  induction n with
  | zero => intro h; omega
  | succ n ih =>
    intro _ hle s h₁ h₂ hio hp hop hb
    have hstep := step_ot_elem dec true s h₁ h₂ hio hp hop
    have fl := bioFlags_bits s.AF.Lo (s.BC.Hi - 1#8)
    have hb' : s.BC.Hi - 1#8 = BitVec.ofNat 8 n := by rw [hb]; bv_omega
    by_cases hn : n = 0
    · subst hn
      have hb0 : s.BC.Hi - 1#8 = 0#8 := by rw [hb']
      have hstop : (true && (s.BC.Hi - 1#8 != 0#8)) = false := by simp [hb0]
      refine ⟨otElemSt dec true s, by simp [stepN, hstep], ?_, ?_⟩
      · exact {
          pc := by simp only [otElemSt, hstop]; rfl
          mem := rfl
          hl := by simp [otElemSt, stpN_succ, stpN_zero]
          b := by simp [otElemSt, hb0]
          c := rfl
          a := rfl
          z := by
            show (bioFlags s.AF.Lo (s.BC.Hi - 1#8))[6] = true ∧ (bioFlags s.AF.Lo (s.BC.Hi - 1#8))[1] = true ∧ (bioFlags s.AF.Lo (s.BC.Hi - 1#8))[0] = _
            exact ⟨by rw [fl.1, hb0]; rfl, fl.2.1, fl.2.2⟩
          ports := by simp [otElemSt, otEvents]
          de := rfl }
      · intro j hj
        have : j = 0 := by omega
        subst this
        exact ⟨s, rfl, rfl⟩
    · have hnz : s.BC.Hi - 1#8 ≠ 0#8 := by
        rw [hb']; intro e; have := congrArg BitVec.toNat e; simp at this; omega
      have hgo : (true && (s.BC.Hi - 1#8 != 0#8)) = true := by simp [hnz]
      let s' := otElemSt dec true s
      have hpc : s'.PC = s.PC := by simp [s', otElemSt, hgo]
      have hmem : s'.mem = s.mem := by simp [s', otElemSt]
      obtain ⟨t, ht, hdone, hpark⟩ := ih (by omega) (by omega) s' (by simp [s', otElemSt, h₁]) (by simp [s', otElemSt, h₂])
        (by simp [s', otElemSt, hio]) (by rw [hpc, hmem]; exact hp) (by rw [hpc, hmem]; exact hop) (by simp [s', otElemSt, hb'])
      refine ⟨t, by rw [stepN_succ_ok n s s' hstep]; exact ht, ?_, ?_⟩
      · obtain ⟨z1, z2, z3⟩ := hdone.z
        exact {
          pc := by rw [hdone.pc, hpc]
          mem := by rw [hdone.mem, hmem]
          hl := by rw [hdone.hl]; simp [s', otElemSt, stpN_succ]
          b := hdone.b
          c := by rw [hdone.c]; simp [s', otElemSt]
          a := by rw [hdone.a]; simp [s', otElemSt]
          z := ⟨z1, z2, by rw [z3]; simpa [s', otElemSt] using fl.2.2⟩
          ports := by rw [hdone.ports]; simp [s', otElemSt, otEvents]
          de := by rw [hdone.de]; simp [s', otElemSt] }
      · intro j hj
        cases j with
        | zero => exact ⟨s, rfl, rfl⟩
        | succ j =>
          obtain ⟨u, hu, hupc⟩ := hpark j (by omega)
          exact ⟨u, by rw [stepN_succ_ok j s s' hstep]; exact hu, by rw [hupc, hpc]⟩

structure InDone (dec : Bool) (n : Nat) (s t : St) : Prop where
  pc : t.PC = s.PC + 2#16
  hl : regU16 t.HL = stpN dec (regU16 s.HL) n
  b : t.BC.Hi = 0#8
  c : t.BC.Lo = s.BC.Lo
  a : t.AF.Hi = s.AF.Hi
  z : t.AF.Lo[6] = true ∧ t.AF.Lo[1] = true ∧ t.AF.Lo[0] = s.AF.Lo[0]
  /-- exactly n port accesses were added, every one a read of port C -/
  ports : ∃ evs, portLog t.log = evs ++ portLog s.log ∧ evs.length = n ∧ ∀ e ∈ evs, ∃ v, e = .ior s.BC.Lo v
  /-- memory outside the n destination bytes is untouched -/
  mem : ∀ a, (∀ i, i < n → a ≠ stpN dec (regU16 s.HL) i) → t.mem a = s.mem a
  de : t.DE = s.DE

/-- THE whole-operation theorem for INIR / INDR: exactly n Steps, n reads of port C stored at (HL), (HL±1), …;
    the destination must not hit the two instruction bytes -/
theorem in_run (dec : Bool) : ∀ (n : Nat), 1 ≤ n → n ≤ 256 → ∀ (s : St), s.Interrupt = none → s.Memory = .user → s.IO = true →
    s.mem s.PC = 0xed#8 → s.mem (s.PC + 1#16) = inOp dec true → s.BC.Hi = BitVec.ofNat 8 n →
    (∀ i, i < n → stpN dec (regU16 s.HL) i ≠ s.PC ∧ stpN dec (regU16 s.HL) i ≠ s.PC + 1#16) →
    ∃ t, stepN n s = .ok () t ∧ InDone dec n s t ∧ (∀ j, j < n → ∃ u, stepN j s = .ok () u ∧ u.PC = s.PC) := by
  intro n
  induction n with
  | zero => intro h; omega
  | succ n ih =>
    intro _ hle s h₁ h₂ hio hp hop hb hdst
    have hstep := step_in_elem dec true s h₁ h₂ hio hp hop
    have fl := bioFlags_bits s.AF.Lo (s.BC.Hi - 1#8)
    have hb' : s.BC.Hi - 1#8 = BitVec.ofNat 8 n := by rw [hb]; bv_omega
    by_cases hn : n = 0
    · subst hn
      have hb0 : s.BC.Hi - 1#8 = 0#8 := by rw [hb']
      have hstop : (true && (s.BC.Hi - 1#8 != 0#8)) = false := by simp [hb0]
      refine ⟨inElemSt dec true s, by simp [stepN, hstep], ?_, ?_⟩
      · exact {
          pc := by simp only [inElemSt, hstop]; rfl
          hl := by simp [inElemSt, stpN_succ, stpN_zero]
          b := by simp [inElemSt, hb0]
          c := rfl
          a := rfl
          z := by
            show (bioFlags s.AF.Lo (s.BC.Hi - 1#8))[6] = true ∧ (bioFlags s.AF.Lo (s.BC.Hi - 1#8))[1] = true ∧ (bioFlags s.AF.Lo (s.BC.Hi - 1#8))[0] = _
            exact ⟨by rw [fl.1, hb0]; rfl, fl.2.1, fl.2.2⟩
          ports := ⟨[.ior s.BC.Lo _], by simp [inElemSt]; rfl, rfl, by intro e he; simp at he; exact ⟨_, he⟩⟩
          mem := by
            intro a ha
            have := ha 0 (by omega); rw [stpN_zero] at this
            simp [inElemSt, upd, this]
          de := rfl }
      · intro j hj
        have : j = 0 := by omega
        subst this
        exact ⟨s, rfl, rfl⟩
    · have hnz : s.BC.Hi - 1#8 ≠ 0#8 := by
        rw [hb']; intro e; have := congrArg BitVec.toNat e; simp at this; omega
      have hgo : (true && (s.BC.Hi - 1#8 != 0#8)) = true := by simp [hnz]
      let s' := inElemSt dec true s
      have hpc : s'.PC = s.PC := by simp [s', inElemSt, hgo]
      have hd0 := hdst 0 (by omega)
      rw [stpN_zero] at hd0
      have hmem : ∀ a, a ≠ regU16 s.HL → s'.mem a = s.mem a := by
        intro a ha; simp [s', inElemSt, upd, ha]
      obtain ⟨t, ht, hdone, hpark⟩ := ih (by omega) (by omega) s' (by simp [s', inElemSt, h₁]) (by simp [s', inElemSt, h₂])
        (by simp [s', inElemSt, hio])
        (by rw [hpc, hmem _ (Ne.symm hd0.1)]; exact hp) (by rw [hpc, hmem _ (Ne.symm hd0.2)]; exact hop)
        (by simp [s', inElemSt, hb'])
        (by
          intro i hi
          have := hdst (i+1) (by omega)
          rw [stpN_succ] at this
          simpa [s', inElemSt, hgo] using this)
      refine ⟨t, by rw [stepN_succ_ok n s s' hstep]; exact ht, ?_, ?_⟩
      · obtain ⟨z1, z2, z3⟩ := hdone.z
        obtain ⟨evs, he1, he2, he3⟩ := hdone.ports
        exact {
          pc := by rw [hdone.pc, hpc]
          hl := by rw [hdone.hl]; simp [s', inElemSt, stpN_succ]
          b := hdone.b
          c := by rw [hdone.c]; simp [s', inElemSt]
          a := by rw [hdone.a]; simp [s', inElemSt]
          z := ⟨z1, z2, by rw [z3]; simpa [s', inElemSt] using fl.2.2⟩
          ports := ⟨evs ++ [.ior s.BC.Lo _], by rw [he1]; simp [s', inElemSt]; rfl, by simp [he2], by
            intro e he
            rcases List.mem_append.mp he with h | h
            · obtain ⟨v, hv⟩ := he3 e h
              exact ⟨v, by rw [hv]; simp [s', inElemSt]⟩
            · simp at h; exact ⟨_, h⟩⟩
          mem := by
            intro a ha
            have h0 := ha 0 (by omega); rw [stpN_zero] at h0
            rw [hdone.mem a (by
              intro i hi
              have := ha (i+1) (by omega)
              rw [stpN_succ] at this
              simpa [s', inElemSt] using this)]
            exact hmem a h0
          de := by rw [hdone.de]; simp [s', inElemSt] }
      · intro j hj
        cases j with
        | zero => exact ⟨s, rfl, rfl⟩
        | succ j =>
          obtain ⟨u, hu, hupc⟩ := hpark j (by omega)
          exact ⟨u, by rw [stepN_succ_ok j s s' hstep]; exact hu, by rw [hupc, hpc]⟩

end Z80
