/-
  C03 — 16-bit arithmetic is exact for every operand pair and carry.

  (i)  The Go helpers addU16 / adcU16 / sbcU16 (regenerated from accum.go) compute, for ALL 2^32
       operand pairs, every carry-in and every incoming F, exactly the arithmetic definitions of
       Z80.Spec.Alu (proved symbolically from the ripple-carry characterisation of addition —
       no enumeration).
  (ii) What those definitions say, in readable form (carry out of bit 11 / 15, Z on all 16 bits,
       signed overflow, untouched S/Z/PV for ADD).
  (iii) Every ss encoding of ADD HL/IX/IY, ADC HL, SBC HL, INC/DEC ss executes exactly that, at the
       level of `Gen.Step` — including the doubling forms, which read one register twice.
-/
import Z80.Proofs.StepOf
import Z80.Proofs.Obl.Arith16_Main_0
import Z80.Proofs.Obl.Arith16_Ed_0
import Z80.Proofs.Obl.Arith16_Xy_0

namespace Z80.Props.C03
open Z80 Z80.Gen Z80.Spec Z80.Obl

-- (i) helpers, all inputs -----------------------------------------------------

theorem C03_addU16 (a b : U16) (s : St) :
    Gen.addU16 a b s = .ok (add16 a b s.AF.Lo).1 { s with AF.Lo := (add16 a b s.AF.Lo).2 } :=
  addU16_run a b s
theorem C03_adcU16 (a b : U16) (s : St) :
    Gen.adcU16 a b s = .ok (adc16 a b (carryIn s.AF.Lo)).1 { s with AF.Lo := (adc16 a b (carryIn s.AF.Lo)).2 } :=
  adcU16_run a b s
theorem C03_sbcU16 (a b : U16) (s : St) :
    Gen.sbcU16 a b s = .ok (sbc16 a b (carryIn s.AF.Lo)).1 { s with AF.Lo := (sbc16 a b (carryIn s.AF.Lo)).2 } :=
  sbcU16_run a b s

-- (ii) what the arithmetic definitions say --------------------------------------

theorem add16_result (a b : U16) (f : U8) : (add16 a b f).1 = a + b := by
  apply BitVec.eq_of_toNat_eq; simp [add16, BitVec.toNat_add]
theorem add16_C (a b : U16) (f : U8) : (add16 a b f).2.getLsbD 0 = decide (a.toNat + b.toNat ≥ 65536) := by
  simp only [add16, keepBits, BitVec.getLsbD_or, BitVec.getLsbD_and, BitVec.getLsbD_not]; simp [fS, fZ, fPV]
theorem add16_H (a b : U16) (f : U8) :
    (add16 a b f).2.getLsbD 4 = decide (a.toNat % 4096 + b.toNat % 4096 ≥ 4096) := by
  simp only [add16, keepBits, BitVec.getLsbD_or, BitVec.getLsbD_and, BitVec.getLsbD_not]; simp [fS, fZ, fPV]
theorem add16_N (a b : U16) (f : U8) : (add16 a b f).2.getLsbD 1 = false := by
  simp only [add16, keepBits, BitVec.getLsbD_or, BitVec.getLsbD_and, BitVec.getLsbD_not]; simp [fS, fZ, fPV]
/-- S, Z and P/V are untouched by ADD HL,ss -/
theorem add16_SZPV (a b : U16) (f : U8) :
    (add16 a b f).2.getLsbD 7 = f.getLsbD 7 ∧ (add16 a b f).2.getLsbD 6 = f.getLsbD 6 ∧
    (add16 a b f).2.getLsbD 2 = f.getLsbD 2 := by
  refine ⟨?_, ?_, ?_⟩ <;>
  (simp only [add16, keepBits, BitVec.getLsbD_or, BitVec.getLsbD_and, BitVec.getLsbD_not, flags_bit7, flags_bit6]
   simp [fS, fZ, fPV])
/-- bits 3 and 5 come from the high byte of the result -/
theorem add16_35 (a b : U16) (f : U8) :
    (add16 a b f).2.getLsbD 3 = (a + b).getLsbD 11 ∧ (add16 a b f).2.getLsbD 5 = (a + b).getLsbD 13 := by
  rw [← add16_result a b f]
  constructor <;>
  (simp only [add16, keepBits, BitVec.getLsbD_or, BitVec.getLsbD_and, BitVec.getLsbD_not, flags_bit3, flags_bit5, bitOf]
   simp [fS, fZ, fPV, hi8_get])

theorem adc16_result (a b : U16) (c : Bool) : (adc16 a b c).1 = a + b + (BitVec.ofBool c).setWidth 16 := by
  apply BitVec.eq_of_toNat_eq; cases c <;> simp [adc16, BitVec.toNat_add]
theorem adc16_C (a b : U16) (c : Bool) :
    (adc16 a b c).2.getLsbD 0 = decide (a.toNat + b.toNat + c.toNat ≥ 65536) := by simp [adc16]
theorem adc16_H (a b : U16) (c : Bool) :
    (adc16 a b c).2.getLsbD 4 = decide (a.toNat % 4096 + b.toNat % 4096 + c.toNat ≥ 4096) := by simp [adc16]
/-- Z is computed on the full 16-bit result -/
theorem adc16_Z (a b : U16) (c : Bool) : (adc16 a b c).2.getLsbD 6 = ((adc16 a b c).1 == 0#16) := by
  simp [adc16]
theorem adc16_S (a b : U16) (c : Bool) : (adc16 a b c).2.getLsbD 7 = (adc16 a b c).1.getLsbD 15 := by
  simp [adc16]
theorem adc16_V (a b : U16) (c : Bool) :
    (adc16 a b c).2.getLsbD 2 = decide (a.toInt + b.toInt + (c.toNat : Int) < -32768 ∨ a.toInt + b.toInt + (c.toNat : Int) > 32767) := by
  simp [adc16]
theorem adc16_N (a b : U16) (c : Bool) : (adc16 a b c).2.getLsbD 1 = false := by simp [adc16]

theorem sbc16_C (a b : U16) (c : Bool) :
    (sbc16 a b c).2.getLsbD 0 = decide (a.toNat < b.toNat + c.toNat) := by simp [sbc16]
theorem sbc16_H (a b : U16) (c : Bool) :
    (sbc16 a b c).2.getLsbD 4 = decide (a.toNat % 4096 < b.toNat % 4096 + c.toNat) := by simp [sbc16]
theorem sbc16_Z (a b : U16) (c : Bool) : (sbc16 a b c).2.getLsbD 6 = ((sbc16 a b c).1 == 0#16) := by
  simp [sbc16]
theorem sbc16_V (a b : U16) (c : Bool) :
    (sbc16 a b c).2.getLsbD 2 = decide (a.toInt - b.toInt - (c.toNat : Int) < -32768 ∨ a.toInt - b.toInt - (c.toNat : Int) > 32767) := by
  simp [sbc16]
theorem sbc16_N (a b : U16) (c : Bool) : (sbc16 a b c).2.getLsbD 1 = true := by simp [sbc16]

-- textbook instances (non-vacuity of the definitions)
example : (adc16 0x7fff#16 0x0000#16 true).1 = 0x8000#16 ∧ (adc16 0x7fff#16 0#16 true).2.getLsbD 2 = true := by decide
example : (add16 0x0fff#16 0x0001#16 0xff#8).2 = 0xd4#8 := by decide   -- H set, C clear, S Z PV kept, N reset

-- (iii) every encoding, at the level of Step -----------------------------------

/-- ss operand of the unprefixed / ED forms -/
def ssVal (p : Fin 4) (s : St) : U16 :=
  match p with
  | 0 => regU16 s.BC | 1 => regU16 s.DE | 2 => regU16 s.HL | 3 => s.SP

/-- ADD HL,ss (09 19 29 39): HL' and F' are `add16 HL ss F`; ss = HL for the doubling form -/
theorem C03_add_hl_ss (s : St) (h₁ : s.Interrupt = none) (h₂ : s.Memory = .user) (p : Fin 4)
    (hb : s.mem s.PC = 0x09#8 + (BitVec.ofNat 8 p.val <<< 4)) :
    Gen.Step s = .ok () { (afterM1 s) with HL := regOf (add16 (regU16 s.HL) (ssVal p s) s.AF.Lo).1, AF.Lo := (add16 (regU16 s.HL) (ssVal p s) s.AF.Lo).2 } := by
  match p with
  | 0 => rw [step_main s h₁ h₂ 0x09#8 hb obl_main_09]; simp [z80spec, afterM1, ssVal]
  | 1 => rw [step_main s h₁ h₂ 0x19#8 hb obl_main_19]; simp [z80spec, afterM1, ssVal]
  | 2 => rw [step_main s h₁ h₂ 0x29#8 hb obl_main_29]; simp [z80spec, afterM1, ssVal]
  | 3 => rw [step_main s h₁ h₂ 0x39#8 hb obl_main_39]; simp [z80spec, afterM1, ssVal]

/-- ADC HL,ss (ED 4A 5A 6A 7A) -/
theorem C03_adc_hl_ss (s : St) (h₁ : s.Interrupt = none) (h₂ : s.Memory = .user) (p : Fin 4)
    (hp : s.mem s.PC = 0xed#8) (hb : s.mem (s.PC + 1#16) = 0x4a#8 + (BitVec.ofNat 8 p.val <<< 4)) :
    Gen.Step s = .ok () { (afterM1 (afterM1 s)) with HL := regOf (adc16 (regU16 s.HL) (ssVal p s) (carryIn s.AF.Lo)).1, AF.Lo := (adc16 (regU16 s.HL) (ssVal p s) (carryIn s.AF.Lo)).2 } := by
  match p with
  | 0 => rw [step_ed s h₁ h₂ 0x4a#8 hp hb obl_ed_4a]; simp [z80spec, afterM1, ssVal]
  | 1 => rw [step_ed s h₁ h₂ 0x5a#8 hp hb obl_ed_5a]; simp [z80spec, afterM1, ssVal]
  | 2 => rw [step_ed s h₁ h₂ 0x6a#8 hp hb obl_ed_6a]; simp [z80spec, afterM1, ssVal]
  | 3 => rw [step_ed s h₁ h₂ 0x7a#8 hp hb obl_ed_7a]; simp [z80spec, afterM1, ssVal]

/-- SBC HL,ss (ED 42 52 62 72) -/
theorem C03_sbc_hl_ss (s : St) (h₁ : s.Interrupt = none) (h₂ : s.Memory = .user) (p : Fin 4)
    (hp : s.mem s.PC = 0xed#8) (hb : s.mem (s.PC + 1#16) = 0x42#8 + (BitVec.ofNat 8 p.val <<< 4)) :
    Gen.Step s = .ok () { (afterM1 (afterM1 s)) with HL := regOf (sbc16 (regU16 s.HL) (ssVal p s) (carryIn s.AF.Lo)).1, AF.Lo := (sbc16 (regU16 s.HL) (ssVal p s) (carryIn s.AF.Lo)).2 } := by
  match p with
  | 0 => rw [step_ed s h₁ h₂ 0x42#8 hp hb obl_ed_42]; simp [z80spec, afterM1, ssVal]
  | 1 => rw [step_ed s h₁ h₂ 0x52#8 hp hb obl_ed_52]; simp [z80spec, afterM1, ssVal]
  | 2 => rw [step_ed s h₁ h₂ 0x62#8 hp hb obl_ed_62]; simp [z80spec, afterM1, ssVal]
  | 3 => rw [step_ed s h₁ h₂ 0x72#8 hp hb obl_ed_72]; simp [z80spec, afterM1, ssVal]

/-- pp operand of ADD IX,pp / rr of ADD IY,rr: BC DE (index register itself) SP -/
def ppVal (i : XY) (p : Fin 4) (s : St) : U16 :=
  match p with
  | 0 => regU16 s.BC | 1 => regU16 s.DE | 2 => getXY i s | 3 => s.SP

/-- ADD IX,pp (DD 09 19 29 39); the doubling form adds IX to itself -/
theorem C03_add_ix_pp (s : St) (h₁ : s.Interrupt = none) (h₂ : s.Memory = .user) (p : Fin 4)
    (hp : s.mem s.PC = 0xdd#8) (hb : s.mem (s.PC + 1#16) = 0x09#8 + (BitVec.ofNat 8 p.val <<< 4)) :
    Gen.Step s = .ok () { (afterM1 (afterM1 s)) with IX := (add16 s.IX (ppVal .IX p s) s.AF.Lo).1, AF.Lo := (add16 s.IX (ppVal .IX p s) s.AF.Lo).2 } := by
  match p with
  | 0 => rw [step_dd s h₁ h₂ 0x09#8 hp hb obl_dd_09]; simp [z80spec, afterM1, ppVal]
  | 1 => rw [step_dd s h₁ h₂ 0x19#8 hp hb obl_dd_19]; simp [z80spec, afterM1, ppVal]
  | 2 => rw [step_dd s h₁ h₂ 0x29#8 hp hb obl_dd_29]; simp [z80spec, afterM1, ppVal]
  | 3 => rw [step_dd s h₁ h₂ 0x39#8 hp hb obl_dd_39]; simp [z80spec, afterM1, ppVal]

/-- ADD IY,rr (FD 09 19 29 39) -/
theorem C03_add_iy_rr (s : St) (h₁ : s.Interrupt = none) (h₂ : s.Memory = .user) (p : Fin 4)
    (hp : s.mem s.PC = 0xfd#8) (hb : s.mem (s.PC + 1#16) = 0x09#8 + (BitVec.ofNat 8 p.val <<< 4)) :
    Gen.Step s = .ok () { (afterM1 (afterM1 s)) with IY := (add16 s.IY (ppVal .IY p s) s.AF.Lo).1, AF.Lo := (add16 s.IY (ppVal .IY p s) s.AF.Lo).2 } := by
  match p with
  | 0 => rw [step_fd s h₁ h₂ 0x09#8 hp hb obl_fd_09]; simp [z80spec, afterM1, ppVal]
  | 1 => rw [step_fd s h₁ h₂ 0x19#8 hp hb obl_fd_19]; simp [z80spec, afterM1, ppVal]
  | 2 => rw [step_fd s h₁ h₂ 0x29#8 hp hb obl_fd_29]; simp [z80spec, afterM1, ppVal]
  | 3 => rw [step_fd s h₁ h₂ 0x39#8 hp hb obl_fd_39]; simp [z80spec, afterM1, ppVal]

/-- INC ss (03 13 23 33): ss + 1 modulo 65536, F untouched, nothing else but PC/R/the fetch -/
theorem C03_inc_ss (s : St) (h₁ : s.Interrupt = none) (h₂ : s.Memory = .user) (p : Fin 4)
    (hb : s.mem s.PC = 0x03#8 + (BitVec.ofNat 8 p.val <<< 4)) :
    Gen.Step s = .ok () (set16 (rpOf none p.val) (ssVal p s + 1#16) (afterM1 s)) := by
  match p with
  | 0 => rw [step_main s h₁ h₂ 0x03#8 hb obl_main_03]; simp [z80spec, afterM1, ssVal]
  | 1 => rw [step_main s h₁ h₂ 0x13#8 hb obl_main_13]; simp [z80spec, afterM1, ssVal]
  | 2 => rw [step_main s h₁ h₂ 0x23#8 hb obl_main_23]; simp [z80spec, afterM1, ssVal]
  | 3 => rw [step_main s h₁ h₂ 0x33#8 hb obl_main_33]; simp [z80spec, afterM1, ssVal]

/-- DEC ss (0B 1B 2B 3B) -/
theorem C03_dec_ss (s : St) (h₁ : s.Interrupt = none) (h₂ : s.Memory = .user) (p : Fin 4)
    (hb : s.mem s.PC = 0x0b#8 + (BitVec.ofNat 8 p.val <<< 4)) :
    Gen.Step s = .ok () (set16 (rpOf none p.val) (ssVal p s - 1#16) (afterM1 s)) := by
  match p with
  | 0 => rw [step_main s h₁ h₂ 0x0b#8 hb obl_main_0b]; simp [z80spec, afterM1, ssVal]
  | 1 => rw [step_main s h₁ h₂ 0x1b#8 hb obl_main_1b]; simp [z80spec, afterM1, ssVal]
  | 2 => rw [step_main s h₁ h₂ 0x2b#8 hb obl_main_2b]; simp [z80spec, afterM1, ssVal]
  | 3 => rw [step_main s h₁ h₂ 0x3b#8 hb obl_main_3b]; simp [z80spec, afterM1, ssVal]

/-- INC/DEC IX, IY (DD/FD 23, 2B) -/
theorem C03_incdec_xy (s : St) (h₁ : s.Interrupt = none) (h₂ : s.Memory = .user) :
    (s.mem s.PC = 0xdd#8 → s.mem (s.PC + 1#16) = 0x23#8 → Gen.Step s = .ok () { (afterM1 (afterM1 s)) with IX := s.IX + 1#16 }) ∧
    (s.mem s.PC = 0xdd#8 → s.mem (s.PC + 1#16) = 0x2b#8 → Gen.Step s = .ok () { (afterM1 (afterM1 s)) with IX := s.IX - 1#16 }) ∧
    (s.mem s.PC = 0xfd#8 → s.mem (s.PC + 1#16) = 0x23#8 → Gen.Step s = .ok () { (afterM1 (afterM1 s)) with IY := s.IY + 1#16 }) ∧
    (s.mem s.PC = 0xfd#8 → s.mem (s.PC + 1#16) = 0x2b#8 → Gen.Step s = .ok () { (afterM1 (afterM1 s)) with IY := s.IY - 1#16 }) := by
  refine ⟨?_, ?_, ?_, ?_⟩ <;> intro hp hb
  · rw [step_dd s h₁ h₂ 0x23#8 hp hb obl_dd_23]; simp [z80spec, afterM1]
  · rw [step_dd s h₁ h₂ 0x2b#8 hp hb obl_dd_2b]; simp [z80spec, afterM1]
  · rw [step_fd s h₁ h₂ 0x23#8 hp hb obl_fd_23]; simp [z80spec, afterM1]
  · rw [step_fd s h₁ h₂ 0x2b#8 hp hb obl_fd_2b]; simp [z80spec, afterM1]

/-- F is never touched by INC/DEC ss (corollary, spelled out for HL) -/
theorem C03_inc_hl_flags (s : St) (h₁ : s.Interrupt = none) (h₂ : s.Memory = .user) (hb : s.mem s.PC = 0x23#8) :
    ∃ t, Gen.Step s = .ok () t ∧ t.AF = s.AF ∧ regU16 t.HL = regU16 s.HL + 1#16 := by
  have := C03_inc_ss s h₁ h₂ 2 (by simpa using hb)
  refine ⟨_, this, ?_, ?_⟩ <;> simp [set16, rpOf, hlOf, afterM1, ssVal, regOf, regU16, mk16_hi_lo]

-- hypotheses are satisfiable: a state with `ADD HL,HL` at PC
example : ∃ s : St, s.Interrupt = none ∧ s.Memory = .user ∧ s.mem s.PC = 0x09#8 + (BitVec.ofNat 8 (2 : Fin 4).val <<< 4) :=
  ⟨{ (default : CPU) with Interrupt := none, Memory := .user, mem := fun _ => 0x29#8, dev := fun _ _ => 0#8, log := [] },
   rfl, rfl, by decide⟩

end Z80.Props.C03
