/-
  Z80.Proofs.Step — Layer 2, top: the generated `executeOne` IS the reference `executeOne`
  (for the recorded implementation choices `Impl.koron`), on every state with a user memory.
-/
import Z80.Proofs.Tables.Main

namespace Z80
open Z80.Gen Z80.Spec Z80.Obl

theorem executeOne_eq (s : St) (h : s.Memory = .user) :
    Gen.executeOne s = Spec.executeOne Impl.koron s := by
  simp (config := {implicitDefEqProofs := false}) [Gen.executeOne, Gen.fetchM1, Gen.Memory_Get, Spec.executeOne, Spec.fetchM1,
    Spec.fetch, rd8, incR, h, sw_main_eq]

end Z80
