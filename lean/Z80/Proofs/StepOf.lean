/-
  Z80.Proofs.StepOf — from a per-slot obligation to a statement about `Gen.Step` on a state whose
  memory holds that opcode at PC.  Depends only on the generated Step/executeOne/fetch code and on
  the obligation passed in, so a property can be stated at the level of `Step` while importing
  only the obligations of its own instruction family.
-/
import Z80.Proofs.ArmTac

namespace Z80
open Z80.Gen Z80.Spec

/-- the state after one opcode fetch (M1) -/
def afterM1 (s : St) : St :=
  { s with PC := s.PC + 1#16, IR.Lo := incR s.IR.Lo, log := .mr s.PC (s.mem s.PC) :: s.log }
/-- the state after one operand fetch -/
def afterFetch (s : St) : St :=
  { s with PC := s.PC + 1#16, log := .mr s.PC (s.mem s.PC) :: s.log }

@[simp] theorem afterM1_Memory (s : St) : (afterM1 s).Memory = s.Memory := rfl
@[simp] theorem afterFetch_Memory (s : St) : (afterFetch s).Memory = s.Memory := rfl

theorem gen_fetchM1 (s : St) (h : s.Memory = .user) : Gen.fetchM1 s = .ok (s.mem s.PC) (afterM1 s) := by
  simp [Gen.fetchM1, Gen.Memory_Get, h, afterM1, incR]
theorem gen_fetch (s : St) (h : s.Memory = .user) : Gen.fetch s = .ok (s.mem s.PC) (afterFetch s) := by
  simp [Gen.fetch, Gen.Memory_Get, h, afterFetch]

theorem gen_Step_noint (s : St) (h₁ : s.Interrupt = none) : Gen.Step s = Gen.executeOne s := by
  simp [Gen.Step, h₁]

/-- unprefixed opcode `b` at PC -/
theorem step_main (s : St) (h₁ : s.Interrupt = none) (h₂ : s.Memory = .user) (b : U8) (hb : s.mem s.PC = b)
    (hobl : ∀ s : St, s.Memory = .user → executeOne_sw b s = execMain Impl.koron b s) :
    Gen.Step s = execMain Impl.koron b (afterM1 s) := by
  rw [gen_Step_noint s h₁]
  simp only [Gen.executeOne, bind_run, gen_fetchM1 s h₂, Res.bind_ok, hb]
  rw [hobl _ (by simp [h₂])]
  simp

/-- `CB b` at PC -/
theorem step_cb (s : St) (h₁ : s.Interrupt = none) (h₂ : s.Memory = .user) (b : U8)
    (hp : s.mem s.PC = 0xcb#8) (hb : s.mem (s.PC + 1#16) = b)
    (hobl : ∀ (c0 : U8) (s : St), s.Memory = .user → executeOne_sw_cb c0 b s = exec Impl.koron (decodeCB b.toNat) s) :
    Gen.Step s = exec Impl.koron (decodeCB b.toNat) (afterM1 (afterM1 s)) := by
  rw [gen_Step_noint s h₁]
  simp only [Gen.executeOne, bind_run, gen_fetchM1 s h₂, Res.bind_ok, hp, executeOne_sw_at_cb, executeOne_arm_cb]
  rw [gen_fetchM1 _ (by simp [h₂])]
  have : (afterM1 s).mem (afterM1 s).PC = b := by simpa [afterM1] using hb
  simp only [Res.bind_ok, this, bind_run]
  rw [hobl _ _ (by simp [h₂])]
  simp

/-- `ED b` at PC -/
theorem step_ed (s : St) (h₁ : s.Interrupt = none) (h₂ : s.Memory = .user) (b : U8)
    (hp : s.mem s.PC = 0xed#8) (hb : s.mem (s.PC + 1#16) = b)
    (hobl : ∀ (c0 : U8) (s : St), s.Memory = .user →
      executeOne_sw_ed c0 b s = execOpt Impl.koron [c0, b] (decodeED b.toNat) s) :
    Gen.Step s = execOpt Impl.koron [0xed#8, b] (decodeED b.toNat) (afterM1 (afterM1 s)) := by
  rw [gen_Step_noint s h₁]
  simp only [Gen.executeOne, bind_run, gen_fetchM1 s h₂, Res.bind_ok, hp, executeOne_sw_at_ed, executeOne_arm_ed]
  rw [gen_fetchM1 _ (by simp [h₂])]
  have : (afterM1 s).mem (afterM1 s).PC = b := by simpa [afterM1] using hb
  simp only [Res.bind_ok, this, bind_run]
  rw [hobl _ _ (by simp [h₂])]
  simp

/-- `DD b` at PC (b ≠ CB) -/
theorem step_dd (s : St) (h₁ : s.Interrupt = none) (h₂ : s.Memory = .user) (b : U8)
    (hp : s.mem s.PC = 0xdd#8) (hb : s.mem (s.PC + 1#16) = b)
    (hobl : ∀ (c0 : U8) (s : St), s.Memory = .user →
      executeOne_sw_dd c0 b s = execOpt Impl.koron [c0, b] (decodeXY .IX b.toNat) s) :
    Gen.Step s = execOpt Impl.koron [0xdd#8, b] (decodeXY .IX b.toNat) (afterM1 (afterM1 s)) := by
  rw [gen_Step_noint s h₁]
  simp only [Gen.executeOne, bind_run, gen_fetchM1 s h₂, Res.bind_ok, hp, executeOne_sw_at_dd, executeOne_arm_dd]
  rw [gen_fetchM1 _ (by simp [h₂])]
  have : (afterM1 s).mem (afterM1 s).PC = b := by simpa [afterM1] using hb
  simp only [Res.bind_ok, this, bind_run]
  rw [hobl _ _ (by simp [h₂])]
  simp

/-- `FD b` at PC (b ≠ CB) -/
theorem step_fd (s : St) (h₁ : s.Interrupt = none) (h₂ : s.Memory = .user) (b : U8)
    (hp : s.mem s.PC = 0xfd#8) (hb : s.mem (s.PC + 1#16) = b)
    (hobl : ∀ (c0 : U8) (s : St), s.Memory = .user →
      executeOne_sw_fd c0 b s = execOpt Impl.koron [c0, b] (decodeXY .IY b.toNat) s) :
    Gen.Step s = execOpt Impl.koron [0xfd#8, b] (decodeXY .IY b.toNat) (afterM1 (afterM1 s)) := by
  rw [gen_Step_noint s h₁]
  simp only [Gen.executeOne, bind_run, gen_fetchM1 s h₂, Res.bind_ok, hp, executeOne_sw_at_fd, executeOne_arm_fd]
  rw [gen_fetchM1 _ (by simp [h₂])]
  have : (afterM1 s).mem (afterM1 s).PC = b := by simpa [afterM1] using hb
  simp only [Res.bind_ok, this, bind_run]
  rw [hobl _ _ (by simp [h₂])]
  simp

/-- `DD CB d b` at PC -/
theorem step_ddcb (s : St) (h₁ : s.Interrupt = none) (h₂ : s.Memory = .user) (d b : U8)
    (hp : s.mem s.PC = 0xdd#8) (hq : s.mem (s.PC + 1#16) = 0xcb#8) (hd : s.mem (s.PC + 2#16) = d)
    (hb : s.mem (s.PC + 3#16) = b)
    (hobl : ∀ (c0 c1 d : U8) (s : St), s.Memory = .user →
      executeOne_sw_dd_cb c0 c1 d b s = execOpt Impl.koron [c0, c1, d, b] (decodeXYCB .IX d b.toNat) s) :
    Gen.Step s = execOpt Impl.koron [0xdd#8, 0xcb#8, d, b] (decodeXYCB .IX d b.toNat)
      (afterM1 (afterFetch (afterM1 (afterM1 s)))) := by
  rw [gen_Step_noint s h₁]
  simp only [Gen.executeOne, bind_run, gen_fetchM1 s h₂, Res.bind_ok, hp, executeOne_sw_at_dd, executeOne_arm_dd]
  rw [gen_fetchM1 _ (by simp [h₂])]
  have e1 : (afterM1 s).mem (afterM1 s).PC = 0xcb#8 := by simpa [afterM1] using hq
  simp only [Res.bind_ok, e1, bind_run, executeOne_sw_dd_at_cb, executeOne_arm_dd_cb]
  rw [gen_fetch _ (by simp [h₂])]
  simp only [Res.bind_ok, bind_run]
  rw [gen_fetchM1 _ (by simp [h₂])]
  have e2 : (afterM1 (afterM1 s)).mem (afterM1 (afterM1 s)).PC = d := by simpa [afterM1, z80helper] using hd
  have e3 : (afterFetch (afterM1 (afterM1 s))).mem (afterFetch (afterM1 (afterM1 s))).PC = b := by
    simpa [afterM1, afterFetch, z80helper] using hb
  simp only [Res.bind_ok, e2, e3, bind_run, pure_run]
  rw [hobl _ _ _ _ (by simp [h₂])]
  simp

/-- `FD CB d b` at PC -/
theorem step_fdcb (s : St) (h₁ : s.Interrupt = none) (h₂ : s.Memory = .user) (d b : U8)
    (hp : s.mem s.PC = 0xfd#8) (hq : s.mem (s.PC + 1#16) = 0xcb#8) (hd : s.mem (s.PC + 2#16) = d)
    (hb : s.mem (s.PC + 3#16) = b)
    (hobl : ∀ (c0 c1 d : U8) (s : St), s.Memory = .user →
      executeOne_sw_fd_cb c0 c1 d b s = execOpt Impl.koron [c0, c1, d, b] (decodeXYCB .IY d b.toNat) s) :
    Gen.Step s = execOpt Impl.koron [0xfd#8, 0xcb#8, d, b] (decodeXYCB .IY d b.toNat)
      (afterM1 (afterFetch (afterM1 (afterM1 s)))) := by
  rw [gen_Step_noint s h₁]
  simp only [Gen.executeOne, bind_run, gen_fetchM1 s h₂, Res.bind_ok, hp, executeOne_sw_at_fd, executeOne_arm_fd]
  rw [gen_fetchM1 _ (by simp [h₂])]
  have e1 : (afterM1 s).mem (afterM1 s).PC = 0xcb#8 := by simpa [afterM1] using hq
  simp only [Res.bind_ok, e1, bind_run, executeOne_sw_fd_at_cb, executeOne_arm_fd_cb]
  rw [gen_fetch _ (by simp [h₂])]
  simp only [Res.bind_ok, bind_run]
  rw [gen_fetchM1 _ (by simp [h₂])]
  have e2 : (afterM1 (afterM1 s)).mem (afterM1 (afterM1 s)).PC = d := by simpa [afterM1, z80helper] using hd
  have e3 : (afterFetch (afterM1 (afterM1 s))).mem (afterFetch (afterM1 (afterM1 s))).PC = b := by
    simpa [afterM1, afterFetch, z80helper] using hb
  simp only [Res.bind_ok, e2, e3, bind_run, pure_run]
  rw [hobl _ _ _ _ (by simp [h₂])]
  simp

end Z80
