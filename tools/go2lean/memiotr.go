package main

// memiotr.go — C15: translation of memio.go (DumbMemory, DumbIO, MapMemory) into Lean.
//
// The methods of the bundled stores work on Go slices and maps, which the CPU translator does not handle.  This is a second,
// small translator for exactly that fragment.  Every method becomes a Lean function in the Option monad (none = the Go
// code panics) over the OBJECT its receiver refers to:
//
//	func (r T) M(args) R   ~~>   def T_M (r : Obj) (args) : Option (Obj × R)        -- the receiver's object afterwards, and the result
//
// (R omitted when the method returns nothing or returns its receiver — recorded in `returnsReceiver`.)
// Go primitives are mapped to the functions of the hand-written prelude Z80/GoStore.lean, whose reading of the Go specification is
// part of the trusted base and is validated, together with this translator, by running the translated methods against the real
// ones on generated operation sequences (correspondence stream `memiogen`):
//
//	s[i] (read)            goIndex s i            (none when i ≥ len s)
//	s[i] = v               goAssign s i v         (none when i ≥ len s)
//	len(s)                 goLen s  : Int
//	copy(s[lo:hi], src)    goCopy s lo hi src     (none unless 0 ≤ lo ≤ hi ≤ cap s; copies min(hi-lo, len src) bytes)
//	v, ok := m[k]          goLookup m k           (nil map: not found)
//	m[k] = v               goMapAssign m k v      (none when m is nil)
//	delete(m, k)           goDelete m k
//	for k, v := range m    List.foldlM over goEntries m — a snapshot of the entries.  Go leaves the iteration order unspecified and
//	                       lets the body delete entries not yet reached; the translator therefore only accepts bodies that change the
//	                       ranged map by `delete(m, k)` with the loop's own key (or not at all), for which the snapshot reading is exact,
//	                       and Props/C15 proves the results independent of the order
//	for _, v := range s    List.foldlM over s
//	x.(T) with comma-ok    goAssertMap x
//	reflect.DeepEqual(a,b) goDeepEqualMap a b     (both operands of type MapMemory)
//	T{}                    goEmptyMap
//	int(x)                 (x.toNat : Int)        (Go int is 64 bits; modelled unbounded — sums of a uint16 and a slice length cannot overflow it)
//
// Anything else is refused (the run fails, the proof obligations of C15 are reported broken, and the correspondence of the hand-written
// model searches for a failing input).

import (
	"fmt"
	"go/ast"
	"go/token"
	"go/types"
	"sort"
	"strings"
)

type memTr struct {
	info      *types.Info
	fset      *token.FileSet
	structs   bool              // struct mode (tinycpm): pointer receivers to structs, effects (writer / logger calls) collected in `fx`
	recv      string            // receiver variable
	recvKind  string            // "slice" | "map"
	created   map[string]bool   // locals holding fresh objects created by composite literals
	tmp       int
	retType   string            // Lean type of the result ("" = none)
	retSelf   bool
	resultsTy types.Type
}

func (m *memTr) refuse(n ast.Node, msg string) {
	panic(refusal(fmt.Sprintf("memio translator: %s: %s", m.fset.Position(n.Pos()), msg)))
}

func (m *memTr) kindOf(ty types.Type) string {
	switch u := ty.Underlying().(type) {
	case *types.Slice:
		if b, ok := u.Elem().Underlying().(*types.Basic); ok && b.Kind() == types.Uint8 {
			return "slice"
		}
	case *types.Map:
		k, ok1 := u.Key().Underlying().(*types.Basic)
		v, ok2 := u.Elem().Underlying().(*types.Basic)
		if ok1 && ok2 && k.Kind() == types.Uint16 && v.Kind() == types.Uint8 {
			return "map"
		}
	case *types.Basic:
		switch u.Kind() {
		case types.Uint8:
			return "u8"
		case types.Uint16:
			return "u16"
		case types.Int, types.UntypedInt:
			return "int"
		case types.Bool, types.UntypedBool:
			return "bool"
		}
	case *types.Array:
		if b, ok := u.Elem().Underlying().(*types.Basic); ok && b.Kind() == types.Uint8 {
			return "array"
		}
	case *types.Interface:
		if u.Empty() {
			return "dyn"
		}
		if nt, ok := ty.(*types.Named); ok && nt.Obj().Pkg() != nil && nt.Obj().Pkg().Path() == "io" && nt.Obj().Name() == "Writer" {
			return "writer"
		}
	case *types.Pointer:
		if nt, ok := u.Elem().(*types.Named); ok && nt.Obj().Pkg() != nil && nt.Obj().Pkg().Path() == "log" && nt.Obj().Name() == "Logger" {
			return "logger"
		}
	}
	return ""
}

func (m *memTr) leanType(n ast.Node, ty types.Type) string {
	switch m.kindOf(ty) {
	case "slice":
		return "Slice"
	case "map":
		return "GoMap"
	case "u8":
		return "U8"
	case "u16":
		return "U16"
	case "int":
		return "Int"
	case "bool":
		return "Bool"
	case "dyn":
		return "Dyn"
	case "array":
		return "List U8"
	case "writer", "logger":
		return "Nat"
	}
	m.refuse(n, "unsupported type "+ty.String())
	return ""
}

func (m *memTr) typeOf(e ast.Expr) types.Type {
	tv, ok := m.info.Types[e]
	if !ok {
		if id, ok := e.(*ast.Ident); ok {
			if o := m.info.Uses[id]; o != nil {
				return o.Type()
			}
			if o := m.info.Defs[id]; o != nil {
				return o.Type()
			}
		}
		m.refuse(e, "untyped expression")
	}
	return tv.Type
}

func mident(s string) string {
	if leanKeywords[s] {
		return s + "_"
	}
	return s
}

// pure expression -> Lean term; effects (slice reads) are hoisted into `pre` as monadic lets
func (m *memTr) expr(e ast.Expr, pre *[]string) string {
	if tv, ok := m.info.Types[e]; ok && tv.Value != nil {
		// constant
		switch m.kindOf(tv.Type) {
		case "u8":
			return fmt.Sprintf("(%s#8)", tv.Value.ExactString())
		case "u16":
			return fmt.Sprintf("(%s#16)", tv.Value.ExactString())
		case "int":
			return fmt.Sprintf("(%s : Int)", tv.Value.ExactString())
		case "bool":
			return tv.Value.ExactString()
		}
		m.refuse(e, "constant of unsupported type")
	}
	switch x := e.(type) {
	case *ast.ParenExpr:
		return m.expr(x.X, pre)
	case *ast.Ident:
		if x.Name == "nil" {
			m.refuse(e, "nil literal")
		}
		return mident(x.Name)
	case *ast.SelectorExpr:
		if id, ok := x.X.(*ast.Ident); ok && m.structs && id.Name == m.recv {
			return mident(id.Name) + "." + mident(x.Sel.Name)
		}
	case *ast.UnaryExpr:
		if cl, ok := x.X.(*ast.CompositeLit); ok && x.Op == token.AND && m.recv == "" {
			// &T{Field: expr, ...} of a struct with scalar / byte-slice fields: the record value (the pointer is fresh by construction)
			nt, ok := m.typeOf(cl).(*types.Named)
			if !ok {
				m.refuse(e, "composite literal of an unnamed type")
			}
			st, ok := nt.Underlying().(*types.Struct)
			if !ok {
				m.refuse(e, "composite literal of a non-struct")
			}
			vals := map[string]string{}
			for _, el := range cl.Elts {
				kv, ok := el.(*ast.KeyValueExpr)
				if !ok {
					m.refuse(e, "positional struct literal")
				}
				vals[kv.Key.(*ast.Ident).Name] = m.expr(kv.Value, pre)
			}
			var fs []string
			for i := 0; i < st.NumFields(); i++ {
				f := st.Field(i)
				v, ok := vals[f.Name()]
				if !ok {
					switch m.kindOf(f.Type()) {
					case "slice":
						v = "[]" // nil slice: no elements
					case "int":
						v = "(0 : Int)"
					case "u8":
						v = "0#8"
					case "u16":
						v = "0#16"
					case "bool":
						v = "false"
					default:
						m.refuse(e, "zero value of field "+f.Name())
					}
				}
				fs = append(fs, fmt.Sprintf("%s := %s", mident(f.Name()), v))
			}
			return "{ " + strings.Join(fs, ", ") + " : " + nt.Obj().Name() + " }"
		}
		if x.Op == token.NOT {
			return "(!" + m.expr(x.X, pre) + ")"
		}
	case *ast.BinaryExpr:
		l, r := m.expr(x.X, pre), m.expr(x.Y, pre)
		k := m.kindOf(m.typeOf(x.X))
		switch x.Op {
		case token.ADD, token.SUB:
			if k == "int" || k == "u8" || k == "u16" {
				return fmt.Sprintf("(%s %s %s)", l, x.Op.String(), r)
			}
		case token.GEQ, token.LEQ, token.LSS, token.GTR:
			if k == "int" {
				return fmt.Sprintf("(decide (%s %s %s))", l, map[token.Token]string{token.GEQ: "≥", token.LEQ: "≤", token.LSS: "<", token.GTR: ">"}[x.Op], r)
			}
			if k == "u8" || k == "u16" {
				return fmt.Sprintf("(decide (%s.toNat %s %s.toNat))", l, map[token.Token]string{token.GEQ: "≥", token.LEQ: "≤", token.LSS: "<", token.GTR: ">"}[x.Op], r)
			}
		case token.EQL:
			if k == "int" || k == "u8" || k == "u16" || k == "bool" {
				return fmt.Sprintf("(%s == %s)", l, r)
			}
		case token.NEQ:
			if k == "int" || k == "u8" || k == "u16" || k == "bool" {
				return fmt.Sprintf("(%s != %s)", l, r)
			}
		case token.LAND:
			return fmt.Sprintf("(%s && %s)", l, r)
		case token.LOR:
			return fmt.Sprintf("(%s || %s)", l, r)
		}
	case *ast.IndexExpr:
		switch m.kindOf(m.typeOf(x.X)) {
		case "slice", "array":
			s := m.expr(x.X, pre)
			i := m.indexNat(x.Index, pre)
			m.tmp++
			tn := fmt.Sprintf("t%d", m.tmp)
			*pre = append(*pre, fmt.Sprintf("let %s ← goIndex %s %s", tn, s, i))
			return tn
		case "map":
			return fmt.Sprintf("(goLookup %s %s).1", m.expr(x.X, pre), m.expr(x.Index, pre))
		}
	case *ast.CallExpr:
		// conversions
		if tv, ok := m.info.Types[x.Fun]; ok && tv.IsType() && len(x.Args) == 1 {
			to, from := m.kindOf(tv.Type), m.kindOf(m.typeOf(x.Args[0]))
			a := m.expr(x.Args[0], pre)
			switch {
			case to == "int" && (from == "u8" || from == "u16"):
				return fmt.Sprintf("(%s.toNat : Int)", a)
			case to == from:
				return a
			case to == "u16" && from == "u8":
				return fmt.Sprintf("(%s.setWidth 16)", a)
			case to == "u8" && from == "u16":
				return fmt.Sprintf("(%s.setWidth 8)", a)
			}
			m.refuse(e, "unsupported conversion")
		}
		if id, ok := x.Fun.(*ast.Ident); ok {
			if _, isB := m.info.Uses[id].(*types.Builtin); isB && id.Name == "len" && len(x.Args) == 1 {
				switch m.kindOf(m.typeOf(x.Args[0])) {
				case "slice":
					return fmt.Sprintf("(goLen %s)", m.expr(x.Args[0], pre))
				case "map":
					return fmt.Sprintf("(goMapLen %s)", m.expr(x.Args[0], pre))
				}
			}
		}
		if se, ok := x.Fun.(*ast.SelectorExpr); ok {
			if fn, ok := m.info.Uses[se.Sel].(*types.Func); ok && fn.Pkg() != nil && fn.Pkg().Path() == "reflect" && fn.Name() == "DeepEqual" && len(x.Args) == 2 {
				if m.kindOf(m.typeOf(x.Args[0])) == "map" && m.kindOf(m.typeOf(x.Args[1])) == "map" {
					return fmt.Sprintf("(goDeepEqualMap %s %s)", m.expr(x.Args[0], pre), m.expr(x.Args[1], pre))
				}
			}
		}
	case *ast.CompositeLit:
		if m.kindOf(m.typeOf(x)) == "map" && len(x.Elts) == 0 {
			return "goEmptyMap"
		}
		if m.kindOf(m.typeOf(x)) == "slice" {
			var els []string
			for _, el := range x.Elts {
				if _, isKV := el.(*ast.KeyValueExpr); isKV {
					m.refuse(e, "keyed slice literal")
				}
				els = append(els, m.expr(el, pre))
			}
			return "([" + strings.Join(els, ", ") + "] : List U8)"
		}
	}
	m.refuse(e, fmt.Sprintf("unsupported expression %T", e))
	return ""
}

// index of a slice element as a Nat (Go panics on a negative int index: goIdx)
func (m *memTr) indexNat(e ast.Expr, pre *[]string) string {
	switch m.kindOf(m.typeOf(e)) {
	case "u8", "u16":
		return m.expr(e, pre) + ".toNat"
	case "int":
		m.tmp++
		tn := fmt.Sprintf("t%d", m.tmp)
		*pre = append(*pre, fmt.Sprintf("let %s ← goIdx %s", tn, m.expr(e, pre)))
		return tn
	}
	m.refuse(e, "unsupported index type")
	return ""
}

// variables assigned (in any way) inside a statement list
func (m *memTr) assigned(stmts []ast.Stmt, set map[string]bool) {
	for _, s := range stmts {
		ast.Inspect(s, func(n ast.Node) bool {
			switch x := n.(type) {
			case *ast.AssignStmt:
				if x.Tok == token.DEFINE {
					return true
				}
				for _, l := range x.Lhs {
					switch y := l.(type) {
					case *ast.Ident:
						set[y.Name] = true
					case *ast.IndexExpr:
						if id, ok := y.X.(*ast.Ident); ok {
							set[id.Name] = true
						}
					}
				}
			case *ast.IncDecStmt:
				if id, ok := x.X.(*ast.Ident); ok {
					set[id.Name] = true
				}
			case *ast.CallExpr:
				if id, ok := x.Fun.(*ast.Ident); ok && (id.Name == "delete" || id.Name == "copy") && len(x.Args) > 0 {
					a := x.Args[0]
					if se, ok := a.(*ast.SliceExpr); ok {
						a = se.X
					}
					if id2, ok := a.(*ast.Ident); ok {
						set[id2.Name] = true
					}
				}
			}
			return true
		})
	}
}

func (m *memTr) mutableObj(n ast.Node, name string) {
	if name != m.recv && !m.created[name] {
		m.refuse(n, "writes through "+name+", which is neither the receiver nor an object created in this method")
	}
}

func tuple(vs []string) string {
	if len(vs) == 1 {
		return vs[0]
	}
	return "(" + strings.Join(vs, ", ") + ")"
}

func (m *memTr) finish(val string) string {
	// the function's answer: receiver object afterwards (+ effects in struct mode) (+ result)
	if m.recv == "" {
		return "pure " + val // a free function (constructor mode)
	}
	if m.structs {
		if m.retType == "" {
			return fmt.Sprintf("pure (%s, fx)", mident(m.recv))
		}
		return fmt.Sprintf("pure (%s, fx, %s)", mident(m.recv), val)
	}
	if m.retType == "" {
		return fmt.Sprintf("pure %s", mident(m.recv))
	}
	return fmt.Sprintf("pure (%s, %s)", mident(m.recv), val)
}

// stmts -> lines of a do block.  `tail` is what ends the block when the list runs out (function end: the void answer; loop body: the carried tuple)
func (m *memTr) block(stmts []ast.Stmt, ind string, tail string, inLoop bool, loopKey string, rangedMap string) []string {
	var out []string
	emit := func(pre []string, l string) {
		for _, p := range pre {
			out = append(out, ind+p)
		}
		if l != "" {
			out = append(out, ind+l)
		}
	}
	for i, s := range stmts {
		switch x := s.(type) {
		case *ast.ReturnStmt:
			if inLoop {
				m.refuse(s, "return inside a loop")
			}
			var pre []string
			switch {
			case len(x.Results) == 0:
				emit(nil, m.finish(""))
			case m.retSelf:
				if id, ok := x.Results[0].(*ast.Ident); !ok || id.Name != m.recv {
					m.refuse(s, "this method returns its receiver on one path and something else on another")
				}
				emit(nil, fmt.Sprintf("pure %s", mident(m.recv)))
			default:
				v := m.expr(x.Results[0], &pre)
				emit(pre, m.finish(v))
			}
			if i != len(stmts)-1 {
				m.refuse(s, "statements after return")
			}
			return out
		case *ast.IfStmt:
			if x.Init != nil || x.Else != nil {
				m.refuse(s, "if with init or else")
			}
			if n := len(x.Body.List); n == 0 || !isReturn(x.Body.List[n-1]) {
				m.refuse(s, "if body that does not end in return")
			}
			var pre []string
			c := m.expr(x.Cond, &pre)
			emit(pre, fmt.Sprintf("if %s then", c))
			out = append(out, m.block(x.Body.List, ind+"  ", "", inLoop, loopKey, rangedMap)...)
			out = append(out, ind+"else")
			out = append(out, m.block(stmts[i+1:], ind+"  ", tail, inLoop, loopKey, rangedMap)...)
			return out
		case *ast.IncDecStmt:
			id, ok := x.X.(*ast.Ident)
			if !ok {
				m.refuse(s, "++/-- on a non-variable")
			}
			k := m.kindOf(m.typeOf(id))
			w := map[string]string{"u8": "1#8", "u16": "1#16", "int": "(1 : Int)"}[k]
			if w == "" {
				m.refuse(s, "++/-- on unsupported type")
			}
			op := "+"
			if x.Tok == token.DEC {
				op = "-"
			}
			emit(nil, fmt.Sprintf("let %s := %s %s %s", mident(id.Name), mident(id.Name), op, w))
		case *ast.ExprStmt:
			call, ok := x.X.(*ast.CallExpr)
			if !ok {
				m.refuse(s, "expression statement")
			}
			if se, ok := call.Fun.(*ast.SelectorExpr); ok && m.structs {
				// a call on a field of the receiver: a logger's Printf-family = one warning; a writer's Write(b) = b reaches the writer
				if f, ok := m.recvField(se.X); ok {
					var pre []string
					switch m.kindOf(m.typeOf(se.X)) {
					case "logger":
						if se.Sel.Name != "Printf" && se.Sel.Name != "Println" && se.Sel.Name != "Print" {
							m.refuse(s, "logger method "+se.Sel.Name)
						}
						for _, a := range call.Args[1:] {
							m.expr(a, &pre) // arguments must be pure expressions of the fragment
						}
						if len(pre) > 0 {
							m.refuse(s, "logger argument with effects")
						}
						emit(nil, fmt.Sprintf("let fx := fx ++ [Effect.warn %s.%s]", mident(m.recv), mident(f)))
						continue
					case "writer":
						if se.Sel.Name != "Write" || len(call.Args) != 1 || m.kindOf(m.typeOf(call.Args[0])) != "slice" {
							m.refuse(s, "writer call other than Write(b)")
						}
						b := m.expr(call.Args[0], &pre)
						emit(pre, fmt.Sprintf("let fx := fx ++ [Effect.write %s.%s %s]", mident(m.recv), mident(f), b))
						continue
					}
				}
				m.refuse(s, "method call statement")
			}
			fid, ok := call.Fun.(*ast.Ident)
			if !ok {
				m.refuse(s, "call statement")
			}
			if _, isB := m.info.Uses[fid].(*types.Builtin); !isB {
				m.refuse(s, "call of a non-builtin")
			}
			var pre []string
			switch fid.Name {
			case "copy":
				se, ok := call.Args[0].(*ast.SliceExpr)
				if !ok || se.Slice3 || se.Low == nil {
					m.refuse(s, "copy whose destination is not d[lo:hi] or d[lo:]")
				}
				if se.High == nil {
					// d[lo:] — the high bound is len(d)
					did, ok := se.X.(*ast.Ident)
					if !ok || m.kindOf(m.typeOf(did)) != "slice" || m.kindOf(m.typeOf(call.Args[1])) != "slice" || m.kindOf(m.typeOf(se.Low)) != "int" {
						m.refuse(s, "copy on unsupported operands")
					}
					m.mutableObj(s, did.Name)
					lo, src := m.expr(se.Low, &pre), m.expr(call.Args[1], &pre)
					emit(pre, fmt.Sprintf("let %s ← goCopy %s %s (goLen %s) %s", mident(did.Name), mident(did.Name), lo, mident(did.Name), src))
					continue
				}
				if f, ok := m.recvField(se.X); ok && m.kindOf(m.typeOf(se.X)) == "array" && m.kindOf(m.typeOf(call.Args[1])) == "slice" {
					if m.kindOf(m.typeOf(se.Low)) != "int" || m.kindOf(m.typeOf(se.High)) != "int" {
						m.refuse(s, "slice bounds that are not int")
					}
					lo, hi, src := m.expr(se.Low, &pre), m.expr(se.High, &pre), m.expr(call.Args[1], &pre)
					m.tmp++
					emit(pre, fmt.Sprintf("let t%d ← goCopy %s.%s %s %s %s", m.tmp, mident(m.recv), mident(f), lo, hi, src))
					emit(nil, fmt.Sprintf("let %s := { %s with %s := t%d }", mident(m.recv), mident(m.recv), mident(f), m.tmp))
					continue
				}
				did, ok := se.X.(*ast.Ident)
				if !ok || m.kindOf(m.typeOf(did)) != "slice" || m.kindOf(m.typeOf(call.Args[1])) != "slice" {
					m.refuse(s, "copy on unsupported operands")
				}
				if m.kindOf(m.typeOf(se.Low)) != "int" || m.kindOf(m.typeOf(se.High)) != "int" {
					m.refuse(s, "slice bounds that are not int")
				}
				m.mutableObj(s, did.Name)
				lo, hi, src := m.expr(se.Low, &pre), m.expr(se.High, &pre), m.expr(call.Args[1], &pre)
				emit(pre, fmt.Sprintf("let %s ← goCopy %s %s %s %s", mident(did.Name), mident(did.Name), lo, hi, src))
			case "delete":
				did, ok := call.Args[0].(*ast.Ident)
				if !ok || m.kindOf(m.typeOf(did)) != "map" {
					m.refuse(s, "delete on unsupported operand")
				}
				m.mutableObj(s, did.Name)
				if did.Name == rangedMap {
					if kid, ok := call.Args[1].(*ast.Ident); !ok || kid.Name != loopKey {
						m.refuse(s, "the loop deletes an entry of the ranged map other than the current one")
					}
				}
				k := m.expr(call.Args[1], &pre)
				emit(pre, fmt.Sprintf("let %s := goDelete %s %s", mident(did.Name), mident(did.Name), k))
			default:
				m.refuse(s, "builtin "+fid.Name)
			}
		case *ast.AssignStmt:
			var pre []string
			switch {
			case len(x.Lhs) == 1 && len(x.Rhs) == 1 && x.Tok == token.ASSIGN && m.structs && func() bool {
				if ie, ok := x.Lhs[0].(*ast.IndexExpr); ok {
					_, ok := m.recvField(ie.X)
					return ok
				}
				_, ok := m.recvField(x.Lhs[0])
				return ok
			}():
				if ie, ok := x.Lhs[0].(*ast.IndexExpr); ok {
					f, _ := m.recvField(ie.X)
					if m.kindOf(m.typeOf(ie.X)) != "array" {
						m.refuse(s, "element assignment on a field that is not a byte array")
					}
					v := m.expr(x.Rhs[0], &pre)
					i := m.indexNat(ie.Index, &pre)
					m.tmp++
					emit(pre, fmt.Sprintf("let t%d ← goAssign %s.%s %s %s", m.tmp, mident(m.recv), mident(f), i, v))
					emit(nil, fmt.Sprintf("let %s := { %s with %s := t%d }", mident(m.recv), mident(m.recv), mident(f), m.tmp))
				} else {
					f, _ := m.recvField(x.Lhs[0])
					k := m.kindOf(m.typeOf(x.Lhs[0]))
					if k != "writer" && k != "logger" && k != "u8" && k != "u16" && k != "int" && k != "bool" {
						m.refuse(s, "assignment to a field of unsupported type")
					}
					v := m.expr(x.Rhs[0], &pre)
					emit(pre, fmt.Sprintf("let %s := { %s with %s := %s }", mident(m.recv), mident(m.recv), mident(f), v))
				}
			case len(x.Lhs) == 1 && len(x.Rhs) == 1 && x.Tok == token.ASSIGN:
				ie, ok := x.Lhs[0].(*ast.IndexExpr)
				if !ok {
					id, ok := x.Lhs[0].(*ast.Ident)
					if !ok {
						m.refuse(s, "assignment target")
					}
					k := m.kindOf(m.typeOf(id))
					if k != "u8" && k != "u16" && k != "int" && k != "bool" {
						m.refuse(s, "assignment to a variable of reference type")
					}
					v := m.expr(x.Rhs[0], &pre)
					emit(pre, fmt.Sprintf("let %s := %s", mident(id.Name), v))
					break
				}
				oid, ok := ie.X.(*ast.Ident)
				if !ok {
					m.refuse(s, "element assignment on a non-variable")
				}
				m.mutableObj(s, oid.Name)
				if oid.Name == rangedMap {
					m.refuse(s, "the loop inserts into the map it ranges over")
				}
				v := m.expr(x.Rhs[0], &pre)
				switch m.kindOf(m.typeOf(oid)) {
				case "slice":
					i := m.indexNat(ie.Index, &pre)
					emit(pre, fmt.Sprintf("let %s ← goAssign %s %s %s", mident(oid.Name), mident(oid.Name), i, v))
				case "map":
					k := m.expr(ie.Index, &pre)
					emit(pre, fmt.Sprintf("let %s ← goMapAssign %s %s %s", mident(oid.Name), mident(oid.Name), k, v))
				default:
					m.refuse(s, "element assignment on unsupported type")
				}
			case len(x.Lhs) == 1 && len(x.Rhs) == 1 && x.Tok == token.DEFINE:
				id, ok := x.Lhs[0].(*ast.Ident)
				if !ok {
					m.refuse(s, "definition target")
				}
				if ce, ok := x.Rhs[0].(*ast.CallExpr); ok {
					if fid, ok := ce.Fun.(*ast.Ident); ok {
						if _, isB := m.info.Uses[fid].(*types.Builtin); isB && fid.Name == "make" && len(ce.Args) == 2 && m.kindOf(m.typeOf(ce.Args[0])) == "slice" && m.kindOf(m.typeOf(ce.Args[1])) == "int" {
							n := m.expr(ce.Args[1], &pre)
							m.created[id.Name] = true
							emit(pre, fmt.Sprintf("let %s ← goMake %s", mident(id.Name), n))
							break
						}
					}
				}
				if cl, ok := x.Rhs[0].(*ast.CompositeLit); ok && m.kindOf(m.typeOf(cl)) == "slice" {
					// a fresh byte slice with the listed elements (never written through in the fragment: element assignment on it is refused)
					var els []string
					for _, e := range cl.Elts {
						if _, isKV := e.(*ast.KeyValueExpr); isKV {
							m.refuse(s, "keyed slice literal")
						}
						els = append(els, m.expr(e, &pre))
					}
					emit(pre, fmt.Sprintf("let %s : List U8 := [%s]", mident(id.Name), strings.Join(els, ", ")))
					break
				}
				if cl, ok := x.Rhs[0].(*ast.CompositeLit); ok {
					if m.kindOf(m.typeOf(cl)) != "map" || len(cl.Elts) != 0 {
						m.refuse(s, "composite literal other than an empty map")
					}
					m.created[id.Name] = true
					emit(nil, fmt.Sprintf("let %s : GoMap := goEmptyMap", mident(id.Name)))
					break
				}
				k := m.kindOf(m.typeOf(x.Rhs[0]))
				if k != "u8" && k != "u16" && k != "int" && k != "bool" {
					m.refuse(s, "definition of a variable of reference type (aliasing is not modelled)")
				}
				v := m.expr(x.Rhs[0], &pre)
				emit(pre, fmt.Sprintf("let %s := %s", mident(id.Name), v))
			case len(x.Lhs) == 2 && len(x.Rhs) == 1 && x.Tok == token.DEFINE:
				a, ok1 := x.Lhs[0].(*ast.Ident)
				b, ok2 := x.Lhs[1].(*ast.Ident)
				if !ok1 || !ok2 {
					m.refuse(s, "comma-ok targets")
				}
				an, bn := mident(a.Name), mident(b.Name)
				if a.Name == "_" {
					an = "_"
				}
				if b.Name == "_" {
					bn = "_"
				}
				switch r := x.Rhs[0].(type) {
				case *ast.IndexExpr:
					if m.kindOf(m.typeOf(r.X)) != "map" {
						m.refuse(s, "comma-ok on a non-map")
					}
					emit(pre, fmt.Sprintf("let (%s, %s) := goLookup %s %s", an, bn, m.expr(r.X, &pre), m.expr(r.Index, &pre)))
				case *ast.TypeAssertExpr:
					if m.kindOf(m.typeOf(r.X)) != "dyn" || r.Type == nil || m.kindOf(m.typeOf(r.Type)) != "map" {
						m.refuse(s, "type assertion other than interface{} -> map type")
					}
					if nt, ok := m.typeOf(r.Type).(*types.Named); !ok || nt.Obj().Name() != "MapMemory" {
						m.refuse(s, "type assertion to a type other than MapMemory (Dyn models exactly: holds a MapMemory, or not)")
					}
					emit(pre, fmt.Sprintf("let (%s, %s) := goAssertMap %s", an, bn, m.expr(r.X, &pre)))
				default:
					m.refuse(s, "two-value definition")
				}
			default:
				m.refuse(s, "assignment form")
			}
		case *ast.RangeStmt:
			if inLoop {
				m.refuse(s, "nested loop")
			}
			if x.Tok != token.DEFINE && x.Tok != token.ILLEGAL {
				m.refuse(s, "range with assignment to existing variables")
			}
			kind := m.kindOf(m.typeOf(x.X))
			xid, ok := x.X.(*ast.Ident)
			if !ok {
				m.refuse(s, "range over a non-variable")
			}
			name := func(e ast.Expr) string {
				if e == nil {
					return "_"
				}
				id, ok := e.(*ast.Ident)
				if !ok {
					m.refuse(s, "range variable")
				}
				if id.Name == "_" {
					return "_"
				}
				return mident(id.Name)
			}
			kn, vn := name(x.Key), name(x.Value)
			set := map[string]bool{}
			m.assigned(x.Body.List, set)
			var carried []string
			for v := range set {
				carried = append(carried, mident(v))
			}
			sort.Strings(carried)
			if len(carried) == 0 {
				m.refuse(s, "loop without effect")
			}
			st := tuple(carried)
			var src, pat, rm, lk string
			switch kind {
			case "slice":
				if kn != "_" {
					m.refuse(s, "range over a slice using the index")
				}
				if set[xid.Name] {
					m.refuse(s, "the loop writes the slice it ranges over")
				}
				src, pat = mident(xid.Name), vn
			case "map":
				src, pat = fmt.Sprintf("(goEntries %s)", mident(xid.Name)), fmt.Sprintf("(%s, %s)", kn, vn)
				rm = xid.Name
				if x.Key != nil {
					lk = x.Key.(*ast.Ident).Name
				}
			default:
				m.refuse(s, "range over unsupported type")
			}
			emit(nil, fmt.Sprintf("let %s ← %s.foldlM (init := %s) fun %s %s => do", st, src, st, st, pat))
			out = append(out, m.block(x.Body.List, ind+"  ", "pure "+st, true, lk, rm)...)
		default:
			m.refuse(s, fmt.Sprintf("unsupported statement %T", s))
		}
	}
	if tail == "" {
		// function end without return
		if m.retType != "" || m.retSelf {
			m.refuse(stmts[len(stmts)-1], "missing return")
		}
		tail = m.finish("")
	}
	out = append(out, ind+tail)
	return out
}

// recvField: e is `recv.f` (struct mode) -> f
func (m *memTr) recvField(e ast.Expr) (string, bool) {
	se, ok := e.(*ast.SelectorExpr)
	if !ok || !m.structs {
		return "", false
	}
	id, ok := se.X.(*ast.Ident)
	if !ok || id.Name != m.recv {
		return "", false
	}
	return se.Sel.Name, true
}

func isReturn(s ast.Stmt) bool { _, ok := s.(*ast.ReturnStmt); return ok }

func (t *tr) genMemIO() string {
	f := t.files["memio"]
	if f == nil {
		panic(refusal("memio.go not found"))
	}
	var b strings.Builder
	b.WriteString("-- GENERATED by go2lean (memiotr.go) from memio.go. DO NOT EDIT.\nimport Z80.GoStore\n\nset_option linter.unusedVariables false\nnamespace Z80.Gen.MemIO\nopen Z80 Z80.GoStore\n\n")
	type meth struct{ name, txt string }
	var ms []meth
	var selfRet []string
	// every declaration of the file must be understood: the three types, their methods, interface assertions
	for _, d := range f.Decls {
		switch x := d.(type) {
		case *ast.GenDecl:
			switch x.Tok {
			case token.IMPORT:
			case token.TYPE:
				for _, sp := range x.Specs {
					ts := sp.(*ast.TypeSpec)
					ty := t.info.Defs[ts.Name].Type()
					m := &memTr{info: t.info, fset: t.fset}
					k := m.kindOf(ty)
					if k != "slice" && k != "map" {
						panic(refusal("memio.go: type " + ts.Name.Name + " is neither []uint8 nor map[uint16]uint8"))
					}
					fmt.Fprintf(&b, "/-- type %s %s -/\nabbrev %s := %s\n\n", ts.Name.Name, ty.Underlying().String(), ts.Name.Name, map[string]string{"slice": "Slice", "map": "GoMap"}[k])
				}
			case token.VAR:
				for _, sp := range x.Specs {
					vs := sp.(*ast.ValueSpec)
					for _, n := range vs.Names {
						if n.Name != "_" {
							panic(refusal("memio.go: package variable " + n.Name))
						}
					}
				}
			default:
				panic(refusal("memio.go: unsupported declaration"))
			}
		case *ast.FuncDecl:
			if x.Recv == nil || len(x.Recv.List) != 1 || len(x.Recv.List[0].Names) != 1 {
				panic(refusal("memio.go: function " + x.Name.Name + " is not a method with a named receiver"))
			}
			m := &memTr{info: t.info, fset: t.fset, created: map[string]bool{}}
			rid := x.Recv.List[0].Names[0]
			rty := t.info.Defs[rid].Type()
			if _, isPtr := rty.(*types.Pointer); isPtr {
				m.refuse(x, "pointer receiver")
			}
			m.recv = rid.Name
			m.recvKind = m.kindOf(rty)
			if m.recvKind != "slice" && m.recvKind != "map" {
				m.refuse(x, "receiver type")
			}
			tname := rty.(*types.Named).Obj().Name()
			params := []string{fmt.Sprintf("(%s : %s)", mident(m.recv), tname)}
			for _, p := range x.Type.Params.List {
				for _, n := range p.Names {
					pty := t.info.Defs[n].Type()
					lt := ""
					if _, isEll := p.Type.(*ast.Ellipsis); isEll {
						if m.kindOf(pty) != "slice" {
							m.refuse(p, "variadic parameter type")
						}
						lt = "List U8"
					} else {
						lt = m.leanType(p, pty)
						if lt == "Slice" {
							lt = "List U8"
						}
					}
					params = append(params, fmt.Sprintf("(%s : %s)", mident(n.Name), lt))
				}
			}
			sig := x.Type
			if sig.Results != nil && len(sig.Results.List) > 0 {
				if len(sig.Results.List) != 1 || len(sig.Results.List[0].Names) > 0 {
					m.refuse(x, "multiple or named results")
				}
				rt := t.info.Types[sig.Results.List[0].Type].Type
				// does every return statement return the receiver itself?
				allSelf, any := true, false
				ast.Inspect(x.Body, func(n ast.Node) bool {
					if r, ok := n.(*ast.ReturnStmt); ok && len(r.Results) == 1 {
						any = true
						if id, ok := r.Results[0].(*ast.Ident); !ok || id.Name != m.recv {
							allSelf = false
						}
					}
					return true
				})
				if any && allSelf && types.Identical(rt, rty) {
					m.retSelf = true
				} else {
					m.retType = m.leanType(x, rt)
				}
			}
			ret := tname
			if m.retType != "" {
				ret = fmt.Sprintf("(%s × %s)", tname, m.retType)
			}
			lname := tname + "_" + x.Name.Name
			var fb strings.Builder
			fmt.Fprintf(&fb, "/-- func (%s %s) %s — memio.go:%d -/\ndef %s %s : Option %s := do\n", m.recv, tname, x.Name.Name, t.fset.Position(x.Pos()).Line, lname, strings.Join(params, " "), ret)
			for _, l := range m.block(x.Body.List, "  ", "", false, "", "") {
				fb.WriteString(l + "\n")
			}
			fb.WriteString("\n")
			ms = append(ms, meth{lname, fb.String()})
			if m.retSelf {
				selfRet = append(selfRet, lname)
			}
		}
	}
	sort.Slice(ms, func(i, j int) bool { return ms[i].name < ms[j].name })
	var names []string
	for _, x := range ms {
		b.WriteString(x.txt)
		names = append(names, fmt.Sprintf("%q", x.name))
	}
	sort.Strings(selfRet)
	var sr []string
	for _, s := range selfRet {
		sr = append(sr, fmt.Sprintf("%q", s))
	}
	fmt.Fprintf(&b, "/-- every method declared in memio.go -/\ndef methods : List String := [%s]\n\n", strings.Join(names, ", "))
	fmt.Fprintf(&b, "/-- the methods whose result is their own receiver (the same object, not a copy) -/\ndef returnsReceiver : List String := [%s]\n\n", strings.Join(sr, ", "))
	b.WriteString("end Z80.Gen.MemIO\n")
	return b.String()
}
