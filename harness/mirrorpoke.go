package main

// mirrorpoke (C11, real vs real): the DD form and the FD form of an instruction must agree (IX and IY exchanged) also in the ORDER in which
// they read the CPU's registers relative to their bus accesses.  Each DD / DDCB vector is run with a memory whose m-th access pokes the
// registers the instruction may be working with (A, F, BC, DE, HL — as a debugger port or a DMA-like device holding a pointer to the CPU can),
// and so is its FD twin (prefix byte replaced, IX and IY exchanged); after exchanging IX and IY back, state, written memory and the access
// sequence behind the prefix byte must be equal.  The Lean model cannot express a callback that writes registers.

import (
	"bufio"
	"fmt"
	"log"
	"os"
	"strings"
)

func runPoke(v *Vec, m int) (regs, mem, acc string, selfRef bool) {
	w := newWorld(v)
	curWorld = w
	defer func() {
		if r := recover(); r != nil {
			regs = fmt.Sprintf("panic %v", r)
		}
		curWorld = nil
	}()
	cpu := buildCPU(v, w)
	n := 0
	w.onAccess = func(w *World, e Ev) {
		if e.K != 'r' && e.K != 'w' && e.K != 'i' && e.K != 'o' {
			return
		}
		n++
		if n == m {
			cpu.AF.Hi ^= 0x5a
			cpu.AF.Lo ^= 0xc5
			cpu.BC.Hi, cpu.BC.Lo = cpu.BC.Hi^0x11, cpu.BC.Lo^0x22
			cpu.DE.Hi, cpu.DE.Lo = cpu.DE.Hi^0x33, cpu.DE.Lo^0x44
			cpu.HL.Hi, cpu.HL.Lo = cpu.HL.Hi^0x55, cpu.HL.Lo^0x66
		}
	}
	cpu.Step()
	if v.ID[0] == 'F' { // the FD twin: exchange back
		cpu.IX, cpu.IY = cpu.IY, cpu.IX
	}
	full := resultStr("x", cpu, w)
	if i := strings.Index(full, " MV "); i >= 0 {
		regs = full[:i]
	}
	if i := strings.Index(full, " MEM "); i >= 0 {
		j := strings.Index(full, " NLOG ")
		mem = full[i:j]
	}
	var as []string
	for k, e := range w.log {
		if k == 0 {
			continue // the prefix byte itself
		}
		if (e.K == 'r' || e.K == 'w') && e.A == v.W[12] {
			selfRef = true // the instruction reads or writes its own prefix byte as data: the two forms legitimately differ there
		}
		es := e.String()
		if strings.HasPrefix(es, "Wdd") || strings.HasPrefix(es, "Wfd") {
			es = "W__" + es[3:] // a warning quotes the code bytes, prefix included
		}
		as = append(as, es)
	}
	acc = strings.Join(as, ",")
	return
}

func cmdMirrorPoke() {
	log.SetFlags(0)
	log.SetOutput(warnWriter{&curWorld})
	in := bufio.NewReaderSize(os.Stdin, 1<<20)
	out := bufio.NewWriterSize(os.Stdout, 1<<20)
	defer out.Flush()
	for {
		line, err := in.ReadString('\n')
		line = strings.TrimSpace(line)
		if line != "" {
			v, perr := parseVec(line)
			switch {
			case perr != nil:
				fmt.Fprintf(out, "? bad-vector %v\n", perr)
			case v.Intr != nil || len(v.Over) == 0 || len(v.Over[0].Bytes) == 0 || v.Over[0].Bytes[0] != 0xdd || v.Over[0].Addr != v.W[12]:
				fmt.Fprintf(out, "%s skipped\n", v.ID)
			default:
				tw := *v
				tw.ID = "F" + v.ID
				tw.W[9], tw.W[10] = v.W[10], v.W[9]
				tw.Over = append([]Override{}, v.Over...)
				tw.Over[0] = Override{v.Over[0].Addr, append([]uint8{0xfd}, v.Over[0].Bytes[1:]...)}
				dv := *v
				dv.ID = "D" + v.ID
				res := v.ID + " same"
				for m := 2; m <= 6; m++ {
					r1, m1, a1, s1 := runPoke(&dv, m)
					r2, m2, a2, s2 := runPoke(&tw, m)
					if s1 || s2 {
						res = v.ID + " skipped"
						break
					}
					if r1 != r2 || m1 != m2 || a1 != a2 {
						res = fmt.Sprintf("%s DIFF registers poked by the callback of bus access %d: DD form [%s%s LOG %s] FD form, IX and IY exchanged back [%s%s LOG %s]", v.ID, m, r1, m1, a1, r2, m2, a2)
						break
					}
				}
				fmt.Fprintln(out, res)
			}
		}
		if err != nil {
			break
		}
	}
}
