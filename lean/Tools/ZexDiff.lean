/-
  Tools.ZexDiff — search for a concrete counterexample to C17: prints one line per exerciser case whose record in
  the program image differs from the Go table entry (or from the canonical record pinned in /verif).
  Usage: lake env lean --run Tools/ZexDiff.lean
-/
import Z80.Spec.ZexEncode
import Z80.Spec.ZexCanon
open Z80 Z80.Gen Z80.Spec
abbrev encode := encodeCase
abbrev normalise := normaliseRec

def showRec (r : List Nat × String) : String := toString r.1 ++ " \"" ++ r.2 ++ "\""

def diffOne (tag : String) (img : List Nat) (cases : List ZexCase) (canon : List (List Nat × String)) : IO Nat := do
  match parseImage img with
  | none => IO.println s!"{tag} image-unparseable"; return 1
  | some recs =>
    let mut bad := 0
    if recs.length != cases.length then
      IO.println s!"{tag} count image={recs.length} table={cases.length}"; bad := bad + 1
    for (r, c, i) in (recs.zip (cases.zip (List.range cases.length))) do
      if normalise r != encode c then
        IO.println s!"{tag} {i} {c.name} image={showRec (normalise r)} table={showRec (encode c)}"; bad := bad + 1
    if recs != canon then
      for (r, k, i) in (recs.zip (canon.zip (List.range canon.length))) do
        if r != k then
          IO.println s!"{tag} {i} canon image={showRec r} canon={showRec k}"; bad := bad + 1
      if recs.length != canon.length then
        IO.println s!"{tag} count image={recs.length} canon={canon.length}"; bad := bad + 1
    return bad

def main : IO Unit := do
  let a ← diffOne "zexdoc" zexdocImage zexDocCases zexdocCanon
  let b ← diffOne "zexall" zexallImage zexAllCases zexallCanon
  IO.println s!"done differences={a + b} doc={zexDocCases.length} all={zexAllCases.length}"
