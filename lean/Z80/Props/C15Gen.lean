/-
  C15 (tie 1) — every method of memio.go, as translated by go2lean (Z80/Gen/MemIO.lean, regenerated on every run),
  IS the function the hand-written store model Z80.Spec.MemIO uses for it — for every receiver, address, value and
  block, including exactly when the Go code panics.  The history theorems of Props/C15.lean are about those functions,
  so they are theorems about the translated source.

  Clone and Clear contain `for … range` over a map, whose order Go leaves unspecified: their theorems are proved for
  EVERY visiting order (any list with the same members as the entries).
-/
import Z80.Spec.MemIO
import Z80.Gen.MemIO
import Z80.Proofs.Assoc

namespace Z80.Props.C15Gen
open Z80 Z80.GoStore Z80.Gen.MemIO Z80.Proofs.Assoc
open Z80.Spec.MemIO (sliceGet sliceSet slicePut mapGet mapSet mapPut mapEqual assocGet?)

-- ---------------------------------------------------------------------------
-- the file is what the model was written for

theorem methods_modelled : Gen.MemIO.methods =
    ["DumbIO_In", "DumbIO_Out", "DumbMemory_Get", "DumbMemory_Put", "DumbMemory_Set", "MapMemory_Clear",
     "MapMemory_Clone", "MapMemory_Equal", "MapMemory_Get", "MapMemory_Put", "MapMemory_Set"] := by decide
/-- Put hands back its receiver — the same object, so writes through the result are writes to the receiver -/
theorem put_returns_receiver : Gen.MemIO.returnsReceiver = ["DumbMemory_Put", "MapMemory_Put"] := by decide

-- ---------------------------------------------------------------------------
-- slices

theorem ge_len_iff (n : Nat) (l : List U8) : ((n : Int) ≥ goLen l) ↔ l.length ≤ n := by
  unfold goLen; omega

theorem lt_len_iff (n : Nat) (l : List U8) : ((n : Int) < goLen l) ↔ n < l.length := by
  unfold goLen; omega
theorem le_len_iff (n : Nat) (l : List U8) : (goLen l ≤ (n : Int)) ↔ l.length ≤ n := by
  unfold goLen; omega
theorem gt_len_iff (n : Nat) (l : List U8) : (goLen l > (n : Int)) ↔ n < l.length := by
  unfold goLen; omega

theorem DumbMemory_Get_eq (dm : Slice) (a : U16) : DumbMemory_Get dm a = some (dm, sliceGet dm a.toNat) := by
  unfold DumbMemory_Get sliceGet goIndex
  by_cases h : a.toNat < dm.length
  · simp [ge_len_iff, lt_len_iff, le_len_iff, gt_len_iff, h, Nat.not_le.mpr h, List.getD_eq_getElem?_getD]
  · simp [ge_len_iff, lt_len_iff, le_len_iff, gt_len_iff, h, Nat.le_of_not_lt h]

theorem DumbMemory_Set_eq (dm : Slice) (a : U16) (v : U8) : DumbMemory_Set dm a v = some (sliceSet dm a.toNat v) := by
  unfold DumbMemory_Set sliceSet goAssign
  by_cases h : a.toNat < dm.length
  · simp [ge_len_iff, lt_len_iff, le_len_iff, gt_len_iff, h, Nat.not_le.mpr h, List.getD_eq_getElem?_getD]
  · simp [ge_len_iff, lt_len_iff, le_len_iff, gt_len_iff, h, Nat.le_of_not_lt h]

/-- Put: panics exactly when the block does not lie inside the slice; otherwise the block replaces those bytes -/
theorem DumbMemory_Put_eq (dm : Slice) (a : U16) (data : List U8) : DumbMemory_Put dm a data = slicePut dm a.toNat data := by
  unfold DumbMemory_Put slicePut goCopy goLen
  try simp only [Int.ofNat_eq_natCast]
  by_cases h : a.toNat + data.length ≤ dm.length
  · have hc : (0 : Int) ≤ (a.toNat : Int) ∧ (a.toNat : Int) ≤ (a.toNat : Int) + (data.length : Int) ∧
        (a.toNat : Int) + (data.length : Int) ≤ (dm.length : Int) := by omega
    have hn : min ((a.toNat : Int) + (data.length : Int) - (a.toNat : Int)).toNat data.length = data.length := by omega
    simp only [hc, and_self, if_true, h, hn, List.take_length, Int.toNat_natCast, bind, Option.bind, pure]
  · have hc : ¬ ((0 : Int) ≤ (a.toNat : Int) ∧ (a.toNat : Int) ≤ (a.toNat : Int) + (data.length : Int) ∧
        (a.toNat : Int) + (data.length : Int) ≤ (dm.length : Int)) := by omega
    simp only [hc, if_false, h, bind, Option.bind]

theorem DumbIO_In_eq (dio : Slice) (p : U8) : DumbIO_In dio p = some (dio, sliceGet dio p.toNat) := by
  unfold DumbIO_In sliceGet goIndex
  by_cases h : p.toNat < dio.length
  · simp [ge_len_iff, lt_len_iff, le_len_iff, gt_len_iff, h, Nat.not_le.mpr h, List.getD_eq_getElem?_getD]
  · simp [ge_len_iff, lt_len_iff, le_len_iff, gt_len_iff, h, Nat.le_of_not_lt h]

theorem DumbIO_Out_eq (dio : Slice) (p : U8) (v : U8) : DumbIO_Out dio p v = some (sliceSet dio p.toNat v) := by
  unfold DumbIO_Out sliceSet goAssign
  by_cases h : p.toNat < dio.length
  · simp [ge_len_iff, lt_len_iff, le_len_iff, gt_len_iff, h, Nat.not_le.mpr h, List.getD_eq_getElem?_getD]
  · simp [ge_len_iff, lt_len_iff, le_len_iff, gt_len_iff, h, Nat.le_of_not_lt h]

/-- the slice methods never panic except Put with a block that does not fit -/
theorem slice_methods_total (dm : Slice) (a : U16) (p v : U8) :
    (DumbMemory_Get dm a).isSome ∧ (DumbMemory_Set dm a v).isSome ∧ (DumbIO_In dm p).isSome ∧ (DumbIO_Out dm p v).isSome := by
  simp [DumbMemory_Get_eq, DumbMemory_Set_eq, DumbIO_In_eq, DumbIO_Out_eq]

-- ---------------------------------------------------------------------------
-- maps: Get / Set / Put

theorem assocFind_eq (l : Assoc) (k : U16) : assocFind l k = assocGet? l k := rfl
theorem goLookup_some (l : Assoc) (k : U16) :
    goLookup (some l) k = match assocFind l k with | some v => (v, true) | none => (0#8, false) := rfl

theorem MapMemory_Get_some (m : Assoc) (a : U16) : MapMemory_Get (some m) a = some (some m, mapGet m a) := by
  have h : goLookup (some m) a = match assocGet? m a with | some v => (v, true) | none => (0#8, false) := rfl
  unfold MapMemory_Get mapGet
  rw [h]
  cases assocGet? m a <;> rfl

theorem MapMemory_Get_nil (a : U16) : MapMemory_Get none a = some (none, 0xC7#8) := by
  simp [MapMemory_Get, goLookup]

theorem MapMemory_Set_some (m : Assoc) (a : U16) (v : U8) : MapMemory_Set (some m) a v = some (some (mapSet m a v)) := by
  simp [MapMemory_Set, goMapAssign, mapSet]

/-- writing through a nil MapMemory panics -/
theorem MapMemory_Set_nil (a : U16) (v : U8) : MapMemory_Set none a v = none := by
  simp [MapMemory_Set, goMapAssign]

theorem put_fold_some (f : U16 × GoMap → U8 → Option (U16 × GoMap))
    (hf : ∀ a l v, f (a, some l) v = some (a + 1#16, some ((a, v) :: l))) (data : List U8) (m : Assoc) (a : U16) :
    List.foldlM f (a, some m) data = some (a + BitVec.ofNat 16 data.length, some (mapPut m a data)) := by
  induction data generalizing m a with
  | nil => simp [mapPut]
  | cons v rest ih =>
    rw [List.foldlM_cons, hf]
    show List.foldlM f (a + 1#16, some ((a, v) :: m)) rest = _
    rw [ih]
    simp only [mapPut, mapSet, List.length_cons]
    congr 2
    rw [BitVec.add_assoc]
    congr 1
    apply BitVec.eq_of_toNat_eq
    simp [BitVec.toNat_add, BitVec.toNat_ofNat]
    omega

/-- Put on a map stores consecutive bytes, the address wrapping past 0xFFFF -/
theorem MapMemory_Put_some (m : Assoc) (a : U16) (data : List U8) :
    MapMemory_Put (some m) a data = some (some (mapPut m a data)) := by
  unfold MapMemory_Put
  rw [put_fold_some _ (by intro a l v; rfl)]
  rfl

theorem MapMemory_Put_nil (a : U16) (data : List U8) :
    MapMemory_Put none a data = if data = [] then some none else none := by
  unfold MapMemory_Put
  cases data with
  | nil => rfl
  | cons v rest => rw [List.foldlM_cons]; rfl

-- ---------------------------------------------------------------------------
-- Equal

theorem MapMemory_Equal_eq (mm : GoMap) (d : Dyn) :
    MapMemory_Equal mm d = some (mm,
      match d with
      | none => false                                   -- the argument is not a MapMemory
      | some a => match mm, a with
        | none, none => true
        | some x, some y => mapEqual x y
        | _, _ => false) := by
  unfold MapMemory_Equal goAssertMap goDeepEqualMap
  cases d with
  | none => simp
  | some a => cases mm <;> cases a <;> simp [assocEqual, mapEqual, assocFind_eq]

-- ---------------------------------------------------------------------------
-- range over a map: Clear and Clone, for EVERY visiting order

/-- deleting, one after the other, the keys of ANY list that covers l's keys leaves nothing -/
theorem delete_all (f : GoMap → U16 × U8 → Option GoMap) (hf : ∀ mm kv, f mm kv = some (goDelete mm kv.1))
    (ks : List (U16 × U8)) (l : Assoc) (h : ∀ kv ∈ l, kv.1 ∈ ks.map (·.1)) :
    List.foldlM f (some l) ks = some (some []) := by
  induction ks generalizing l with
  | nil =>
    cases l with
    | nil => rfl
    | cons x _ => exact absurd (h x (by simp)) (by simp)
  | cons k rest ih =>
    rw [List.foldlM_cons, hf]
    show List.foldlM f (some (l.filter (fun kv => kv.1 != k.1))) rest = _
    apply ih
    intro kv hkv
    have hm := List.mem_filter.mp hkv
    have := h kv hm.1
    simp only [List.map_cons, List.mem_cons] at this
    rcases this with e | e
    · simp [e] at hm
    · exact e

/-- Clear on an initialised map leaves the empty map — whatever order range visits the keys in -/
theorem clear_any_order (m : Assoc) (order : List (U16 × U8)) (hcover : ∀ kv ∈ m, kv.1 ∈ order.map (·.1)) :
    List.foldlM (m := Option) (fun (mm : GoMap) (x : U16 × U8) => some (goDelete mm x.1)) (some m) order = some (some []) :=
  delete_all _ (fun _ _ => rfl) order m hcover

theorem MapMemory_Clear_some (m : Assoc) : MapMemory_Clear (some m) = some (some []) := by
  unfold MapMemory_Clear goEntries assocLive
  rw [delete_all _ (by intro mm kv; rfl) (assocLiveAux [] m) m (fun kv h => mem_keys_live [] m kv h (by simp))]

theorem MapMemory_Clear_nil : MapMemory_Clear none = some none := by
  simp [MapMemory_Clear, goEntries]

/-- copying entries into a map: the result is initialised and holds the visited entries on top of the old ones -/
theorem copy_fold (f : GoMap → U16 × U8 → Option GoMap) (hf : ∀ l kv, f (some l) kv = some (some (kv :: l)))
    (es : List (U16 × U8)) (acc : Assoc) : List.foldlM f (some acc) es = some (some (es.reverse ++ acc)) := by
  induction es generalizing acc with
  | nil => rfl
  | cons x rest ih =>
    rw [List.foldlM_cons, hf]
    show List.foldlM f (some (x :: acc)) rest = _
    rw [ih]
    simp

/-- Clone, for EVERY visiting order of the entries: the result is a second, initialised map that answers every lookup as
    the original does (the receiver itself is untouched; the result is a different object by construction: `cl := MapMemory{}`) -/
theorem clone_any_order (f : GoMap → U16 × U8 → Option GoMap) (hf : ∀ l kv, f (some l) kv = some (some (kv :: l)))
    (mm : GoMap) (order : Assoc) (hnd : (order.map (·.1)).Nodup) (hmem : ∀ kv, kv ∈ order ↔ kv ∈ goEntries mm) :
    ∃ cl : Assoc, List.foldlM f goEmptyMap order = some (some cl) ∧ ∀ k, goLookup (some cl) k = goLookup mm k := by
  refine ⟨order.reverse ++ [], by rw [goEmptyMap, copy_fold f hf], ?_⟩
  intro k
  have hnd' : ((order.reverse ++ []).map (fun (x : U16 × U8) => x.1)).Nodup := by
    simp only [List.append_nil, List.map_reverse]
    exact List.pairwise_reverse.mpr (List.Pairwise.imp (fun h => Ne.symm h) hnd)
  have hrev : assocFind (order.reverse ++ []) k = assocFind (goEntries mm) k := by
    apply find_order_independent (goEntries mm) (order.reverse ++ []) _ hnd'
    · intro kv; simp [hmem]
    · cases mm with
      | none => simp [goEntries]
      | some l => exact live_nodup [] l
  rw [goLookup_some, hrev]
  cases mm with
  | none => rfl
  | some l =>
    rw [goLookup_some]
    have : assocFind (goEntries (some l)) k = assocFind l k := find_live [] l k (by simp)
    rw [this]

theorem MapMemory_Clone_eq (mm : GoMap) :
    ∃ cl : Assoc, MapMemory_Clone mm = some (mm, some cl) ∧ ∀ k, goLookup (some cl) k = goLookup mm k := by
  unfold MapMemory_Clone
  obtain ⟨cl, hf, hl⟩ := clone_any_order
    (fun cl (x : U16 × U8) => match x with | (k, v) => do let cl ← goMapAssign cl k v; pure cl) (by intro l kv; rfl)
    mm (goEntries mm)
    (by cases mm with
        | none => simp [goEntries]
        | some l => exact live_nodup [] l) (fun _ => Iff.rfl)
  refine ⟨cl, ?_, hl⟩
  show (List.foldlM _ goEmptyMap (goEntries mm) >>= fun cl => pure (mm, cl)) = _
  rw [hf]
  rfl

/-- in the model's terms: the clone shows, under every address, what the original shows -/
theorem MapMemory_Clone_get (mm : GoMap) :
    ∃ cl : Assoc, MapMemory_Clone mm = some (mm, some cl) ∧
      ∀ a, MapMemory_Get (some cl) a = (MapMemory_Get mm a).map (fun r => (some cl, r.2)) := by
  obtain ⟨cl, h, hl⟩ := MapMemory_Clone_eq mm
  refine ⟨cl, h, ?_⟩
  intro a
  have e1 : ∀ m, MapMemory_Get m a = some (m, if (goLookup m a).2 then (goLookup m a).1 else 0xC7#8) := by
    intro m
    unfold MapMemory_Get
    cases hg : goLookup m a with
    | mk v ok => cases ok <;> rfl
  rw [e1, e1, hl a]
  rfl

-- premises satisfiable / concrete instances (tests, labelled as such)
example : DumbMemory_Put [1#8, 2#8, 3#8, 4#8] 1#16 [9#8, 8#8] = some [1#8, 9#8, 8#8, 4#8] := by decide
example : DumbMemory_Put [1#8, 2#8, 3#8, 4#8] 3#16 [9#8, 8#8] = none := by decide
example : (MapMemory_Clone (some [(1#16, 5#8), (2#16, 6#8), (1#16, 7#8)])) = some (some [(1#16, 5#8), (2#16, 6#8), (1#16, 7#8)], some [(2#16, 6#8), (1#16, 5#8)]) := by decide

end Z80.Props.C15Gen
