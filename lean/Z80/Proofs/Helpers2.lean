/-
  Z80.Proofs.Helpers2 — Layer 0 continued: DAA, CPL, NEG, SCF, CCF, the accumulator rotates,
  RLD/RRD, BIT, the DEC r handlers, and the flag rules of LD A,I/R, IN r,(C), block transfer,
  block search and block I/O.  All by `decide` over the complete finite table of each operation.
-/
import Z80.Proofs.Helpers

namespace Z80
open Z80.Gen Z80.Spec
set_option maxRecDepth 8192

/-- the Go DAA, with the three incoming flag bits as booleans: (new A, or-mask) -/
def daaGo (A : U8) (n h c : Bool) : U8 × U8 :=
  let r0 := A
  let r1 := if n then
      (let r := if h || decide ((A &&& 0x0f#8) > 0x09#8) then r0 - 0x06#8 else r0
       if c || decide (A > 0x99#8) then r - 0x60#8 else r)
    else
      (let r := if h || decide ((A &&& 0x0f#8) > 0x09#8) then r0 + 0x06#8 else r0
       if c || decide (A > 0x99#8) then r + 0x60#8 else r)
  let or0 : U8 := r1 &&& 0xa8#8
  let or1 := if r1 == 0x00#8 then or0 ||| 0x40#8 else or0
  let or2 := or1 ||| ((A ^^^ r1) &&& 0x10#8)
  let or3 := or2 ||| (((BitVec.ofInt 8 (Int.tmod (popcount r1) 2)) - 0x01#8) &&& 0x04#8)
  let or4 := if decide (A > 0x99#8) then or3 ||| 0x01#8 else or3
  (r1, or4)

theorem daaGo_spec : ∀ (A : U8) (n h c : Bool),
    (daaGo A n h c).1 = (daa8 A (flags false false false h false false n c)).1 ∧
    ((if c then 1#8 else 0#8) ||| (daaGo A n h c).2) =
      (daa8 A (flags false false false h false false n c)).2 &&& 0xfd#8 := by decide

theorem split3' : ∀ f : U8, f &&& 3#8 = (f &&& 2#8) ||| (if f[0] then 1#8 else 0#8) := by decide

theorem oopDAA_pre (s : St) :
    oopDAA s = .ok () { s with AF := { Hi := (daaGo s.AF.Hi s.AF.Lo[1] s.AF.Lo[4] s.AF.Lo[0]).1,
                                        Lo := (s.AF.Lo &&& 3#8) ||| (daaGo s.AF.Hi s.AF.Lo[1] s.AF.Lo[4] s.AF.Lo[0]).2 } } := by
  simp [oopDAA, daaGo, flagC, flagN, flagH, mask01, mask02, mask10]
  split <;> split <;> simp [*]

theorem daa8_bits (A F : U8) :
    daa8 A F = ((daa8 A (flags false false false F[4] false false F[1] F[0])).1,
                (F &&& 2#8) ||| ((daa8 A (flags false false false F[4] false false F[1] F[0])).2 &&& 0xfd#8)) := by
  unfold daa8 keepBits
  simp only [bitOf, flags_bit0, flags_bit1, flags_bit4]
  simp only [Prod.mk.injEq, true_and]
  constructor
  · simp
  · apply u8_ext
    all_goals simp only [BitVec.getLsbD_or, BitVec.getLsbD_and, BitVec.getLsbD_not, flags_bit0, flags_bit1, flags_bit2, flags_bit3,
      flags_bit4, flags_bit5, flags_bit6, flags_bit7]
    all_goals simp [fN]

@[z80helper] theorem oopDAA_run (s : St) : oopDAA s = .ok () (setAF s (daa8 s.AF.Hi s.AF.Lo)) := by
  rw [oopDAA_pre, daa8_bits]
  obtain ⟨h1, h2⟩ := daaGo_spec s.AF.Hi s.AF.Lo[1] s.AF.Lo[4] s.AF.Lo[0]
  simp only [setAF]
  rw [← h1, ← h2, split3', BitVec.or_assoc]

-- ---------------------------------------------------------------------------
-- CPL NEG SCF CCF and the accumulator rotates: unary in A (and the carry bit)

/-- close `F &&& K ||| E A = F &&& K' ||| E' A` (K = K' up to spelling) by deciding the A-part -/
macro "dec_fin " x:ident h:ident : tactic =>
  `(tactic| (clear $h; first
    | (revert $x; decide)
    | (congr 1 <;> first | rfl | (revert $x; decide))))

@[z80helper] theorem oopCPL_run (s : St) : oopCPL s = .ok () (setAF s (cpl8 s.AF.Hi s.AF.Lo)) := by
  generalize hA : s.AF.Hi = A
  simp [oopCPL, cpl8, setAF, keepBits, hA]
  apply u8_ext
  all_goals simp only [BitVec.getLsbD_or, BitVec.getLsbD_and, BitVec.getLsbD_not, flags_bit0, flags_bit1, flags_bit2, flags_bit3,
      flags_bit4, flags_bit5, flags_bit6, flags_bit7]
  all_goals simp [fS, fZ, fPV, fC]

@[z80helper] theorem oopNEG_run (s : St) : oopNEG s = .ok () (setAF s (neg8 s.AF.Hi)) := by
  generalize hA : s.AF.Hi = A
  simp [oopNEG, neg8, setAF, hA]
  clear hA; revert A; decide

@[z80helper] theorem oopSCF_run (s : St) : oopSCF s = .ok () (scfSt Impl.koron s) := by
  generalize hA : s.AF.Hi = A
  simp [oopSCF, scfSt, Impl.koron, keepBits, hA]
  dec_fin A hA

@[z80helper] theorem oopCCF_run (s : St) : oopCCF s = .ok () (ccfSt Impl.koron s) := by
  generalize hA : s.AF.Hi = A
  rcases Bool.eq_false_or_eq_true (s.AF.Lo[0]) with hc | hc
  · simp [oopCCF, ccfSt, Impl.koron, keepBits, flagC, carryIn, hA, hc, and1_true _ hc]
    dec_fin A hA
  · simp [oopCCF, ccfSt, Impl.koron, keepBits, flagC, carryIn, hA, hc, and1_false _ hc]
    dec_fin A hA

@[z80helper] theorem oopRLCA_run (s : St) : oopRLCA s = .ok () (setAF s (rotA .rlc s.AF.Hi s.AF.Lo)) := by
  generalize hA : s.AF.Hi = A
  simp [oopRLCA, updateFlagRL, rotA, rotRes, setAF, keepBits, hA]
  dec_fin A hA
@[z80helper] theorem oopRRCA_run (s : St) : oopRRCA s = .ok () (setAF s (rotA .rrc s.AF.Hi s.AF.Lo)) := by
  generalize hA : s.AF.Hi = A
  simp [oopRRCA, updateFlagRR, rotA, rotRes, setAF, keepBits, hA]
  dec_fin A hA
@[z80helper] theorem oopRLA_run (s : St) : oopRLA s = .ok () (setAF s (rotA .rl s.AF.Hi s.AF.Lo)) := by
  generalize hA : s.AF.Hi = A
  rcases Bool.eq_false_or_eq_true (s.AF.Lo[0]) with hc | hc
  · simp [oopRLA, updateFlagRL, rotA, rotRes, setAF, keepBits, carryIn, hA, hc, and1_true _ hc]
    dec_fin A hA
  · simp [oopRLA, updateFlagRL, rotA, rotRes, setAF, keepBits, carryIn, hA, hc, and1_false _ hc]
    dec_fin A hA
@[z80helper] theorem oopRRA_run (s : St) : oopRRA s = .ok () (setAF s (rotA .rr s.AF.Hi s.AF.Lo)) := by
  generalize hA : s.AF.Hi = A
  rcases Bool.eq_false_or_eq_true (s.AF.Lo[0]) with hc | hc
  · simp [oopRRA, updateFlagRR, rotA, rotRes, setAF, keepBits, flagC, carryIn, hA, hc, and1_true _ hc]
    dec_fin A hA
  · simp [oopRRA, updateFlagRR, rotA, rotRes, setAF, keepBits, flagC, carryIn, hA, hc, and1_false _ hc]
    dec_fin A hA

-- ---------------------------------------------------------------------------
-- DEC r (through decP8(&cpu.r)), one lemma per register pointer the code uses

@[z80helper] theorem xopDECb_run (s : St) :
    xopDECb s = .ok () { s with BC.Hi := (dec8 s.BC.Hi s.AF.Lo).1, AF.Lo := (dec8 s.BC.Hi s.AF.Lo).2 } := by
  generalize hA : s.BC.Hi = A
  simp [xopDECb, decP8, dec8, keepBits, hA]
  dec_fin A hA
@[z80helper] theorem xopDECc_run (s : St) :
    xopDECc s = .ok () { s with BC.Lo := (dec8 s.BC.Lo s.AF.Lo).1, AF.Lo := (dec8 s.BC.Lo s.AF.Lo).2 } := by
  generalize hA : s.BC.Lo = A
  simp [xopDECc, decP8, dec8, keepBits, hA]
  dec_fin A hA
@[z80helper] theorem xopDECd_run (s : St) :
    xopDECd s = .ok () { s with DE.Hi := (dec8 s.DE.Hi s.AF.Lo).1, AF.Lo := (dec8 s.DE.Hi s.AF.Lo).2 } := by
  generalize hA : s.DE.Hi = A
  simp [xopDECd, decP8, dec8, keepBits, hA]
  dec_fin A hA
@[z80helper] theorem xopDECe_run (s : St) :
    xopDECe s = .ok () { s with DE.Lo := (dec8 s.DE.Lo s.AF.Lo).1, AF.Lo := (dec8 s.DE.Lo s.AF.Lo).2 } := by
  generalize hA : s.DE.Lo = A
  simp [xopDECe, decP8, dec8, keepBits, hA]
  dec_fin A hA
@[z80helper] theorem xopDECh_run (s : St) :
    xopDECh s = .ok () { s with HL.Hi := (dec8 s.HL.Hi s.AF.Lo).1, AF.Lo := (dec8 s.HL.Hi s.AF.Lo).2 } := by
  generalize hA : s.HL.Hi = A
  simp [xopDECh, decP8, dec8, keepBits, hA]
  dec_fin A hA
@[z80helper] theorem xopDECl_run (s : St) :
    xopDECl s = .ok () { s with HL.Lo := (dec8 s.HL.Lo s.AF.Lo).1, AF.Lo := (dec8 s.HL.Lo s.AF.Lo).2 } := by
  generalize hA : s.HL.Lo = A
  simp [xopDECl, decP8, dec8, keepBits, hA]
  dec_fin A hA
@[z80helper] theorem xopDECa_run (s : St) :
    xopDECa s = .ok () { s with AF := { Hi := (dec8 s.AF.Hi s.AF.Lo).1, Lo := (dec8 s.AF.Hi s.AF.Lo).2 } } := by
  generalize hA : s.AF.Hi = A
  simp [xopDECa, decP8, dec8, keepBits, hA]
  dec_fin A hA

-- ---------------------------------------------------------------------------
-- BIT b,x

theorem u8_lt8 (b : U8) (hb : b.toNat < 8) :
    b = 0#8 ∨ b = 1#8 ∨ b = 2#8 ∨ b = 3#8 ∨ b = 4#8 ∨ b = 5#8 ∨ b = 6#8 ∨ b = 7#8 := by
  have : b.toNat = 0 ∨ b.toNat = 1 ∨ b.toNat = 2 ∨ b.toNat = 3 ∨ b.toNat = 4 ∨ b.toNat = 5 ∨ b.toNat = 6 ∨ b.toNat = 7 := by omega
  rcases this with h|h|h|h|h|h|h|h
  · exact Or.inl (BitVec.eq_of_toNat_eq h)
  · exact Or.inr (Or.inl (BitVec.eq_of_toNat_eq h))
  · exact Or.inr (Or.inr (Or.inl (BitVec.eq_of_toNat_eq h)))
  · exact Or.inr (Or.inr (Or.inr (Or.inl (BitVec.eq_of_toNat_eq h))))
  · exact Or.inr (Or.inr (Or.inr (Or.inr (Or.inl (BitVec.eq_of_toNat_eq h)))))
  · exact Or.inr (Or.inr (Or.inr (Or.inr (Or.inr (Or.inl (BitVec.eq_of_toNat_eq h))))))
  · exact Or.inr (Or.inr (Or.inr (Or.inr (Or.inr (Or.inr (Or.inl (BitVec.eq_of_toNat_eq h)))))))
  · exact Or.inr (Or.inr (Or.inr (Or.inr (Or.inr (Or.inr (Or.inr (BitVec.eq_of_toNat_eq h)))))))

@[z80helper] theorem bitchk8_run (b v : U8) (hb : b.toNat < 8) (s : St) :
    bitchk8 b v s = .ok () { s with AF.Lo := bit8 b.toNat v s.AF.Lo v } := by
  rcases u8_lt8 b hb with h|h|h|h|h|h|h|h <;> subst h <;>
    (simp [bitchk8, bit8, keepBits]; congr 1; revert v; decide)

@[z80helper] theorem bitchk8b_run (b v : U8) (hb : b.toNat < 8) (s : St) :
    bitchk8b b v s = .ok () { s with AF.Lo := bit8 b.toNat v s.AF.Lo 0#8 } := by
  rcases u8_lt8 b hb with h|h|h|h|h|h|h|h <;> subst h <;>
    (simp [bitchk8b, bit8, keepBits]; congr 1; revert v; decide)

-- ---------------------------------------------------------------------------
-- flag rules of RLD/RRD, LD A,I / LD A,R, IN r,(C), block I/O, block transfer, block search

@[z80helper] theorem updateFlagRxD_run (r : U8) (s : St) :
    updateFlagRxD r s = .ok () { s with AF.Lo := keepBits fC s.AF.Lo (logicFlags r false) } := by
  simp [updateFlagRxD, keepBits, logicFlags]
  congr 1; revert r; decide

@[z80helper] theorem updateIOIn_run (r : U8) (s : St) :
    updateIOIn r s = .ok () { s with AF.Lo := inFlags r s.AF.Lo } := by
  simp [updateIOIn, inFlags, keepBits, logicFlags]
  congr 1; revert r; decide

@[z80helper] theorem updateFlagIR_run (d : U8) (s : St) :
    updateFlagIR d s = .ok () { s with AF.Lo := ldAIRFlags d s.AF.Lo s.IFF2 } := by
  generalize hI : s.IFF2 = i
  simp [updateFlagIR, ldAIRFlags, keepBits, hI]
  clear hI; congr 1; revert d i; decide

@[z80helper] theorem updateFlagIObZ_run (s : St) :
    updateFlagIObZ s = .ok () { s with AF.Lo := keepBits fC s.AF.Lo ((s.AF.Lo &&& 0xbc#8) ||| fN ||| (if s.BC.Hi == 0#8 then fZ else 0#8)) } := by
  generalize hF : s.AF.Lo = F
  by_cases h : s.BC.Hi = 0#8 <;> simp [updateFlagIObZ, keepBits, h, hF] <;> (clear hF; revert F; decide)

theorem bcnz_iff (l h : U8) (z : Bool) (hz : (l != 0#8 || h != 0#8) = z) : (¬l = 0#8 ∨ ¬h = 0#8) ↔ z = true := by
  subst hz; simp

@[z80helper] theorem updateFlagLDID_run (a : U8) (s : St) :
    updateFlagLDID a s = .ok () { s with AF.Lo := ldiFlags s.AF.Hi a s.AF.Lo (s.BC.Lo != 0#8 || s.BC.Hi != 0#8) } := by
  have key : ∀ (n : U8) (z : Bool),
      ((if z = true then 4#8 else 0#8) ||| (n &&& 8#8 ||| (n <<< 4) &&& 32#8))
        = flags false false n[1] false n[3] z false false &&& ~~~(fS ||| fZ ||| fC) := by decide
  generalize hz : (s.BC.Lo != 0#8 || s.BC.Hi != 0#8) = z
  simp [updateFlagLDID, ldiFlags, keepBits, -BitVec.shiftLeft_add_distrib, bcnz_iff _ _ _ hz]
  rw [BitVec.add_comm a s.AF.Hi]
  congr 1
  exact key _ z

theorem mask10_ite : ∀ v : U8, v &&& 16#8 = if v.getLsbD 4 then 16#8 else 0#8 := by decide

theorem half_borrow8 (a b : U8) :
    ((a - b) ^^^ a ^^^ b) &&& 16#8 = if a.toNat % 16 < b.toNat % 16 then 16#8 else 0#8 := by
  have ha := a.isLt; have hb := b.isLt
  have h := xor_borrow a b false 4 (by omega)
  have e : a - b - (BitVec.ofBool false).setWidth 8 = a - b := by simp
  rw [e] at h
  rw [mask10_ite, h]
  simp only [BitVec.carry, BitVec.toNat_sub]
  have : (decide ((2 ^ 8 - b.toNat + a.toNat) % 2 ^ 8 % 2 ^ 4 + b.toNat % 2 ^ 4 + false.toNat ≥ 2 ^ 4))
      = decide (a.toNat % 16 < b.toNat % 16) := by
    rw [decide_eq_decide]
    simp only [Bool.toNat_false]
    constructor <;> intro h <;> omega
  simp only [this]
  by_cases hc : a.toNat % 16 < b.toNat % 16 <;> simp [hc]

@[z80helper] theorem updateFlagCPx_run (a b : U8) (s : St) :
    updateFlagCPx (a - b) a b s = .ok () { s with AF.Lo := cpiFlags a b s.AF.Lo (s.BC.Lo != 0#8 || s.BC.Hi != 0#8) } := by
  have key : ∀ (r : U8) (h z : Bool),
      ((if z = true then
              (if r = 0#8 then r &&& 128#8 ||| 64#8 else r &&& 128#8) ||| (if h = true then 16#8 else 0#8) ||| 4#8
            else (if r = 0#8 then r &&& 128#8 ||| 64#8 else r &&& 128#8) ||| (if h = true then 16#8 else 0#8)) |||
            2#8 |||
          (r - (if h = true then 16#8 else 0#8) >>> 4 &&& 2#8) <<< 4 |||
        r - (if h = true then 16#8 else 0#8) >>> 4 &&& 8#8)
      = flags r[7] (r == 0#8) (r - if h = true then 1#8 else 0#8)[1] h (r - if h = true then 1#8 else 0#8)[3] z true false &&& ~~~fC := by
    decide
  generalize hz : (s.BC.Lo != 0#8 || s.BC.Hi != 0#8) = z
  simp [updateFlagCPx, cpiFlags, keepBits, bcnz_iff _ _ _ hz, half_borrow8]
  congr 1
  have := key (a - b) (decide (a.toNat % 16 < b.toNat % 16)) z
  simpa using this

@[z80helper] theorem ldiFlags_bit2 (a v f : U8) (z : Bool) : (ldiFlags a v f z)[2] = z := by
  unfold ldiFlags keepBits
  generalize a + v = n
  rw [← BitVec.getLsbD_eq_getElem]
  simp only [BitVec.getLsbD_or, BitVec.getLsbD_and, BitVec.getLsbD_not, flags_bit2]
  simp [fS, fZ, fC]
@[z80helper] theorem cpiFlags_bit2 (a v f : U8) (z : Bool) : (cpiFlags a v f z)[2] = z := by
  unfold cpiFlags keepBits
  rw [← BitVec.getLsbD_eq_getElem]
  simp only [BitVec.getLsbD_or, BitVec.getLsbD_and, BitVec.getLsbD_not, flags_bit2]
  simp [fC]
@[z80helper] theorem cpiFlags_bit6 (a v f : U8) (z : Bool) : (cpiFlags a v f z)[6] = (a == v) := by
  unfold cpiFlags keepBits
  rw [← BitVec.getLsbD_eq_getElem]
  simp only [BitVec.getLsbD_or, BitVec.getLsbD_and, BitVec.getLsbD_not, flags_bit6]
  simp only [fC]
  have : (a - v == 0#8) = (a == v) := by
    rw [Bool.eq_iff_iff]; simp only [beq_iff_eq]
    rw [BitVec.sub_eq_iff_eq_add]; simp
  simpa using this

end Z80
