/-
  Z80.Proofs.BusLemmas — the REGENERATED memory accessors of cpu.go (user memory, or the mode-0 overlay `im0data`
  with its wrap-safe guard, nested to any depth) are exactly the pure bus functions of Z80.Bus.
-/
import Z80.Gen.All
import Z80.Bus
import Z80.Attr

namespace Z80
open Z80.Gen
set_option maxRecDepth 8192

theorem Memory_Get_eq (m : MemVal) : ∀ (a : U16) (s : St),
    Gen.Memory_Get m a s = .ok (busRead m s.mem a) { s with log := busEvR m s.mem a ++ s.log } := by
  induction m with
  | user => intro a s; rfl
  | im0data start end_ data base ih =>
    intro a s
    simp only [Gen.Memory_Get, bind_run, pure_run, ite_run, busRead, busEvR, goLen, Int.ofNat_eq_natCast, ge_iff_le]
    generalize (a - start).toNat = off
    by_cases h : data.length ≤ off
    · have h' : ((data.length : Int) ≤ (off : Int)) := by omega
      simp only [h, h', decide_true, if_true, ih a s, Res.bind_ok]
    · have h' : ¬ ((data.length : Int) ≤ (off : Int)) := by omega
      have hlt : off < data.length := by omega
      simp only [h, h', decide_false, Bool.false_eq_true, if_false, idx_run, List.getElem?_eq_getElem hlt, Res.bind_ok,
        List.getD_eq_getElem?_getD, Option.getD_some, List.nil_append]

theorem Memory_Set_eq (m : MemVal) : ∀ (a : U16) (v : U8) (s : St),
    Gen.Memory_Set m a v s = .ok () { s with mem := busWrite m s.mem a v, log := busEvW m a v ++ s.log } := by
  induction m with
  | user => intro a v s; rfl
  | im0data start end_ data base ih =>
    intro a v s
    simp only [Gen.Memory_Set, bind_run, pure_run, ite_run, busWrite, busEvW, goLen, Int.ofNat_eq_natCast]
    generalize (a - start).toNat = off
    by_cases h : off < data.length
    · have h' : ((off : Int) < (data.length : Int)) := by omega
      simp only [h, h', decide_true, if_true, List.nil_append]
    · have h' : ¬ ((off : Int) < (data.length : Int)) := by omega
      simp only [h, h', decide_false, Bool.false_eq_true, if_false, ih a v s, Res.bind_ok]
      rfl

end Z80
