/-
  Z80.Monad — hand-written, core Lean only.
  The state record (generated `Gen.CPU` + the outside world), the result type, the
  state/panic monad `M` and the primitives the translated Go code is allowed to use.
-/
import Z80.Base
import Z80.Gen.Types

namespace Z80
open Gen

/-- Complete machine state: the Go `CPU` struct (generated) plus what the user-supplied
    `Memory`/`IO` objects and handlers are modelled as. -/
@[ext] structure St extends Gen.CPU where
  /-- user memory: a byte store (read returns last write) -/
  mem : U16 → U8
  /-- user port device: answer to `IO.In(p)` as a function of the whole bus history so far -/
  dev : List Ev → U8 → U8
  /-- bus/event history, NEWEST FIRST -/
  log : List Ev

inductive Res (α : Type) where
  | ok (a : α) (s : St)
  | panic (why : String)

@[reducible] def M (α : Type) := St → Res α

/-- sequencing on results (named so that simp lemmas can talk about it) -/
@[inline] def Res.bind {α β} (r : Res α) (f : α → St → Res β) : Res β :=
  match r with
  | .ok a s' => f a s'
  | .panic e => .panic e

@[simp] theorem Res.bind_ok {α β} (a : α) (s : St) (f : α → St → Res β) : (Res.ok a s).bind f = f a s := rfl
@[simp] theorem Res.bind_panic {α β} (e : String) (f : α → St → Res β) : (Res.panic e : Res α).bind f = .panic e := rfl
@[simp] theorem Res.bind_ite {α β} (c : Prop) [Decidable c] (x y : Res α) (f : α → St → Res β) :
    (if c then x else y).bind f = if c then x.bind f else y.bind f := by
  split <;> rfl

@[inline] def M.pure {α} (a : α) : M α := fun s => .ok a s
@[inline] def M.bind {α β} (m : M α) (f : α → M β) : M β := fun s => (m s).bind f

instance : Monad M where
  pure := M.pure
  bind := M.bind

@[simp] theorem pure_run {α} (a : α) (s : St) : (pure a : M α) s = .ok a s := rfl
@[simp] theorem Res.bind_pure_unit (r : Res Unit) : r.bind (fun _ => (pure () : M Unit)) = r := by
  cases r <;> rfl
@[simp] theorem bind_run {α β} (m : M α) (f : α → M β) (s : St) :
    (m >>= f) s = (m s).bind f := rfl
@[simp] theorem map_run {α β} (g : α → β) (m : M α) (s : St) :
    (g <$> m) s = (m s).bind (fun a s' => .ok (g a) s') := rfl
@[simp] theorem seqRight_run {α β} (m : M α) (n : Unit → M β) (s : St) :
    (SeqRight.seqRight m n) s = (m s).bind (fun _ s' => n () s') := rfl
@[simp] theorem ite_run {α} (c : Prop) [Decidable c] (m1 m2 : M α) (s : St) :
    (if c then m1 else m2) s = if c then m1 s else m2 s := by
  split <;> rfl

/-- a pointer to a piece of the CPU (`&cpu.BC.Hi`, `&cpu.BC`): getter and setter -/
structure Lens (α : Type) where
  get : St → α
  set : α → St → St

def getSt : M St := fun s => .ok s s
def modifySt (f : St → St) : M Unit := fun s => .ok () (f s)
def panic {α} (why : String) : M α := fun _ => .panic why

@[simp] theorem getSt_run (s : St) : getSt s = .ok s s := rfl
@[simp] theorem modifySt_run (f : St → St) (s : St) : modifySt f s = .ok () (f s) := rfl
@[simp] theorem panic_run {α} (w : String) (s : St) : (panic w : M α) s = .panic w := rfl

/-- `Memory.Get` on the user's memory object -/
def userGet (a : U16) : M U8 := fun s =>
  .ok (s.mem a) { s with log := .mr a (s.mem a) :: s.log }
/-- `Memory.Set` on the user's memory object -/
def userSet (a : U16) (v : U8) : M Unit := fun s =>
  .ok () { s with mem := upd s.mem a v, log := .mw a v :: s.log }
/-- `cpu.IO.In(p)`; a nil `IO` is a nil-pointer dereference -/
def ioInUser (p : U8) : M U8 := fun s =>
  if s.IO then .ok (s.dev s.log p) { s with log := .ior p (s.dev s.log p) :: s.log }
  else .panic "nil IO"
/-- `cpu.IO.Out(p, v)` -/
def ioOutUser (p v : U8) : M Unit := fun s =>
  if s.IO then .ok () { s with log := .iow p v :: s.log } else .panic "nil IO"
def callRETN : M Unit := fun s =>
  if s.RETNHandler then .ok () { s with log := .retn :: s.log } else .panic "nil RETNHandler"
def callRETI : M Unit := fun s =>
  if s.RETIHandler then .ok () { s with log := .reti :: s.log } else .panic "nil RETIHandler"
/-- `cpu.warnf(...)`: one warning event quoting the code bytes -/
def warn (bytes : List U8) : M Unit := fun s => .ok () { s with log := .warn bytes :: s.log }

@[simp] theorem userGet_run (a s) :
    userGet a s = .ok (s.mem a) { s with log := .mr a (s.mem a) :: s.log } := rfl
@[simp] theorem userSet_run (a v s) :
    userSet a v s = .ok () { s with mem := upd s.mem a v, log := .mw a v :: s.log } := rfl
@[simp] theorem ioInUser_run (p s) : ioInUser p s =
    if s.IO then .ok (s.dev s.log p) { s with log := .ior p (s.dev s.log p) :: s.log }
    else .panic "nil IO" := rfl
@[simp] theorem ioOutUser_run (p v s) : ioOutUser p v s =
    if s.IO then .ok () { s with log := .iow p v :: s.log } else .panic "nil IO" := rfl
@[simp] theorem callRETN_run (s) : callRETN s =
    if s.RETNHandler then .ok () { s with log := .retn :: s.log } else .panic "nil RETNHandler" := rfl
@[simp] theorem callRETI_run (s) : callRETI s =
    if s.RETIHandler then .ok () { s with log := .reti :: s.log } else .panic "nil RETIHandler" := rfl
@[simp] theorem warn_run (b s) : warn b s = .ok () { s with log := .warn b :: s.log } := rfl

/-- checked slice indexing `xs[i]` -/
def idx (xs : List U8) (i : Nat) : M U8 := fun s =>
  match xs[i]? with
  | some v => .ok v s
  | none => .panic "index out of range"
/-- checked pointer dereference -/
def deref {α} (p : Option α) : M α := fun s =>
  match p with
  | some v => .ok v s
  | none => .panic "nil pointer dereference"

theorem idx_run (xs i s) : idx xs i s =
    match xs[i]? with | some v => .ok v s | none => .panic "index out of range" := rfl
@[simp] theorem deref_some {α} (v : α) (s : St) : deref (some v) s = .ok v s := rfl
@[simp] theorem deref_none {α} (s : St) : (deref (none : Option α)) s = .panic "nil pointer dereference" := rfl

/-- Go `len` of a slice as Go `int` -/
@[reducible] def goLen (xs : List U8) : Int := Int.ofNat xs.length

/-- n-fold sequential iteration of a step -/
def iter (step : M Unit) : Nat → M Unit
  | 0 => pure ()
  | n+1 => do step; iter step n

end Z80
