/-
  C16 — flag and register accessors touch exactly the named bits.
  Over the definitions regenerated from flag.go / z80.go: for ALL masks and ALL F values (symbolic,
  no enumeration), GetFlag/SetFlag/ResetFlag are the bit algebra the documentation promises, touch
  neither A nor any other field, the exported constants are the Z80 bit positions, and
  Register.SetU16 followed by U16 is the identity on all 65536 values.
-/
import Z80.Proofs.Basic

namespace Z80.Props.C16
open Z80 Z80.Gen Z80.Spec

/-- the pointer `&cpu.GPR` (what `cpu.SetFlag(f)` operates on through the embedded struct) -/
def gprLens : Lens GPR := ⟨fun s => s.toGPR, fun v s => { s with toGPR := v }⟩

/-- GetFlag: true iff F AND mask is non-zero … -/
theorem C16_get (g : GPR) (f : U8) : GPR_GetFlag g f = (g.AF.Lo &&& f != 0#8) := rfl

/-- … i.e. iff ANY named bit is set in F -/
theorem C16_get_any (g : GPR) (f : U8) :
    GPR_GetFlag g f = true ↔ ∃ i : Fin 8, f.getLsbD i = true ∧ g.AF.Lo.getLsbD i = true := by
  rw [C16_get]
  simp only [bne_iff_ne, ne_eq]
  constructor
  · intro h
    apply Classical.byContradiction
    intro hn
    apply h
    apply BitVec.eq_of_getLsbD_eq
    intro i hi
    have := fun hf hg => hn ⟨⟨i, hi⟩, hf, hg⟩
    rw [BitVec.getLsbD_and]
    cases hg : g.AF.Lo.getLsbD i <;> cases hf : f.getLsbD i <;> simp_all
  · intro ⟨i, hf, hg⟩ h
    have := congrArg (fun v => v.getLsbD i) h
    simp only [BitVec.getLsbD_and, hf, hg, Bool.and_self] at this
    simp at this

/-- SetFlag sets exactly the named bits: F' = F OR mask; A and every other field are unchanged -/
theorem C16_set (f : U8) (s : St) :
    GPR_SetFlag gprLens f s = .ok () { s with AF.Lo := s.AF.Lo ||| f } := by
  simp [GPR_SetFlag, gprLens]

/-- ResetFlag clears exactly the named bits: F' = F AND NOT mask -/
theorem C16_reset (f : U8) (s : St) :
    GPR_ResetFlag gprLens f s = .ok () { s with AF.Lo := s.AF.Lo &&& ~~~f } := by
  simp [GPR_ResetFlag, gprLens]

/-- bit-level reading: a bit of F' is set iff it was set or is named (SetFlag) … -/
theorem C16_set_bits (f F : U8) (i : Nat) : (F ||| f).getLsbD i = (F.getLsbD i || f.getLsbD i) := BitVec.getLsbD_or ..
/-- … resp. iff it was set and is not named (ResetFlag) -/
theorem C16_reset_bits (f F : U8) (i : Nat) (hi : i < 8) : (F &&& ~~~f).getLsbD i = (F.getLsbD i && !f.getLsbD i) := by
  simp [BitVec.getLsbD_and, BitVec.getLsbD_not, hi]

/-- A is untouched, and so is everything outside F -/
theorem C16_frame (f : U8) (s : St) :
    (∃ t, GPR_SetFlag gprLens f s = .ok () t ∧ t.AF.Hi = s.AF.Hi ∧ t.BC = s.BC ∧ t.DE = s.DE ∧ t.HL = s.HL ∧
        t.toSPR = s.toSPR ∧ t.Alternate = s.Alternate ∧ t.mem = s.mem ∧ t.log = s.log) ∧
    (∃ t, GPR_ResetFlag gprLens f s = .ok () t ∧ t.AF.Hi = s.AF.Hi ∧ t.BC = s.BC ∧ t.DE = s.DE ∧ t.HL = s.HL ∧
        t.toSPR = s.toSPR ∧ t.Alternate = s.Alternate ∧ t.mem = s.mem ∧ t.log = s.log) := by
  constructor
  · exact ⟨_, C16_set f s, rfl, rfl, rfl, rfl, rfl, rfl, rfl, rfl⟩
  · exact ⟨_, C16_reset f s, rfl, rfl, rfl, rfl, rfl, rfl, rfl, rfl⟩

/-- the exported constants are the Z80 bit positions, and equal the internal masks -/
theorem C16_constants :
    const_FlagC = 0x01#8 ∧ const_FlagN = 0x02#8 ∧ const_FlagPV = 0x04#8 ∧ const_Flag3 = 0x08#8 ∧
    const_FlagH = 0x10#8 ∧ const_Flag5 = 0x20#8 ∧ const_FlagZ = 0x40#8 ∧ const_FlagS = 0x80#8 ∧
    const_maskC = 1 ∧ const_maskN = 2 ∧ const_maskPV = 4 ∧ const_mask3 = 8 ∧ const_maskH = 16 ∧
    const_mask5 = 32 ∧ const_maskZ = 64 ∧ const_maskS = 128 := by
  refine ⟨rfl, rfl, rfl, rfl, rfl, rfl, rfl, rfl, rfl, rfl, rfl, rfl, rfl, rfl, rfl, rfl⟩

/-- the pointer `&cpu.BC` -/
def bcLens : Lens Register := ⟨fun s => s.BC, fun v s => { s with BC := v }⟩

/-- SetU16 then U16 is the identity on all 65536 values; Hi is the high byte, Lo the low byte -/
theorem C16_setU16_u16 (v : U16) (s : St) :
    ∃ t, Register_SetU16 bcLens v s = .ok () t ∧ Register_U16 t.BC = v ∧
         t.BC.Hi = hi8 v ∧ t.BC.Lo = lo8 v ∧ t.AF = s.AF ∧ t.DE = s.DE ∧ t.HL = s.HL := by
  refine ⟨{ s with BC := { Hi := hi8 v, Lo := lo8 v } }, ?_, ?_, rfl, rfl, rfl, rfl, rfl⟩
  · simp [Register_SetU16, bcLens, z80helper]
  · simp [Register_U16, z80helper]

/-- U16 of a register is Hi·256 + Lo -/
theorem C16_u16_value (r : Register) : (Register_U16 r).toNat = r.Hi.toNat * 256 + r.Lo.toNat := by
  simp only [Register_U16]; exact mk16_toNat r.Hi r.Lo

-- concrete instance: SetFlag(FlagZ|FlagC) on F = 0x80 gives 0xC1, A untouched
example : ∃ t, GPR_SetFlag gprLens 0x41#8
      { (default : CPU) with AF := { Hi := 0x12#8, Lo := 0x80#8 }, mem := fun _ => 0#8, dev := fun _ _ => 0#8, log := [] } = .ok () t
    ∧ t.AF.Lo = 0xc1#8 ∧ t.AF.Hi = 0x12#8 := ⟨_, C16_set _ _, by decide, rfl⟩

end Z80.Props.C16
