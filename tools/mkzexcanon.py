#!/usr/bin/env python3
"""One-off generator of lean/Z80/Spec/ZexCanon.lean: the canonical zexdoc/zexall records, parsed (independently of
the Lean parser and of the Go tables) from the pristine images cmd/zexdoc/zexdoc.cim and zexall.cim, together with
the images' SHA-256.  The output is COMMITTED; the check compares the current tree against it."""
import hashlib, sys

def parse(path):
    d = open(path, 'rb').read()
    rd = lambda a: d[a - 0x100]
    w = lambda a: rd(a) | rd(a + 1) << 8
    assert rd(0x100) == 0xc3
    start = w(0x101)
    # ld hl,(6); ld sp,hl; ld de,msg1; ld c,9; call bdos; ld hl,tests
    assert [rd(start + i) for i in (0, 1, 2, 3, 4, 7, 8, 9, 12)] == [0x2a, 0x06, 0x00, 0xf9, 0x11, 0x0e, 0x09, 0xcd, 0x21]
    tests = w(start + 13)
    recs = []
    while True:
        p = w(tests)
        if p == 0:
            break
        tests += 2
        rec = [rd(p + i) for i in range(65)]
        msg = []
        q = p + 65
        while rd(q) != ord('$'):
            msg.append(rd(q)); q += 1
        recs.append((rec, bytes(msg).decode('latin1')))
    return d, recs

out = ['/-', '  GENERATED ONCE by tools/mkzexcanon.py from the pristine zexdoc.cim / zexall.cim and COMMITTED: the canonical',
       '  exerciser records (65 bytes each: flag mask, base/increment/shift state vectors of 20 bytes, CRC big-endian)',
       '  with their messages, and the SHA-256 of the images.', '-/', 'namespace Z80.Spec', '']
for name in ('zexdoc', 'zexall'):
    d, recs = parse(f'/repo/cmd/zexdoc/{name}.cim')
    out.append(f'def {name}Sha256 : String := "{hashlib.sha256(d).hexdigest()}"')
    out.append(f'def {name}Canon : List (List Nat × String) := [')
    out.append(',\n'.join('  ([' + ','.join(map(str, r)) + f'], "{m}")' for r, m in recs) + ']')
    out.append('')
out.append('end Z80.Spec')
open('/verif/lean/Z80/Spec/ZexCanon.lean', 'w').write('\n'.join(out) + '\n')
print('ok')
