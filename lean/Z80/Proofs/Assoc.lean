/-
  Z80.Proofs.Assoc — lemmas about association lists with shadowed bindings (GoStore.Assoc): the live entries, lookup as
  membership for lists with distinct keys, independence of lookups from the order of the entries.  Core Lean only.
-/
import Z80.GoStore

namespace Z80.Proofs.Assoc
open Z80 Z80.GoStore

/-- every key bound in l is visited (unless already seen) -/
theorem mem_keys_live (seen : List U16) (l : Assoc) (kv : U16 × U8) (h : kv ∈ l) (hs : kv.1 ∉ seen) :
    kv.1 ∈ (assocLiveAux seen l).map (·.1) := by
  induction l generalizing seen with
  | nil => cases h
  | cons x rest ih =>
    obtain ⟨k, v⟩ := x
    unfold assocLiveAux
    by_cases hk : seen.contains k
    · simp only [hk, if_true]
      rcases List.mem_cons.mp h with e | e
      · subst e; simp at hk; exact absurd hk hs
      · exact ih seen e hs
    · simp only [hk]
      rcases List.mem_cons.mp h with e | e
      · subst e; simp
      · by_cases hkk : kv.1 = k
        · simp [hkk]
        · simp only [Bool.false_eq_true, if_false, List.map_cons, List.mem_cons]
          right
          exact ih (k :: seen) e (by simp [hkk, hs])

/-- in a list whose keys are pairwise distinct, lookup is membership -/
theorem find_iff_mem (es : Assoc) (hnd : (es.map (·.1)).Nodup) (k : U16) (v : U8) :
    assocFind es k = some v ↔ (k, v) ∈ es := by
  induction es with
  | nil => simp [assocFind]
  | cons x rest ih =>
    obtain ⟨k', v'⟩ := x
    simp only [List.map_cons, List.nodup_cons] at hnd
    unfold assocFind at ih ⊢
    by_cases hk : k' = k
    · subst hk
      simp only [List.find?_cons, BEq.rfl, Option.map_some, Option.some.injEq, List.mem_cons, Prod.mk.injEq, true_and]
      constructor
      · intro e; exact Or.inl e.symm
      · rintro (e | e)
        · exact e.symm
        · exact absurd (List.mem_map_of_mem (f := (·.1)) e) hnd.1
    · have : (k' == k) = false := by simp [hk]
      simp only [List.find?_cons, this, List.mem_cons, Prod.mk.injEq]
      rw [ih hnd.2]
      constructor
      · intro e; exact Or.inr e
      · rintro (⟨e, _⟩ | e)
        · exact absurd e.symm hk
        · exact e

/-- lookups in a list with distinct keys depend only on its members — not on their order -/
theorem find_order_independent (es es' : Assoc) (hnd : (es.map (·.1)).Nodup) (hnd' : (es'.map (·.1)).Nodup)
    (hmem : ∀ kv, kv ∈ es' ↔ kv ∈ es) (k : U16) : assocFind es' k = assocFind es k := by
  cases h : assocFind es k with
  | some v =>
    exact (find_iff_mem es' hnd' k v).mpr ((hmem _).mpr ((find_iff_mem es hnd k v).mp h))
  | none =>
    cases h' : assocFind es' k with
    | none => rfl
    | some v =>
      have := (find_iff_mem es hnd k v).mpr ((hmem _).mp ((find_iff_mem es' hnd' k v).mp h'))
      rw [h] at this; cases this

theorem live_keys_not_seen (seen : List U16) (l : Assoc) : ∀ kv ∈ assocLiveAux seen l, kv.1 ∉ seen := by
  induction l generalizing seen with
  | nil => intro kv h; cases h
  | cons x rest ih =>
    obtain ⟨k, v⟩ := x
    intro kv h
    unfold assocLiveAux at h
    by_cases hk : seen.contains k
    · simp only [hk, if_true] at h; exact ih seen kv h
    · simp only [hk, Bool.false_eq_true, if_false, List.mem_cons] at h
      rcases h with e | e
      · subst e; simpa using hk
      · have := ih (k :: seen) kv e
        simp only [List.mem_cons, not_or] at this
        exact this.2

theorem live_nodup (seen : List U16) (l : Assoc) : ((assocLiveAux seen l).map (·.1)).Nodup := by
  induction l generalizing seen with
  | nil => simp [assocLiveAux]
  | cons x rest ih =>
    obtain ⟨k, v⟩ := x
    unfold assocLiveAux
    by_cases hk : seen.contains k
    · simp only [hk, if_true]; exact ih seen
    · simp only [hk, Bool.false_eq_true, if_false, List.map_cons, List.nodup_cons]
      refine ⟨?_, ih (k :: seen)⟩
      intro hmem
      obtain ⟨kv, hkv, e⟩ := List.mem_map.mp hmem
      have := live_keys_not_seen (k :: seen) rest kv hkv
      simp only [List.mem_cons, not_or] at this
      exact this.1 e

/-- the visited entries answer every lookup (for keys not yet seen) as the map does -/
theorem find_live (seen : List U16) (l : Assoc) (k : U16) (hk : k ∉ seen) :
    assocFind (assocLiveAux seen l) k = assocFind l k := by
  induction l generalizing seen with
  | nil => rfl
  | cons x rest ih =>
    obtain ⟨k', v'⟩ := x
    unfold assocLiveAux
    by_cases hs : seen.contains k'
    · have hne : k' ≠ k := by intro e; subst e; simp at hs; exact hk hs
      have : (k' == k) = false := by simp [hne]
      simp only [hs, if_true]
      rw [ih seen hk]
      simp [assocFind, List.find?_cons, this]
    · simp only [hs, Bool.false_eq_true, if_false]
      by_cases hkk : k' = k
      · subst hkk; simp [assocFind, List.find?_cons]
      · have : (k' == k) = false := by simp [hkk]
        have hk2 : k ∉ k' :: seen := by simp [hk, Ne.symm hkk]
        have := ih (k' :: seen) hk2
        simp only [assocFind, List.find?_cons, *] at this ⊢
        exact this


/-- the live entries in reverse order answer every lookup as the list does -/
theorem find_live_reverse (l : Assoc) (k : U16) : assocFind (assocLive l).reverse k = assocFind l k := by
  have h1 : assocFind (assocLive l).reverse k = assocFind (assocLive l) k := by
    apply find_order_independent (assocLive l) (assocLive l).reverse (live_nodup [] l)
    · simp only [List.map_reverse]
      exact List.pairwise_reverse.mpr (List.Pairwise.imp (fun h => Ne.symm h) (live_nodup [] l))
    · intro kv; simp
  rw [h1]
  exact find_live [] l k (by simp)

end Z80.Proofs.Assoc
