"""Per-property configuration of bin/check: Lean targets, obligation counting, correspondence."""
import re

ALL_OBL = ['Z80/Proofs/Obl/*.lean', 'Z80/Proofs/Tables/*.lean', 'Z80/Proofs/Helpers*.lean',
           'Z80/Proofs/Arith.lean', 'Z80/Proofs/Bits.lean', 'Z80/Proofs/Basic.lean', 'Z80/Proofs/Step.lean']


def slots_from_broken(broken):
    out = set()
    for b in broken:
        for m in re.finditer(r'obl_(main|cb|ed|dd|fd|ddcb|fdcb)_([0-9a-f]{2})\b', b):
            out.add((m.group(1), m.group(2)))
    return sorted(out)


def family_slots(chk, families):
    import json, os
    sl = json.load(open(os.path.join(chk.LEAN, 'Z80', 'Proofs', 'slots.json')))
    out = {}
    for k, v in sl.items():
        if v['family'] in families:
            t, op = k.split('_')
            out.setdefault(t, []).append(op)
    return out


def corr_slots(per_quick, per_thorough, tables=None, want_spec=True, family=None):
    def run(ctx, chk, broken):
        per = per_thorough if ctx.tier == 'thorough' else per_quick
        if broken and not slots_from_broken(broken):
            per = max(per, 40)     # a helper-level lemma broke: no slot is named, so search every slot more widely
        args = ['-seed', str(ctx.seed), '-per', str(per)]
        if tables:
            args += ['-tables', ','.join(tables)]
        if family:
            fams = family if isinstance(family, (list, tuple)) else [family]
            vectors = ''
            for t, ops in sorted(family_slots(chk, fams).items()):
                vectors += chk.gen_vectors('slots', args + ['-tables', t, '-ops', ','.join(sorted(ops))])
        else:
            vectors = chk.gen_vectors('slots', args)
        if broken:
            # the same slots from states that carry a REFUSED maskable request (IFF1 clear): a state dimension no theorem of the slot
            # layer quantifies over separately (Step = executeOne there), searched when a proof no longer checks
            pargs = ['-seed', str(ctx.seed + 11), '-per', str(min(per, 12)), '-pend', '100']
            if family:
                for t, ops in sorted(family_slots(chk, fams).items()):
                    vectors += chk.gen_vectors('slots', pargs + ['-tables', t, '-ops', ','.join(sorted(ops))])
            else:
                vectors += chk.gen_vectors('slots', pargs + (['-tables', ','.join(tables)] if tables else []))
        # targeted search first: the slots named by broken obligations, many states each
        for (t, op) in slots_from_broken(broken)[:24]:
            tv = chk.gen_vectors('slots', ['-seed', str(ctx.seed + 7), '-per', '200', '-tables', t, '-ops', op])
            vectors = re.sub(r'(?m)^(\w+-[0-9a-f]{2}-)', r'\1t', tv) + vectors
        dis, stats, go = chk.correspond(ctx, vectors, want_spec=want_spec)
        out = []
        for (stream, vid, v, g, o) in dis:
            out.append({'stream': stream, 'id': vid, 'vector': v, 'real': g, 'other': o})
        ids = [l.split(' ', 1)[0] for l in vectors.splitlines() if l.strip()]
        slots = {chk.slot_of(i) for i in ids}
        cov = {'evaluations': len(ids), 'distinct_nontrivial': len(slots - {None}),
               'rule': 'one vector = one Step of the real code from a generated state (register/flag/pointer classes, '
                       'wrap addresses, random memory and device) with the slot\'s opcode bytes at PC; distinct = distinct '
                       '(table, opcode) slots exercised; compared field by field (registers, IFF/IM/HALT, written memory, ordered bus log)',
               'correspondence': stats}
        if ids:
            cov.setdefault('samples_vectors', [vectors.splitlines()[0][:200]])
        return out, cov
    return run


HELPERS = ['Z80/Proofs/Helpers*.lean', 'Z80/Proofs/Arith.lean', 'Z80/Proofs/Bits.lean', 'Z80/Proofs/Basic.lean',
           'Z80/Proofs/StepOf.lean']


def fam(*names):
    return [f'Z80/Proofs/Obl/{n}_*.lean' for n in names]


def is_im0_data(v):
    """could a mode-0 acceptance with supplied bytes happen in this vector?  (a maskable request carrying data, pending initially
    or injected later; IFF1 / IM may change while the vector runs, so they are not consulted: a disagreement with the reference is
    classified as the known finding only if the real code EQUALS the recorded description on that vector — see the callers)"""
    t = v.split()
    reqs = []
    if t[19] != '-':
        reqs.append(t[19])
    if 'INJ' in t:
        inj = t[t.index('INJ') + 1]
        if inj != '-':
            reqs += [x.split('@', 1)[1] for x in inj.split(';') if '@' in x]
    for r in reqs:
        ty, _, data = r.partition(':')
        if ty != '0' and data != '':
            return True
    return False


def im0_window_hit(v, spec_line):
    """does the reference write into [PC, PC+len) (where the implementation drops writes)?"""
    t = v.split()
    if ':' not in t[19]:
        return False
    pc = int(t[14], 16)
    n = len(t[19].split(':')[1]) // 2
    m = re.search(r' MEM (\S+)', spec_line or '')
    if not m or m.group(1) == '-':
        return False
    for item in m.group(1).split(','):
        a = int(item.split('=')[0], 16)
        if (a - pc) % 65536 < n:
            return True
    return False


def corr_intr(n_quick, n_thorough):
    def run(ctx, chk, broken):
        n = n_thorough if ctx.tier == 'thorough' else n_quick
        vectors = chk.gen_vectors('intr', ['-seed', str(ctx.seed), '-n', str(n)])
        # every slot once (thorough: 8 times) from a state in which a maskable request is pending and must be REFUSED (IFF1 clear): the
        # instruction runs as if nothing were waiting and the request stays
        vectors += chk.gen_vectors('slots', ['-seed', str(ctx.seed + 11), '-per', '8' if ctx.tier == 'thorough' else '1', '-pend', '100'])
        dis, stats, go = chk.correspond(ctx, vectors, want_spec=True, extra_streams=('kf',))
        kf_bad = {vid for (st, vid, v, g, o) in dis if st == 'kf'}
        out = []
        for (st, vid, v, g, o) in dis:
            d = {'stream': st, 'id': vid, 'vector': v, 'real': g, 'other': o}
            if st == 'spec' and vid not in kf_bad and is_im0_data(v):
                # the real code deviates from the reference exactly as the recorded description of mode 0 says
                d['known'] = 'KF-2' if im0_window_hit(v, o) else 'KF-1'
            out.append(d)
        ids = [l.split(' ', 1)[0] for l in vectors.splitlines() if l.strip()]
        classes = set()
        for l in vectors.splitlines():
            t = l.split()
            if len(t) > 20:
                ty, data = t[19].split(':') if ':' in t[19] else ('-', '')
                classes.add((ty, t[16], t[15], min(len(data) // 2, 4)))
        cov = {'evaluations': len(ids), 'distinct_nontrivial': len(classes),
               'rule': 'one vector = 1-2 Steps of the real code from a generated state with a pending request; request kind x IM x IFF1 x IFF2 x halted '
                       'enumerated, data shapes (RST, CALL nn, single byte, random, empty, vector byte) sampled; distinct = distinct (type, IM, IFF1/IFF2/HALT, data length) classes',
               'correspondence': stats}
        return out, cov
    return run


def memkinds_check(ctx, chk, out, cov, vectors):
    """real vs real on the given vectors: harness memory vs z80.DumbMemory vs z80.MapMemory vs a DumbMemory replaced by a copy after every Step"""
    import os
    mk = [l for l in vectors.splitlines() if l.strip()]
    rc, mo = chk.sh([os.path.join(chk.WORK, 'harness'), 'memkinds'], inp='\n'.join(mk) + '\n', timeout=3600)
    ml = [l for l in mo.splitlines() if l and not l.startswith('WARNING')]
    byid = {l.split(' ', 1)[0]: l for l in mk}
    n_mk = 0
    for l in ml:
        vid, _, rest = l.partition(' ')
        if rest == 'same':
            n_mk += 1
        else:
            out.append({'stream': 'memkinds', 'id': vid, 'vector': byid.get(vid, ''), 'real': rest[:1500], 'other': 'the outcome must not depend on what kind of object the memory is, nor on the memory object being replaced by another one holding the same bytes'})
    if len(ml) != len(mk):
        out.append({'stream': 'memkinds', 'id': 'length', 'vector': mo[-1500:], 'real': f'{len(ml)} answers for {len(mk)} vectors', 'other': None})
    cov['evaluations'] = cov.get('evaluations', 0) + 3 * n_mk
    cov.setdefault('correspondence', {})['memory_kind_vectors'] = n_mk


def corr_c04(ctx, chk, broken):
    """C04: the Jump / CallRet / Stack slots, plus histories in which a mode-0 request supplies RST / CALL / JP / PUSH a second time (the
    push and the operands must use the memory the CPU has NOW): real vs model vs reference, and real vs real across memory objects"""
    out, cov = corr_slots(40, 400, family=['Jump', 'CallRet', 'Stack'])(ctx, chk, broken)
    vec = chk.gen_vectors('im0twice', ['-seed', str(ctx.seed + 2), '-n', '300' if ctx.tier == 'thorough' else '40'])
    memkinds_check(ctx, chk, out, cov, vec)
    cov['rule'] = cov.get('rule', '') + ' | plus two mode-0 acceptances in a row (RST 38h, EI, then RST / CALL nn / JP with its operand in memory / PUSH supplied) on the real code with four kinds of memory object incl. one replaced by a copy after every Step'
    return out, cov


def cbraise_check(ctx, chk, out, cov, per):
    """real vs real: a request raised from inside a Memory / IO callback during Step j = the same request raised at the boundary after
    Step j (every opcode slot, bus accesses 1..4 of the Step, NMI and a maskable request)"""
    import os
    vec = chk.gen_vectors('slots', ['-seed', str(ctx.seed + 13), '-per', str(per)])
    lines = [l for l in vec.splitlines() if l.strip()]
    rc, mo = chk.sh([os.path.join(chk.WORK, 'harness'), 'cbraise'], inp='\n'.join(lines) + '\n', timeout=3600)
    ml = [l for l in mo.splitlines() if l and not l.startswith('WARNING')]
    byid = {l.split(' ', 1)[0]: l for l in lines}
    n_same = 0
    for l in ml:
        vid, _, rest = l.partition(' ')
        if rest == 'same':
            n_same += 1
        elif rest != 'skipped':
            out.append({'stream': 'callback-raise', 'id': vid, 'vector': byid.get(vid, ''), 'real': rest[:2500],
                        'other': 'a request raised by a callback while an instruction executes is honoured at the next boundary exactly as if it had been raised there; the instruction in progress must not notice it'})
    if len(ml) != len(lines):
        out.append({'stream': 'callback-raise', 'id': 'length', 'vector': mo[-1500:], 'real': f'{len(ml)} answers for {len(lines)} vectors', 'other': None})
    cov['evaluations'] = cov.get('evaluations', 0) + 2 * n_same
    cov.setdefault('correspondence', {})['callback_raise_vectors'] = n_same
    cov['rule'] = cov.get('rule', '') + ' | callback-raise (real vs real): every opcode slot, a request (NMI / maskable) raised from inside the callback of the 1st..4th bus access of the Step vs the same request raised at the boundary after that Step; whole result lines must be equal'


def corr_c14(ctx, chk, broken):
    """C14: every slot (R and I are part of the compared state), plus Steps that ACCEPT or refuse a request: R must not move when a
    request is accepted (no opcode fetch happens).  Mode-0 deviations that are the recorded known finding belong to C06 and are dropped."""
    out, cov = corr_slots(3, 250)(ctx, chk, broken)
    n = 8000 if ctx.tier == 'thorough' else 800
    vectors = chk.gen_vectors('intr', ['-seed', str(ctx.seed + 3), '-n', str(n)])
    dis, stats, go = chk.correspond(ctx, vectors, want_spec=True, extra_streams=('kf',))
    kf_bad = {vid for (st, vid, v, g, o) in dis if st == 'kf'}
    for (st, vid, v, g, o) in dis:
        if st == 'kf' or (st == 'spec' and vid not in kf_bad and is_im0_data(v)):
            continue
        out.append({'stream': st, 'id': vid, 'vector': v, 'real': g, 'other': o})
    cov['evaluations'] = cov.get('evaluations', 0) + stats.get('vectors', 0)
    cov.setdefault('correspondence', {})['interrupt_vectors'] = stats.get('vectors', 0)
    cov['rule'] = cov.get('rule', '') + ' | plus 1-2 Steps from states with a pending request (kind x IM x IFF1 x IFF2 x halted): an accepting Step leaves IR alone'
    cbraise_check(ctx, chk, out, cov, 6 if ctx.tier == 'thorough' else 1)
    return out, cov


def corr_stream(kinds, want_spec=True, go_panic_is_violation=False, rule='', go_timeout_is_violation=False):
    """kinds: list of (generator kind, n_quick, n_thorough, extra args)"""
    def run(ctx, chk, broken):
        vectors = ''
        for (kind, nq, nt, extra) in kinds:
            n = nt if ctx.tier == 'thorough' else nq
            flag = '-per' if kind == 'slots' else '-n'
            vectors += chk.gen_vectors(kind, ['-seed', str(ctx.seed), flag, str(n)] + list(extra))
        for (t, op) in slots_from_broken(broken)[:24]:
            tv = chk.gen_vectors('slots', ['-seed', str(ctx.seed + 7), '-per', '200', '-tables', t, '-ops', op])
            vectors = re.sub(r'(?m)^(\w+-[0-9a-f]{2}-)', r'\1t', tv) + vectors
        need_kf = want_spec and any(is_im0_data(l) for l in vectors.splitlines() if l.strip())
        dis, stats, go = chk.correspond(ctx, vectors, want_spec=want_spec, extra_streams=(('kf',) if need_kf else ()))
        kf_bad = {vid for (st, vid, v, g, o) in dis if st == 'kf'}
        out = []
        for (st, vid, v, g, o) in dis:
            if st == 'kf':
                if not is_im0_data(v):
                    continue              # the kf stream only adds information for mode-0 requests with data
            d = {'stream': st, 'id': vid, 'vector': v, 'real': g, 'other': o}
            if st == 'spec' and vid not in kf_bad and is_im0_data(v):
                d['known'] = 'KF-2' if im0_window_hit(v, o) else 'KF-1'
            out.append(d)
        if go_timeout_is_violation:
            byid = {l.split(' ', 1)[0]: l for l in vectors.splitlines() if l.strip()}
            for vid, g in go.items():
                if 'deadline_exceeded' in g:
                    out.append({'stream': 'real-no-halt', 'id': vid, 'vector': byid.get(vid), 'real': g[:1500],
                                'other': 'the generated program terminates on a correct machine (every call returns, JP 0 halts at FF03h)'})
        if go_panic_is_violation:
            byid = {l.split(' ', 1)[0]: l for l in vectors.splitlines() if l.strip()}
            for vid, g in go.items():
                if ' panic' in g[:len(vid) + 8]:
                    out.append({'stream': 'real-panic', 'id': vid, 'vector': byid.get(vid), 'real': g, 'other': None})
        byid_all = {l.split(' ', 1)[0]: l for l in vectors.splitlines() if l.strip()}
        ids = [l.split(' ', 1)[0] for l in vectors.splitlines() if l.strip()]
        classes = {re.sub(r'-?\d+$', '', i) for i in ids}
        classes |= {(g.split(' RUN', 1)[1], byid_all.get(vid, ' BP -').split(' BP ')[1].split()[0].count(','), g.split(' NLOG ')[1].split()[0])
                    for vid, g in go.items() if ' RUN' in g and ' NLOG ' in g}
        cov = {'evaluations': len(ids), 'distinct_nontrivial': len({chk.slot_of(i) for i in ids} - {None}) + len(classes),
               'rule': rule, 'correspondence': stats}
        if ids:
            cov['samples_vectors'] = [vectors.splitlines()[0][:200], vectors.splitlines()[-1][:200]]
        return out, cov
    return run


def corr_zex(ctx, chk, broken):
    """search for the concrete exerciser case on which image and Go table differ"""
    import os
    rc, out = chk.sh(['lake', 'env', 'lean', '--run', 'Tools/ZexDiff.lean'], cwd=chk.LEAN, timeout=1800)
    lines = [l for l in out.splitlines() if l.startswith('zexdoc ') or l.startswith('zexall ')]
    done = [l for l in out.splitlines() if l.startswith('done ')]
    outl = [{'stream': 'zex', 'id': ' '.join(l.split()[:3]), 'vector': l[:4000], 'real': 'cmd/zexdoc image vs internal/zex table', 'other': None}
            for l in lines]
    if not done and not lines and not broken:
        outl.append({'stream': 'zex', 'id': 'tool', 'vector': out[-2000:], 'real': 'ZexDiff did not run', 'other': None})
    cov = {'evaluations': 134, 'distinct_nontrivial': 134,
           'rule': 'every record of both program images (67 + 67) compared with the Go table entry at the same index and with the pinned canonical record; '
                   'the theorems are kernel evaluations over the whole data, this run of ZexDiff is the search that names the differing case',
           'correspondence': {'tool': (done[0] if done else 'not run')}}
    return outl, cov


def memio_run(chk, ops, with_gen=False):
    """the same operation lines on the real types (harness), on the hand-written model, and (with_gen) on the model whose store
    operations are the methods translated from memio.go.  The third list is None when the translated module does not build."""
    import os
    from concurrent.futures import ThreadPoolExecutor
    gen_ok = False
    if with_gen:
        rc, _ = chk.sh(['lake', 'build', 'Z80.MemIOGen'], cwd=chk.LEAN, timeout=1800)
        gen_ok = rc == 0
    with ThreadPoolExecutor(max_workers=3) as ex:
        f1 = ex.submit(chk.sh, [os.path.join(chk.WORK, 'harness'), 'memio'], None, None, 1800, ops)
        f2 = ex.submit(chk.sh, ['lake', 'env', 'lean', '--run', 'DriverMemIO.lean'], chk.LEAN, None, 1800, ops)
        f3 = ex.submit(chk.sh, ['lake', 'env', 'lean', '--run', 'DriverMemIOGen.lean'], chk.LEAN, None, 1800, ops) if gen_ok else None
        go = [l for l in f1.result()[1].splitlines() if l and not l.startswith('WARNING')]
        le = [l for l in f2.result()[1].splitlines() if l and not l.startswith('WARNING')]
        ge = [l for l in f3.result()[1].splitlines() if l and not l.startswith('WARNING')] if f3 else None
    if with_gen:
        return go, le, ge
    return go, le


def corr_memio(ctx, chk, broken):
    """operation sequences on the real DumbMemory/DumbIO/MapMemory vs the hand-written model"""
    n = 6000 if ctx.tier == 'thorough' else 400
    ops = chk.gen_vectors('memio', ['-seed', str(ctx.seed), '-n', str(n)])
    lines = [l for l in ops.splitlines() if l.strip()]
    go, le, ge = memio_run(chk, ops, with_gen=True)
    out = []
    if len(go) != len(lines) or len(le) != len(lines):
        out.append({'stream': 'memio', 'id': 'length', 'vector': f'ops={len(lines)} real={len(go)} model={len(le)}',
                    'real': (go[-1] if go else None), 'other': (le[-1] if le else None)})
    if ge is not None and len(ge) != len(lines):
        out.append({'stream': 'memiogen', 'id': 'length', 'vector': f'ops={len(lines)} real={len(go)} translated={len(ge)}',
                    'real': (go[-1] if go else None), 'other': (ge[-1] if ge else None)})
    start = 0
    kinds = {}
    nondefault = 0
    for i, l in enumerate(lines[:min(len(go), len(le))]):
        if l == 'reset':
            start = i
        k = l.split()[0] + ':' + go[i].split()[0]
        if l.split()[0] in ('get', 'in') and len(go[i]) == 2:
            k = l.split()[0] + ':' + ('default' if go[i] in ('00', 'c7') else 'written-value')
            nondefault += go[i] not in ('00', 'c7')
        kinds[k] = kinds.get(k, 0) + 1
        if go[i] != le[i]:
            seq = lines[start:i + 1]
            out.append({'stream': 'memio', 'id': f'seq@{start}+{i - start}', 'vector': '\n'.join(seq), 'real': go[i], 'other': le[i], 'kind': 'memio'})
        if ge is not None and i < len(ge) and go[i] != ge[i]:
            seq = lines[start:i + 1]
            out.append({'stream': 'memiogen', 'id': f'gseq@{start}+{i - start}', 'vector': '\n'.join(seq), 'real': go[i], 'other': ge[i], 'kind': 'memio'})
        if len(out) >= 3:
            break
    cov = {'evaluations': len(lines), 'distinct_nontrivial': len(kinds),
           'rule': 'one evaluation = one operation (new/alias/get/set/put/in/out/clone/clear/equal/dump) applied to the real DumbMemory/DumbIO/MapMemory values and to the model, '
                   'answers compared line by line; sequences of 20-80 operations over 2-6 variables (slice lengths 0..65536 incl. edges, nil maps, aliases, clones, blocks ending at the slice end, wrapping Puts); '
                   'distinct = distinct (operation, answer class) pairs hit',
           'correspondence': {'sequences': n, 'operations': len(lines), 'distribution': dict(sorted(kinds.items())),
                              'reads_returning_a_written_value': nondefault,
                              'translated_methods_stream': ('compared on every operation' if ge is not None else 'NOT AVAILABLE: Z80.MemIOGen does not build (translator refused memio.go, or the generated methods no longer fit)')}}
    return out, cov


def corr_c18(ctx, chk, broken):
    """C18: (a) programs on the real tinycpm machine vs the regenerated CPU model running the regenerated BIOS bytes vs the reference;
    (b) the Go glue method by method: operation sequences on the real tinycpm.Memory / tinycpm.IO vs the methods TRANSLATED from
    internal/tinycpm (Z80/Gen/CPMGlue.lean) on a memory built by the translated put from the regenerated pages"""
    import os
    base = corr_stream([('cpm', 300, 5000, ['-per', '1'])], want_spec=True, go_timeout_is_violation=True,
                       rule='one vector = one program run by CPU.Run on the REAL tinycpm machine (a copy of internal/tinycpm taken at check time; console writer and warning logger captured): 1-5 mixed calls of '
                            'function 2 (any byte), function 9 (strings of length 0..400 and one of 4096, every byte value except $, incl. 00h/80h/FFh, strings crossing 256-byte pages or ending exactly at a page end), '
                            'unsupported function numbers, writes to other ports and port reads; then JP 0; the caller\'s stack at F800h, at the top of memory, right below the stub, in the gap between stub and stop code, or anywhere in the upper half. '
                            'Compared: console bytes in order, number of warnings, final PC/SP/HALT, Run result — with the regenerated CPU model running the BIOS bytes extracted from tinycpm.go, and with the reference')
    out, cov = base(ctx, chk, broken)
    n = 4000 if ctx.tier == 'thorough' else 300
    ops = chk.gen_vectors('cpmglue', ['-seed', str(ctx.seed), '-n', str(n)])
    lines = [l for l in ops.splitlines() if l.strip()]
    rc, _ = chk.sh(['lake', 'build', 'Z80.Gen.CPMGlue', 'Z80.Gen.TinyCPM'], cwd=chk.LEAN, timeout=1800)
    glue = {'sequences': n, 'operations': len(lines)}
    try:
        refused = '_refused' in open(os.path.join(chk.LEAN, 'Z80', 'Gen', 'CPMGlue.lean')).read()
        pages_refused = '_refused' in open(os.path.join(chk.LEAN, 'Z80', 'Gen', 'TinyCPM.lean')).read()
    except OSError:
        refused = pages_refused = True
    driver = 'DriverCPMGlue.lean'
    if pages_refused:
        glue['translated_methods_stream'] = 'NOT AVAILABLE: the BIOS pages could not be extracted from internal/tinycpm (Z80.Gen.TinyCPM refused)'
    elif rc != 0 or refused:
        # the current source cannot be translated: the search falls back to the hand-written reading of the glue as its oracle
        glue['translated_methods_stream'] = 'NOT AVAILABLE: Z80.Gen.CPMGlue does not build (the translator refused internal/tinycpm); compared with the hand-written glue model instead'
        driver = 'DriverCPMGlueSpec.lean'
    if not pages_refused:
        from concurrent.futures import ThreadPoolExecutor
        with ThreadPoolExecutor(max_workers=2) as ex:
            f1 = ex.submit(chk.sh, [os.path.join(chk.WORK, 'harness'), 'cpmglue'], None, None, 1800, ops)
            f2 = ex.submit(chk.sh, ['lake', 'env', 'lean', '--run', driver], chk.LEAN, None, 1800, ops)
            go = [l for l in f1.result()[1].splitlines() if l and not l.startswith('WARNING')]
            le = [l for l in f2.result()[1].splitlines() if l and not l.startswith('WARNING')]
        if len(go) != len(lines) or len(le) != len(lines):
            out.append({'stream': 'cpmglue', 'id': 'length', 'vector': f'ops={len(lines)} real={len(go)} translated={len(le)}',
                        'real': (go[-1] if go else None), 'other': (le[-1][:300] if le else None)})
        start, kinds = 0, {}
        for i, l in enumerate(lines[:min(len(go), len(le))]):
            if l == 'new':
                start = i
            k = l.split()[0] + ':' + ('value' if len(go[i]) == 2 else go[i].split()[0])
            kinds[k] = kinds.get(k, 0) + 1
            if go[i] != le[i]:
                out.append({'stream': 'cpmglue', 'id': f'glue@{start}+{i - start}', 'vector': '\n'.join(lines[start:i + 1]), 'real': go[i], 'other': le[i], 'kind': 'cpmglue'})
                if len([o for o in out if o['stream'] == 'cpmglue']) >= 3:
                    break
        glue['distribution'] = dict(sorted(kinds.items()))
        glue.setdefault('translated_methods_stream', 'compared on every operation')
    # several machines in one process: each console receives exactly what ITS machine prints (deterministic two-machine schedule with
    # a slow console + 8 free-running machines), run under the race detector when that build exists
    exe, race = race_bin(chk)
    rc, po = chk.sh([exe, 'cpmpar'], timeout=900)
    pl = [l for l in po.splitlines() if l.startswith('cpmpar ')]
    for l in pl:
        if ' ok ' not in l:
            out.append({'stream': 'parallel-cpm', 'id': l.split()[1], 'vector': l[:3000], 'real': l[:1500], 'other': 'each machine\'s console output must reach its own writer, whatever other machines in the process do'})
    if 'DATA RACE' in po:
        out.append({'stream': 'race-cpm', 'id': 'cpmpar', 'vector': po[po.index('DATA RACE') - 20:][:3000], 'real': 'race detector report', 'other': None})
    if len(pl) < 2:
        out.append({'stream': 'parallel-cpm', 'id': 'cpmpar', 'vector': po[-1500:], 'real': f'exit {rc}', 'other': None})
    glue['machines_in_parallel'] = pl
    glue['race_detector'] = race
    cov['evaluations'] = cov.get('evaluations', 0) + len(lines)
    cov.setdefault('correspondence', {})['cpmglue'] = glue
    cov['rule'] = cov.get('rule', '') + ' | cpmglue: one evaluation = one operation (new / Memory.Get / Memory.Set / IO.In / IO.Out / SetStdout / SetWarnLogger / dump of three writers and three loggers) on the real tinycpm types and on the translated methods; addresses biased to the BIOS pages, their edges, the gap between stub and stop code and back to written addresses'
    return out, cov


def corr_cim(ctx, chk, broken):
    """the BUILT cim2bin / cim2cas binaries on generated files vs the hand-written model"""
    import os, random, shutil, subprocess
    tmp = os.path.join(chk.WORK, 'cimtmp')
    shutil.rmtree(tmp, ignore_errors=True)
    os.makedirs(tmp)
    out = []
    for tool in ('cim2bin', 'cim2cas'):
        rc, o = chk.sh(['go', 'build', '-o', os.path.join(chk.WORK, tool), './cmd/' + tool], cwd=chk.REPO, env=chk.GOENV, timeout=600)
        if rc != 0:
            return [{'stream': 'cim', 'id': tool + '-build', 'vector': o[-1500:], 'real': 'does not build', 'other': None}], {'evaluations': 0, 'distinct_nontrivial': 0}
    rnd = random.Random(ctx.seed * 7919 + 11)
    n = 400 if ctx.tier == 'thorough' else 60
    lens = [1, 2, 3, 255, 256, 257, 4095, 4096, 0x7fff, 0x8000, 0xffff, 0x10000]
    cases = []
    for i in range(n):
        ln = lens[i % len(lens)] if i < 3 * len(lens) else rnd.choice([rnd.randint(1, 64), rnd.randint(1, 70000) % 65536 + 1, rnd.choice(lens)])
        maxoff = 0x10000 - ln
        off = rnd.choice([0, maxoff, max(0, maxoff - 1), min(maxoff, 0xa000), rnd.randint(0, maxoff)])
        kind = rnd.randint(0, 3)
        if ln >= 0x8000:
            body = bytes((j * 31 + ln + i) & 0xff for j in range(ln))
        else:
            body = bytes(rnd.randrange(256) for _ in range(ln))
        # images that look like the output formats themselves: a BIN container whose header is consistent with the image's own length
        # (FE, begin, end, exec, end-begin+1 == len-7), the same with an inconsistent header, a CAS file prefix
        if 8 <= ln < 0x8000 and kind == 0 and i % 2 == 0:
            begin = rnd.randint(0, 0x10000 - (ln - 7))
            end = begin + (ln - 7) - 1
            ex = rnd.randint(begin, end)
            if i % 4 == 2:
                end = (end + rnd.choice([1, -1, 7])) & 0xffff
            body = bytes([0xfe, begin & 0xff, begin >> 8, end & 0xff, end >> 8, ex & 0xff, ex >> 8]) + body[7:]
        elif 40 <= ln < 0x8000 and kind == 1 and i % 2 == 0:
            casp = bytes([0x1f, 0xa6, 0xde, 0xba, 0xcc, 0x13, 0x7d, 0x74]) + bytes([0xd0] * 10) + b'NAME  ' + bytes([0x1f, 0xa6, 0xde, 0xba, 0xcc, 0x13, 0x7d, 0x74])
            body = casp + body[len(casp):]
        nl = rnd.choice([0, 1, 5, 6, 7, 8, 12, rnd.randint(0, 12)])
        nam = bytes(rnd.choice(b'ABCxyz019 _-.') for _ in range(nl))
        if i % 9 == 4:
            # names that are blank but not empty, or blank at the edges: they are names, not "no name given"
            nam = rnd.choice([b' ', b'   ', b'      ', b'         ', b'\t', b' A', b'A ', b'  AB  ', b'\t\t'])
        fname = rnd.choice(['a.cim', 'img%02d.cim' % (i % 100), 'x', 'sixsix', 'seven77', 'LONGFILENAME.cim'])
        cases.append((i, off, body, nam, fname))
    lines, real = [], []
    classes = set()
    for (i, off, body, nam, fname) in cases:
        d = os.path.join(tmp, str(i))
        os.makedirs(d)
        with open(os.path.join(d, fname), 'wb') as f:
            f.write(body)
        bhex = body.hex() or '-'
        # cim2bin
        r = subprocess.run([os.path.join(chk.WORK, 'cim2bin'), '-cim', fname, '-bin', 'out.bin', '-off', str(off)], cwd=d,
                           stdout=subprocess.PIPE, stderr=subprocess.STDOUT, timeout=60)
        got = open(os.path.join(d, 'out.bin'), 'rb').read().hex() if r.returncode == 0 and os.path.exists(os.path.join(d, 'out.bin')) else 'exit=%d %s' % (r.returncode, r.stdout[-100:])
        lines.append(f'bin {off:x} {bhex}')
        real.append((f'bin#{i} len={len(body)} off={off:#06x}', got))
        # cim2cas
        # one case in seven converts IN PLACE (input and output name the same file), one more through a hard link: the image must be
        # read before the output is created
        casname = 'out.cas'
        if i % 7 == 3:
            casname = fname
        elif i % 7 == 5:
            try:
                os.link(os.path.join(d, fname), os.path.join(d, 'out.cas'))
            except OSError:
                pass
        args = [os.path.join(chk.WORK, 'cim2cas'), '-cim', fname, '-cas', casname, '-off', str(off)]
        if nam:
            args += ['-nam', nam.decode()]
        r = subprocess.run(args, cwd=d, stdout=subprocess.PIPE, stderr=subprocess.STDOUT, timeout=60)
        got = open(os.path.join(d, casname), 'rb').read().hex() if r.returncode == 0 and os.path.exists(os.path.join(d, casname)) else 'exit=%d %s' % (r.returncode, r.stdout[-100:])
        lines.append(f'cas {off:x} {nam.hex() or "-"} {fname.encode().hex()} {bhex}')
        real.append((f'cas#{i} len={len(body)} off={off:#06x} nam={nam!r} file={fname}', got))
        classes.add((min(len(body), 300) if len(body) < 300 else (len(body) >> 12) + 300, min(len(nam), 7), off == 0, off == 0x10000 - len(body)))
        shutil.rmtree(d, ignore_errors=True)
    rc, mo = chk.sh(['lake', 'env', 'lean', '--run', 'DriverCim.lean'], cwd=chk.LEAN, timeout=1800, inp='\n'.join(lines) + '\n')
    model = [l for l in mo.splitlines() if l and not l.startswith('WARNING')]
    if len(model) != len(lines):
        out.append({'stream': 'cim', 'id': 'driver', 'vector': mo[-1500:], 'real': f'{len(lines)} requests', 'other': f'{len(model)} answers'})
    for (cid, got), want, line in zip(real, model, lines):
        if got != want:
            k = next((j for j in range(0, min(len(got), len(want)), 2) if got[j:j + 2] != want[j:j + 2]), min(len(got), len(want)))
            out.append({'stream': 'cim', 'id': cid, 'vector': line if len(line) < 3000 else line[:200] + f'... ({len(line)} chars; body = bytes((j*31+len+i)&0xff))',
                        'real': f'{len(got) // 2} bytes, first difference at byte {k // 2}: {got[k:k + 16]}',
                        'other': f'{len(want) // 2} bytes: {want[k:k + 16]}'})
            if len(out) >= 3:
                break
    shutil.rmtree(tmp, ignore_errors=True)
    cov = {'evaluations': len(lines), 'distinct_nontrivial': len(classes),
           'rule': 'one evaluation = one run of the built cim2bin or cim2cas binary (go build from /repo) on a generated image file; lengths {1,2,3,255..257,4095,4096,0x7fff,0x8000,0xffff,0x10000} and random, '
                   'offsets {0, largest that fits, one less, 0xA000, random}, names of length 0 (default = file name),1,5,6,7,8,12 and blank-but-not-empty names (spaces, tabs); cim2cas also in place and through a hard link (input and output the same file); one image in eight is itself shaped like an output file (a BIN container with a header consistent, or just not consistent, with the image length; a CAS prefix); whole output compared byte for byte with the model; '
                   'distinct = distinct (length class, name length class, offset edge) combinations',
           'correspondence': {'cases': len(cases), 'runs': len(lines)}}
    return out, cov


def corr_mirror(per_quick, per_thorough):
    """C11: (a) the four index tables against model and reference; (b) real-vs-real: every DD / DDCB vector and its
    FD / FDCB mirror (IX and IY exchanged) must give mirrored results with the same accesses (no reference involved)"""
    base = corr_slots(per_quick, per_thorough, tables=['dd', 'fd', 'ddcb', 'fdcb'])

    def mirror_vec(l):
        t = l.split(' ')
        t[0] = 'm' + t[0]
        t[11], t[12] = t[12], t[11]
        i = t.index('MO')
        a, b = t[i + 1].split('=', 1)
        assert b.startswith('dd')
        t[i + 1] = a + '=fd' + b[2:]
        return ' '.join(t)

    def unmirror_result(r):
        t = r.split(' ')
        if len(t) < 16 or t[1] != 'ok':
            return r
        t[0] = t[0][1:]
        t[12], t[13] = t[13], t[12]
        j = t.index('LOG')
        ev = t[j + 1].split(',')
        if ev and ev[0].endswith('fd'):
            ev[0] = ev[0][:-2] + 'dd'
        ev = [('Wdd' + e[3:]) if e.startswith('Wfd') else e for e in ev]
        t[j + 1] = ','.join(ev)
        k = t.index('LH')
        t[k + 1] = '*'
        return ' '.join(t)

    def run(ctx, chk, broken):
        out, cov = base(ctx, chk, broken)
        per = per_thorough if ctx.tier == 'thorough' else per_quick
        v1 = chk.gen_vectors('slots', ['-seed', str(ctx.seed + 3), '-per', str(per), '-tables', 'dd,ddcb'])
        lines = [l for l in v1.splitlines() if l.strip()]
        mir = [mirror_vec(l) for l in lines]
        res = {l.split(' ', 1)[0]: l for l in chk.run_go('\n'.join(lines + mir) + '\n')}
        n_cmp = n_skip = 0
        for l, m in zip(lines, mir):
            vid = l.split(' ', 1)[0]
            a, b = res.get(vid), res.get('m' + vid)
            if a is None or b is None:
                out.append({'stream': 'mirror', 'id': vid, 'vector': l, 'real': a, 'other': b})
                continue
            ta = a.split(' ')
            if ta[1] == 'ok':
                k = ta.index('LH')
                ta[k + 1] = '*'
            a2, b2 = ' '.join(ta), unmirror_result(b)
            n_cmp += 1
            if a2 != b2:
                pc = l.split(' ')[14]
                evs = a.split(' LOG ', 1)[1].split(',') if ' LOG ' in a else []
                if any((e[0] in 'rw') and e[1:5] == pc for e in evs[1:]):
                    n_skip += 1       # the instruction itself reads/writes the address of the prefix byte
                    continue
                out.append({'stream': 'mirror', 'id': vid, 'vector': l + '\n' + m, 'real': 'DD form: ' + a, 'other': 'FD form (un-mirrored): ' + b2})
        cov['evaluations'] = cov.get('evaluations', 0) + 2 * len(lines)
        cov['correspondence']['mirror_pairs'] = n_cmp
        cov['correspondence']['mirror_pairs_skipped_prefix_observed'] = n_skip
        cov['rule'] += ' | mirror: every DD/DDCB vector is also run as its FD/FDCB mirror (IX and IY exchanged, prefix byte replaced) on the REAL code and the results compared after un-mirroring (registers, memory, ordered log)'
        # the same pairs with a memory whose m-th access pokes A, F, BC, DE, HL (order of register reads relative to bus accesses)
        import os
        v2 = chk.gen_vectors('slots', ['-seed', str(ctx.seed + 4), '-per', str(max(2, per // 2)), '-tables', 'dd,ddcb'])
        pl = [l for l in v2.splitlines() if l.strip()]
        rc, mo = chk.sh([os.path.join(chk.WORK, 'harness'), 'mirrorpoke'], inp='\n'.join(pl) + '\n', timeout=3600)
        ml = [l for l in mo.splitlines() if l and not l.startswith('WARNING')]
        byid = {l.split(' ', 1)[0]: l for l in pl}
        n_same = 0
        for l in ml:
            vid, _, rest = l.partition(' ')
            if rest == 'same':
                n_same += 1
            elif rest != 'skipped':
                out.append({'stream': 'mirror-poke', 'id': vid, 'vector': byid.get(vid, ''), 'real': rest[:2500], 'other': 'the FD form must do to IY what the DD form does to IX, also in the order in which registers are read relative to the bus accesses'})
        if len(ml) != len(pl):
            out.append({'stream': 'mirror-poke', 'id': 'length', 'vector': mo[-1500:], 'real': f'{len(ml)} answers for {len(pl)} vectors', 'other': None})
        cov['evaluations'] += 10 * n_same
        cov['correspondence']['mirror_poke_pairs'] = n_same
        cov['rule'] += ' | mirror-poke: DD/DDCB vectors and their FD twins on the real code with a memory whose 2nd..6th bus access changes A, F, BC, DE, HL; results compared after un-mirroring'
        return out, cov
    return run


def corr_inject(n_quick, n_thorough, maxk_quick=24):
    """C07 / C10: register-transparent programs x every injection point x interrupt kinds.
    (a) real vs regenerated model vs reference on every vector; (b) transparency, real vs real: the final state of
    every interrupted run equals the undisturbed run of the same program (modulo R, the log and the stack bytes)."""
    def norm(line):
        t = line.split(' ')
        if len(t) < 20 or t[1] != 'ok':
            return line
        t[0] = ''
        t[11] = t[11][:2] + '..'                 # R
        j = t.index('MEM')
        items = [] if t[j + 1] == '-' else [x for x in t[j + 1].split(',') if not (0xef00 <= int(x.split('=')[0], 16) <= 0xefff)]
        t[j + 1] = ','.join(items) or '-'
        k = t.index('NLOG')
        return ' '.join(t[:k])

    def run(ctx, chk, broken):
        n = n_thorough if ctx.tier == 'thorough' else n_quick
        maxk = 0 if ctx.tier == 'thorough' else maxk_quick
        if broken:
            # a proof no longer checks: search more programs, every injection point, and the named slots with a request waiting
            n, maxk = max(n, 40), 0
        vectors = chk.gen_vectors('inject', ['-seed', str(ctx.seed), '-n', str(n), '-per', str(maxk)])
        for (t, op) in slots_from_broken(broken)[:24]:
            for pend in ('0', '100'):
                tv = chk.gen_vectors('slots', ['-seed', str(ctx.seed + 7), '-per', '100', '-tables', t, '-ops', op, '-pend', pend])
                vectors = re.sub(r'(?m)^(\w+-[0-9a-f]{2}-)', r'\1t', tv) + vectors
        dis, stats, go = chk.correspond(ctx, vectors, want_spec=True, extra_streams=('kf',))
        kf_bad = {vid for (st, vid, v, g, o) in dis if st == 'kf'}
        out = []
        for (st, vid, v, g, o) in dis:
            im0 = '-im0' in vid or (chk.slot_of(vid) is not None and is_im0_data(v))
            if st == 'kf' and not im0:
                continue
            d = {'stream': st, 'id': vid, 'vector': v, 'real': g, 'other': o}
            if st == 'spec' and im0 and vid not in kf_bad:
                d['known'] = 'KF-1'      # the real code deviates from the reference exactly as the recorded description of mode 0 says
            out.append(d)
        byid = {l.split(' ', 1)[0]: l for l in vectors.splitlines() if l.strip()}
        n_pairs = 0
        kinds = set()
        for vid, g in go.items():
            m = re.match(r'inj-(\d+)-k(\d+)-(\w+)$', vid)
            if not m:
                continue
            base = go.get(f'inj-{m.group(1)}-base')
            n_pairs += 1
            kinds.add(m.group(3))
            if base is None or norm(base) != norm(g):
                d = {'stream': 'transparency', 'id': vid, 'vector': byid.get(vid, ''), 'real': 'interrupted run: ' + g[:1500],
                     'other': 'undisturbed run: ' + (base or 'missing')[:1500]}
                if '-im0' in vid and vid not in kf_bad:
                    d['known'] = 'KF-1'  # mode 0 resumes len(data) bytes too far: not transparent (pinned by TestInterruptIM0)
                out.append(d)
        cov = {'evaluations': len(byid), 'distinct_nontrivial': n_pairs,
               'rule': 'one vector = one complete run of a generated register-transparent program (IM n, EI, ALU/load code, LDIR/LDDR/CPIR/CPDR, a DI section with CALL/RET, DJNZ loop, OTIR/OTDR/INIR, HALT) on the real code '
                       'with one request injected before Step k; k ranges over ALL Step boundaries (sampled above %d in the quick tier) x {NMI, mode 1 | mode 2 with vectors 00/13/FE}; handlers use the stack and end EI;RETI / RETN. '
                       'Every run is compared with the regenerated model and the reference; every interrupted run is compared with the undisturbed run of its program (registers, flags, IFF, IM, HALT, pending request, memory outside the stack page). '
                       'distinct = (program, k, kind) triples' % maxk_quick,
               'correspondence': dict(stats, transparency_pairs=n_pairs, kinds=sorted(kinds))}
        return out, cov
    return run


def race_bin(chk):
    import os
    p = os.path.join(chk.WORK, 'harness_race')
    return (p, True) if os.path.exists(p) else (os.path.join(chk.WORK, 'harness'), False)


def dyn_ctx(chk, runs):
    """CPU.Run under cancellation on the real code, built with the race detector (support for C13)"""
    exe, race = race_bin(chk)
    rc, out = chk.sh([exe, 'ctx', '-runs', str(runs)], timeout=900)
    lines = [l for l in out.splitlines() if l.startswith('ctx ')]
    bad = [l for l in lines if ' ok ' not in l]
    res = []
    for l in bad:
        res.append({'stream': 'ctx', 'id': l.split()[1], 'vector': l, 'real': l, 'other': 'CPU.Run must return the context error within a bounded delay, at a whole number of Steps, leaving no goroutine behind'})
    if 'DATA RACE' in out:
        res.append({'stream': 'race', 'id': 'ctx', 'vector': out[out.index('DATA RACE') - 20:][:3000], 'real': 'race detector report', 'other': None})
    if rc != 0 and not res:
        res.append({'stream': 'ctx', 'id': 'exit', 'vector': out[-2000:], 'real': f'exit {rc}', 'other': None})
    return res, {'ctx_lines': lines, 'race_detector': race}


def corr_c13(ctx, chk, broken):
    base = corr_stream([('run', 400, 4000, [])], want_spec=False,
                       rule='the Run loop translation is validated on terminating programs (as in C08); dynamic support: CPU.Run of the real code under cancellation '
                            '(before the call, from another goroutine, by deadline) with a Step-driven twin, goroutine accounting over repeated Run calls, all under the race detector')
    out, cov = base(ctx, chk, broken)
    res, info = dyn_ctx(chk, 3000 if ctx.tier == 'thorough' else 300)
    cov['correspondence']['dynamic'] = info
    cov['evaluations'] = cov.get('evaluations', 0) + (3000 if ctx.tier == 'thorough' else 300) + 60
    return res + out, cov


def corr_c10(n_quick, n_thorough):
    """C10: snapshot/restore at EVERY boundary (real vs real: a CPU rebuilt from the public state after every Step), the same vectors against model
    and reference, and independent CPUs driven from concurrent goroutines under the race detector"""
    inj = corr_inject(n_quick, n_thorough)

    def run(ctx, chk, broken):
        out, cov = inj(ctx, chk, broken)
        # transparency is C07's business; conformance of mode 0 to the reference (known findings KF-1/KF-2) is C06's
        out = [d for d in out if d['stream'] != 'transparency' and not d.get('known')]
        n = n_thorough if ctx.tier == 'thorough' else n_quick
        vectors = chk.gen_vectors('inject', ['-seed', str(ctx.seed + 5), '-n', str(n), '-per', '0' if ctx.tier == 'thorough' else '24'])
        vectors += chk.gen_vectors('slots', ['-seed', str(ctx.seed + 5), '-per', '1'])
        # two Steps with a request raised at the boundary between them (what the first Step leaves behind besides the public state must not
        # matter), and histories with two mode-0 acceptances
        vectors += chk.gen_vectors('slots', ['-seed', str(ctx.seed + 6), '-per', '2' if ctx.tier == 'thorough' else '1', '-inj1', '100'])
        vectors += chk.gen_vectors('im0twice', ['-seed', str(ctx.seed + 6), '-n', '400' if ctx.tier == 'thorough' else '60'])
        vectors += chk.gen_vectors('block', ['-seed', str(ctx.seed + 5), '-n', '60', '-per', '0'])
        lines = [l for l in vectors.splitlines() if l.strip()]
        rb = [('rb-' + l)[:-len('K step')] + 'K rebuild' for l in lines if l.endswith('K step')]
        go = {l.split(' ', 1)[0]: l for l in chk.run_go('\n'.join(lines + rb) + '\n')}
        n_rb = 0
        for l in lines:
            vid = l.split(' ', 1)[0]
            a, b = go.get(vid), go.get('rb-' + vid)
            if b is None:
                continue
            n_rb += 1
            if a is None or a != b[3:]:
                out.append({'stream': 'snapshot', 'id': vid, 'vector': l, 'real': 'continuous run: ' + str(a)[:1500],
                            'other': 'CPU rebuilt from States + exported fields after every Step: ' + str(b)[:1500]})
        # memory-kind independence (real vs real): the same vectors with the harness memory, a full DumbMemory and a MapMemory
        import os
        step_lines = [l for l in lines if l.endswith('K step') and not l.startswith('inj-')]
        mk = step_lines[::(1 if ctx.tier == 'thorough' else 4)]
        mk += [l for l in chk.gen_vectors('intr', ['-seed', str(ctx.seed + 9), '-n', '1500' if ctx.tier == 'thorough' else '150']).splitlines() if l.strip()]
        rc, mo = chk.sh([os.path.join(chk.WORK, 'harness'), 'memkinds'], inp='\n'.join(mk) + '\n', timeout=3600)
        ml = [l for l in mo.splitlines() if l and not l.startswith('WARNING')]
        byid = {l.split(' ', 1)[0]: l for l in mk}
        n_mk = 0
        for l in ml:
            vid, _, rest = l.partition(' ')
            if rest == 'same':
                n_mk += 1
            else:
                out.append({'stream': 'memkinds', 'id': vid, 'vector': byid.get(vid, ''), 'real': rest[:1500], 'other': 'the outcome must not depend on what kind of object the memory is (harness memory vs z80.DumbMemory vs z80.MapMemory holding the same bytes)'})
        if len(ml) != len(mk):
            out.append({'stream': 'memkinds', 'id': 'length', 'vector': mo[-1500:], 'real': f'{len(ml)} answers for {len(mk)} vectors', 'other': None})
        cbraise_check(ctx, chk, out, cov, 2 if ctx.tier == 'thorough' else 1)
        exe, race = race_bin(chk)
        parvec = '\n'.join([l for l in lines if l.startswith('inj-')][:400]) + '\n' + chk.gen_vectors('run', ['-seed', str(ctx.seed), '-n', '200'])
        g = 16 if ctx.tier == 'thorough' else 8
        rc, po = chk.sh([exe, 'par', '-g', str(g)], inp=parvec, timeout=1800)
        pl = [l for l in po.splitlines() if l.startswith('par ')]
        for l in pl:
            if not l.startswith('par ok'):
                out.append({'stream': 'parallel', 'id': 'par', 'vector': l[:3000], 'real': l[:1500], 'other': 'independent CPUs must not influence one another'})
        if 'DATA RACE' in po:
            out.append({'stream': 'race', 'id': 'par', 'vector': po[po.index('DATA RACE') - 20:][:3000], 'real': 'race detector report', 'other': None})
        if not pl:
            out.append({'stream': 'parallel', 'id': 'par', 'vector': po[-1500:], 'real': f'exit {rc}', 'other': None})
        cov['evaluations'] = cov.get('evaluations', 0) + 2 * n_rb
        cov['evaluations'] += 3 * n_mk
        cov['correspondence'].update({'snapshot_pairs': n_rb, 'memory_kind_triples': n_mk, 'parallel': pl, 'race_detector': race, 'goroutines': g})
        cov['rule'] += (' | snapshot: every vector (injection programs, one per opcode slot, block runs) is also run with the CPU REBUILT from a copy of States and the exported fields after EVERY Step; results must be identical. '
                        '| memkinds: opcode-slot, two-Step and interrupt vectors (incl. two mode-0 acceptances in a row) run on the real code with the harness memory, a 64 KiB z80.DumbMemory, a z80.MapMemory holding the same bytes, and a DumbMemory that is REPLACED by a copy after every Step; state, changed bytes and port/handler events must agree '
                        '| parallel: the injection programs and Run vectors executed from %d goroutines concurrently on their own CPUs/memories, compared with the sequential results, under the race detector' % g)
        return out, cov
    return run


def corr_flags(ctx, chk, broken):
    """C16 is finite: the real accessors and the regenerated definitions are evaluated on the WHOLE domain; a mismatch is the concrete input"""
    import os
    from concurrent.futures import ThreadPoolExecutor
    with ThreadPoolExecutor(max_workers=2) as ex:
        f1 = ex.submit(chk.sh, [os.path.join(chk.WORK, 'harness'), 'flags'], None, None, 600)
        f2 = ex.submit(chk.sh, ['lake', 'env', 'lean', '--run', 'Tools/FlagSearch.lean'], chk.LEAN, None, 1800)
        go, le = f1.result()[1], f2.result()[1]
    out = []
    for side, txt in (('real', go), ('model', le)):
        for l in txt.splitlines():
            if l.startswith('flag '):
                out.append({'stream': 'flags-' + side, 'id': ' '.join(l.split()[:4]), 'vector': l, 'real': l if side == 'real' else None, 'other': l if side == 'model' else None})
    dg = [l for l in go.splitlines() if l.startswith('done ')]
    dl = [l for l in le.splitlines() if l.startswith('done ')]
    if not dg:
        out.append({'stream': 'flags-real', 'id': 'tool', 'vector': go[-1500:], 'real': 'harness flags did not finish', 'other': None})
    cov = {'evaluations': 3 * 65536 + 65536, 'distinct_nontrivial': 3 * 65536 + 65536,
           'rule': 'the complete finite domain: 256 masks x 256 F values (A derived from both) for GetFlag / SetFlag / ResetFlag and all 65536 values for SetU16;U16, on the real accessors and on the regenerated definitions; '
                   'the theorems are symbolic proofs over the same domain, this enumeration is the search that names a failing input',
           'correspondence': {'real': dg[0] if dg else 'not run', 'model': dl[0] if dl else 'not run (the model side needs Z80.Gen to build)'}}
    return out, cov


def corr_c08(ctx, chk, broken):
    """C08: Run vectors against model and reference, plus real-vs-real: a device callback raises an interrupt at the k-th port access,
    once under CPU.Run and once under CPU.Step with the stop rule applied externally"""
    base = corr_stream([('run', 1500, 30000, [])], want_spec=True,
                       rule='one vector = 1-3 consecutive CPU.Run calls of the real code on a generated terminating register-only program ending in HALT, '
                            'breakpoint set in {nil, empty, start PC, HALT address, inside an instruction, random subsets of instruction starts}; '
                            'compared with the translated Run loop (Gen.Run_body) and with a hand-written Step-until-stop reference')
    out, cov = base(ctx, chk, broken)
    n = 120 if ctx.tier == 'thorough' else 12
    vectors = chk.gen_vectors('runirq', ['-seed', str(ctx.seed), '-n', str(n)])
    res = {l.split(' ', 1)[0]: l.split(' ', 1)[1] for l in chk.run_go(vectors) if ' ' in l}
    byid = {l.split(' ', 1)[0]: l for l in vectors.splitlines() if l.strip()}
    pairs = 0
    codes = {}
    for k, v in res.items():
        if not k.endswith('-runirq'):
            continue
        pairs += 1
        o = res.get(k[:-6] + 'stepirq')
        codes[v.rsplit(' RUN ', 1)[-1]] = codes.get(v.rsplit(' RUN ', 1)[-1], 0) + 1
        if o != v:
            out.append({'stream': 'run-vs-step', 'id': k, 'vector': byid.get(k, '') + '\n' + byid.get(k[:-6] + 'stepirq', ''),
                        'real': 'CPU.Run: ' + v[:1500], 'other': 'CPU.Step + external stop rule: ' + str(o)[:1500]})
    cov['evaluations'] = cov.get('evaluations', 0) + 2 * pairs
    cov['correspondence']['run_vs_step_pairs'] = pairs
    cov['correspondence']['run_vs_step_results'] = codes
    cov['rule'] += (' | callbacks: programs with port traffic (OTIR/OTDR/INIR, handlers at 0038h/0066h/0080h) run once by CPU.Run and once by CPU.Step with the stop rule applied externally, '
                    'while the DEVICE CALLBACK raises NMI / a maskable request at the k-th port access, k over all port accesses, or REPLACES the breakpoint set as a whole (HALT address / handler addresses / nil / empty) (real vs real; breakpoints on handler addresses in 30%)')
    cbraise_check(ctx, chk, out, cov, 4 if ctx.tier == 'thorough' else 1)
    return out, cov


def corr_c12(ctx, chk, broken):
    base = corr_stream([('malformed', 3000, 60000, []), ('slots', 1, 8, [])], want_spec=False, go_panic_is_violation=True,
                       rule='one vector = 1-6 Steps of the real code from an arbitrary state (any IM, any request type/data, missing IO device / handlers) '
                            'plus every opcode slot; a panic of the real code is a violation whatever the model says')
    out, cov = base(ctx, chk, broken)
    nm, per = (30000, 6) if ctx.tier == 'thorough' else (3000, 2)
    vectors = chk.gen_vectors('malformed', ['-seed', str(ctx.seed + 11), '-n', str(nm)]) + chk.gen_vectors('slots', ['-seed', str(ctx.seed + 11), '-per', str(per)])
    # every slot with PC in FFFB..FFFF: with the short kind's "slice ends inside the instruction" lengths this puts the end of a 65535/65536-byte
    # DumbMemory inside instructions that straddle the top of the address space
    vectors += re.sub(r'(?m)^(\w+-[0-9a-f]{2}-)', r'\1T', chk.gen_vectors('slots', ['-seed', str(ctx.seed + 17), '-per', str(2 * per), '-toppc', '100']))
    vectors = re.sub(r'(?m)K step$', 'K short', vectors)
    byid = {l.split(' ', 1)[0]: l for l in vectors.splitlines() if l.strip()}
    n = 0
    for l in chk.run_go(vectors):
        t = l.split(' ')
        n += 1
        if len(t) < 2 or t[1] != 'ok':
            out.append({'stream': 'short-memory', 'id': t[0], 'vector': byid.get(t[0], ''), 'real': l[:1500], 'other': 'Step must return normally on short DumbMemory / DumbIO / MapMemory'})
    cov['evaluations'] = cov.get('evaluations', 0) + n
    cov['correspondence']['short_memory_vectors'] = n
    cov['rule'] += ' | short memories: the same streams on the bundled DumbMemory (lengths 0..65536, pointers placed at the slice end), DumbIO (0..256) and MapMemory: any panic is a violation'
    return out, cov


def corr_c02(ctx, chk, broken):
    """C02: family slots as before; thorough tier adds the EXHAUSTIVE operand cubes on the real code (every A x every operand x
    F in {00,FF} for the eight ALU operations, every A x every F for the unary / accumulator / CB-rotate instructions on A:
    2.3 million Steps), compared with the regenerated model and the reference, in 16 slices"""
    base = corr_slots(12, 200, family=['Alu8', 'IncDec8', 'RotShift', 'Bit'])
    out, cov = base(ctx, chk, broken)
    if ctx.tier == 'thorough' and not out:
        total = 0
        for part in range(16):
            vectors = chk.gen_vectors('alucube', ['-seed', str(ctx.seed), '-per', str(part), '-n', '16'])
            dis, stats, go = chk.correspond(ctx, vectors, want_spec=True)
            total += stats.get('vectors', 0)
            for (stream, vid, v, g, o) in dis[:3]:
                out.append({'stream': stream, 'id': vid, 'vector': v, 'real': g, 'other': o})
            if out:
                break
        cov['evaluations'] = cov.get('evaluations', 0) + total
        cov['correspondence']['alu_cube_vectors'] = total
        cov['rule'] += ' | thorough: exhaustive cubes on the real code — ADD/ADC/SUB/SBC/AND/XOR/OR/CP n for all 256 A x 256 n x F in {00,FF}; INC A, DEC A, DAA, CPL, NEG, SCF, CCF, RLCA, RRCA, RLA, RRA and the eight CB rotates/shifts on A for all 256 A x 256 F'
    return out, cov


PROPS = {
    'C01': {
        'targets': ['Z80.Props.C01', 'Z80.Props.C01Frame'],
        'audit_extra': ['C01Frame'],
        'count': ALL_OBL + ['Z80/Props/C01.lean', 'Z80/Props/C01Frame.lean', 'Z80/Proofs/Decoded.lean', 'Z80/Proofs/Frame.lean', 'Z80/Proofs/Frame2.lean', 'Z80/Proofs/Mirror.lean', 'Z80/Proofs/OblB/*.lean', 'Z80/Proofs/TablesB/*.lean', 'Z80/Proofs/BusLemmas.lean', 'Z80/Proofs/StepB.lean', 'Z80/Proofs/IM0B.lean', 'Z80/Proofs/FrameB.lean'],
        'correspond': corr_slots(3, 250),
        'assumptions': ['user memory behaves as a byte store; the device answer is a function of the bus history',
                        'Impl.koron records the implementation-defined choices (bits 3/5 after SCF/CCF and BIT n,(HL); '
                        'undocumented flags of block I/O; DDCB counts three opcode fetches; byte order of word stores)'],
        'explanation': 'Gen.Step = Spec.executeOne Impl.koron for every state (1788 per-slot obligations + 4 prefix arms + 7 table theorems); decoded form; per-field frame theorems over all instructions; a second, hypothesis-free obligation layer over every Memory value (bus layer) with the user-memory theorem as corollary',
    },
    'C03': {
        'targets': ['Z80.Props.C03'],
        'count': HELPERS + fam('Arith16') + ['Z80/Props/C03.lean'],
        'correspond': corr_slots(40, 400, family='Arith16'),
        'assumptions': ['operands are the register values of the state; flags compared as complete F bytes'],
        'explanation': 'addU16/adcU16/sbcU16 = arithmetic spec for all 2^33 inputs (symbolic carry-vector proof); 40 slot obligations; Step-level theorems for every ss encoding',
    },
    'C02': {
        'targets': ['Z80.Props.C02', 'Z80.Props.SpecSanity', 'Z80.Props.SpecSanityDAA'],
        'audit_extra': ['SpecSanity', 'SpecSanityDAA'],
        'count': HELPERS + fam('Alu8', 'IncDec8', 'RotShift', 'Bit') + ['Z80/Proofs/Families/Alu8.lean', 'Z80/Proofs/Families/IncDec8.lean',
                                                                       'Z80/Proofs/Families/RotShift.lean', 'Z80/Proofs/Families/Bit.lean', 'Z80/Props/C02.lean', 'Z80/Props/SpecSanity.lean', 'Z80/Props/SpecSanityDAA.lean'],
        'correspond': corr_c02,
        'assumptions': ['bits 3/5 after SCF/CCF and BIT n,(HL)/(IX+d) are implementation-defined (Impl.koron records: from A / cleared)',
                        'the reference ALU is additionally validated by formula-free sanity theorems (Props/SpecSanity*.lean): DAA is decimal adjust for all packed-BCD operands, NEG = 0-A, CP = SUB without result, INC/DEC = ADD/SUB 1 without C, parity counts ones, rotates invertible, shifts arithmetic'],
        'explanation': 'helper characterisations for all A x operand x F (symbolic for binary ops, decide over the full table for unary/DAA); 559 slot obligations; Step-level theorems for every encoding; encoding independence',
    },
    'C04': {
        'targets': ['Z80.Props.C04'],
        'count': HELPERS + fam('Jump', 'CallRet', 'Stack') + ['Z80/Proofs/Families/Jump.lean', 'Z80/Proofs/Families/CallRet.lean',
                                                             'Z80/Proofs/Families/Stack.lean', 'Z80/Props/C04.lean'],
        'correspond': corr_c04,
        'assumptions': ['user memory is a byte store (needed for the CALL;RET and PUSH;POP round trips)'],
        'explanation': 'slot obligations of Jump/CallRet/Stack; taken iff condition for all F; push layout; CALL;RET and PUSH;POP round trips for every state incl. SP wrap',
    },
    'C06': {
        'targets': ['Z80.Props.C06', 'Z80.Props.C06Ctor'],
        'audit_extra': ['C06Ctor'],
        'count': ['Z80/Proofs/Interrupt.lean', 'Z80/Proofs/IM0.lean', 'Z80/Proofs/Frame.lean', 'Z80/Props/C06.lean', 'Z80/Proofs/OblB/*.lean', 'Z80/Proofs/TablesB/*.lean', 'Z80/Proofs/BusLemmas.lean', 'Z80/Proofs/StepB.lean', 'Z80/Proofs/IM0B.lean', 'Z80/Proofs/FrameB.lean'] + ALL_OBL,
        'correspond': corr_intr(3000, 60000),
        'assumptions': ['request types: Type = 0 is NMI, anything else maskable', 'IM 0 / IM 2 requests without data and IM outside {0,1,2} are outside the property; the code\'s behaviour (dropped / never accepted) is recorded in the specification',
                        'mode 0 with supplied bytes: known findings KF-1, KF-2; the regenerated Step is PROVED equal to the recorded description (one reference instruction through the overlay bus, Spec.im0StepB) for EVERY supplied instruction and every state (C06_step_any, via the bus-layer obligations); for RST p / CALL nn additionally equal to the older memory-overlay description Spec.stepKF (C06_im0_rst, C06_im0_call)'],
        'explanation': 'Gen.Step with a pending request = abstract interrupt controller (NMI, refused, IM 1, IM 2, empty, bad mode) for every state; mode 0 with ANY supplied bytes = the recorded description (C06_step_any); pending-request induction; EI/DI/RETN/RETI',
    },
    'C05': {
        'targets': ['Z80.Props.C05'],
        'count': ALL_OBL + ['Z80/Proofs/Frame.lean', 'Z80/Props/C05.lean'],
        'correspond': corr_slots(3, 250),
        'assumptions': ['the ordered bus log (Memory.Get/Set, IO.In/Out with address and value) is part of the model state, so C01 equality covers it',
                        'the property compares multisets of accesses; the theorems fix the exact order, which implies it'],
        'explanation': 'bus log of Gen.Step = log of the reference for every state (C01); reference traffic characterised: sequential fetches, untaken forms, RMW, 16-bit wrap, port = C / n, no port access outside I/O instructions (all instructions)',
    },
    'C08': {
        'targets': ['Z80.Props.C08'],
        'count': ['Z80/Proofs/RunLoop.lean', 'Z80/Props/C08.lean'],
        'correspond': corr_c08,
        'assumptions': ['Run is translated by a dedicated go2lean routine (loop body, statements before the loop, value after the loop); the loop itself is `runLoop` with fuel',
                        'never cancelled in this property (cancellation: C13)',
                        'partial: interrupt requests raised from memory/port callbacks during Run are not expressible in the model (callbacks return bytes only); they are covered by the real-vs-real run-vs-step stream (device callback raises the request at every port access in turn); Step honours any pending request (C06)'],
        'explanation': 'Run = Step repeated until the first Step after which PC is a breakpoint (ErrBreakPoint) or HALT is set (nil); never earlier, at least one Step, HALT discarded on entry, re-Run of a halted CPU is idempotent',
    },
    'C12': {
        'targets': ['Z80.Props.C12'],
        'count': ALL_OBL + ['Z80/Proofs/Frame.lean', 'Z80/Proofs/Interrupt.lean', 'Z80/Props/C12.lean', 'Z80/Proofs/OblB/*.lean', 'Z80/Proofs/TablesB/*.lean', 'Z80/Proofs/BusLemmas.lean', 'Z80/Proofs/StepB.lean', 'Z80/Proofs/IM0B.lean', 'Z80/Proofs/FrameB.lean'],
        'correspond': corr_c12,
        'assumptions': ['user Memory/IO are total functions in the model; the bundled short DumbMemory / DumbIO / MapMemory are exercised on the real code (short-memory stream) and modelled in C15',
                        'mode-0 requests with supplied bytes run every decode arm over the overlay bus: proved total through the hypothesis-free bus-layer obligations (C12_executeOne_total, C12_step_all)'],
        'explanation': 'Gen.Step never reaches a panic for EVERY state with the user memory installed and EVERY pending request (C12_step_all); Gen.executeOne never panics for every state and every Memory value; overlay accessors total for every data length/start/address; unsupported opcodes consumed',
    },
    'C13': {
        'targets': ['Z80.Props.C13'],
        'count': ['Z80/Proofs/RunLoop.lean', 'Z80/Props/C13.lean'],
        'correspond': corr_c13,
        'assumptions': ['the watcher goroutine and the loop are modelled as two threads over the shared variables {ctx2 cancelled, ctxErr, canceled flag}; the action lists are extracted from the current source by go2lean',
                        'Go memory model: an atomic load that observes an atomic store orders everything before the store before everything after the load',
                        'partial: "within a bounded delay" is scheduler-dependent (the flag is checked before every Step; a Step is finite: C12); goroutine accounting and the race detector are runtime facts outside the model'],
        'explanation': 'cancellation is observed only between Steps (state = whole number of Steps); exhaustive exploration of the two-thread hand-off protocol (closed state set) shows no unordered read of ctxErr and no leaked watcher on any return path',
    },
    'C14': {
        'targets': ['Z80.Props.C14', 'Z80.Props.C14Accept'],
        'audit_extra': ['C14Accept'],
        'count': ALL_OBL + ['Z80/Proofs/Frame.lean', 'Z80/Props/C14.lean'],
        'correspond': corr_c14,
        'assumptions': ['DDCB/FDCB forms count three opcode fetches in this project (silicon: two); recorded in Impl.koron.ddcbM1'],
        'explanation': 'every Step without a pending request advances R by exactly the number of opcode fetches (1/2/3 by prefix) modulo 128 with bit 7 kept, I untouched, except LD I,A / LD R,A; LD A,I / LD A,R flags',
    },
    'C17': {
        'targets': ['Z80.Props.C17'],
        'count': ['Z80/Props/C17.lean'],
        'correspond': corr_zex,
        'assumptions': ['go2lean evaluates the Go table literals with go/types constant evaluation and embeds cmd/zexdoc/*.cim byte for byte (regenerated on every run)',
                        'the canonical records pinned in lean/Z80/Spec/ZexCanon.lean were extracted once by an independent parser (tools/mkzexcanon.py) from the images of the pinned commit'],
        'explanation': 'kernel evaluation over the whole finite data: the 67+67 records reached through each image\'s own pointer table equal the Go table entries in order, byte for byte (mask, base, increment, shift, CRC, description), and equal the pinned canonical records',
    },
    'C15': {
        'targets': ['Z80.Props.C15', 'Z80.Props.C15Gen', 'Z80.Props.C15Bisim'],
        'audit_extra': ['C15Gen', 'C15Bisim'],
        'count': ['Z80/Props/C15.lean', 'Z80/Props/C15Gen.lean', 'Z80/Props/C15Bisim.lean', 'Z80/Proofs/Assoc.lean'],
        'correspond': corr_memio,
        'assumptions': ['every method of memio.go is TRANSLATED on each run (tools/go2lean/memiotr.go -> Z80/Gen/MemIO.lean, Option monad, none = panic) over the prelude Z80/GoStore.lean (the reading of Go slice/map primitives: trusted, validated by the memiogen stream); Props/C15Gen.lean proves each translated method equal to the store function of the hand-written model for every input, Clone and Clear for every visiting order of range-over-map',
                        'which variables share an object (Go slices/maps are reference objects: aliasing, Put returning its receiver, Clone allocating) is the hand-written heap model Z80.Spec.MemIO, tied to the code by the operation-sequence correspondence (real types vs model vs model-with-translated-methods); Props/C15Bisim.lean proves the heap model driven by the translated methods EQUAL to the hand-written one on every well-typed world, well-typedness invariant, hence equal answers for every operation sequence (runGen_eq)',
                        'Go int is modelled unbounded (sums of a uint16 and a slice length cannot overflow 64 bits)',
                        'DumbMemory.Put outside the slice panics in Go (slice bounds) — outside the property\'s "block lying inside the slice"; the model records it as a panic that changes nothing',
                        'slices are created with cap = len (a Put may otherwise write into spare capacity)',
                        'nil MapMemory: reads give 0xC7, writes panic, Equal(nil,nil) is true — recorded in the model; the property speaks about initialised values'],
        'explanation': 'for EVERY slice length and EVERY history of Set/Put/Out, Get/In returns the value last written or 0 (0 beyond the slice, writes there ignored); MapMemory likewise with 0xC7, wrapping Put, Clear; Clone allocates a fresh object (independence); Equal iff same contents',
    },
    'C19': {
        'targets': ['Z80.Props.C19'],
        'count': ['Z80/Props/C19.lean'],
        'correspond': corr_cim,
        'assumptions': ['cmd/cim2bin and cmd/cim2cas are modelled by hand (Z80.Spec.Cim) as functions from (offset, image, name, file name) to output bytes; tied to the code (a) by go2lean\'s extraction of the ordered list of writes in run(), the byte order of writeU16, the width/padding of writeName and the default-name rule (C19_bin_program, C19_cas_program, C19_helpers_as_extracted: the extracted program IS the model), and (b) by running the built binaries',
                        'file system, flag parsing and bufio are exercised by the correspondence, not modelled',
                        'inputs whose end address does not fit in 16 bits are outside the property (the model records the uint16 wrap-around of the code)'],
        'explanation': 'for EVERY image, offset and name: cim2bin = FE + start/end/exec words + unmodified body, end = start+len-1 when it fits; cim2cas = sync header, ten D0, six-character name (truncated/space padded), sync header, words, unmodified body',
    },
    'C11': {
        'targets': ['Z80.Props.C11'],
        'count': HELPERS + ['Z80/Proofs/Obl/*_Xy_*.lean', 'Z80/Proofs/Tables/Dd.lean', 'Z80/Proofs/Tables/Fd.lean', 'Z80/Proofs/Tables/Ddcb.lean', 'Z80/Proofs/Tables/Fdcb.lean',
                            'Z80/Proofs/Mirror.lean', 'Z80/Props/C11.lean'],
        'correspond': corr_mirror(4, 60),
        'assumptions': ['the statement is about the two switch arms after the prefix byte has been fetched (the prefix byte itself differs by definition); the warning of an unsupported opcode quotes the prefix byte',
                        'user memory is a byte store'],
        'explanation': 'Gen.executeOne_sw_fd c0 b (swapXY s) = (Gen.executeOne_sw_dd c0 b s) with IX/IY exchanged, for every second byte (CB sub-tables included) and every state, identical log; neither table reads or writes the other index register',
    },
    'C09': {
        'targets': ['Z80.Props.C09'],
        'count': ALL_OBL + ['Z80/Proofs/Block.lean', 'Z80/Proofs/RunLoop.lean', 'Z80/Props/C09.lean'],
        'correspond': corr_stream([('block', 250, 4000, ['-per', '2']), ('slots', 6, 60, ['-tables', 'ed', '-ops', 'a0,a1,a2,a3,a8,a9,aa,ab,b0,b1,b2,b3,b8,b9,ba,bb']),
                                   ('slots', 6, 60, ['-tables', 'ed', '-ops', 'a0,a1,a2,a3,a8,a9,aa,ab,b0,b1,b2,b3,b8,b9,ba,bb', '-pend', '100'])], want_spec=True,
                                  rule='one vector = a block instruction run to completion by repeated CPU.Step on the real code (counts 1..600, byte boundaries 0x0100/0x0200/0x0201, B=0, two full-length runs of 65535/65536 Steps), '
                                       'HL/DE with overlap distances -3..+3, pointers covering the instruction itself and wrapping at 0xFFFF, planted match bytes for CPIR/CPDR, random memory and device; '
                                       'final registers, complete written memory, ordered bus/port log hash compared with the regenerated model and with the reference'),
        'assumptions': ['the closed forms exclude copies / inputs whose destination overwrites the two bytes of the running instruction (self-modification); the one-element-per-Step theorems and the correspondence include them',
                        'undocumented flag bits of block I/O are implementation-defined (Impl.koron: taken from the incoming F)'],
        'explanation': 'one Step = exactly one element for all 16 block instructions (explicit post-state); by induction over the count: LDIR/LDDR copy exactly BC bytes in order (overlap propagation), CPIR/CPDR stop at the first match or BC=0, OTIR/OTDR and INIR/INDR move exactly B bytes through port C; PC parked on the instruction until done',
    },
    'C07': {
        'targets': ['Z80.Props.C07'],
        'count': ['Z80/Proofs/Interrupt.lean', 'Z80/Proofs/Frame.lean', 'Z80/Proofs/RunLoop.lean', 'Z80/Props/C06.lean', 'Z80/Props/C07.lean'] + ALL_OBL,
        'correspond': corr_inject(6, 80),
        'assumptions': ['transparency is stated for one request; the handler must restore the registers it uses and leave the stack balanced (premise of return_*); the two bytes below SP are overwritten by the push — a program that reads them before writing them can tell',
                        'mode 0 with supplied bytes is NOT transparent in this code base: known findings KF-1 (pinned by TestInterruptIM0) and KF-2, witnessed by kernel evaluation (KF1_witness, KF2_witness); not generated by the injection stream',
                        'HALT keeps PC on the HALT opcode in this emulator, so a CPU parked on HALT resumes the HALT'],
        'explanation': 'acceptance (NMI / IM 1 / IM 2) pushes exactly the current PC and changes nothing else observable; EI;RETI and RETN from any balanced handler state return to it; complete round trips through minimal handlers end in a state equal to the interrupted one (all registers, IFF, IM, HALT, memory outside two stack bytes) for every state',
    },
    'C10': {
        'targets': ['Z80.Props.C10'],
        'count': ['Z80/Props/C10.lean', 'Z80/Proofs/RunLoop.lean'],
        'correspond': corr_c10(4, 40),
        'assumptions': ['the model of a Step is a FUNCTION of the model state; the model state is the CPU record regenerated from the Go struct (all fields) plus the memory function, the device function and the access log; '
                        'go2lean refuses package-level variables other than ErrBreakPoint, so there is nothing else a Step could depend on — this refusal and the regenerated field list are the tie',
                        'the device sees the bus history (its answers may depend on it) — that is the environment, not hidden CPU state',
                        'partial: absence of data races between CPUs is a Go runtime fact; it is supported by the race-detector run, and structurally by "no shared variables" (packageVars, syncUsers, goroutineStarters)'],
        'explanation': 'every field of CPU/States is exported and the model state is exactly those fields; no package-level state; a run continued from a snapshot at any boundary equals the original run (stepN (m+n) = stepN m then stepN n); any interleaving of two CPUs equals the two separate runs',
    },
    'C18': {
        'targets': ['Z80.Props.C18', 'Z80.Props.C18Glue'],
        'audit_extra': ['C18Glue'],
        'count': ['Z80/Props/C18.lean', 'Z80/Props/C18Glue.lean', 'Z80/Props/C01.lean', 'Z80/Proofs/Block.lean', 'Z80/Proofs/RunLoop.lean'] + ALL_OBL,
        'correspond': corr_c18,
        'assumptions': ['the Go glue of internal/tinycpm (Memory.Get/Set/put, IO.In/Out/SetStdout/SetWarnLogger) is TRANSLATED on every run (tools/go2lean/tinycpmtr.go -> Z80/Gen/CPMGlue.lean; writers and loggers are opaque identities, a method returns the effects it asks for); Props/C18Glue.lean proves the translated methods are the console / byte-array model for every argument (glue_console: any port log); validated against the real package by the cpmglue stream',
                        'NewMemory / NewIO / New / LoadFile are not translated (constructors, file reading): the pages NewMemory installs are extracted as data (Gen.cpmBios) and installed in the model by the translated put; the array is 65536 bytes (Gen.CPMGlue.arrayLens)',
                        'the BIOS pages are extracted from tinycpm.go by go2lean on every run (Gen.cpmBios); the theorems read the stub\'s bytes off that table',
                        'the caller reaches the stub through the vector at 0005h (CALL 5); the strings must not overlap the BIOS pages; Run\'s loop: C08'],
        'explanation': 'on the regenerated CPU model executing the regenerated BIOS bytes: function 2 prints E and returns (7 Steps); function 9 prints exactly the bytes up to the first $ for EVERY string (induction over the string: any length, any bytes, any address incl. wrap) and returns; SP restored, memory untouched; JP 0 halts at FF03h',
    },
    'C16': {
        'targets': ['Z80.Props.C16'],
        'count': ['Z80/Props/C16.lean'],
        'correspond': corr_flags,
        'assumptions': ['the pointer receivers of SetFlag/ResetFlag/SetU16 are modelled as lenses on the CPU record'],
        'explanation': 'symbolic bit-vector theorems over the definitions regenerated from flag.go and z80.go (all masks x all F; all 65536 register values)',
    },
}
