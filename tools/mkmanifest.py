#!/usr/bin/env python3
"""Regenerate MANIFEST.json from bin/props.py (claimed checks) — keeps the manifest valid and in sync."""
import json, os, sys
V = os.path.dirname(os.path.dirname(os.path.abspath(__file__)))
sys.path.insert(0, os.path.join(V, 'bin'))
from props import PROPS
from manifest_text import TEXT, NOT_APPLICABLE

ids = [json.loads(l)['id'] for l in open(os.path.join(V, 'properties.jsonl'))]
checks = []
for pid in ids:
    if pid not in PROPS or pid not in TEXT:
        continue
    t = TEXT[pid]
    checks.append({
        'property_id': pid,
        'quick_cmd': f'bin/check {pid} quick',
        'thorough_cmd': f'bin/check {pid} thorough',
        'evidence_file': f'/verif/evidence/{pid}.json',
        'replay_cmd_template': 'bin/check replay {path}',
        'engine': 'lean4-z80',
        'level_claimed': {'category': 'proof', 'text': t['text'], 'design_ref': t.get('design_ref', 'DESIGN.md §4 ' + pid)},
        'level_note': t['note'],
        'technique': t['technique'],
    })
na = [{'property_id': p, 'reason': NOT_APPLICABLE.get(p, 'check not built yet (work in progress)')}
      for p in ids if p not in {c['property_id'] for c in checks}]
man = {
    'version': 1,
    'setup_cmd': 'bin/check setup',
    'hooks': {
        'guard': 'verif',
        'enable': 'go build -tags verif (reserved; no hook commits exist — everything is observed through the public API with recording Memory/IO)',
        'baseline_off_cmd': 'cd /repo && go test -vet=off -count=1 -timeout 25m ./...',
        'source_commits': [],
        'add_only': True,
    },
    'engines': [{
        'name': 'lean4-z80', 'path': '/verif/lean',
        'serves_properties': [c['property_id'] for c in checks],
        'kind_free_text': 'Lean 4 kernel-checked theorems over a model REGENERATED from /repo by tools/go2lean on every run, '
                          'plus a correspondence check (real Go code vs generated model vs hand-written reference spec) through a line protocol',
    }],
    'checks': checks,
    'notes': 'See DESIGN.md. bin/check regenerates the Lean model from /repo\'s working tree, rebuilds the property\'s theorems, '
             'audits axioms, runs the correspondence check, and on any breakage searches for a concrete failing input.',
    'not_applicable': na,
}
json.dump(man, open(os.path.join(V, 'MANIFEST.json'), 'w'), indent=1)
print(len(checks), 'checks,', len(na), 'not claimed')
