package main

// cpmpar (C18): several mini CP/M machines in one process.  Each machine has its own Memory, IO and console writer; what one prints must
// reach ITS writer, byte for byte, whatever the other machines do meanwhile.
//  (a) deterministic: machine A prints a string through BDOS function 9 to a console that, inside Write, waits before it looks at the
//      bytes; while it waits, machine B prints a character through function 2 to its own console; then A's console is released.
//  (b) free-running: 8 machines on 8 goroutines, each printing its own character 2000 times (run under the race detector by the check).

import (
	"bytes"
	"context"
	"fmt"
	"sync"
	"time"

	"github.com/koron-go/z80"
	"verifharness/cpmcopy/tinycpm"
)

type gateWriter struct {
	entered chan struct{}
	release chan struct{}
	got     []byte
}

func (g *gateWriter) Write(p []byte) (int, error) {
	g.entered <- struct{}{}
	<-g.release
	g.got = append(g.got, p...) // only now are the bytes consumed (an io.Writer may take its time; it does not retain p)
	return len(p), nil
}

func cpmMachine(prog []uint8, extra map[uint16][]uint8) (*z80.CPU, *tinycpm.IO) {
	mem, io := tinycpm.New()
	for i, b := range prog {
		mem.Set(0x0100+uint16(i), b)
	}
	for a, bs := range extra {
		for i, b := range bs {
			mem.Set(a+uint16(i), b)
		}
	}
	cpu := &z80.CPU{Memory: mem, IO: io}
	cpu.PC, cpu.SP = 0x0100, 0xf000
	return cpu, io
}

func cmdCPMPar() {
	// (a)
	{
		text := []byte("HELLO\x00\xff!")
		cpuA, ioA := cpmMachine([]uint8{0x0e, 0x09, 0x11, 0x00, 0x20, 0xcd, 0x05, 0x00, 0xc3, 0x00, 0x00}, map[uint16][]uint8{0x2000: append(append([]byte{}, text...), '$')})
		gw := &gateWriter{entered: make(chan struct{}), release: make(chan struct{})}
		ioA.SetStdout(gw)
		var bout bytes.Buffer
		done := make(chan error, 1)
		go func() {
			ctx, cancel := context.WithTimeout(context.Background(), 20*time.Second)
			defer cancel()
			done <- cpuA.Run(ctx)
		}()
		ok := true
		detail := ""
	loop:
		for i := 0; i < len(text); i++ {
			select {
			case <-gw.entered:
			case err := <-done:
				ok, detail = false, fmt.Sprintf("machine A ended early after %d characters: %v", i, err)
				break loop
			case <-time.After(10 * time.Second):
				ok, detail = false, "machine A never reached its console"
				break loop
			}
			// machine B prints one 'x' on its own console while A's console is still inside Write
			cpuB, ioB := cpmMachine([]uint8{0x0e, 0x02, 0x1e, 'x', 0xcd, 0x05, 0x00, 0xc3, 0x00, 0x00}, nil)
			ioB.SetStdout(&bout)
			ctx, cancel := context.WithTimeout(context.Background(), 5*time.Second)
			cpuB.Run(ctx)
			cancel()
			gw.release <- struct{}{}
		}
		if ok {
			select {
			case <-done:
			case <-time.After(10 * time.Second):
				ok, detail = false, "machine A did not finish"
			}
		}
		if ok && (!bytes.Equal(gw.got, text) || bout.String() != "xxxxxxxx") {
			ok, detail = false, fmt.Sprintf("machine A's console received %q (its program printed %q); machine B's console received %q", gw.got, text, bout.String())
		}
		if ok {
			fmt.Println("cpmpar two-machines ok machine A's slow console received its own 8 bytes while machine B printed 8 characters in between")
		} else {
			fmt.Println("cpmpar two-machines FAIL " + detail)
		}
	}
	// (b)
	{
		const g, reps = 8, 2000
		outs := make([]bytes.Buffer, g)
		var wg sync.WaitGroup
		for i := 0; i < g; i++ {
			wg.Add(1)
			go func(i int) {
				defer wg.Done()
				ch := uint8('a' + i)
				// LD B,0 ... a loop printing ch 2000 times through function 2: LD HL,reps ; loop: LD C,2 ; LD E,ch ; PUSH HL ; CALL 5 ; POP HL ; DEC HL ; LD A,H ; OR L ; JR NZ,loop ; JP 0
				prog := []uint8{0x21, uint8(reps & 0xff), uint8(reps >> 8), 0x0e, 0x02, 0x1e, ch, 0xe5, 0xcd, 0x05, 0x00, 0xe1, 0x2b, 0x7c, 0xb5, 0x20, 0xf2, 0xc3, 0x00, 0x00}
				cpu, io := cpmMachine(prog, nil)
				io.SetStdout(&outs[i])
				ctx, cancel := context.WithTimeout(context.Background(), 30*time.Second)
				defer cancel()
				cpu.Run(ctx)
			}(i)
		}
		wg.Wait()
		bad := ""
		for i := range outs {
			want := bytes.Repeat([]byte{uint8('a' + i)}, reps)
			if !bytes.Equal(outs[i].Bytes(), want) {
				n := 0
				for _, b := range outs[i].Bytes() {
					if b != uint8('a'+i) {
						n++
					}
				}
				bad = fmt.Sprintf("machine %d: %d bytes received, %d of them are not its own character %q", i, outs[i].Len(), n, 'a'+i)
				break
			}
		}
		if bad == "" {
			fmt.Printf("cpmpar free-running ok %d machines x %d characters, every console received exactly its own\n", g, reps)
		} else {
			fmt.Println("cpmpar free-running FAIL " + bad)
		}
	}
}
