/-
  Z80.RunModel — `CPU.Run` as a loop over its TRANSLATED body (Gen.Run_init, Gen.Run_body, Gen.Run_after come
  from go2lean), with fuel, and the cancellation flag as an oracle.  Definitions only (used by the driver);
  the theorems are in Z80.Proofs.RunLoop.
-/
import Z80.Gen.All
import Z80.RunBase

namespace Z80
open Z80.Gen

inductive RunRes
  | running                      -- fuel exhausted: Run has not returned yet
  | done (e : RunErr) (s : St)   -- Run returned e, leaving the CPU in state s
  | panicked

/-- the loop: iteration `i` observes `c i` when it loads the cancellation flag -/
def runLoop (c : Nat → Bool) : Nat → Nat → St → RunRes
  | 0, _, _ => .running
  | fuel+1, i, s =>
    match Gen.Run_body (c i) s with
    | .panic _ => .panicked
    | .ok .cont t => runLoop c fuel (i+1) t
    | .ok .brk t => .done Gen.Run_after t
    | .ok (.ret e) t => .done e t

/-- `Run` = the statements before the loop, then the loop -/
def run (c : Nat → Bool) (fuel : Nat) (s : St) : RunRes :=
  match Gen.Run_init s with
  | .panic _ => .panicked
  | .ok _ s0 => runLoop c fuel 0 s0

/-- n Steps of the real code -/
def stepN : Nat → St → Res Unit
  | 0, s => .ok () s
  | n+1, s => (Gen.Step s).bind (fun _ t => stepN n t)

end Z80
