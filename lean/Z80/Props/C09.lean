/-
  C09 — block instructions transfer, search and count exactly as a whole operation.

  About the regenerated code (Gen.Step, through C01):
    * one Step on LDI/LDD/LDIR/LDDR, CPI/CPD/CPIR/CPDR, INI/IND/INIR/INDR, OUTI/OUTD/OTIR/OTDR performs EXACTLY
      one element — the post-state is given explicitly (C09_elem_*); the non-repeating forms are that element
      with PC after the instruction; the repeating forms leave PC on the instruction iff the operation is not
      finished;
    * by induction over the count, for EVERY count (BC = 0 meaning 65536, B = 0 meaning 256), every HL/DE
      (overlapping ranges, wrap at 0xFFFF) and every memory / device:
        LDIR/LDDR copy exactly BC bytes one per repetition in ascending/descending order (`ldMem`: overlaps
        propagate), end with BC = 0, P/V = H = N = 0, S Z C kept, PC after the instruction (C09_ldir);
        CPIR/CPDR stop at the FIRST byte equal to A or when BC reaches 0, Z = found, P/V = (BC ≠ 0) (C09_cpir);
        OTIR/OTDR write exactly B bytes from (HL), (HL±1), … to port C in order, B = 0, Z set (C09_otir);
        INIR/INDR perform exactly B reads of port C stored at (HL), (HL±1), … (C09_inir);
      and during all but the last Step PC stays on the instruction (so an interrupt resumes it: C07).
  Hypotheses forced by the proofs: a copy / input whose destination hits the two instruction bytes modifies the
  running program; the closed forms exclude it (the one-element-per-Step statements do not).
-/
import Z80.Proofs.Block

namespace Z80.Props.C09
open Z80 Z80.Gen Z80.Spec
set_option maxRecDepth 8192

/-- one Step = one element, all sixteen block instructions -/
theorem C09_elem_ld (dec rep : Bool) (s : St) (h₁ : s.Interrupt = none) (h₂ : s.Memory = .user)
    (hp : s.mem s.PC = 0xed#8) (hop : s.mem (s.PC + 1#16) = ldOp dec rep) :
    Gen.Step s = .ok () (ldElemSt dec rep s) := step_ld_elem dec rep s h₁ h₂ hp hop
theorem C09_elem_cp (dec rep : Bool) (s : St) (h₁ : s.Interrupt = none) (h₂ : s.Memory = .user)
    (hp : s.mem s.PC = 0xed#8) (hop : s.mem (s.PC + 1#16) = cpOp dec rep) :
    Gen.Step s = .ok () (cpElemSt dec rep s) := step_cp_elem dec rep s h₁ h₂ hp hop
theorem C09_elem_out (dec rep : Bool) (s : St) (h₁ : s.Interrupt = none) (h₂ : s.Memory = .user) (hio : s.IO = true)
    (hp : s.mem s.PC = 0xed#8) (hop : s.mem (s.PC + 1#16) = otOp dec rep) :
    Gen.Step s = .ok () (otElemSt dec rep s) := step_ot_elem dec rep s h₁ h₂ hio hp hop
theorem C09_elem_in (dec rep : Bool) (s : St) (h₁ : s.Interrupt = none) (h₂ : s.Memory = .user) (hio : s.IO = true)
    (hp : s.mem s.PC = 0xed#8) (hop : s.mem (s.PC + 1#16) = inOp dec rep) :
    Gen.Step s = .ok () (inElemSt dec rep s) := step_in_elem dec rep s h₁ h₂ hio hp hop

/-- LDI/LDD/CPI/CPD/INI/IND/OUTI/OUTD equal one element and always end with PC after the instruction;
    the repeating forms differ from them ONLY in PC (and the opcode byte in the log) -/
theorem C09_single_is_element (dec : Bool) (s : St) :
    (ldElemSt dec false s).PC = s.PC + 2#16 ∧ (cpElemSt dec false s).PC = s.PC + 2#16 ∧
    (otElemSt dec false s).PC = s.PC + 2#16 ∧ (inElemSt dec false s).PC = s.PC + 2#16 ∧
    (ldElemSt dec true s).mem = (ldElemSt dec false s).mem ∧ (ldElemSt dec true s).toGPR = (ldElemSt dec false s).toGPR ∧
    (cpElemSt dec true s).toGPR = (cpElemSt dec false s).toGPR ∧ (otElemSt dec true s).toGPR = (otElemSt dec false s).toGPR := by
  simp [ldElemSt, cpElemSt, otElemSt, inElemSt]

/-- the count a repeating instruction starts with: BC = 0 means 65536 -/
def count16 (bc : U16) : Nat := if bc = 0#16 then 65536 else bc.toNat
def count8 (b : U8) : Nat := if b = 0#8 then 256 else b.toNat
theorem count16_spec (bc : U16) : 1 ≤ count16 bc ∧ count16 bc ≤ 65536 ∧ bc = BitVec.ofNat 16 (count16 bc) := by
  unfold count16; split
  · rename_i h; subst h; exact ⟨by omega, by omega, by decide⟩
  · rename_i h
    have : bc.toNat ≠ 0 := fun e => h (BitVec.eq_of_toNat_eq (by simpa using e))
    have := bc.isLt
    exact ⟨by omega, by omega, by simp⟩
theorem count8_spec (b : U8) : 1 ≤ count8 b ∧ count8 b ≤ 256 ∧ b = BitVec.ofNat 8 (count8 b) := by
  unfold count8; split
  · rename_i h; subst h; exact ⟨by omega, by omega, by decide⟩
  · rename_i h
    have : b.toNat ≠ 0 := fun e => h (BitVec.eq_of_toNat_eq (by simpa using e))
    have := b.isLt
    exact ⟨by omega, by omega, by simp⟩

/-- LDIR / LDDR as a whole, started from ANY BC, HL, DE -/
theorem C09_ldir (dec : Bool) (s : St) (h₁ : s.Interrupt = none) (h₂ : s.Memory = .user)
    (hp : s.mem s.PC = 0xed#8) (hop : s.mem (s.PC + 1#16) = ldOp dec true)
    (hdst : ∀ i, i < count16 (regU16 s.BC) → stpN dec (regU16 s.DE) i ≠ s.PC ∧ stpN dec (regU16 s.DE) i ≠ s.PC + 1#16) :
    ∃ t, stepN (count16 (regU16 s.BC)) s = .ok () t ∧ LdDone dec (count16 (regU16 s.BC)) s t ∧
      (∀ j, j < count16 (regU16 s.BC) → ∃ u, stepN j s = .ok () u ∧ u.PC = s.PC) := by
  obtain ⟨a, b, c⟩ := count16_spec (regU16 s.BC)
  exact ld_run dec _ a b s h₁ h₂ hp hop c hdst

/-- CPIR / CPDR as a whole: m = the number of elements examined (first match, or the whole count) -/
theorem C09_cpir (dec : Bool) (s : St) (m : Nat) (hm : 1 ≤ m) (hmn : m ≤ count16 (regU16 s.BC))
    (h₁ : s.Interrupt = none) (h₂ : s.Memory = .user)
    (hp : s.mem s.PC = 0xed#8) (hop : s.mem (s.PC + 1#16) = cpOp dec true)
    (hne : ∀ i, i + 1 < m → s.mem (stpN dec (regU16 s.HL) i) ≠ s.AF.Hi)
    (hlast : m = count16 (regU16 s.BC) ∨ s.mem (stpN dec (regU16 s.HL) (m - 1)) = s.AF.Hi) :
    ∃ t, stepN m s = .ok () t ∧ CpDone dec (count16 (regU16 s.BC)) m s t ∧
      (∀ j, j < m → ∃ u, stepN j s = .ok () u ∧ u.PC = s.PC) := by
  obtain ⟨_, b, c⟩ := count16_spec (regU16 s.BC)
  exact cp_run dec m hm _ hmn b s h₁ h₂ hp hop c hne hlast

/-- OTIR / OTDR as a whole -/
theorem C09_otir (dec : Bool) (s : St) (h₁ : s.Interrupt = none) (h₂ : s.Memory = .user) (hio : s.IO = true)
    (hp : s.mem s.PC = 0xed#8) (hop : s.mem (s.PC + 1#16) = otOp dec true) :
    ∃ t, stepN (count8 s.BC.Hi) s = .ok () t ∧ OtDone dec (count8 s.BC.Hi) s t ∧
      (∀ j, j < count8 s.BC.Hi → ∃ u, stepN j s = .ok () u ∧ u.PC = s.PC) := by
  obtain ⟨a, b, c⟩ := count8_spec s.BC.Hi
  exact ot_run dec _ a b s h₁ h₂ hio hp hop c

/-- INIR / INDR as a whole -/
theorem C09_inir (dec : Bool) (s : St) (h₁ : s.Interrupt = none) (h₂ : s.Memory = .user) (hio : s.IO = true)
    (hp : s.mem s.PC = 0xed#8) (hop : s.mem (s.PC + 1#16) = inOp dec true)
    (hdst : ∀ i, i < count8 s.BC.Hi → stpN dec (regU16 s.HL) i ≠ s.PC ∧ stpN dec (regU16 s.HL) i ≠ s.PC + 1#16) :
    ∃ t, stepN (count8 s.BC.Hi) s = .ok () t ∧ InDone dec (count8 s.BC.Hi) s t ∧
      (∀ j, j < count8 s.BC.Hi → ∃ u, stepN j s = .ok () u ∧ u.PC = s.PC) := by
  obtain ⟨a, b, c⟩ := count8_spec s.BC.Hi
  exact in_run dec _ a b s h₁ h₂ hio hp hop c hdst

/-- overlapping ranges propagate as on hardware: LDIR with DE = HL+1 fills the block with the first byte -/
theorem C09_overlap_fill (m : U16 → U8) (hl : U16) : ∀ (n : Nat) (a : U16), n ≤ 65535 → (a - (hl + 1#16)).toNat < n →
    ldMem false n m hl (hl + 1#16) a = m hl := by
  intro n
  induction n generalizing m hl with
  | zero => intro a _ h; omega
  | succ n ih =>
    intro a hn ha
    simp only [ldMem, stp, Bool.false_eq_true, if_false]
    by_cases h0 : a = hl + 1#16
    · subst h0
      -- the byte written first is never overwritten again within n ≤ 65535 further steps
      have stay : ∀ (k : Nat) (m' : U16 → U8) (p : U16), k ≤ 65535 → (∀ i, i < k → p + BitVec.ofNat 16 i ≠ hl + 1#16) →
          ldMem false k m' (p - 1#16) p (hl + 1#16) = m' (hl + 1#16) := by
        intro k
        induction k with
        | zero => intro m' p _ _; rfl
        | succ k ihk =>
          intro m' p hk hp
          simp only [ldMem, stp, Bool.false_eq_true, if_false]
          have e : p - 1#16 + 1#16 = p := by bv_omega
          rw [e]
          have := ihk (upd m' p (m' (p - 1#16))) (p + 1#16) (by omega) (by
            intro i hi
            have := hp (i+1) (by omega)
            intro h; apply this; rw [← h]; bv_omega)
          have e2 : p + 1#16 - 1#16 = p := by bv_omega
          rw [e2] at this
          rw [this]
          have hne := hp 0 (by omega)
          simp at hne
          simp [upd, Ne.symm hne]
      have := stay n (upd m (hl + 1#16) (m hl)) (hl + 1#16 + 1#16) (by omega) (by
        intro i hi h
        have h2 : BitVec.ofNat 16 (i + 1) = 0#16 := by bv_omega
        have := congrArg BitVec.toNat h2
        simp at this; omega)
      have e : hl + 1#16 + 1#16 - 1#16 = hl + 1#16 := by bv_omega
      rw [e] at this
      rw [this]; simp [upd]
    · have := ih (upd m (hl + 1#16) (m hl)) (hl + 1#16) a (by omega) (by
        have : (a - (hl + 1#16)).toNat ≠ 0 := by
          intro e; apply h0
          have : a - (hl + 1#16) = 0#16 := BitVec.eq_of_toNat_eq (by simpa using e)
          bv_omega
        bv_omega)
      rw [this]; simp [upd]

-- non-vacuity: BC = 0 is the count 65536; a state with LDIR at 0x8000 copying 0x0000.. to 0x4000.. meets the hypotheses
example : count16 0#16 = 65536 ∧ count16 1#16 = 1 ∧ count8 0#8 = 256 := by decide
def exMem : U16 → U8 := fun a => if a = 0x8000#16 then 0xed#8 else if a = 0x8001#16 then 0xb0#8 else 0#8
def exSt : St := { (default : CPU) with Interrupt := none, Memory := .user, PC := 0x8000#16, BC := ⟨0#8, 3#8⟩, DE := ⟨0x40#8, 0#8⟩, mem := exMem, dev := fun _ _ => 0#8, log := [] }
example : exSt.Interrupt = none ∧ exSt.Memory = .user ∧ exSt.mem exSt.PC = 0xed#8 ∧ exSt.mem (exSt.PC + 1#16) = ldOp false true ∧
    count16 (regU16 exSt.BC) = 3 ∧ ∀ i, i < 3 → stpN false (regU16 exSt.DE) i ≠ exSt.PC ∧ stpN false (regU16 exSt.DE) i ≠ exSt.PC + 1#16 :=
  ⟨rfl, rfl, by decide, by decide, by decide, by decide⟩

end Z80.Props.C09
