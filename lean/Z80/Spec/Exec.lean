/-
  Z80.Spec.Exec — hand-written reference semantics of the Z80 instruction set (the oracle for
  "as the Z80 defines"), organised the way the hardware is: operands `r[z]`, `rp[p]`, `cc[y]`,
  `alu[y]`, `rot[y]`, one index-register parameter for DD/FD.  It does not refer to the
  generated Go model, only to the shared state record and bus primitives.

  Everything an instruction does not name is literally not mentioned, so "left unchanged" is how
  the specification is written.  Behaviour that real Z80s differ on, or that the properties leave
  open, is a parameter (`Impl`), never a hole.
-/
import Z80.Monad
import Z80.Spec.Alu

namespace Z80.Spec
open Z80 Z80.Gen

-- ---------------------------------------------------------------------------
-- implementation-defined behaviour

/-- where a 16-bit store happens, for the byte order of the two bus writes -/
inductive Site | call | pushQQ | pushXY | rst | exSP | ldnn | nmi | im1 | im2
  deriving DecidableEq, Repr, Inhabited

structure Impl where
  /-- order of the two byte writes of a word store: true = low byte (lower address) first -/
  loFirst : Site → Bool
  /-- bits 3/5 after SCF / CCF, from (A, old F) -/
  scf35 : U8 → U8 → U8
  ccf35 : U8 → U8 → U8
  /-- bits 3/5 after BIT b,(HL) / BIT b,(IX+d), from (operand, address, old F) -/
  bitMem35 : U8 → U16 → U8 → U8
  /-- the undocumented flags S 5 H 3 P/V after INI/IND/OUTI/OUTD(R), from (old F, new B, data byte) -/
  blockIO : U8 → U8 → U8 → U8
  /-- opcode fetches counted in R for DDCB/FDCB forms: 2 (silicon) or 3 -/
  ddcbM1 : Nat
  /-- does reading the supplied opcode of a mode-0 request count as an opcode fetch for R? -/
  im0M1 : Bool

-- ---------------------------------------------------------------------------
-- operands

inductive XY | IX | IY deriving DecidableEq, Repr, Inhabited
inductive R8 | B | C | D | E | H | L | A deriving DecidableEq, Repr, Inhabited

/-- an 8-bit operand location -/
inductive Loc8
  | r (r : R8)
  | xh (i : XY) | xl (i : XY)      -- IXH IXL IYH IYL
  | mHL                             -- (HL)
  | mXYd (i : XY)                   -- (IX+d)/(IY+d), displacement fetched next
  | mXY (i : XY) (d : U8)           -- (IX+d)/(IY+d), displacement already fetched (DDCB/FDCB)
  deriving DecidableEq, Repr, Inhabited

inductive Loc16 | BC | DE | HL | SP | AF | IX | IY deriving DecidableEq, Repr, Inhabited
inductive Cond | NZ | Z | NC | C | PO | PE | P | M deriving DecidableEq, Repr, Inhabited
inductive Alu | add | adc | sub | sbc | and | xor | or | cp deriving DecidableEq, Repr, Inhabited
inductive Ind | BC | DE | nn deriving DecidableEq, Repr, Inhabited
inductive Blk | ld | cp | inp | out deriving DecidableEq, Repr, Inhabited

def getR (r : R8) (s : St) : U8 :=
  match r with
  | .B => s.BC.Hi | .C => s.BC.Lo | .D => s.DE.Hi | .E => s.DE.Lo
  | .H => s.HL.Hi | .L => s.HL.Lo | .A => s.AF.Hi

def setR (r : R8) (v : U8) (s : St) : St :=
  match r with
  | .B => { s with BC.Hi := v } | .C => { s with BC.Lo := v }
  | .D => { s with DE.Hi := v } | .E => { s with DE.Lo := v }
  | .H => { s with HL.Hi := v } | .L => { s with HL.Lo := v }
  | .A => { s with AF.Hi := v }

def getXY (i : XY) (s : St) : U16 := match i with | .IX => s.IX | .IY => s.IY
def setXY (i : XY) (v : U16) (s : St) : St := match i with | .IX => { s with IX := v } | .IY => { s with IY := v }

def regU16 (r : Register) : U16 := mk16 r.Hi r.Lo
def regOf (v : U16) : Register := { Hi := hi8 v, Lo := lo8 v }

def get16 (r : Loc16) (s : St) : U16 :=
  match r with
  | .BC => regU16 s.BC | .DE => regU16 s.DE | .HL => regU16 s.HL | .AF => regU16 s.AF
  | .SP => s.SP | .IX => s.IX | .IY => s.IY

def set16 (r : Loc16) (v : U16) (s : St) : St :=
  match r with
  | .BC => { s with BC := regOf v } | .DE => { s with DE := regOf v }
  | .HL => { s with HL := regOf v } | .AF => { s with AF := regOf v }
  | .SP => { s with SP := v } | .IX => { s with IX := v } | .IY => { s with IY := v }

def condHolds (c : Cond) (f : U8) : Bool :=
  match c with
  | .NZ => !bitOf f 6 | .Z => bitOf f 6
  | .NC => !bitOf f 0 | .C => bitOf f 0
  | .PO => !bitOf f 2 | .PE => bitOf f 2
  | .P => !bitOf f 7 | .M => bitOf f 7

/-- signed 8-bit displacement added to a 16-bit address, modulo 65536 -/
def addDisp (a : U16) (d : U8) : U16 := a + d.signExtend 16

-- ---------------------------------------------------------------------------
-- bus access (user memory; the interrupt-mode-0 overlay is the implementation's business)

def rd8 (a : U16) : M U8 := userGet a
def wr8 (a : U16) (v : U8) : M Unit := userSet a v

def rd16 (a : U16) : M U16 := do
  let l ← rd8 a
  let h ← rd8 (a + 1#16)
  pure (mk16 h l)

def wr16 (loFirst : Bool) (a : U16) (v : U16) : M Unit :=
  if loFirst then do wr8 a (lo8 v); wr8 (a + 1#16) (hi8 v)
  else do wr8 (a + 1#16) (hi8 v); wr8 a (lo8 v)

/-- operand fetch: the byte at PC, PC advances -/
def fetch : M U8 := do
  let s ← getSt
  let v ← rd8 s.PC
  modifySt fun s => { s with PC := s.PC + 1#16 }
  pure v

/-- opcode fetch (M1): like `fetch`, and the refresh counter advances -/
def fetchM1 : M U8 := do
  let v ← fetch
  modifySt fun s => { s with IR.Lo := incR s.IR.Lo }
  pure v

def fetch16 : M U16 := do
  let l ← fetch
  let h ← fetch
  pure (mk16 h l)

def push16 (loFirst : Bool) (v : U16) : M Unit := do
  modifySt fun s => { s with SP := s.SP - 2#16 }
  let s ← getSt
  wr16 loFirst s.SP v

def pop16 : M U16 := do
  let s ← getSt
  let v ← rd16 s.SP
  modifySt fun s => { s with SP := s.SP + 2#16 }
  pure v

/-- effective address of a memory operand (fetching the displacement when it follows) -/
def locAddr (l : Loc8) : M U16 := do
  match l with
  | .mHL => let s ← getSt; pure (regU16 s.HL)
  | .mXYd i => let d ← fetch; let s ← getSt; pure (addDisp (getXY i s) d)
  | .mXY i d => let s ← getSt; pure (addDisp (getXY i s) d)
  | _ => pure 0#16

def isMem : Loc8 → Bool
  | .mHL => true | .mXYd _ => true | .mXY _ _ => true | _ => false

def getLocReg (l : Loc8) (s : St) : U8 :=
  match l with
  | .r r => getR r s
  | .xh i => hi8 (getXY i s)
  | .xl i => lo8 (getXY i s)
  | _ => 0#8

def setLocReg (l : Loc8) (v : U8) (s : St) : St :=
  match l with
  | .r r => setR r v s
  | .xh i => setXY i (mk16 v (lo8 (getXY i s))) s
  | .xl i => setXY i (mk16 (hi8 (getXY i s)) v) s
  | _ => s

/-- read an 8-bit operand -/
def readLoc (l : Loc8) : M U8 := do
  if isMem l then
    let a ← locAddr l
    rd8 a
  else
    let s ← getSt
    pure (getLocReg l s)

/-- write an 8-bit operand -/
def writeLoc (l : Loc8) (v : U8) : M Unit := do
  if isMem l then
    let a ← locAddr l
    wr8 a v
  else
    modifySt (setLocReg l v)

/-- read-modify-write of an 8-bit operand: one read, then one write to the same address;
    `g` maps (old value, old F) to (new value, new F) -/
def rmwLoc (l : Loc8) (g : U8 → U8 → U8 × U8) : M Unit := do
  if isMem l then
    let a ← locAddr l
    let x ← rd8 a
    let s ← getSt
    modifySt fun s => { s with AF.Lo := (g x s.AF.Lo).2 }
    wr8 a (g x s.AF.Lo).1
  else
    modifySt fun s => setLocReg l (g (getLocReg l s) s.AF.Lo).1 { s with AF.Lo := (g (getLocReg l s) s.AF.Lo).2 }

-- ---------------------------------------------------------------------------
-- instructions

inductive Instr
  | nop | halt | di | ei | im (n : Nat)
  | ld8 (dst src : Loc8)
  | ld8n (dst : Loc8)
  | ldA (src : Ind) | stA (dst : Ind)
  | ldAI | ldAR | ldIA | ldRA
  | ld16n (r : Loc16)
  | ld16m (r : Loc16)              -- LD rr,(nn)
  | st16m (r : Loc16)              -- LD (nn),rr
  | ldSP (r : Loc16)               -- LD SP,HL/IX/IY
  | push (r : Loc16) | pop (r : Loc16)
  | exDEHL | exAF | exx | exSP (r : Loc16)
  | alu (op : Alu) (src : Loc8) | alun (op : Alu)
  | inc8 (l : Loc8) | dec8 (l : Loc8)
  | daa | cpl | neg | ccf | scf
  | add16 (dst src : Loc16) | adc16 (src : Loc16) | sbc16 (src : Loc16)
  | inc16 (r : Loc16) | dec16 (r : Loc16)
  | rotA (k : Rot)
  | rot (k : Rot) (l : Loc8)
  | rld | rrd
  | bit (b : Nat) (l : Loc8) | set (b : Nat) (l : Loc8) | res (b : Nat) (l : Loc8)
  | jp | jpcc (c : Cond) | jr | jrcc (c : Cond) | jpr (r : Loc16) | djnz
  | call | callcc (c : Cond) | ret | retcc (c : Cond) | reti | retn | rst (t : U16)
  | inAn | outnA | inC (r : R8) | outC (r : R8)
  | blk (k : Blk) (dec : Bool) (rep : Bool)
  deriving DecidableEq, Repr, Inhabited

def aluApply (op : Alu) (a x f : U8) : U8 × U8 :=
  match op with
  | .add => add8 a x false
  | .adc => add8 a x (carryIn f)
  | .sub => sub8 a x false
  | .sbc => sub8 a x (carryIn f)
  | .and => and8 a x
  | .xor => xor8 a x
  | .or => or8 a x
  | .cp => (a, cp8 a x)

def doAlu (op : Alu) (x : U8) : M Unit :=
  modifySt fun s => { s with AF := { Hi := (aluApply op s.AF.Hi x s.AF.Lo).1, Lo := (aluApply op s.AF.Hi x s.AF.Lo).2 } }

def pushSite : Loc16 → Site
  | .IX => .pushXY | .IY => .pushXY | _ => .pushQQ

/-- one element of a block instruction; returns whether the repeat condition holds afterwards -/
def blkElem (impl : Impl) (k : Blk) (dec : Bool) : M Bool := do
  let s ← getSt
  let hl := regU16 s.HL
  let step (v : U16) : U16 := if dec then v - 1#16 else v + 1#16
  match k with
  | .ld =>
    let v ← rd8 hl
    wr8 (regU16 s.DE) v
    let bc' := regU16 s.BC - 1#16
    modifySt fun t => { t with DE := regOf (step (regU16 s.DE)), HL := regOf (step hl), BC := regOf bc',
                               AF.Lo := ldiFlags s.AF.Hi v s.AF.Lo (bc' != 0#16) }
    pure (bc' != 0#16)
  | .cp =>
    let v ← rd8 hl
    let bc' := regU16 s.BC - 1#16
    modifySt fun t => { t with HL := regOf (step hl), BC := regOf bc',
                               AF.Lo := cpiFlags s.AF.Hi v s.AF.Lo (bc' != 0#16) }
    pure (bc' != 0#16 && s.AF.Hi != v)
  | .inp =>
    let v ← (do let t ← getSt; if t.IO then ioInUser s.BC.Lo else pure 0#8)
    wr8 hl v
    let b' := s.BC.Hi - 1#8
    modifySt fun t => { t with BC.Hi := b', HL := regOf (step hl),
                               AF.Lo := keepBits fC s.AF.Lo ((impl.blockIO s.AF.Lo b' v &&& 0xbc#8) ||| fN ||| (if b' == 0#8 then fZ else 0#8)) }
    pure (b' != 0#8)
  | .out =>
    let v ← rd8 hl
    (do let t ← getSt; if t.IO then ioOutUser s.BC.Lo v else pure ())
    let b' := s.BC.Hi - 1#8
    modifySt fun t => { t with BC.Hi := b', HL := regOf (step hl),
                               AF.Lo := keepBits fC s.AF.Lo ((impl.blockIO s.AF.Lo b' v &&& 0xbc#8) ||| fN ||| (if b' == 0#8 then fZ else 0#8)) }
    pure (b' != 0#8)

/-- port read/write: with no device attached a read yields 0 and a write is dropped -/
def portIn (p : U8) : M U8 := do
  let s ← getSt
  if s.IO then ioInUser p else pure 0#8
def portOut (p v : U8) : M Unit := do
  let s ← getSt
  if s.IO then ioOutUser p v else pure ()

-- pure state transformers used by `exec`
def setAF (s : St) (p : U8 × U8) : St := { s with AF := { Hi := p.1, Lo := p.2 } }
def ccfSt (impl : Impl) (s : St) : St :=
  let c := carryIn s.AF.Lo
  { s with AF.Lo := keepBits (fS ||| fZ ||| fPV) s.AF.Lo ((impl.ccf35 s.AF.Hi s.AF.Lo &&& 0x28#8) ||| (if c then fH else 0#8) ||| (if c then 0#8 else fC)) }
def scfSt (impl : Impl) (s : St) : St :=
  { s with AF.Lo := keepBits (fS ||| fZ ||| fPV) s.AF.Lo ((impl.scf35 s.AF.Hi s.AF.Lo &&& 0x28#8) ||| fC) }
def add16St (dst src : Loc16) (s : St) : St :=
  let p := add16 (get16 dst s) (get16 src s) s.AF.Lo
  set16 dst p.1 { s with AF.Lo := p.2 }
def adc16St (src : Loc16) (s : St) : St :=
  let p := adc16 (regU16 s.HL) (get16 src s) (carryIn s.AF.Lo)
  { s with HL := regOf p.1, AF.Lo := p.2 }
def sbc16St (src : Loc16) (s : St) : St :=
  let p := sbc16 (regU16 s.HL) (get16 src s) (carryIn s.AF.Lo)
  { s with HL := regOf p.1, AF.Lo := p.2 }
def exxSt (s : St) : St :=
  { s with BC := s.Alternate.BC, DE := s.Alternate.DE, HL := s.Alternate.HL,
           Alternate.BC := s.BC, Alternate.DE := s.DE, Alternate.HL := s.HL }

/-- execute one decoded instruction (opcode and prefix bytes already fetched) -/
def exec (impl : Impl) (i : Instr) : M Unit := do
  match i with
  | .nop => pure ()
  | .halt => modifySt fun s => { s with PC := s.PC - 1#16, HALT := true }
  | .di => modifySt fun s => { s with IFF1 := false, IFF2 := false }
  | .ei => modifySt fun s => { s with IFF1 := true, IFF2 := true }
  | .im n => modifySt fun s => { s with IM := (n : Int) }
  | .ld8 dst src =>
    -- at most one of the two is a memory operand
    if isMem dst then
      let a ← locAddr dst
      let s ← getSt
      wr8 a (getLocReg src s)
    else
      let v ← readLoc src
      modifySt (setLocReg dst v)
  | .ld8n dst =>
    if isMem dst then
      match dst with
      | .mXYd i =>
        let d ← fetch
        let n ← fetch
        let s ← getSt
        wr8 (addDisp (getXY i s) d) n
      | _ =>
        let n ← fetch
        let a ← locAddr dst
        wr8 a n
    else
      let n ← fetch
      modifySt (setLocReg dst n)
  | .ldA src =>
    let a ← (match src with
      | .BC => do let s ← getSt; pure (regU16 s.BC)
      | .DE => do let s ← getSt; pure (regU16 s.DE)
      | .nn => fetch16)
    let v ← rd8 a
    modifySt fun s => { s with AF.Hi := v }
  | .stA dst =>
    let a ← (match dst with
      | .BC => do let s ← getSt; pure (regU16 s.BC)
      | .DE => do let s ← getSt; pure (regU16 s.DE)
      | .nn => fetch16)
    let s ← getSt
    wr8 a s.AF.Hi
  | .ldAI => modifySt fun s => { s with AF := { Hi := s.IR.Hi, Lo := ldAIRFlags s.IR.Hi s.AF.Lo s.IFF2 } }
  | .ldAR => modifySt fun s => { s with AF := { Hi := s.IR.Lo, Lo := ldAIRFlags s.IR.Lo s.AF.Lo s.IFF2 } }
  | .ldIA => modifySt fun s => { s with IR.Hi := s.AF.Hi }
  | .ldRA => modifySt fun s => { s with IR.Lo := s.AF.Hi }
  | .ld16n r => let v ← fetch16; modifySt (set16 r v)
  | .ld16m r => let a ← fetch16; let v ← rd16 a; modifySt (set16 r v)
  | .st16m r => let a ← fetch16; let s ← getSt; wr16 (impl.loFirst .ldnn) a (get16 r s)
  | .ldSP r => modifySt fun s => { s with SP := get16 r s }
  | .push r => let s ← getSt; push16 (impl.loFirst (pushSite r)) (get16 r s)
  | .pop r => let v ← pop16; modifySt (set16 r v)
  | .exDEHL => modifySt fun s => { s with DE := s.HL, HL := s.DE }
  | .exAF => modifySt fun s => { s with AF := s.Alternate.AF, Alternate.AF := s.AF }
  | .exx => modifySt exxSt
  | .exSP r =>
    let s ← getSt
    let v ← rd16 s.SP
    wr16 (impl.loFirst .exSP) s.SP (get16 r s)
    modifySt (set16 r v)
  | .alu op src => let x ← readLoc src; doAlu op x
  | .alun op => let x ← fetch; doAlu op x
  | .inc8 l => rmwLoc l inc8
  | .dec8 l => rmwLoc l dec8
  | .daa => modifySt fun s => setAF s (daa8 s.AF.Hi s.AF.Lo)
  | .cpl => modifySt fun s => setAF s (cpl8 s.AF.Hi s.AF.Lo)
  | .neg => modifySt fun s => setAF s (neg8 s.AF.Hi)
  | .ccf => modifySt (ccfSt impl)
  | .scf => modifySt (scfSt impl)
  | .add16 dst src => modifySt (add16St dst src)
  | .adc16 src => modifySt (adc16St src)
  | .sbc16 src => modifySt (sbc16St src)
  | .inc16 r => modifySt fun s => set16 r (get16 r s + 1#16) s
  | .dec16 r => modifySt fun s => set16 r (get16 r s - 1#16) s
  | .rotA k => modifySt fun s => setAF s (rotA k s.AF.Hi s.AF.Lo)
  | .rot k l => rmwLoc l (rot8 k)
  | .rld =>
    let s ← getSt
    let m ← rd8 (regU16 s.HL)
    let q := rld8 s.AF.Hi m s.AF.Lo
    wr8 (regU16 s.HL) q.2.1
    modifySt fun s => { s with AF := { Hi := q.1, Lo := q.2.2 } }
  | .rrd =>
    let s ← getSt
    let m ← rd8 (regU16 s.HL)
    let q := rrd8 s.AF.Hi m s.AF.Lo
    wr8 (regU16 s.HL) q.2.1
    modifySt fun s => { s with AF := { Hi := q.1, Lo := q.2.2 } }
  | .bit b l =>
    if isMem l then
      let a ← locAddr l
      let x ← rd8 a
      modifySt fun s => { s with AF.Lo := bit8 b x s.AF.Lo (impl.bitMem35 x a s.AF.Lo) }
    else
      modifySt fun s => { s with AF.Lo := bit8 b (getLocReg l s) s.AF.Lo (getLocReg l s) }
  | .set b l => rmwLoc l (fun x f => (set8 b x, f))
  | .res b l => rmwLoc l (fun x f => (res8 b x, f))
  | .jp => let a ← fetch16; modifySt fun s => { s with PC := a }
  | .jpcc c =>
    let a ← fetch16
    let s ← getSt
    if condHolds c s.AF.Lo then modifySt fun s => { s with PC := a } else pure ()
  | .jr => let e ← fetch; modifySt fun s => { s with PC := addDisp s.PC e }
  | .jrcc c =>
    let e ← fetch
    let s ← getSt
    if condHolds c s.AF.Lo then modifySt fun s => { s with PC := addDisp s.PC e } else pure ()
  | .jpr r => modifySt fun s => { s with PC := get16 r s }
  | .djnz =>
    let e ← fetch
    modifySt fun s => { s with BC.Hi := s.BC.Hi - 1#8 }
    let s ← getSt
    if s.BC.Hi != 0#8 then modifySt fun s => { s with PC := addDisp s.PC e } else pure ()
  | .call =>
    let a ← fetch16
    let s ← getSt
    push16 (impl.loFirst .call) s.PC
    modifySt fun s => { s with PC := a }
  | .callcc c =>
    let a ← fetch16
    let s ← getSt
    if condHolds c s.AF.Lo then
      push16 (impl.loFirst .call) s.PC
      modifySt fun s => { s with PC := a }
    else pure ()
  | .ret => let a ← pop16; modifySt fun s => { s with PC := a }
  | .retcc c =>
    let s ← getSt
    if condHolds c s.AF.Lo then
      let a ← pop16
      modifySt fun s => { s with PC := a }
    else pure ()
  | .reti =>
    let s ← getSt
    if s.RETIHandler then callRETI else pure ()
    let a ← pop16
    modifySt fun s => { s with PC := a }
  | .retn =>
    let s ← getSt
    if s.RETNHandler then callRETN else pure ()
    let a ← pop16
    modifySt fun s => { s with PC := a, IFF1 := s.IFF2 }
  | .rst t =>
    let s ← getSt
    push16 (impl.loFirst .rst) s.PC
    modifySt fun s => { s with PC := t }
  | .inAn =>
    let n ← fetch
    let v ← portIn n
    modifySt fun s => { s with AF.Hi := v }
  | .outnA =>
    let n ← fetch
    let s ← getSt
    portOut n s.AF.Hi
  | .inC r =>
    let s ← getSt
    let v ← portIn s.BC.Lo
    modifySt fun s => setR r v { s with AF.Lo := inFlags v s.AF.Lo }
  | .outC r =>
    let s ← getSt
    portOut s.BC.Lo (getR r s)
  | .blk k dec rep =>
    let again ← blkElem impl k dec
    if rep && again then modifySt fun s => { s with PC := s.PC - 2#16 } else pure ()

end Z80.Spec
