-- Root of the `Z80` library.
import Z80.Base
import Z80.Attr
import Z80.Monad
import Z80.Gen.All
import Z80.Spec.Alu
import Z80.Spec.Exec
import Z80.Spec.Decode
import Z80.Spec.Koron
import Z80.Spec.Interrupt
