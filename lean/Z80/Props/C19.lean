/-
  C19 — cim2bin and cim2cas wrap any image in a correct MSX container, body unaltered.

  Theorems about the hand-written model Z80.Spec.Cim (tied to the commands by the `cim` correspondence, which
  runs the BUILT binaries on generated files): for EVERY image and offset,
    * cim2bin = FE, start, end, exec (little-endian words) followed by the unmodified image; end = start+len-1
      as a number whenever the end address fits in 16 bits; exec = start;
    * cim2cas = 8-byte sync header, ten D0 bytes, the name truncated / space-padded to exactly six characters,
      the sync header again, the same three words, the unmodified image.
-/
import Z80.Spec.Cim
import Z80.Gen.CimData

namespace Z80.Props.C19
open Z80 Z80.Spec.Cim

/-- a little-endian word: low byte first; the two bytes determine the value -/
theorem w16_value (v : U16) : (w16 v).length = 2 ∧ (w16 v)[0]!.toNat + 256 * (w16 v)[1]!.toNat = v.toNat := by
  refine ⟨rfl, ?_⟩
  simp only [w16, List.getElem!_cons_zero, List.getElem!_cons_succ]
  simp only [BitVec.toNat_setWidth, BitVec.toNat_ushiftRight, Nat.shiftRight_eq_div_pow]
  have := v.isLt
  omega

/-- the end address is start+length-1 as a NUMBER whenever that fits in 16 bits (image not empty) -/
theorem endAddr_value (off : U16) (b : List U8) (h1 : 1 ≤ b.length) (hfit : off.toNat + b.length - 1 < 65536) :
    (endAddr off b).toNat = off.toNat + b.length - 1 := by
  unfold endAddr
  have := off.isLt
  simp only [BitVec.toNat_sub, BitVec.toNat_add, BitVec.toNat_ofNat]
  omega

/-- cim2bin: exact layout for every offset and image -/
theorem C19_bin (off : U16) (b : List U8) :
    cim2bin off b = 0xFE#8 :: (w16 off ++ w16 (endAddr off b) ++ w16 off ++ b) ∧
    (cim2bin off b).length = 7 + b.length ∧
    (cim2bin off b).drop 7 = b ∧                                   -- body unaltered
    (cim2bin off b).take 7 = [0xFE#8] ++ w16 off ++ w16 (endAddr off b) ++ w16 off := by
  refine ⟨by simp [cim2bin], by simp [cim2bin, w16]; omega, by simp [cim2bin, w16], by simp [cim2bin, w16]⟩

/-- the name field is exactly six bytes: the first min(6,len) bytes of the name, then spaces -/
theorem padName_spec (name : List U8) :
    (padName name).length = 6 ∧ (padName name).take (min 6 name.length) = name.take 6 ∧
    ∀ i, min 6 name.length ≤ i → i < 6 → (padName name)[i]? = some 0x20#8 := by
  unfold padName
  have hl : (name.take 6).length = min 6 name.length := by simp
  refine ⟨by simp; omega, ?_, ?_⟩
  · rw [← hl, List.take_left']; rfl
  · intro i h1 h2
    rw [List.getElem?_append_right (by omega)]
    simp [List.getElem?_replicate]; omega

/-- cim2cas: exact layout for every name, offset and image -/
theorem C19_cas (nam path : List U8) (off : U16) (b : List U8) :
    (cim2cas nam path off b).take 8 = casHeader ∧
    ((cim2cas nam path off b).drop 8).take 10 = List.replicate 10 0xd0#8 ∧
    ((cim2cas nam path off b).drop 18).take 6 = padName (tapeName nam path) ∧
    ((cim2cas nam path off b).drop 24).take 8 = casHeader ∧
    ((cim2cas nam path off b).drop 32).take 6 = w16 off ++ w16 (endAddr off b) ++ w16 off ∧
    (cim2cas nam path off b).drop 38 = b ∧
    (cim2cas nam path off b).length = 38 + b.length := by
  have hp := (padName_spec (tapeName nam path)).1
  have h8 : casHeader.length = 8 := rfl
  have h10 : casTypeBin.length = 10 := rfl
  unfold cim2cas
  refine ⟨?_, ?_, ?_, ?_, ?_, ?_, ?_⟩
  · simp [List.take_append_of_le_length, h8]
  · simp only [List.append_assoc]
    rw [List.drop_left' h8, List.take_left' h10]; rfl
  · simp only [List.append_assoc]
    rw [← List.append_assoc casHeader, List.drop_left' (by simp [h8, h10]), List.take_left' hp]
  · simp only [List.append_assoc]
    rw [← List.append_assoc casHeader, ← List.append_assoc (casHeader ++ casTypeBin),
        List.drop_left' (by simp [h8, h10, hp]), List.take_left' h8]
  · simp only [List.append_assoc]
    rw [← List.append_assoc casHeader, ← List.append_assoc (casHeader ++ casTypeBin),
        ← List.append_assoc (casHeader ++ casTypeBin ++ padName _), List.drop_left' (by simp [h8, h10, hp])]
    simp [w16]
  · simp only [List.append_assoc]
    rw [← List.append_assoc casHeader, ← List.append_assoc (casHeader ++ casTypeBin),
        ← List.append_assoc (casHeader ++ casTypeBin ++ padName _),
        ← List.append_assoc (casHeader ++ casTypeBin ++ padName _ ++ casHeader),
        ← List.append_assoc (casHeader ++ casTypeBin ++ padName _ ++ casHeader ++ w16 off),
        ← List.append_assoc (casHeader ++ casTypeBin ++ padName _ ++ casHeader ++ w16 off ++ w16 _),
        List.drop_left' (by simp [h8, h10, hp, w16])]
  · simp [h8, h10, hp, w16]; omega


-- the output programs extracted from the current source by go2lean ------------------------------------------

open Z80.Gen in
/-- what an extracted output program writes -/
def runCim (prog : List CimItem) (off : U16) (b : List U8) (name : List U8) : List U8 :=
  prog.flatMap fun
    | .byte v => [BitVec.ofNat 8 v]
    | .bytes l => l.map (BitVec.ofNat 8)
    | .u16off => w16 off
    | .u16end => w16 (endAddr off b)
    | .name => padName name
    | .body => b

/-- the sequence of writes in cim2bin's run(), as extracted on this run, IS the model -/
theorem C19_bin_program (off : U16) (b : List U8) : runCim Gen.cim2binProgram off b [] = cim2bin off b := by
  simp [runCim, Gen.cim2binProgram, cim2bin]
/-- … and so is cim2cas's -/
theorem C19_cas_program (nam path : List U8) (off : U16) (b : List U8) :
    runCim Gen.cim2casProgram off b (tapeName nam path) = cim2cas nam path off b := by
  simp [runCim, Gen.cim2casProgram, cim2cas, casHeader, casTypeBin, List.replicate]
/-- writeU16 stores the low byte first, writeName is six bytes wide padded with spaces, an empty -nam means the input
    file name (facts extracted from the current source) -/
theorem C19_helpers_as_extracted :
    Gen.cim2binU16 = [(0, "(call uint8 u16"), (1, "(call uint8 (>> u16 8")] ∧ Gen.cim2casU16 = Gen.cim2binU16 ∧
    Gen.cim2casNameWidth = 6 ∧ Gen.cim2casNamePad = 32 ∧ Gen.cim2casDefaultName = true := by decide

/-- the default name is the input file name -/
theorem C19_default_name (path : List U8) : tapeName [] path = path := rfl

-- concrete non-trivial instances: 3-byte image at 0xA000; name "ABCDEFGH" truncated, "AB" padded
example : cim2bin 0xa000#16 [1#8, 2#8, 3#8] = [0xFE#8, 0x00#8, 0xa0#8, 0x02#8, 0xa0#8, 0x00#8, 0xa0#8, 1#8, 2#8, 3#8] := by decide
example : padName [65#8, 66#8, 67#8, 68#8, 69#8, 70#8, 71#8, 72#8] = [65#8, 66#8, 67#8, 68#8, 69#8, 70#8] ∧
          padName [65#8, 66#8] = [65#8, 66#8, 0x20#8, 0x20#8, 0x20#8, 0x20#8] := by decide

end Z80.Props.C19
