/-
  Z80.Proofs.ArmTacB — the bus-layer variant of the obligation tactic: no hypothesis on the Memory value; the
  regenerated accessors are rewritten by Memory_Get_eq / Memory_Set_eq (Proofs/BusLemmas.lean).
-/
import Z80.Proofs.ArmTac
import Z80.Proofs.BusLemmas
import Z80.SpecB

namespace Z80.OblB
open Z80 Z80.Gen Z80.Spec

macro "arm_tacB" : tactic =>
  `(tactic| (intro s; simp (config := {implicitDefEqProofs := false}) [z80gen, z80specb, z80ctl, z80spec, z80helper, Memory_Get_eq, Memory_Set_eq]; arm_fin))

/-- every byte is one of the 256 literals -/
theorem u8_cases {P : U8 → Prop} (h : ∀ n : Fin 256, P (BitVec.ofFin n)) (b : U8) : P b := h b.toFin

theorem xy_of_oblB {i : XY} {c0 c1 : U8} {lhs : M Unit}
    (h : ∀ s : St, lhs s = SpecB.execOpt Impl.koron [c0, c1] (decodeXY i c1.toNat) s)
    (hne : c1 ≠ 0xcb#8 := by decide) :
    ∀ s : St, lhs s = SpecB.execXYtail Impl.koron i c0 c1 s := by
  intro s
  rw [h s]
  simp [SpecB.execXYtail, hne]

theorem koron_ddcbM1 : Impl.koron.ddcbM1 = 3 := rfl

macro "prefix_tacB " t:ident : tactic =>
  `(tactic| (simp (config := {implicitDefEqProofs := false}) [z80gen, z80helper, Memory_Get_eq, $t:ident,
      SpecB.execMain, SpecB.execXY, SpecB.execXYtail, SpecB.execXYCB, SpecB.fetch, SpecB.fetchM1, SpecB.rd8, incR, koron_ddcbM1]))

end Z80.OblB
