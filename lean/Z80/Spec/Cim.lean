/-
  Z80.Spec.Cim — hand-written model of cmd/cim2bin and cmd/cim2cas: the bytes written to the output file as a
  function of (load offset, image bytes[, tape name]).  Core Lean only.  Tied to the commands by the `cim`
  correspondence: the built binaries are run on generated files and their output compared byte for byte.
-/
import Z80.Base

namespace Z80.Spec.Cim
open Z80

/-- writeU16: low byte, then high byte -/
def w16 (v : U16) : List U8 := [v.setWidth 8, (v >>> 8).setWidth 8]

/-- `off + uint16(len(b)) - 1` in uint16 arithmetic -/
def endAddr (off : U16) (b : List U8) : U16 := off + BitVec.ofNat 16 b.length - 1#16

/-- cim2bin: 0xFE, start, end, exec, body -/
def cim2bin (off : U16) (b : List U8) : List U8 :=
  [0xFE#8] ++ w16 off ++ w16 (endAddr off b) ++ w16 off ++ b

def casHeader : List U8 := [0x1f#8, 0xa6#8, 0xde#8, 0xba#8, 0xcc#8, 0x13#8, 0x7d#8, 0x74#8]
def casTypeBin : List U8 := List.replicate 10 0xd0#8

/-- writeName: six bytes, the name truncated or padded with spaces -/
def padName (name : List U8) : List U8 := (name.take 6) ++ List.replicate (6 - (name.take 6).length) 0x20#8

/-- the tape name: `-nam`, or the input file name when `-nam` is empty -/
def tapeName (nam cimPath : List U8) : List U8 := if nam.isEmpty then cimPath else nam

/-- cim2cas: sync header, ten 0xD0, name, sync header, start, end, exec, body -/
def cim2cas (nam cimPath : List U8) (off : U16) (b : List U8) : List U8 :=
  casHeader ++ casTypeBin ++ padName (tapeName nam cimPath) ++ casHeader ++ w16 off ++ w16 (endAddr off b) ++ w16 off ++ b

end Z80.Spec.Cim
