/-
  Z80.Proofs.Bits — small bit-vector facts (core Lean only): bitwise extensionality tactics and
  the byte/word packing lemmas used to bridge equivalent spellings in model and specification.
-/
import Z80.Spec.Alu

namespace Z80
open Z80.Spec

theorem u8_ext (x y : U8)
    (h0 : x.getLsbD 0 = y.getLsbD 0) (h1 : x.getLsbD 1 = y.getLsbD 1) (h2 : x.getLsbD 2 = y.getLsbD 2)
    (h3 : x.getLsbD 3 = y.getLsbD 3) (h4 : x.getLsbD 4 = y.getLsbD 4) (h5 : x.getLsbD 5 = y.getLsbD 5)
    (h6 : x.getLsbD 6 = y.getLsbD 6) (h7 : x.getLsbD 7 = y.getLsbD 7) : x = y := by
  apply BitVec.eq_of_getLsbD_eq
  intro i hi
  have : i = 0 ∨ i = 1 ∨ i = 2 ∨ i = 3 ∨ i = 4 ∨ i = 5 ∨ i = 6 ∨ i = 7 := by omega
  rcases this with h|h|h|h|h|h|h|h <;> subst h <;> assumption

theorem u16_ext (x y : U16)
    (h0 : x.getLsbD 0 = y.getLsbD 0) (h1 : x.getLsbD 1 = y.getLsbD 1) (h2 : x.getLsbD 2 = y.getLsbD 2)
    (h3 : x.getLsbD 3 = y.getLsbD 3) (h4 : x.getLsbD 4 = y.getLsbD 4) (h5 : x.getLsbD 5 = y.getLsbD 5)
    (h6 : x.getLsbD 6 = y.getLsbD 6) (h7 : x.getLsbD 7 = y.getLsbD 7)
    (h8 : x.getLsbD 8 = y.getLsbD 8) (h9 : x.getLsbD 9 = y.getLsbD 9) (h10 : x.getLsbD 10 = y.getLsbD 10)
    (h11 : x.getLsbD 11 = y.getLsbD 11) (h12 : x.getLsbD 12 = y.getLsbD 12) (h13 : x.getLsbD 13 = y.getLsbD 13)
    (h14 : x.getLsbD 14 = y.getLsbD 14) (h15 : x.getLsbD 15 = y.getLsbD 15) : x = y := by
  apply BitVec.eq_of_getLsbD_eq
  intro i hi
  have : i = 0 ∨ i = 1 ∨ i = 2 ∨ i = 3 ∨ i = 4 ∨ i = 5 ∨ i = 6 ∨ i = 7 ∨ i = 8 ∨ i = 9 ∨ i = 10 ∨
      i = 11 ∨ i = 12 ∨ i = 13 ∨ i = 14 ∨ i = 15 := by omega
  rcases this with h|h|h|h|h|h|h|h|h|h|h|h|h|h|h|h <;> subst h <;> assumption

/-- prove an equation of bytes / words bit by bit -/
macro "bits8" : tactic => `(tactic| (apply u8_ext <;> simp [BitVec.getLsbD_or, BitVec.getLsbD_and, BitVec.getLsbD_xor, BitVec.getLsbD_not, BitVec.getLsbD_shiftLeft, BitVec.getLsbD_ushiftRight, BitVec.getLsbD_setWidth]))
macro "bits16" : tactic => `(tactic| (apply u16_ext <;> simp [BitVec.getLsbD_or, BitVec.getLsbD_and, BitVec.getLsbD_xor, BitVec.getLsbD_not, BitVec.getLsbD_shiftLeft, BitVec.getLsbD_ushiftRight, BitVec.getLsbD_setWidth]))

theorem hi8_mk16 (h l : U8) : hi8 (mk16 h l) = h := by unfold hi8 mk16; bits8
theorem lo8_mk16 (h l : U8) : lo8 (mk16 h l) = l := by unfold lo8 mk16; bits8
theorem mk16_hi_lo (v : U16) : mk16 (hi8 v) (lo8 v) = v := by unfold hi8 lo8 mk16; bits16

theorem mk16_toNat (h l : U8) : (mk16 h l).toNat = h.toNat * 256 + l.toNat := by
  unfold mk16
  have hh := h.isLt; have hl := l.isLt
  rw [BitVec.toNat_or, BitVec.toNat_shiftLeft, BitVec.toNat_setWidth, BitVec.toNat_setWidth]
  rw [Nat.mod_eq_of_lt (by omega : h.toNat < 2^16), Nat.mod_eq_of_lt (by omega : l.toNat < 2^16)]
  rw [Nat.mod_eq_of_lt (by rw [Nat.shiftLeft_eq]; omega)]
  rw [← Nat.shiftLeft_add_eq_or_of_lt (by omega : l.toNat < 2^8), Nat.shiftLeft_eq]
theorem hi8_toNat (v : U16) : (hi8 v).toNat = v.toNat / 256 := by
  unfold hi8
  have := v.isLt
  rw [BitVec.toNat_setWidth, BitVec.toNat_ushiftRight, Nat.shiftRight_eq_div_pow]
  omega
theorem lo8_toNat (v : U16) : (lo8 v).toNat = v.toNat % 256 := by
  unfold lo8
  rw [BitVec.toNat_setWidth]

private theorem u8_eq_zero_iff (x : U8) : x = 0#8 ↔ x.toNat = 0 :=
  ⟨fun h => by rw [h]; rfl, fun h => BitVec.eq_of_toNat_eq h⟩

/-- 16-bit increment of a register pair held as two bytes -/
theorem hi8_inc (h l : U8) : hi8 (mk16 h l + 1#16) = if l + 1#8 = 0#8 then h + 1#8 else h := by
  apply BitVec.eq_of_toNat_eq
  have hh := h.isLt; have hl := l.isLt
  rw [hi8_toNat, BitVec.toNat_add, mk16_toNat]
  by_cases hc : l + 1#8 = 0#8
  · have := (u8_eq_zero_iff _).1 hc
    rw [BitVec.toNat_add] at this
    simp [hc] at this ⊢
    omega
  · have := fun e => hc ((u8_eq_zero_iff _).2 e)
    rw [BitVec.toNat_add] at this
    simp [hc] at this ⊢
    omega
theorem lo8_inc (h l : U8) : lo8 (mk16 h l + 1#16) = l + 1#8 := by
  apply BitVec.eq_of_toNat_eq
  have hh := h.isLt; have hl := l.isLt
  rw [lo8_toNat, BitVec.toNat_add, mk16_toNat, BitVec.toNat_add]
  simp
  omega
/-- 16-bit decrement (spelled `+ 0xffff` after normalisation of word offsets) -/
theorem hi8_dec (h l : U8) : hi8 (mk16 h l + 0xffff#16) = if l - 1#8 = 0xff#8 then h - 1#8 else h := by
  apply BitVec.eq_of_toNat_eq
  have hh := h.isLt; have hl := l.isLt
  rw [hi8_toNat, BitVec.toNat_add, mk16_toNat]
  by_cases hc : l - 1#8 = 0xff#8
  · have : (l - 1#8).toNat = 255 := by rw [hc]; rfl
    rw [BitVec.toNat_sub] at this
    simp [hc, BitVec.toNat_sub] at this ⊢
    omega
  · have : (l - 1#8).toNat ≠ 255 := fun e => hc (BitVec.eq_of_toNat_eq e)
    rw [BitVec.toNat_sub] at this
    simp [hc] at this ⊢
    omega
theorem lo8_dec (h l : U8) : lo8 (mk16 h l + 0xffff#16) = l - 1#8 := by
  apply BitVec.eq_of_toNat_eq
  have hh := h.isLt; have hl := l.isLt
  rw [lo8_toNat, BitVec.toNat_add, mk16_toNat, BitVec.toNat_sub]
  simp
  omega

end Z80
