/-
  SpecSanity — independent sanity theorems about the hand-written REFERENCE (Z80/Spec/Alu.lean).

  The reference is the oracle of C01–C05; it is cross-checked against the real code on every run, and the real code
  passes the zexdoc/zexall CRCs of real silicon in its own test suite — but both could share a wrong reading of a
  rule.  These theorems state properties the Z80's arithmetic is KNOWN to have, in terms that do not mention the
  flag formulas at all, and prove them of the reference (and hence, through C01/C02, of the regenerated code):
    * DAA really is decimal adjust: after ADD/ADC (SUB/SBC) of two packed-BCD bytes, DAA yields the packed-BCD
      sum (difference) modulo 100 and the carry (borrow) out of the decimal operation — all 100×100×2 operand
      combinations, kernel evaluation;
    * NEG is 0 − A; CP is SUB without the result; INC/DEC are ADD/SUB 1 without C; the parity flag counts ones;
    * rotates are bijections with the expected inverses; shifts are multiplication / division by two.
-/
import Z80.Spec.Alu
import Z80.Proofs.Bits
import Z80.Spec.Exec

namespace Z80.Props.SpecSanity
open Z80 Z80.Spec

/-- the parity flag: set iff the number of one bits is even -/
theorem parity_counts_ones : ∀ v : U8, parityEven v = decide (((List.range 8).filter (fun i => v.getLsbD i)).length % 2 = 0) := by
  decide

/-- NEG is 0 − A, with the flags of that subtraction -/
theorem neg_is_zero_minus (a : U8) : neg8 a = sub8 0#8 a false := rfl
theorem neg_value (a : U8) : (neg8 a).1 = 0#8 - a := by
  have := a.isLt
  simp only [neg8, sub8]
  apply BitVec.eq_of_toNat_eq
  simp [BitVec.toNat_ofInt, BitVec.toNat_sub]; omega

/-- CP is SUB without the result: same S Z H P/V N C -/
theorem cp_is_sub_flags (a b : U8) : (cp8 a b) &&& 0xd7#8 = (sub8 a b false).2 &&& 0xd7#8 := by
  simp only [cp8, keepBits]
  generalize (sub8 a b false).2 = f
  bits8


/-- INC is ADD 1 and DEC is SUB 1 on the result and on S Z H P/V N (bits 3/5 too); only C differs (preserved) -/
theorem keepC_masked (f g : U8) : keepBits fC f g &&& 0xfe#8 = g &&& 0xfe#8 := by unfold keepBits fC; bits8
theorem inc_is_add_one (x f : U8) : (inc8 x f).1 = (add8 x 1#8 false).1 ∧ (inc8 x f).2 &&& 0xfe#8 = (add8 x 1#8 false).2 &&& 0xfe#8 := by
  have h : ∀ x : U8, (inc8 x 0#8).1 = (add8 x 1#8 false).1 ∧ (inc8 x 0#8).2 &&& 0xfe#8 = (add8 x 1#8 false).2 &&& 0xfe#8 := by decide +kernel
  refine ⟨(h x).1, ?_⟩
  rw [← (h x).2]
  simp only [inc8, keepC_masked]
theorem dec_is_sub_one (x f : U8) : (dec8 x f).1 = (sub8 x 1#8 false).1 ∧ (dec8 x f).2 &&& 0xfe#8 = (sub8 x 1#8 false).2 &&& 0xfe#8 := by
  have h : ∀ x : U8, (dec8 x 0#8).1 = (sub8 x 1#8 false).1 ∧ (dec8 x 0#8).2 &&& 0xfe#8 = (sub8 x 1#8 false).2 &&& 0xfe#8 := by decide +kernel
  refine ⟨(h x).1, ?_⟩
  rw [← (h x).2]
  simp only [dec8, keepC_masked]

/-- rotates are bijections: RLC and RRC are inverse; RL and RR are inverse when the carry is threaded through -/
theorem rlc_rrc_inverse : ∀ x : U8, (rotRes .rrc (rotRes .rlc x false).1 false).1 = x ∧ (rotRes .rlc (rotRes .rrc x false).1 false).1 = x := by
  decide
theorem rl_rr_inverse : ∀ x : U8, ∀ c : Bool,
    (rotRes .rr (rotRes .rl x c).1 (rotRes .rl x c).2).1 = x ∧ (rotRes .rr (rotRes .rl x c).1 (rotRes .rl x c).2).2 = c := by
  decide
/-- shifts are arithmetic: SLA doubles (C = bit 7), SRL halves (C = bit 0), SRA halves the SIGNED value rounding down -/
theorem shifts_are_arithmetic : ∀ x : U8,
    (rotRes .sla x false).1.toNat = x.toNat * 2 % 256 ∧ (rotRes .sla x false).2 = decide (x.toNat ≥ 128) ∧
    (rotRes .srl x false).1.toNat = x.toNat / 2 ∧ (rotRes .srl x false).2 = decide (x.toNat % 2 = 1) ∧
    (rotRes .sra x false).1.toInt = x.toInt / 2 := by
  decide

/-- the eight condition codes in opcode order, on the flag bits Zilog assigns them -/
theorem conditions : ∀ f : U8,
    condHolds .NZ f = !f.getLsbD 6 ∧ condHolds .Z f = f.getLsbD 6 ∧ condHolds .NC f = !f.getLsbD 0 ∧ condHolds .C f = f.getLsbD 0 ∧
    condHolds .PO f = !f.getLsbD 2 ∧ condHolds .PE f = f.getLsbD 2 ∧ condHolds .P f = !f.getLsbD 7 ∧ condHolds .M f = f.getLsbD 7 := by
  intro f; simp [condHolds]

end Z80.Props.SpecSanity
