/-
  C06 (requests as users build them) — the four constructors of z80.go, translated by go2lean on every run
  (Z80/Gen/Ctor.lean; the CPU translator skips them because of make / copy / composite literals), return exactly the
  requests the interrupt theorems speak about, for every argument, and never panic:
    NMIInterrupt()            = (NMIType, no data)
    IM1Interrupt()            = (IMType, no data)
    IM2Interrupt(n)           = (IMType, [n])
    IM0Interrupt(d, others…)  = (IMType, d :: others)      — every supplied byte, in order, for any number of them
  and the type constants are the ones Step dispatches on.  The record has the same fields as the regenerated CPU's
  `Gen.Interrupt` (`toModel`).  The harness builds its requests through the real constructors, so they are also part of
  every interrupt correspondence stream.
-/
import Z80.Gen.Ctor
import Z80.Gen.Types

namespace Z80.Props.C06Ctor
open Z80 Z80.GoStore Z80.Gen.Ctor

theorem all_translated : Gen.Ctor.constructors = ["IM0Interrupt", "IM1Interrupt", "IM2Interrupt", "NMIInterrupt"] := by decide
theorem type_constants : Gen.Ctor.NMIType = 0 ∧ Gen.Ctor.IMType = 1 := by decide

/-- the record of the constructor model as the regenerated CPU model's request -/
def toModel (i : Gen.Ctor.Interrupt) : Z80.Gen.Interrupt := { Type_ := i.Type_, Data := i.Data }

theorem NMIInterrupt_eq : NMIInterrupt = some { Type_ := Gen.Ctor.NMIType, Data := [] } := rfl
theorem IM1Interrupt_eq : IM1Interrupt = some { Type_ := Gen.Ctor.IMType, Data := [] } := rfl
theorem IM2Interrupt_eq (n : U8) : IM2Interrupt n = some { Type_ := Gen.Ctor.IMType, Data := [n] } := rfl

/-- mode 0: the first byte followed by all the others, in order — for any number of bytes; never panics -/
theorem IM0Interrupt_eq (d : U8) (others : List U8) :
    IM0Interrupt d others = some { Type_ := Gen.Ctor.IMType, Data := d :: others } := by
  unfold IM0Interrupt goMake goIdx goAssign goCopy GoStore.goLen
  have h0 : (0 : Int) ≤ (others.length : Int) + 1 := by omega
  have hn : ((others.length : Int) + 1).toNat = others.length + 1 := by omega
  simp only [h0, if_true, hn, bind, Option.bind, Int.toNat_zero, List.length_replicate, Nat.zero_lt_succ, Int.le_refl]
  simp only [List.replicate_succ, List.set_cons_zero, List.length_cons, List.length_replicate]
  have hc : (0 : Int) ≤ 1 ∧ (1 : Int) ≤ ((others.length + 1 : Nat) : Int) ∧ ((others.length + 1 : Nat) : Int) ≤ ((others.length + 1 : Nat) : Int) := by omega
  have hm : min (((others.length + 1 : Nat) : Int) - 1).toNat others.length = others.length := by omega
  simp only [hc, and_self, if_true, hm, List.take_length]
  simp [Gen.Ctor.IMType, pure]
  omega

/-- in the CPU model's terms -/
theorem IM0_model (d : U8) (others : List U8) :
    (IM0Interrupt d others).map toModel = some { Type_ := 1, Data := d :: others } := by
  rw [IM0Interrupt_eq]; rfl

example : IM0Interrupt 0xcd#8 [0x34#8, 0x12#8] = some { Type_ := 1, Data := [0xcd#8, 0x34#8, 0x12#8] } := by decide

end Z80.Props.C06Ctor
