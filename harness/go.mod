module verifharness

go 1.23

require github.com/koron-go/z80 v0.0.0

replace github.com/koron-go/z80 => /repo
