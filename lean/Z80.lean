-- Root of the `Z80` library.
import Z80.Base
import Z80.Attr
import Z80.Monad
import Z80.Gen.All
