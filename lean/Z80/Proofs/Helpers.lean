/-
  Z80.Proofs.Helpers — Layer 0: every Go flag/ALU helper is a pure update, and that update is the
  ARITHMETIC definition of Z80.Spec.Alu — for every operand value and every incoming F.

  Unary operations and small tables: the quantifier is a finite table, closed by `decide` over
  the whole table (256 values, ×2 for a carry-in, ×8 for DAA's N/H/C).
  Binary 8-bit and all 16-bit operations: symbolic, in Z80.Proofs.Arith (carry-vector argument).
-/
import Z80.Proofs.Basic
import Z80.Proofs.Arith

namespace Z80
open Z80.Gen Z80.Spec
set_option maxRecDepth 8192

theorem and1_true : ∀ f : U8, f[0] = true → f &&& 1#8 = 1#8 := by decide
theorem and1_false : ∀ f : U8, f[0] = false → f &&& 1#8 = 0#8 := by decide

-- ---------------------------------------------------------------------------
-- INC / DEC

@[z80helper] theorem incU8_run (a : U8) (s : St) :
    incU8 a s = .ok (inc8 a s.AF.Lo).1 { s with AF.Lo := (inc8 a s.AF.Lo).2 } := by
  simp [incU8, inc8, keepBits]
  congr 1
  revert a; decide

@[z80helper] theorem decU8_run (a : U8) (s : St) :
    decU8 a s = .ok (dec8 a s.AF.Lo).1 { s with AF.Lo := (dec8 a s.AF.Lo).2 } := by
  simp [decU8, dec8, keepBits]
  congr 1
  revert a; decide

/-- `decP8(&cpu.r)`: stated for the seven concrete register pointers the code uses -/
theorem decP8_pure : ∀ x : U8,
    ((if x - 1#8 = 127#8 then
        (if (x - 1#8) &&& 15#8 = 15#8 then
          (if x - 1#8 = 0#8 then (x - 1#8) &&& 168#8 ||| 64#8 else (x - 1#8) &&& 168#8) ||| 16#8
        else if x - 1#8 = 0#8 then (x - 1#8) &&& 168#8 ||| 64#8 else (x - 1#8) &&& 168#8) ||| 4#8
      else
        if (x - 1#8) &&& 15#8 = 15#8 then
          (if x - 1#8 = 0#8 then (x - 1#8) &&& 168#8 ||| 64#8 else (x - 1#8) &&& 168#8) ||| 16#8
        else if x - 1#8 = 0#8 then (x - 1#8) &&& 168#8 ||| 64#8 else (x - 1#8) &&& 168#8) ||| 2#8)
    = (flags (x - 1#8)[7] (x - 1#8 == 0#8) (x - 1#8)[5] (decide (x.toNat % 16 = 0)) (x - 1#8)[3]
        (x == 0x80#8) true false) &&& ~~~fC := by decide

-- ---------------------------------------------------------------------------
-- logic

@[z80helper] theorem updateFlagLogic8_run (r : U8) (h : Bool) (s : St) :
    updateFlagLogic8 r h s = .ok () { s with AF.Lo := logicFlags r h } := by
  simp [updateFlagLogic8, logicFlags]
  revert r h; decide

@[z80helper] theorem andU8_run (a b : U8) (s : St) :
    andU8 a b s = .ok (and8 a b).1 { s with AF.Lo := (and8 a b).2 } := by
  simp [andU8, and8, updateFlagLogic8_run]
@[z80helper] theorem orU8_run (a b : U8) (s : St) :
    orU8 a b s = .ok (or8 a b).1 { s with AF.Lo := (or8 a b).2 } := by
  simp [orU8, or8, updateFlagLogic8_run]
@[z80helper] theorem xorU8_run (a b : U8) (s : St) :
    xorU8 a b s = .ok (xor8 a b).1 { s with AF.Lo := (xor8 a b).2 } := by
  simp [xorU8, xor8, updateFlagLogic8_run]

-- ---------------------------------------------------------------------------
-- rotates and shifts (CB table)

@[z80helper] theorem rlcU8_run (a : U8) (s : St) :
    rlcU8 a s = .ok (rot8 .rlc a s.AF.Lo).1 { s with AF.Lo := (rot8 .rlc a s.AF.Lo).2 } := by
  simp [rlcU8, updateFlagBitop, rot8, rotRes]
  revert a; decide
@[z80helper] theorem rrcU8_run (a : U8) (s : St) :
    rrcU8 a s = .ok (rot8 .rrc a s.AF.Lo).1 { s with AF.Lo := (rot8 .rrc a s.AF.Lo).2 } := by
  simp [rrcU8, updateFlagBitop, rot8, rotRes]
  revert a; decide
@[z80helper] theorem slaU8_run (a : U8) (s : St) :
    slaU8 a s = .ok (rot8 .sla a s.AF.Lo).1 { s with AF.Lo := (rot8 .sla a s.AF.Lo).2 } := by
  simp [slaU8, updateFlagBitop, rot8, rotRes]
  revert a; decide
@[z80helper] theorem sl1U8_run (a : U8) (s : St) :
    sl1U8 a s = .ok (rot8 .sll a s.AF.Lo).1 { s with AF.Lo := (rot8 .sll a s.AF.Lo).2 } := by
  simp [sl1U8, updateFlagBitop, rot8, rotRes]
  revert a; decide
@[z80helper] theorem sraU8_run (a : U8) (s : St) :
    sraU8 a s = .ok (rot8 .sra a s.AF.Lo).1 { s with AF.Lo := (rot8 .sra a s.AF.Lo).2 } := by
  simp [sraU8, updateFlagBitop, rot8, rotRes]
  revert a; decide
@[z80helper] theorem srlU8_run (a : U8) (s : St) :
    srlU8 a s = .ok (rot8 .srl a s.AF.Lo).1 { s with AF.Lo := (rot8 .srl a s.AF.Lo).2 } := by
  simp [srlU8, updateFlagBitop, rot8, rotRes]
  revert a; decide
@[z80helper] theorem rlU8_run (a : U8) (s : St) :
    rlU8 a s = .ok (rot8 .rl a s.AF.Lo).1 { s with AF.Lo := (rot8 .rl a s.AF.Lo).2 } := by
  by_cases hc : s.AF.Lo[0] = true
  · simp [rlU8, updateFlagBitop, rot8, rotRes, carryIn, hc, and1_true _ hc]
    revert a; decide
  · simp at hc
    simp [rlU8, updateFlagBitop, rot8, rotRes, carryIn, hc, and1_false _ hc]
    revert a; decide
@[z80helper] theorem rrU8_run (a : U8) (s : St) :
    rrU8 a s = .ok (rot8 .rr a s.AF.Lo).1 { s with AF.Lo := (rot8 .rr a s.AF.Lo).2 } := by
  by_cases hc : s.AF.Lo[0] = true
  · simp [rrU8, updateFlagBitop, rot8, rotRes, carryIn, hc, and1_true _ hc]
    revert a; decide
  · simp at hc
    simp [rrU8, updateFlagBitop, rot8, rotRes, carryIn, hc, and1_false _ hc]
    revert a; decide

-- ---------------------------------------------------------------------------
-- 8-bit add / subtract / compare (symbolic part in Z80.Proofs.Arith)

theorem updateFlagArith8_run (r a b : U16) (sub : Bool) (s : St) :
    updateFlagArith8 r a b sub s = .ok () { s with AF.Lo := arithOr r a b sub } := by
  simp [updateFlagArith8, arithOr]
  cases sub <;> by_cases h : (BitVec.setWidth 8 r : U8) = 0#8 <;> simp [h]

theorem carry16 : ∀ f : U8, ((f &&& 1#8).setWidth 16 : U16) = (BitVec.ofBool f[0]).setWidth 16 := by decide
theorem carry32 : ∀ f : U8, ((f &&& 1#8).setWidth 32 : U32) = (BitVec.ofBool f[0]).setWidth 32 := by decide

@[z80helper] theorem addU8_run (a b : U8) (s : St) :
    addU8 a b s = .ok (add8 a b false).1 { s with AF.Lo := (add8 a b false).2 } := by
  simp only [addU8, bind_run, pure_run, Res.bind_ok, updateFlagArith8_run, add8_flags0, add8_res0]
@[z80helper] theorem adcU8_run (a b : U8) (s : St) :
    adcU8 a b s = .ok (add8 a b (carryIn s.AF.Lo)).1 { s with AF.Lo := (add8 a b (carryIn s.AF.Lo)).2 } := by
  simp only [adcU8, bind_run, pure_run, getSt_run, Res.bind_ok, updateFlagArith8_run, carry16, add8_flags, add8_res, carryIn, bitOf]
  simp
@[z80helper] theorem subU8_run (a b : U8) (s : St) :
    subU8 a b s = .ok (sub8 a b false).1 { s with AF.Lo := (sub8 a b false).2 } := by
  simp only [subU8, bind_run, pure_run, Res.bind_ok, updateFlagArith8_run, sub8_flags0, sub8_res0]
@[z80helper] theorem sbcU8_run (a b : U8) (s : St) :
    sbcU8 a b s = .ok (sub8 a b (carryIn s.AF.Lo)).1 { s with AF.Lo := (sub8 a b (carryIn s.AF.Lo)).2 } := by
  simp only [sbcU8, bind_run, pure_run, getSt_run, Res.bind_ok, updateFlagArith8_run, carry16, sub8_flags, sub8_res, carryIn, bitOf]
  simp

theorem cpU8_pre (a b : U8) (s : St) :
    cpU8 a b s = .ok (((a.setWidth 16 : U16) - b.setWidth 16).setWidth 8)
      { s with AF.Lo := cpOr ((a.setWidth 16 : U16) - b.setWidth 16) (a.setWidth 16) (b.setWidth 16) b } := by
  simp [cpU8, cpOr]
  by_cases h : (BitVec.setWidth 8 ((a.setWidth 16 : U16) - b.setWidth 16) : U8) = 0#8 <;> simp [h]
@[z80helper] theorem cpU8_run (a b : U8) (s : St) :
    cpU8 a b s = .ok (sub8 a b false).1 { s with AF.Lo := cp8 a b } := by
  rw [cpU8_pre, cp8_flags, sub8_res0]

-- ---------------------------------------------------------------------------
-- 16-bit arithmetic

theorem addU16_pre (a b : U16) (s : St) :
    addU16 a b s = .ok (((a.setWidth 32 : U32) + b.setWidth 32).setWidth 16)
      { s with AF.Lo := (s.AF.Lo &&& ~~~0x3b#8) ||| add16Or ((a.setWidth 32 : U32) + b.setWidth 32) (a.setWidth 32) (b.setWidth 32) } := by
  simp [addU16, add16Or]
@[z80helper] theorem addU16_run (a b : U16) (s : St) :
    addU16 a b s = .ok (add16 a b s.AF.Lo).1 { s with AF.Lo := (add16 a b s.AF.Lo).2 } := by
  rw [addU16_pre, add16_flags, add16_res a b s.AF.Lo]

theorem adcU16_pre (a b : U16) (s : St) :
    adcU16 a b s = .ok (((a.setWidth 32 : U32) + b.setWidth 32 + (s.AF.Lo &&& 1#8).setWidth 32).setWidth 16)
      { s with AF.Lo := arith16Or ((a.setWidth 32 : U32) + b.setWidth 32 + (s.AF.Lo &&& 1#8).setWidth 32) (a.setWidth 32) (b.setWidth 32) false } := by
  simp [adcU16, arith16Or]
  by_cases h : (BitVec.setWidth 16 ((a.setWidth 32 : U32) + b.setWidth 32 + (BitVec.setWidth 32 s.AF.Lo &&& 1#32)) : U16) = 0#16 <;> simp [h]
@[z80helper] theorem adcU16_run (a b : U16) (s : St) :
    adcU16 a b s = .ok (adc16 a b (carryIn s.AF.Lo)).1 { s with AF.Lo := (adc16 a b (carryIn s.AF.Lo)).2 } := by
  rw [adcU16_pre, carry32, adc16_flags, adc16_res]
  simp [carryIn]

theorem sbcU16_pre (a b : U16) (s : St) :
    sbcU16 a b s = .ok (((a.setWidth 32 : U32) - b.setWidth 32 - (s.AF.Lo &&& 1#8).setWidth 32).setWidth 16)
      { s with AF.Lo := arith16Or ((a.setWidth 32 : U32) - b.setWidth 32 - (s.AF.Lo &&& 1#8).setWidth 32) (a.setWidth 32) (b.setWidth 32) true } := by
  simp [sbcU16, arith16Or]
  by_cases h : (BitVec.setWidth 16 ((a.setWidth 32 : U32) - b.setWidth 32 - (BitVec.setWidth 32 s.AF.Lo &&& 1#32)) : U16) = 0#16 <;> simp [h]
@[z80helper] theorem sbcU16_run (a b : U16) (s : St) :
    sbcU16 a b s = .ok (sbc16 a b (carryIn s.AF.Lo)).1 { s with AF.Lo := (sbc16 a b (carryIn s.AF.Lo)).2 } := by
  rw [sbcU16_pre, carry32, sbc16_flags, sbc16_res]
  simp [carryIn]

end Z80
