/-
  C18 (Go glue) — the methods of internal/tinycpm that connect the CPU to the outside world, as TRANSLATED by go2lean on every
  run (Z80/Gen/CPMGlue.lean: Memory.Get/Set/put, IO.In/Out/SetStdout/SetWarnLogger), are what the console and memory model of
  Props/C18.lean says they are — for every argument:
    * IO.Out(0, v) hands exactly [v] to the configured writer and nothing else; IO.Out(p ≠ 0, v) and IO.In(p) only warn; In returns 0;
    * SetStdout replaces the writer that later output goes to; neither setter has any other effect;
    * Memory is a 65536-byte array: Get/Set never panic, Set changes exactly one byte, `put` copies a block that fits;
    * `glue_console`: driving the translated IO methods with ANY port log yields, on the configured writer, exactly
      `console log` byte for byte in program order, and exactly `warnings log` warnings.
-/
import Z80.Props.C18
import Z80.Gen.CPMGlue

namespace Z80.Props.C18Glue
open Z80 Z80.GoStore Z80.Gen.CPMGlue Z80.Props.C18

theorem methods_modelled : Gen.CPMGlue.methods =
    ["IO_In", "IO_Out", "IO_SetStdout", "IO_SetWarnLogger", "Memory_Get", "Memory_Set", "Memory_put"] := by decide
theorem untranslated_are_constructors : Gen.CPMGlue.untranslated.map (·.1) = ["LoadFile", "New", "NewIO", "NewMemory"] := by decide
/-- the functions that are NOT translated (constructors, file loading) are, statement by statement, what they were when the model was
    written: NewMemory allocates a Memory and installs exactly the three pages through `put` (the pages themselves are extracted as
    Gen.cpmBios); LoadFile puts the file's bytes at Start; NewIO / New only build the values -/
theorem untranslated_shapes : Gen.CPMGlue.untranslatedShapes = [
  ("LoadFile", ["assign prog, err := (call os ReadFile name", "if (!= err nil {return err}", "expr (call m put Start prog", "return nil"]),
  ("New", ["return (call NewMemory, (call NewIO"]),
  ("NewIO", ["return IO stdout os Stdout warnl (call log New os Stderr \"[WARN][IO]\" 0"]),
  ("NewMemory", ["assign m := (call new Memory", "expr (call m put 0x0000 bios0000", "expr (call m put 0xfe06 biosFE06", "expr (call m put 0xff03 biosFF03", "return m"])] := by decide
theorem buf_is_64k : Gen.CPMGlue.arrayLens = [("Memory.buf", 65536)] := by decide

-- ---------------------------------------------------------------------------
-- IO

theorem IO_In_eq (io : IO) (p : U8) : IO_In io p = some (io, [Effect.warn io.warnl], 0#8) := rfl

theorem IO_Out_eq (io : IO) (p v : U8) :
    IO_Out io p v = some (io, if p = 0#8 then [Effect.write io.stdout [v]] else [Effect.warn io.warnl]) := by
  unfold IO_Out
  by_cases h : p = 0#8 <;> simp [h]

theorem IO_SetStdout_eq (io : IO) (w : Nat) : IO_SetStdout io w = some ({ io with stdout := w }, []) := rfl
theorem IO_SetWarnLogger_eq (io : IO) (l : Nat) : IO_SetWarnLogger io l = some ({ io with warnl := l }, []) := rfl

/-- output after SetStdout goes to the new writer -/
theorem out_after_setStdout (io : IO) (w : Nat) (v : U8) :
    (IO_SetStdout io w).bind (fun r => IO_Out r.1 0#8 v) = some ({ io with stdout := w }, [Effect.write w [v]]) := by
  simp [IO_SetStdout_eq, IO_Out_eq]

/-- the bytes an effect list hands to writer w, in order -/
def written (w : Nat) : List Effect → List U8
  | [] => []
  | .write w' b :: rest => (if w' = w then b else []) ++ written w rest
  | .warn _ :: rest => written w rest
def warned : List Effect → Nat
  | [] => 0
  | .warn _ :: rest => warned rest + 1
  | .write _ _ :: rest => warned rest

theorem written_append (w : Nat) (a b : List Effect) : written w (a ++ b) = written w a ++ written w b := by
  induction a with
  | nil => rfl
  | cons e rest ih => cases e <;> simp [written, ih]
theorem warned_append (a b : List Effect) : warned (a ++ b) = warned a + warned b := by
  induction a with
  | nil => simp [warned]
  | cons e rest ih => cases e <;> simp [warned, ih] <;> omega

/-- drive the translated methods with the port accesses of a log (oldest first) -/
def drive (io : IO) : List Ev → Option (IO × List Effect)
  | [] => some (io, [])
  | .iow p v :: rest => do
    let (io, fx) ← IO_Out io p v
    let (io, fx') ← drive io rest
    pure (io, fx ++ fx')
  | .ior p _ :: rest => do
    let (io, fx, _) ← IO_In io p
    let (io, fx') ← drive io rest
    pure (io, fx ++ fx')
  | _ :: rest => drive io rest

def isPort : Ev → Bool
  | .ior _ _ => true
  | .iow _ _ => true
  | _ => false

theorem drive_spec (io : IO) (evs : List Ev) (hp : ∀ e ∈ evs, isPort e = true) :
    ∃ fx, drive io evs = some (io, fx) ∧ written io.stdout fx = evs.filterMap consoleSel ∧
      warned fx = (evs.filter fun e => (consoleSel e).isNone).length := by
  induction evs with
  | nil => exact ⟨[], rfl, rfl, rfl⟩
  | cons e rest ih =>
    obtain ⟨fx', h1, h2, h3⟩ := ih (fun e he => hp e (List.mem_cons_of_mem _ he))
    have he := hp e (List.mem_cons_self ..)
    cases e with
    | iow p v =>
      by_cases h0 : p = 0#8
      · refine ⟨[Effect.write io.stdout [v]] ++ fx', ?_, ?_, ?_⟩
        · simp [drive, IO_Out_eq, h0, h1]
        · simp [written, h2, consoleSel, h0]
        · simp [warned, h3, consoleSel, h0]
      · refine ⟨[Effect.warn io.warnl] ++ fx', ?_, ?_, ?_⟩
        · simp [drive, IO_Out_eq, h0, h1]
        · simp [written, h2, consoleSel, h0]
        · simp [warned, h3, consoleSel, h0]
    | ior p v =>
      refine ⟨[Effect.warn io.warnl] ++ fx', ?_, ?_, ?_⟩
      · simp [drive, IO_In_eq, h1]
      · simp [written, h2, consoleSel, List.filterMap_cons]
      · simp [warned, h3, consoleSel]
    | mr _ _ => simp [isPort] at he
    | mw _ _ => simp [isPort] at he
    | retn => simp [isPort] at he
    | reti => simp [isPort] at he
    | warn _ => simp [isPort] at he

/-- for ANY port log (newest first, as the model keeps it): what the translated IO methods hand to the configured writer is
    `console log`, byte for byte in program order, and they warn exactly `warnings log` times; the IO object is unchanged -/
theorem glue_console (io : IO) (pl : List Ev) (hp : ∀ e ∈ pl, isPort e = true) :
    ∃ fx, drive io pl.reverse = some (io, fx) ∧ written io.stdout fx = console pl ∧ warned fx = warnings pl := by
  obtain ⟨fx, h1, h2, h3⟩ := drive_spec io pl.reverse (fun e he => hp e (List.mem_reverse.mp he))
  refine ⟨fx, h1, by rw [h2]; rfl, ?_⟩
  rw [h3, warnings, List.filter_reverse, List.length_reverse]

-- ---------------------------------------------------------------------------
-- Memory: a 65536-byte array

def WF (m : Memory) : Prop := m.buf.length = 65536
theorem goLen_eq (l : List U8) : GoStore.goLen l = (l.length : Int) := rfl

theorem Memory_Get_eq (m : Memory) (h : WF m) (a : U16) :
    Memory_Get m a = some (m, [], m.buf[a.toNat]'(by have := a.isLt; unfold WF at h; omega)) := by
  have hlt : a.toNat < m.buf.length := by have := a.isLt; unfold WF at h; omega
  simp [Memory_Get, goIndex, List.getElem?_eq_getElem hlt]

theorem Memory_Set_eq (m : Memory) (h : WF m) (a : U16) (v : U8) :
    Memory_Set m a v = some ({ m with buf := m.buf.set a.toNat v }, []) ∧ WF { m with buf := m.buf.set a.toNat v } := by
  have hlt : a.toNat < m.buf.length := by have := a.isLt; unfold WF at h; omega
  constructor
  · simp [Memory_Set, goAssign, hlt]
  · simpa [WF] using h

/-- Get and Set never panic and have no effect on the outside world -/
theorem Memory_total (m : Memory) (h : WF m) (a : U16) (v : U8) : (Memory_Get m a).isSome ∧ (Memory_Set m a v).isSome := by
  rw [Memory_Get_eq m h, (Memory_Set_eq m h a v).1]; simp

/-- read after write -/
theorem Memory_get_set (m : Memory) (h : WF m) (a b : U16) (v : U8) :
    ∃ m', Memory_Set m a v = some (m', []) ∧ WF m' ∧
      ∃ x, Memory_Get m' b = some (m', [], x) ∧ x = if b = a then v else m.buf.getD b.toNat 0#8 := by
  obtain ⟨e, wf⟩ := Memory_Set_eq m h a v
  refine ⟨_, e, wf, _, Memory_Get_eq _ wf b, ?_⟩
  have hb : b.toNat < m.buf.length := by have := b.isLt; unfold WF at h; omega
  by_cases hab : b = a
  · subst hab; simp
  · have : a.toNat ≠ b.toNat := fun e => hab (BitVec.eq_of_toNat_eq e.symm)
    simp [hab, List.getElem_set_ne this, List.getD_eq_getElem?_getD, List.getElem?_eq_getElem hb]

/-- `put` copies a block that fits (the three BIOS pages and a program at 0100h up to FE05h do) and keeps the array's length -/
theorem Memory_put_eq (m : Memory) (h : WF m) (a : U16) (data : List U8) (hfit : a.toNat + data.length ≤ 65536) :
    ∃ m', Memory_put m a data = some (m', []) ∧ WF m' ∧
      m'.buf = m.buf.take a.toNat ++ data ++ m.buf.drop (a.toNat + data.length) := by
  unfold WF at h
  have hc : (0 : Int) ≤ (a.toNat : Int) ∧ (a.toNat : Int) ≤ (a.toNat : Int) + (data.length : Int) ∧
      (a.toNat : Int) + (data.length : Int) ≤ (m.buf.length : Int) := by omega
  have hn : min ((a.toNat : Int) + (data.length : Int) - (a.toNat : Int)).toNat data.length = data.length := by omega
  refine ⟨{ m with buf := m.buf.take a.toNat ++ data ++ m.buf.drop (a.toNat + data.length) }, ?_, ?_, rfl⟩
  · unfold Memory_put goCopy
    simp only [goLen_eq]
    try simp only [Int.ofNat_eq_natCast]
    simp only [hc, and_self, if_true, hn, List.take_length, Int.toNat_natCast, bind, Option.bind, pure]
  · show (m.buf.take a.toNat ++ data ++ m.buf.drop (a.toNat + data.length)).length = 65536
    simp only [List.length_append, List.length_take, List.length_drop]; omega

example : WF { buf := List.replicate 65536 0#8 } := List.length_replicate ..

end Z80.Props.C18Glue
