/-
  Z80.Proofs.Frame — what one reference instruction can NOT see or touch (facts about the
  specification, lifted to the generated code through `executeOne_eq`):
    * the pending request, the Memory-interface value and the breakpoint set are neither read nor written;
    * the halted indication is never read (only HALT writes it);
    * no reference instruction panics.
-/
import Z80.Proofs.Step
import Z80.Spec.Interrupt

namespace Z80
open Z80.Gen Z80.Spec
set_option maxRecDepth 8192

/-- apply a state function to the final state of a result -/
def Res.mapSt {α} (f : St → St) : Res α → Res α
  | .ok a s => .ok a (f s)
  | .panic e => .panic e
@[simp] theorem Res.mapSt_ok {α} (f : St → St) (a : α) (s : St) : (Res.ok a s).mapSt f = .ok a (f s) := rfl
@[simp] theorem Res.mapSt_panic {α} (f : St → St) (e : String) : (Res.panic e : Res α).mapSt f = .panic e := rfl
@[simp] theorem Res.mapSt_ite {α} (f : St → St) (c : Prop) [Decidable c] (x y : Res α) :
    (if c then x else y).mapSt f = if c then x.mapSt f else y.mapSt f := by split <;> rfl

/-- the three fields no instruction looks at -/
def setFrame (x : Option Interrupt) (m : MemVal) (b : Option (U16 → Bool)) (s : St) : St :=
  { s with Interrupt := x, Memory := m, BreakPoints := b }
def setHalt (h : Bool) (s : St) : St := { s with HALT := h }

macro "frame_fin" : tactic =>
  `(tactic| (simp [z80spec, setFrame, setHalt] <;> (repeat' (split <;> simp_all [setFrame, setHalt]))))

macro "instr_cases " i:ident : tactic => `(tactic| (
  cases $i:ident
  case ld8 d s' => cases d <;> cases s' <;> frame_fin
  case alu op src => cases src <;> frame_fin
  case bit b l => cases l <;> frame_fin
  case res b l => cases l <;> frame_fin
  case set b l => cases l <;> frame_fin
  case rot k l => cases l <;> frame_fin
  case inc8 l => cases l <;> frame_fin
  case dec8 l => cases l <;> frame_fin
  case ld8n l => cases l <;> frame_fin
  case add16 d s' => cases d <;> cases s' <;> frame_fin
  case blk k d r => cases k <;> frame_fin
  case jpcc c => cases c <;> frame_fin
  case jrcc c => cases c <;> frame_fin
  case callcc c => cases c <;> frame_fin
  case retcc c => cases c <;> frame_fin
  all_goals first | frame_fin | (rename_i a; cases a <;> frame_fin)))

set_option maxHeartbeats 4000000 in
/-- an instruction neither reads nor writes Interrupt / Memory / BreakPoints -/
theorem exec_frame (i : Instr) (x : Option Interrupt) (m : MemVal) (b : Option (U16 → Bool)) (s : St) :
    exec Impl.koron i (setFrame x m b s) = (exec Impl.koron i s).mapSt (setFrame x m b) := by
  instr_cases i

set_option maxHeartbeats 4000000 in
/-- an instruction never reads HALT: runs from states differing only in HALT differ only in HALT -/
theorem exec_halt_blind (i : Instr) (h : Bool) (s : St) :
    (exec Impl.koron i (setHalt h s)).mapSt (setHalt false) = (exec Impl.koron i s).mapSt (setHalt false) := by
  instr_cases i

set_option maxHeartbeats 4000000 in
/-- no reference instruction panics -/
theorem exec_total (i : Instr) (s : St) : ∃ t, exec Impl.koron i s = .ok () t := by
  instr_cases i

-- ---------------------------------------------------------------------------
-- lifting to a whole reference step

/-- `m` commutes with the state function `u`: it neither reads nor writes what `u` changes -/
def Commutes {α} (u : St → St) (m : M α) : Prop := ∀ s, m (u s) = (m s).mapSt u

theorem Commutes.pure {α} (u : St → St) (a : α) : Commutes u (pure a : M α) := fun _ => rfl
theorem Commutes.bind {α β} {u : St → St} {m : M α} {f : α → M β} (hm : Commutes u m) (hf : ∀ a, Commutes u (f a)) :
    Commutes u (m >>= f) := by
  intro s
  simp only [bind_run, hm s]
  cases m s with
  | ok a t => simp [hf a t]
  | panic e => rfl
theorem Commutes.ite {α} {u : St → St} (c : Prop) [Decidable c] {m n : M α} (hm : Commutes u m) (hn : Commutes u n) :
    Commutes u (if c then m else n) := by
  split <;> assumption

theorem fetch_commutes (x : Option Interrupt) (m : MemVal) (b : Option (U16 → Bool)) :
    Commutes (setFrame x m b) Spec.fetch := by
  intro s; simp [Spec.fetch, rd8, setFrame]
theorem fetchM1_commutes (x : Option Interrupt) (m : MemVal) (b : Option (U16 → Bool)) :
    Commutes (setFrame x m b) Spec.fetchM1 := by
  intro s; simp [Spec.fetchM1, Spec.fetch, rd8, setFrame]
theorem execOpt_commutes (x : Option Interrupt) (m : MemVal) (b : Option (U16 → Bool)) (bytes : List U8) (oi : Option Instr) :
    Commutes (setFrame x m b) (execOpt Impl.koron bytes oi) := by
  intro s
  cases oi with
  | some i => exact exec_frame i x m b s
  | none => simp [execOpt, consumed, setFrame]

/-- a whole reference instruction neither reads nor writes the pending request, the Memory-interface value or
    the breakpoint set -/
theorem executeOne_commutes (x : Option Interrupt) (m : MemVal) (b : Option (U16 → Bool)) :
    Commutes (setFrame x m b) (Spec.executeOne Impl.koron) := by
  unfold Spec.executeOne
  refine Commutes.bind (fetchM1_commutes x m b) (fun c0 => ?_)
  unfold execMain
  refine Commutes.ite _ (Commutes.bind (fetchM1_commutes x m b) (fun c1 => fun s => exec_frame _ x m b s)) ?_
  refine Commutes.ite _ (Commutes.bind (fetchM1_commutes x m b) (fun c1 => execOpt_commutes x m b _ _)) ?_
  have hxy : ∀ i : XY, Commutes (setFrame x m b) (execXY Impl.koron i c0) := by
    intro i
    unfold execXY
    refine Commutes.bind (fetchM1_commutes x m b) (fun c1 => ?_)
    unfold execXYtail
    refine Commutes.ite _ ?_ (execOpt_commutes x m b _ _)
    unfold execXYCB
    refine Commutes.bind (fetch_commutes x m b) (fun d => ?_)
    refine Commutes.bind ?_ (fun c3 => execOpt_commutes x m b _ _)
    exact Commutes.ite _ (fetchM1_commutes x m b) (fetch_commutes x m b)
  exact Commutes.ite _ (hxy _) (Commutes.ite _ (hxy _) (execOpt_commutes x m b _ _))

/-- no reference step panics -/
theorem executeOne_total (s : St) : ∃ t, Spec.executeOne Impl.koron s = .ok () t := by
  have hopt : ∀ bytes oi s, ∃ t, execOpt Impl.koron bytes oi s = .ok () t := by
    intro bytes oi s
    cases oi with
    | some i => exact exec_total i s
    | none => exact ⟨_, rfl⟩
  simp only [Spec.executeOne, Spec.fetchM1, Spec.fetch, rd8, bind_run, getSt_run, userGet_run, Res.bind_ok, modifySt_run,
    pure_run, execMain, execXY, execXYtail, execXYCB, ite_run]
  split
  · exact exec_total _ _
  split
  · exact hopt _ _ _
  split
  · split
    · split <;> simp only [Spec.fetchM1, Spec.fetch, rd8, bind_run, getSt_run, userGet_run, Res.bind_ok, modifySt_run, pure_run] <;>
        exact hopt _ _ _
    · exact hopt _ _ _
  split
  · split
    · split <;> simp only [Spec.fetchM1, Spec.fetch, rd8, bind_run, getSt_run, userGet_run, Res.bind_ok, modifySt_run, pure_run] <;>
        exact hopt _ _ _
    · exact hopt _ _ _
  · exact hopt _ _ _

-- ---------------------------------------------------------------------------
-- the generated code, through `executeOne_eq`

/-- the generated `executeOne` on a user memory: total, keeps Memory / Interrupt / BreakPoints -/
theorem gen_executeOne_ok (s : St) (h : s.Memory = .user) :
    ∃ t, Gen.executeOne s = .ok () t ∧ t.Memory = .user ∧ t.Interrupt = s.Interrupt ∧ t.BreakPoints = s.BreakPoints := by
  rw [executeOne_eq s h]
  obtain ⟨t, ht⟩ := executeOne_total s
  refine ⟨t, ht, ?_⟩
  have hc := executeOne_commutes s.Interrupt s.Memory s.BreakPoints s
  have e : setFrame s.Interrupt s.Memory s.BreakPoints s = s := rfl
  rw [e, ht] at hc
  simp only [Res.mapSt_ok, Res.ok.injEq, true_and] at hc
  rw [hc]
  simp [setFrame, h]

end Z80
