/-
  Z80.Spec.ZexEncode — a Go exerciser table entry (as extracted by go2lean) as the 65 record bytes + description.
-/
import Z80.Gen.ZexData
import Z80.Spec.Zex

namespace Z80.Spec
open Z80.Gen

/-- a Go table entry as (65 record bytes, description) -/
def encodeCase (c : ZexCase) : List Nat × String := (recordBytes c.mask c.base c.inc c.shift c.crc, stripDots c.desc)
def normaliseRec (r : List Nat × String) : List Nat × String := (r.1, stripDots r.2)

end Z80.Spec
