/-
  C18 — the mini CP/M machine prints what programs ask for and returns control correctly.

  The BDOS stub is Z80 machine code stored in tinycpm.go; go2lean extracts the pages NewMemory installs on every run
  (Gen.cpmBios) and the theorems below run the REGENERATED CPU model (Gen.Step, through C01) over those bytes:
    * `stub`: the bytes of the stub and of the page-0 vectors, read off the regenerated table (kernel evaluation);
    * `C18_fn2`: CALL 5 with C = 2 writes exactly the byte in E to port 0 and returns (7 Steps);
    * `C18_fn9`: CALL 5 with C = 9 writes exactly the bytes from DE up to the first '$' — for EVERY string, by
      induction (`putstr`): any length, any byte values (00h, >= 80h), any address, wrapping past FFFFh — and returns;
      in both cases PC = the return address on the stack, SP popped, memory (hence the caller's code) untouched;
    * `C18_exit`: a jump to address 0 ends halted at FF03h;
    * the console model: bytes written to port 0 in program order; other ports and reads only warn.
  tinycpm.Memory (a byte array) and tinycpm.IO (writer / logger) are translated from the Go source on every run
  (Z80/Gen/CPMGlue.lean) and proved equal to the console / byte-array model used here in Props/C18Glue.lean; the whole
  machine is compared with the real package by the `cpm` and `cpmglue` correspondences (a copy of internal/tinycpm
  taken at check time).
-/
import Z80.Gen.TinyCPM
import Z80.Props.C01
import Z80.Proofs.RunLoop
import Z80.Proofs.Frame
import Z80.Proofs.Block
import Z80.Props.C10

namespace Z80.Props.C18
open Z80 Z80.Gen Z80.Spec
set_option maxRecDepth 8192

/-- the byte NewMemory installs at address a, if any (later pages win, as `put` overwrites) -/
def biosByte (a : Nat) : Option Nat :=
  cpmBios.reverse.findSome? (fun p => if p.1 ≤ a ∧ a < p.1 + p.2.length then p.2[a - p.1]? else none)

/-- memory still holds the BIOS pages -/
def Loaded (m : U16 → U8) : Prop := ∀ (a : U16) (b : Nat), biosByte a.toNat = some b → m a = BitVec.ofNat 8 b

theorem cp8_z (a b : U8) : (cp8 a b)[6] = (a == b) := by
  have ha := a.isLt; have hb := b.isLt
  rw [← BitVec.getLsbD_eq_getElem]
  simp only [cp8, sub8, keepBits, BitVec.getLsbD_or, BitVec.getLsbD_and, BitVec.getLsbD_not, flags_bit6]
  have h6 : (0x28#8 : U8).getLsbD 6 = false := by decide
  have e : (BitVec.ofInt 8 ((a.toNat : Int) - (b.toNat : Int)) == 0#8) = (a == b) := by
    rw [Bool.eq_iff_iff]
    simp only [beq_iff_eq]
    constructor
    · intro h
      have := congrArg BitVec.toNat h
      simp [BitVec.toNat_ofInt] at this
      apply BitVec.eq_of_toNat_eq; omega
    · intro h; subst h; simp
  simpa [h6] using e

/-- the bytes of the BDOS stub and the page-0 vectors, read off the regenerated table -/
theorem stub (m : U16 → U8) (h : Loaded m) :
    m 0x0000#16 = 0xc3#8 ∧ m 0x0001#16 = 0x03#8 ∧ m 0x0002#16 = 0xff#8 ∧
    m 0x0005#16 = 0xc3#8 ∧ m 0x0006#16 = 0x06#8 ∧ m 0x0007#16 = 0xfe#8 ∧
    m 0xfe06#16 = 0x79#8 ∧ m 0xfe07#16 = 0xfe#8 ∧ m 0xfe08#16 = 0x02#8 ∧ m 0xfe09#16 = 0x28#8 ∧ m 0xfe0a#16 = 0x05#8 ∧
    m 0xfe0b#16 = 0xfe#8 ∧ m 0xfe0c#16 = 0x09#8 ∧ m 0xfe0d#16 = 0x28#8 ∧ m 0xfe0e#16 = 0x05#8 ∧ m 0xfe0f#16 = 0x76#8 ∧
    m 0xfe10#16 = 0x7b#8 ∧ m 0xfe11#16 = 0xd3#8 ∧ m 0xfe12#16 = 0x00#8 ∧ m 0xfe13#16 = 0xc9#8 ∧
    m 0xfe14#16 = 0x1a#8 ∧ m 0xfe15#16 = 0xfe#8 ∧ m 0xfe16#16 = 0x24#8 ∧ m 0xfe17#16 = 0xc8#8 ∧ m 0xfe18#16 = 0xd3#8 ∧
    m 0xfe19#16 = 0x00#8 ∧ m 0xfe1a#16 = 0x13#8 ∧ m 0xfe1b#16 = 0x18#8 ∧ m 0xfe1c#16 = 0xf7#8 ∧ m 0xff03#16 = 0x76#8 := by
  refine ⟨?_, ?_, ?_, ?_, ?_, ?_, ?_, ?_, ?_, ?_, ?_, ?_, ?_, ?_, ?_, ?_, ?_, ?_, ?_, ?_, ?_, ?_, ?_, ?_, ?_, ?_, ?_, ?_, ?_, ?_⟩ <;>
    exact h _ _ (by decide)

/-- what none of the stub's instructions changes (except where a lemma says otherwise) -/
structure Keep (u t : St) : Prop where
  mem : t.mem = u.mem
  sp : t.SP = u.SP
  bc : t.BC = u.BC
  de : t.DE = u.DE
  hl : t.HL = u.HL
  io : t.IO = u.IO
  req : t.Interrupt = none
  user : t.Memory = .user
  halt : t.HALT = u.HALT

theorem Keep.trans {a b c : St} (h1 : Keep a b) (h2 : Keep b c) : Keep a c :=
  ⟨h2.mem.trans h1.mem, h2.sp.trans h1.sp, h2.bc.trans h1.bc, h2.de.trans h1.de, h2.hl.trans h1.hl, h2.io.trans h1.io, h2.req, h2.user,
   h2.halt.trans h1.halt⟩

section instr
variable (u : St) (h₁ : u.Interrupt = none) (h₂ : u.Memory = .user)
include h₁ h₂

theorem i_jp (lo hi : U8) (m0 : u.mem u.PC = 0xc3#8) (m1 : u.mem (u.PC + 1#16) = lo) (m2 : u.mem (u.PC + 2#16) = hi) :
    ∃ t, Gen.Step u = .ok () t ∧ Keep u t ∧ t.PC = mk16 hi lo ∧ t.AF = u.AF ∧ portLog t.log = portLog u.log := by
  rw [C01.C01_step u h₁ h₂]
  refine ⟨_, by simp [Spec.executeOne, Spec.fetchM1, Spec.fetch, Spec.fetch16, rd8, execMain, execOpt, decodeBase, exec, m0]; rfl, ?_, ?_, ?_, ?_⟩
  · constructor <;> simp [h₁, h₂]
  all_goals simp [m1, m2, z80helper]

theorem i_ld_a_r (op : U8) (hop : u.mem u.PC = op) (hsel : op = 0x79#8 ∨ op = 0x7b#8) :
    ∃ t, Gen.Step u = .ok () t ∧ Keep u t ∧ t.PC = u.PC + 1#16 ∧ t.AF.Hi = (if op = 0x79#8 then u.BC.Lo else u.DE.Lo) ∧
      portLog t.log = portLog u.log := by
  rw [C01.C01_step u h₁ h₂]
  rcases hsel with rfl | rfl <;>
  · refine ⟨_, by simp [Spec.executeOne, Spec.fetchM1, Spec.fetch, rd8, execMain, execOpt, decodeBase, exec, hop, r8, isMem, getLocReg, setLocReg, getR, setR]; rfl, ?_, ?_, ?_, ?_⟩
    · constructor <;> simp [h₁, h₂, getLocReg, setLocReg, getR, setR]
    all_goals simp [getLocReg, setLocReg, getR, setR]

theorem i_cp_n (n : U8) (m0 : u.mem u.PC = 0xfe#8) (m1 : u.mem (u.PC + 1#16) = n) :
    ∃ t, Gen.Step u = .ok () t ∧ Keep u t ∧ t.PC = u.PC + 2#16 ∧ t.AF.Hi = u.AF.Hi ∧ t.AF.Lo[6] = (u.AF.Hi == n) ∧
      portLog t.log = portLog u.log := by
  rw [C01.C01_step u h₁ h₂]
  refine ⟨_, by simp [Spec.executeOne, Spec.fetchM1, Spec.fetch, rd8, execMain, execOpt, decodeBase, exec, m0, aluOf, doAlu, aluApply]; rfl, ?_, ?_, ?_, ?_, ?_⟩
  · constructor <;> simp [h₁, h₂]
  all_goals simp [m1, z80helper, cp8_z]

theorem i_jr_z (e : U8) (m0 : u.mem u.PC = 0x28#8) (m1 : u.mem (u.PC + 1#16) = e) :
    ∃ t, Gen.Step u = .ok () t ∧ Keep u t ∧ t.PC = (if u.AF.Lo[6] then addDisp (u.PC + 2#16) e else u.PC + 2#16) ∧ t.AF = u.AF ∧
      portLog t.log = portLog u.log := by
  rw [C01.C01_step u h₁ h₂]
  by_cases hz : u.AF.Lo[6] = true
  · refine ⟨_, by simp [Spec.executeOne, Spec.fetchM1, Spec.fetch, rd8, execMain, execOpt, decodeBase, exec, m0, condOf, condHolds, hz]; rfl, ?_, ?_, ?_, ?_⟩
    · constructor <;> simp [h₁, h₂]
    all_goals simp [m1, hz, z80helper]
  · have hz' : u.AF.Lo[6] = false := by simpa using hz
    refine ⟨_, by simp [Spec.executeOne, Spec.fetchM1, Spec.fetch, rd8, execMain, execOpt, decodeBase, exec, m0, condOf, condHolds, hz']; rfl, ?_, ?_, ?_, ?_⟩
    · constructor <;> simp [h₁, h₂]
    all_goals simp [m1, hz', z80helper]

theorem i_jr (e : U8) (m0 : u.mem u.PC = 0x18#8) (m1 : u.mem (u.PC + 1#16) = e) :
    ∃ t, Gen.Step u = .ok () t ∧ Keep u t ∧ t.PC = addDisp (u.PC + 2#16) e ∧ t.AF = u.AF ∧ portLog t.log = portLog u.log := by
  rw [C01.C01_step u h₁ h₂]
  refine ⟨_, by simp [Spec.executeOne, Spec.fetchM1, Spec.fetch, rd8, execMain, execOpt, decodeBase, exec, m0]; rfl, ?_, ?_, ?_, ?_⟩
  · constructor <;> simp [h₁, h₂]
  all_goals simp [m1, z80helper]

theorem i_out_n (hio : u.IO = true) (n : U8) (m0 : u.mem u.PC = 0xd3#8) (m1 : u.mem (u.PC + 1#16) = n) :
    ∃ t, Gen.Step u = .ok () t ∧ Keep u t ∧ t.PC = u.PC + 2#16 ∧ t.AF = u.AF ∧ portLog t.log = .iow n u.AF.Hi :: portLog u.log := by
  rw [C01.C01_step u h₁ h₂]
  refine ⟨_, by simp [Spec.executeOne, Spec.fetchM1, Spec.fetch, rd8, execMain, execOpt, decodeBase, exec, m0, portOut, hio, ioOutUser]; rfl, ?_, ?_, ?_, ?_⟩
  · constructor <;> simp [h₁, h₂, hio]
  all_goals simp [m1, z80helper]

theorem i_ret (m0 : u.mem u.PC = 0xc9#8) :
    ∃ t, Gen.Step u = .ok () t ∧ t.PC = mk16 (u.mem (u.SP + 1#16)) (u.mem u.SP) ∧ t.SP = u.SP + 2#16 ∧ t.mem = u.mem ∧ t.BC = u.BC ∧
      t.DE = u.DE ∧ t.HL = u.HL ∧ t.Interrupt = none ∧ t.Memory = .user ∧ t.IO = u.IO ∧ t.HALT = u.HALT ∧ portLog t.log = portLog u.log := by
  rw [C01.C01_step u h₁ h₂]
  refine ⟨_, by simp [Spec.executeOne, Spec.fetchM1, Spec.fetch, rd8, rd16, execMain, execOpt, decodeBase, exec, m0, pop16]; rfl, ?_⟩
  simp [h₁, h₂, z80helper]

theorem i_ret_z (m0 : u.mem u.PC = 0xc8#8) :
    ∃ t, Gen.Step u = .ok () t ∧ t.PC = (if u.AF.Lo[6] then mk16 (u.mem (u.SP + 1#16)) (u.mem u.SP) else u.PC + 1#16) ∧
      t.SP = (if u.AF.Lo[6] then u.SP + 2#16 else u.SP) ∧ t.mem = u.mem ∧ t.BC = u.BC ∧ t.DE = u.DE ∧ t.HL = u.HL ∧ t.AF = u.AF ∧
      t.Interrupt = none ∧ t.Memory = .user ∧ t.IO = u.IO ∧ t.HALT = u.HALT ∧ portLog t.log = portLog u.log := by
  rw [C01.C01_step u h₁ h₂]
  by_cases hz : u.AF.Lo[6] = true
  · refine ⟨_, by simp [Spec.executeOne, Spec.fetchM1, Spec.fetch, rd8, rd16, execMain, execOpt, decodeBase, exec, m0, pop16, condOf, condHolds, hz]; rfl, ?_⟩
    simp [h₁, h₂, hz, z80helper]
  · have hz' : u.AF.Lo[6] = false := by simpa using hz
    refine ⟨_, by simp [Spec.executeOne, Spec.fetchM1, Spec.fetch, rd8, rd16, execMain, execOpt, decodeBase, exec, m0, pop16, condOf, condHolds, hz']; rfl, ?_⟩
    simp [h₁, h₂, hz', z80helper]

theorem i_ld_a_de (m0 : u.mem u.PC = 0x1a#8) :
    ∃ t, Gen.Step u = .ok () t ∧ Keep u t ∧ t.PC = u.PC + 1#16 ∧ t.AF.Hi = u.mem (regU16 u.DE) ∧ portLog t.log = portLog u.log := by
  rw [C01.C01_step u h₁ h₂]
  refine ⟨_, by simp [Spec.executeOne, Spec.fetchM1, Spec.fetch, rd8, execMain, execOpt, decodeBase, exec, m0]; rfl, ?_, ?_, ?_, ?_⟩
  · constructor <;> simp [h₁, h₂]
  all_goals simp [z80helper]

theorem i_inc_de (m0 : u.mem u.PC = 0x13#8) :
    ∃ t, Gen.Step u = .ok () t ∧ t.PC = u.PC + 1#16 ∧ regU16 t.DE = regU16 u.DE + 1#16 ∧ t.SP = u.SP ∧ t.mem = u.mem ∧ t.BC = u.BC ∧
      t.HL = u.HL ∧ t.AF = u.AF ∧ t.Interrupt = none ∧ t.Memory = .user ∧ t.IO = u.IO ∧ t.HALT = u.HALT ∧ portLog t.log = portLog u.log := by
  rw [C01.C01_step u h₁ h₂]
  refine ⟨_, by simp [Spec.executeOne, Spec.fetchM1, Spec.fetch, rd8, execMain, execOpt, decodeBase, exec, m0, rpOf, get16, set16]; rfl, ?_⟩
  simp [h₁, h₂, z80helper, regU16_regOf]

theorem i_halt (m0 : u.mem u.PC = 0x76#8) :
    ∃ t, Gen.Step u = .ok () t ∧ t.PC = u.PC ∧ t.HALT = true ∧ t.SP = u.SP ∧ t.mem = u.mem ∧ portLog t.log = portLog u.log := by
  rw [C01.C01_step u h₁ h₂]
  refine ⟨_, by simp [Spec.executeOne, Spec.fetchM1, Spec.fetch, rd8, execMain, execOpt, decodeBase, exec, m0]; rfl, ?_⟩
  simp [z80helper]

end instr

-- address arithmetic of the stub (closed terms, kernel evaluation)
private theorem ad1 : mk16 0xfe#8 0x06#8 = 0xfe06#16 := by decide
private theorem ad2 : addDisp (0xfe09#16 + 2#16) 0x05#8 = 0xfe10#16 := by decide
private theorem ad3 : addDisp (0xfe0d#16 + 2#16) 0x05#8 = 0xfe14#16 := by decide
private theorem ad4 : addDisp (0xfe1b#16 + 2#16) 0xf7#8 = 0xfe14#16 := by decide
private theorem ad5 : mk16 0xff#8 0x03#8 = 0xff03#16 := by decide

/-- entry through the vector at 0005h up to the dispatch: after 3 Steps the stub is at FE09h with A = C and
    Z = (C = 2) -/
theorem entry (s : St) (h₁ : s.Interrupt = none) (h₂ : s.Memory = .user) (hl : Loaded s.mem) (hpc : s.PC = 0x0005#16) :
    ∃ t, stepN 3 s = .ok () t ∧ Keep s t ∧ t.PC = 0xfe09#16 ∧ t.AF.Hi = s.BC.Lo ∧ t.AF.Lo[6] = (s.BC.Lo == 2#8) ∧
      portLog t.log = portLog s.log := by
  obtain ⟨_, _, _, a5, a6, a7, b0, b1, b2, _⟩ := stub s.mem hl
  obtain ⟨s1, e1, k1, pc1, _, l1⟩ := i_jp s h₁ h₂ 0x06#8 0xfe#8 (by rw [hpc]; exact a5) (by rw [hpc]; simpa using a6) (by rw [hpc]; simpa using a7)
  rw [ad1] at pc1
  obtain ⟨s2, e2, k2, pc2, a2, l2⟩ := i_ld_a_r s1 k1.req k1.user 0x79#8 (by rw [k1.mem, pc1]; exact b0) (.inl rfl)
  rw [pc1] at pc2
  obtain ⟨s3, e3, k3, pc3, a3, z3, l3⟩ := i_cp_n s2 k2.req k2.user 0x02#8 (by rw [k2.mem, k1.mem, pc2]; simpa using b1)
    (by rw [k2.mem, k1.mem, pc2]; simpa using b2)
  refine ⟨s3, by simp [stepN, e1, e2, e3], k1.trans (k2.trans k3), by rw [pc3, pc2]; decide, ?_, ?_, by rw [l3, l2, l1]⟩
  · rw [a3, a2]; simp [k1.bc]
  · rw [z3, a2]; simp [k1.bc]

/-- function 2: CALL 5 with C = 2 writes the byte in E to port 0 and returns to the caller: 7 Steps from the
    vector, PC = the return address on the stack, SP popped, memory untouched, exactly one port access -/
theorem C18_fn2 (s : St) (h₁ : s.Interrupt = none) (h₂ : s.Memory = .user) (hio : s.IO = true) (hl : Loaded s.mem)
    (hpc : s.PC = 0x0005#16) (hc : s.BC.Lo = 2#8) :
    ∃ t, stepN 7 s = .ok () t ∧ t.PC = mk16 (s.mem (s.SP + 1#16)) (s.mem s.SP) ∧ t.SP = s.SP + 2#16 ∧ t.mem = s.mem ∧
      portLog t.log = .iow 0#8 s.DE.Lo :: portLog s.log ∧ t.BC = s.BC ∧ t.DE = s.DE ∧ t.HL = s.HL ∧ t.HALT = s.HALT := by
  obtain ⟨_, _, _, _, _, _, _, _, _, b3, b4, _, _, _, _, _, c0, c1, c2, c3, _⟩ := stub s.mem hl
  obtain ⟨s3, e3, k3, pc3, a3, z3, l3⟩ := entry s h₁ h₂ hl hpc
  have hz : s3.AF.Lo[6] = true := by rw [z3, hc]; rfl
  obtain ⟨s4, e4, k4, pc4, f4, l4⟩ := i_jr_z s3 k3.req k3.user 0x05#8 (by rw [k3.mem, pc3]; exact b3) (by rw [k3.mem, pc3]; simpa using b4)
  rw [hz, pc3] at pc4
  simp only [if_true, ad2] at pc4
  obtain ⟨s5, e5, k5, pc5, a5, l5⟩ := i_ld_a_r s4 k4.req k4.user 0x7b#8 (by rw [k4.mem, k3.mem, pc4]; exact c0) (.inr rfl)
  rw [pc4] at pc5
  have hm5 : s5.mem = s.mem := by rw [k5.mem, k4.mem, k3.mem]
  obtain ⟨s6, e6, k6, pc6, f6, l6⟩ := i_out_n s5 k5.req k5.user (by rw [k5.io, k4.io, k3.io]; exact hio) 0x00#8
    (by rw [hm5, pc5]; simpa using c1) (by rw [hm5, pc5]; simpa using c2)
  rw [pc5] at pc6
  obtain ⟨t, e7, pc7, sp7, m7, bc7, de7, hl7, _, _, _, ht7, l7⟩ := i_ret s6 k6.req k6.user (by rw [k6.mem, hm5, pc6]; simpa using c3)
  have hsp6 : s6.SP = s.SP := by rw [k6.sp, k5.sp, k4.sp, k3.sp]
  refine ⟨t, ?_, ?_, by rw [sp7, hsp6], by rw [m7, k6.mem, hm5], ?_, by rw [bc7, k6.bc, k5.bc, k4.bc, k3.bc],
    by rw [de7, k6.de, k5.de, k4.de, k3.de], by rw [hl7, k6.hl, k5.hl, k4.hl, k3.hl], by rw [ht7, k6.halt, k5.halt, k4.halt, k3.halt]⟩
  · rw [show (7 : Nat) = 3 + 4 from rfl, Props.C10.C10_snapshot 3 4 s, e3]
    simp [stepN, e4, e5, e6, e7]
  · rw [pc7, k6.mem, hm5, hsp6]
  · rw [l7, l6, l5, l4, l3]
    have : s5.AF.Hi = s.DE.Lo := by rw [a5]; simp [k4.de, k3.de]
    rw [this]

/-- the print-string loop at FE14h: from ANY state there with DE pointing at a string without '$' followed by
    '$' (the string may lie anywhere, wrap past FFFFh, contain 00h or bytes ≥ 80h), 6·len + 3 Steps later every
    byte has been written to port 0 in order and the stub has returned -/
theorem putstr (str : List U8) : ∀ (u : St), u.Interrupt = none → u.Memory = .user → u.IO = true → Loaded u.mem →
    u.PC = 0xfe14#16 →
    (∀ i (h : i < str.length), u.mem (regU16 u.DE + BitVec.ofNat 16 i) = str[i] ∧ str[i] ≠ 0x24#8) →
    u.mem (regU16 u.DE + BitVec.ofNat 16 str.length) = 0x24#8 →
    ∃ t, stepN (6 * str.length + 3) u = .ok () t ∧ t.PC = mk16 (u.mem (u.SP + 1#16)) (u.mem u.SP) ∧ t.SP = u.SP + 2#16 ∧
      t.mem = u.mem ∧ portLog t.log = (str.map (Ev.iow 0#8)).reverse ++ portLog u.log ∧ t.BC = u.BC ∧ t.HL = u.HL ∧
      t.HALT = u.HALT ∧ regU16 t.DE = regU16 u.DE + BitVec.ofNat 16 str.length := by
  induction str with
  | nil =>
    intro u h₁ h₂ hio hl hpc _ hend
    obtain ⟨_, _, _, _, _, _, _, _, _, _, _, _, _, _, _, _, _, _, _, _, d0, d1, d2, d3, _⟩ := stub u.mem hl
    simp only [List.length_nil, BitVec.ofNat_eq_ofNat, BitVec.add_zero] at hend
    obtain ⟨s1, e1, k1, pc1, a1, l1⟩ := i_ld_a_de u h₁ h₂ (by rw [hpc]; exact d0)
    rw [hpc] at pc1
    obtain ⟨s2, e2, k2, pc2, a2, z2, l2⟩ := i_cp_n s1 k1.req k1.user 0x24#8 (by rw [k1.mem, pc1]; simpa using d1) (by rw [k1.mem, pc1]; simpa using d2)
    rw [pc1] at pc2
    have hz : s2.AF.Lo[6] = true := by rw [z2, a1, hend]; rfl
    obtain ⟨t, e3, pc3, sp3, m3, bc3, de3, hl3, _, _, _, _, ht3, l3⟩ := i_ret_z s2 k2.req k2.user (by rw [k2.mem, k1.mem, pc2]; simpa using d3)
    simp only [hz, if_true] at pc3 sp3
    refine ⟨t, by simp [stepN, e1, e2, e3], by rw [pc3, k2.mem, k1.mem, k2.sp, k1.sp], by rw [sp3, k2.sp, k1.sp], by rw [m3, k2.mem, k1.mem],
      by rw [l3, l2, l1]; simp, by rw [bc3, k2.bc, k1.bc], by rw [hl3, k2.hl, k1.hl], by rw [ht3, k2.halt, k1.halt], by rw [de3, k2.de, k1.de]; simp⟩
  | cons c rest ih =>
    intro u h₁ h₂ hio hl hpc hstr hend
    obtain ⟨_, _, _, _, _, _, _, _, _, _, _, _, _, _, _, _, _, _, _, _, d0, d1, d2, d3, d4, d5, d6, d7, d8, _⟩ := stub u.mem hl
    have h0 := hstr 0 (by simp)
    simp only [BitVec.ofNat_eq_ofNat, BitVec.add_zero, List.getElem_cons_zero] at h0
    obtain ⟨s1, e1, k1, pc1, a1, l1⟩ := i_ld_a_de u h₁ h₂ (by rw [hpc]; exact d0)
    rw [hpc] at pc1
    obtain ⟨s2, e2, k2, pc2, a2, z2, l2⟩ := i_cp_n s1 k1.req k1.user 0x24#8 (by rw [k1.mem, pc1]; simpa using d1) (by rw [k1.mem, pc1]; simpa using d2)
    rw [pc1] at pc2
    have hm2 : s2.mem = u.mem := by rw [k2.mem, k1.mem]
    have hz : s2.AF.Lo[6] = false := by rw [z2, a1, h0.1]; simpa using h0.2
    obtain ⟨s3, e3, pc3, sp3, m3, bc3, de3, hl3, af3, r3, us3, io3, ht3, l3⟩ := i_ret_z s2 k2.req k2.user (by rw [hm2, pc2]; simpa using d3)
    simp only [hz, Bool.false_eq_true, if_false] at pc3 sp3
    rw [pc2] at pc3
    have hm3 : s3.mem = u.mem := by rw [m3, hm2]
    obtain ⟨s4, e4, k4, pc4, f4, l4⟩ := i_out_n s3 r3 us3 (by rw [io3, k2.io, k1.io]; exact hio) 0x00#8 (by rw [hm3, pc3]; simpa using d4)
      (by rw [hm3, pc3]; simpa using d5)
    rw [pc3] at pc4
    have hm4 : s4.mem = u.mem := by rw [k4.mem, hm3]
    obtain ⟨s5, e5, pc5, de5, sp5, m5, bc5, hl5, af5, r5, us5, io5, ht5, l5⟩ := i_inc_de s4 k4.req k4.user (by rw [hm4, pc4]; simpa using d6)
    rw [pc4] at pc5
    have hm5 : s5.mem = u.mem := by rw [m5, hm4]
    obtain ⟨s6, e6, k6, pc6, f6, l6⟩ := i_jr s5 r5 us5 0xf7#8 (by rw [hm5, pc5]; simpa using d7) (by rw [hm5, pc5]; simpa using d8)
    rw [pc5] at pc6
    have pc6' : s6.PC = 0xfe14#16 := by rw [pc6]; decide
    have hm6 : s6.mem = u.mem := by rw [k6.mem, hm5]
    have hde6 : regU16 s6.DE = regU16 u.DE + 1#16 := by rw [k6.de, de5, k4.de, de3, k2.de, k1.de]
    have hsp6 : s6.SP = u.SP := by rw [k6.sp, sp5, k4.sp, sp3, k2.sp, k1.sp]
    have hio6 : s6.IO = true := by rw [k6.io, io5, k4.io, io3, k2.io, k1.io]; exact hio
    obtain ⟨t, et, pct, spt, mt, lt, bct, hlt, htt, det⟩ := ih s6 k6.req k6.user hio6 (by rw [hm6]; exact hl) pc6'
      (by
        intro i hi
        have := hstr (i+1) (by simpa using hi)
        simp only [List.getElem_cons_succ] at this
        rw [hm6, hde6]
        have e : regU16 u.DE + 1#16 + BitVec.ofNat 16 i = regU16 u.DE + BitVec.ofNat 16 (i + 1) := by
          rw [BitVec.add_assoc]; congr 1; apply BitVec.eq_of_toNat_eq; simp [Nat.add_comm]
        rw [e]; exact this)
      (by
        rw [hm6, hde6]
        have e : regU16 u.DE + 1#16 + BitVec.ofNat 16 rest.length = regU16 u.DE + BitVec.ofNat 16 (rest.length + 1) := by
          rw [BitVec.add_assoc]; congr 1; apply BitVec.eq_of_toNat_eq; simp [Nat.add_comm]
        rw [e]; simpa using hend)
    have hsix : stepN 6 u = .ok () s6 := by simp [stepN, e1, e2, e3, e4, e5, e6]
    refine ⟨t, ?_, by rw [pct, hm6, hsp6], by rw [spt, hsp6], by rw [mt, hm6], ?_, by rw [bct, k6.bc, bc5, k4.bc, bc3, k2.bc, k1.bc],
      by rw [hlt, k6.hl, hl5, k4.hl, hl3, k2.hl, k1.hl], by rw [htt, k6.halt, ht5, k4.halt, ht3, k2.halt, k1.halt], ?_⟩
    · rw [show 6 * (c :: rest).length + 3 = 6 + (6 * rest.length + 3) by simp; omega, Props.C10.C10_snapshot 6 _ u, hsix]
      exact et
    · rw [lt, l6, l5, l4, l3, l2, l1]
      have : s3.AF.Hi = c := by rw [af3, a2, a1, h0.1]
      simp [this]
    · rw [det, hde6]
      rw [BitVec.add_assoc]; congr 1; apply BitVec.eq_of_toNat_eq; simp [Nat.add_comm]

/-- function 9: CALL 5 with C = 9 writes the bytes starting at DE up to but excluding the first '$' to port 0,
    in order, and returns to the caller with SP popped and memory (the caller's code included) intact -/
theorem C18_fn9 (s : St) (str : List U8) (h₁ : s.Interrupt = none) (h₂ : s.Memory = .user) (hio : s.IO = true) (hl : Loaded s.mem)
    (hpc : s.PC = 0x0005#16) (hc : s.BC.Lo = 9#8)
    (hstr : ∀ i (h : i < str.length), s.mem (regU16 s.DE + BitVec.ofNat 16 i) = str[i] ∧ str[i] ≠ 0x24#8)
    (hend : s.mem (regU16 s.DE + BitVec.ofNat 16 str.length) = 0x24#8) :
    ∃ t, stepN (6 + (6 * str.length + 3)) s = .ok () t ∧ t.PC = mk16 (s.mem (s.SP + 1#16)) (s.mem s.SP) ∧ t.SP = s.SP + 2#16 ∧
      t.mem = s.mem ∧ portLog t.log = (str.map (Ev.iow 0#8)).reverse ++ portLog s.log ∧ t.BC = s.BC ∧ t.HL = s.HL ∧ t.HALT = s.HALT := by
  obtain ⟨_, _, _, _, _, _, _, _, _, b3, b4, b5, b6, b7, b8, _⟩ := stub s.mem hl
  obtain ⟨s3, e3, k3, pc3, a3, z3, l3⟩ := entry s h₁ h₂ hl hpc
  have hz : s3.AF.Lo[6] = false := by rw [z3, hc]; rfl
  obtain ⟨s4, e4, k4, pc4, f4, l4⟩ := i_jr_z s3 k3.req k3.user 0x05#8 (by rw [k3.mem, pc3]; exact b3) (by rw [k3.mem, pc3]; simpa using b4)
  rw [hz, pc3] at pc4
  simp only [Bool.false_eq_true, if_false] at pc4
  have hm4 : s4.mem = s.mem := by rw [k4.mem, k3.mem]
  obtain ⟨s5, e5, k5, pc5, a5, z5, l5⟩ := i_cp_n s4 k4.req k4.user 0x09#8 (by rw [hm4, pc4]; simpa using b5) (by rw [hm4, pc4]; simpa using b6)
  rw [pc4] at pc5
  have hm5 : s5.mem = s.mem := by rw [k5.mem, hm4]
  have hz5 : s5.AF.Lo[6] = true := by rw [z5, f4, a3, hc]; rfl
  obtain ⟨s6, e6, k6, pc6, f6, l6⟩ := i_jr_z s5 k5.req k5.user 0x05#8 (by rw [hm5, pc5]; simpa using b7) (by rw [hm5, pc5]; simpa using b8)
  rw [hz5, pc5] at pc6
  simp only [if_true] at pc6
  have pc6' : s6.PC = 0xfe14#16 := by rw [pc6]; decide
  have hm6 : s6.mem = s.mem := by rw [k6.mem, hm5]
  have hde6 : s6.DE = s.DE := by rw [k6.de, k5.de, k4.de, k3.de]
  have hsp6 : s6.SP = s.SP := by rw [k6.sp, k5.sp, k4.sp, k3.sp]
  obtain ⟨t, et, pct, spt, mt, lt, bct, hlt, htt, _⟩ := putstr str s6 k6.req k6.user (by rw [k6.io, k5.io, k4.io, k3.io]; exact hio)
    (by rw [hm6]; exact hl) pc6' (by rw [hm6, hde6]; exact hstr) (by rw [hm6, hde6]; exact hend)
  have hsix : stepN 6 s = .ok () s6 := by
    rw [show (6 : Nat) = 3 + 3 from rfl, Props.C10.C10_snapshot 3 3 s, e3]
    simp [stepN, e4, e5, e6]
  refine ⟨t, by rw [Props.C10.C10_snapshot 6 _ s, hsix]; exact et, by rw [pct, hm6, hsp6], by rw [spt, hsp6], by rw [mt, hm6],
    by rw [lt, l6, l5, l4, l3], by rw [bct, k6.bc, k5.bc, k4.bc, k3.bc], by rw [hlt, k6.hl, k5.hl, k4.hl, k3.hl],
    by rw [htt, k6.halt, k5.halt, k4.halt, k3.halt]⟩

/-- a jump to address 0 ends the run halted at FF03h -/
theorem C18_exit (s : St) (h₁ : s.Interrupt = none) (h₂ : s.Memory = .user) (hl : Loaded s.mem) (hpc : s.PC = 0x0000#16) :
    ∃ t, stepN 2 s = .ok () t ∧ t.PC = 0xff03#16 ∧ t.HALT = true ∧ t.mem = s.mem ∧ t.SP = s.SP ∧ portLog t.log = portLog s.log := by
  obtain ⟨a0, a1, a2, _, _, _, _, _, _, _, _, _, _, _, _, _, _, _, _, _, _, _, _, _, _, _, _, _, _, z⟩ := stub s.mem hl
  obtain ⟨s1, e1, k1, pc1, _, l1⟩ := i_jp s h₁ h₂ 0x03#8 0xff#8 (by rw [hpc]; exact a0) (by rw [hpc]; simpa using a1) (by rw [hpc]; simpa using a2)
  rw [ad5] at pc1
  obtain ⟨t, e2, pc2, ht, sp2, m2, l2⟩ := i_halt s1 k1.req k1.user (by rw [k1.mem, pc1]; exact z)
  exact ⟨t, by simp [stepN, e1, e2], by rw [pc2, pc1], ht, by rw [m2, k1.mem], by rw [sp2, k1.sp], by rw [l2, l1]⟩

/-- the console: what reaches the configured writer is the sequence of bytes written to port 0, in program order
    (hand-written reading of tinycpm.IO.Out; tied to the code by the `cpm` correspondence); `pl` is a port log,
    newest first -/
def consoleSel : Ev → Option U8
  | .iow p v => if p = 0#8 then some v else none
  | _ => none
def console (pl : List Ev) : List U8 := pl.reverse.filterMap consoleSel
/-- every other port access only warns -/
def warnings (pl : List Ev) : Nat := (pl.filter fun e => (consoleSel e).isNone).length

private theorem sel_map (str : List U8) : (str.map (Ev.iow 0#8)).filterMap consoleSel = str := by
  induction str with
  | nil => rfl
  | cons c rest ih => simp [List.filterMap_cons, consoleSel, ih]

/-- function 9 appends exactly the string to the console and causes no warning -/
theorem C18_console_fn9 (old : List Ev) (str : List U8) :
    console ((str.map (Ev.iow 0#8)).reverse ++ old) = console old ++ str ∧
    warnings ((str.map (Ev.iow 0#8)).reverse ++ old) = warnings old := by
  constructor
  · have := sel_map str
    rw [List.filterMap_map] at this
    simp [console, List.filterMap_append, this]
  · simp only [warnings, List.filter_append, List.length_append]
    have : ((str.map (Ev.iow 0#8)).reverse.filter fun e => (consoleSel e).isNone) = [] := by
      simp [List.filter_eq_nil_iff, consoleSel]
    simp [this]
/-- function 2 appends exactly the byte in E -/
theorem C18_console_fn2 (old : List Ev) (e : U8) : console (.iow 0#8 e :: old) = console old ++ [e] ∧ warnings (.iow 0#8 e :: old) = warnings old := by
  simp [console, warnings, consoleSel]


-- (the Go side of the machine — IO.In / IO.Out / Memory.Get / Memory.Set — is tied to this model by Props/C18Glue.lean:
--  the methods translated from internal/tinycpm on every run ARE the console / byte-array model)

-- non-vacuity: the regenerated BIOS table itself satisfies `Loaded` when written into an empty memory; a string
-- with 00h and a byte ≥ 80h
def biosMem : U16 → U8 := fun a => match biosByte a.toNat with | some b => BitVec.ofNat 8 b | none => 0#8
example : Loaded biosMem := by intro a b h; simp [biosMem, h]
example : console ((([0x00#8, 0x80#8, 0x41#8] : List U8).map (Ev.iow 0#8)).reverse) = [0x00#8, 0x80#8, 0x41#8] := by decide

end Z80.Props.C18
